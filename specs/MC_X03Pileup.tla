---------------------------- MODULE MC_X03Pileup ----------------------------
(* Design-level model of the column scanner of find_snv_candidates: the pile-up
   string of one column (pysam tokens joined without separator) is scanned by the
   while loop with its four regular expressions (nucleotide / indel / reference
   mark / ignored).  Checked for EVERY token sequence up to MaxTok tokens:
     ScanCounts  when the scan ends the counts are the abstract counts of the tokens
     NoAssert    the scan never reaches `assert False`
     RuleAlgebra the emission rule on the scanned counts: the reported best allele is the
                 head of the multi-allelic list, ALT never is REF, a larger --minabs /
                 --minrel never adds alleles, REF = N emits nothing
   WithSkip adds the token pysam writes for a reference skip (CIGAR N): NoAssert is then
   violated (negative control, and the design-level picture of the finding). *)
EXTENDS X03Pileup, Sequences
CONSTANTS MaxTok, WithSkip
VARIABLES toks, str, i, cnt, n, pc
vars == <<toks, str, i, cnt, n, pc>>

RefLetter == "C"
Letters == {"A", "C", "G", "N", "T"}
Code(ch) == CASE ch = "A" -> 1 [] ch = "C" -> 2 [] ch = "G" -> 3 [] ch = "N" -> 4 [] ch = "T" -> 5

Ins10 == <<"A", "+", "1", "0", "C", "C", "C", "C", "C", "g", "g", "g", "g", "T">>
Tokens0 == { <<"A">>, <<"c">>, <<"n">>, <<"T">>, <<".">>, <<",">>, <<"*">>,
             <<"^", "5", "G">>, <<"^", "A", "a">>, <<"^", "^", "T">>, <<"G", "$">>,
             <<"A", "+", "2", "C", "g">>, <<"t", "-", "1", "N">>, <<"*", "-", "2", "n", "n">>, Ins10 }
Tokens == IF WithSkip THEN Tokens0 \cup { <<">">>, <<"<">> } ELSE Tokens0

(* the base a token contributes ("" = none): the character after an optional ^q prefix *)
TokBase(t) == LET ch == IF t[1] = "^" THEN t[3] ELSE t[1] IN
              IF IsNuc(ch) THEN Upper(ch) ELSE IF ch \in {".", ","} THEN RefLetter ELSE ""

RECURSIVE Flat(_)
Flat(ts) == IF ts = <<>> THEN <<>> ELSE Head(ts) \o Flat(Tail(ts))
AbsCount(ts, L) == Cardinality({ k \in DOMAIN ts : TokBase(ts[k]) = L })

Init == /\ toks \in UNION { [1..k -> Tokens] : k \in 0..MaxTok }
        /\ str = Flat(toks) /\ i = 1 /\ n = 0
        /\ cnt = [L \in Letters |-> 0]
        /\ pc = "scan"

(* number of digits starting at position k *)
RECURSIVE NDigits(_, _)
NDigits(s, k) == IF k <= Len(s) /\ IsDigit(s[k]) THEN 1 + NDigits(s, k + 1) ELSE 0
RECURSIVE NumAt(_, _, _)
NumAt(s, k, nd) == IF nd = 0 THEN 0 ELSE NumAt(s, k, nd - 1) * 10 + DigitVal(s[k + nd - 1])

Step ==
    /\ pc = "scan"
    /\ IF i > Len(str) THEN pc' = "done" /\ UNCHANGED <<i, cnt, n>>
       ELSE LET ch == str[i] IN
            IF IsNuc(ch)                                                       \* re_nucleotide
            THEN cnt' = [cnt EXCEPT ![Upper(ch)] = @ + 1] /\ n' = n + 1 /\ i' = i + 1 /\ pc' = pc
            ELSE IF ch \in {"-", "+"} /\ NDigits(str, i + 1) >= 1                 \* re_indel
            THEN LET nd == NDigits(str, i + 1) IN
                 i' = i + 1 + nd + NumAt(str, i + 1, nd) /\ UNCHANGED <<cnt, n, pc>>
            ELSE IF ch \in {",", "."}                                            \* re_ref
            THEN cnt' = [cnt EXCEPT ![RefLetter] = @ + 1] /\ n' = n + 1 /\ i' = i + 1 /\ pc' = pc
            ELSE IF ch \in {"$", "*"}                                            \* re_ignore
            THEN i' = i + 1 /\ UNCHANGED <<cnt, n, pc>>
            ELSE IF ch = "^" /\ i + 1 <= Len(str)
            THEN i' = i + 2 /\ UNCHANGED <<cnt, n, pc>>
            ELSE pc' = "assert" /\ UNCHANGED <<i, cnt, n>>
    /\ UNCHANGED <<toks, str>>
Spec == Init /\ [][Step]_vars

ScanCounts == pc = "done" => /\ \A L \in Letters : cnt[L] = AbsCount(toks, L)
                             /\ n = Cardinality({ k \in DOMAIN toks : TokBase(toks[k]) # "" })
NoAssert == pc # "assert"
InBounds == pc = "scan" => i <= Len(str) + 1

Pars == { [minabs |-> a, relnum |-> r[1], relden |-> r[2], multi |-> m, dtype |-> "", chrom |-> 0] :
          a \in 1..3, r \in { <<0, 1>>, <<1, 4>>, <<1, 2>> }, m \in BOOLEAN }
RuleAlgebra ==
    pc = "done" =>
      LET c == [b \in 1..5 |-> cnt[CHOOSE L \in Letters : Code(L) = b]] IN
      \A par \in Pars : \A ref \in 1..5 :
         LET one == Emits(c, ref, [par EXCEPT !.multi = FALSE])
             all == Emits(c, ref, [par EXCEPT !.multi = TRUE]) IN
         /\ (ref = BaseN => one = <<>> /\ all = <<>>)
         /\ ref \notin Rng(all)
         /\ (one # <<>> => Len(one) = 1 /\ all # <<>> /\ one[1] = all[1])
         /\ \A k \in 1..(Len(all) - 1) : Better(c, all[k], all[k + 1])
         /\ (par.minabs < 3 => Rng(Emits(c, ref, [par EXCEPT !.multi = TRUE, !.minabs = @ + 1])) \subseteq Rng(all))
         /\ Rng(Emits(c, ref, [par EXCEPT !.multi = TRUE, !.relnum = 1, !.relden = 1])) \subseteq Rng(all)
=============================================================================
