SPECIFICATION Spec
