----------------------------- MODULE ReadSelect -----------------------------
(* C07, property level: what a read selection must satisfy - a relation, no
   algorithm.  A read is the sorted sequence of the variant indices it covers
   (at least two); it SPANS every index from its first to its last covered one.
   With cap k a selection S (set of read numbers) is acceptable iff
     - S is a subset of the reads,
     - no variant index is spanned by more than k selected reads,
     - it is maximal: every read left out would push some index of its span
       above k, i.e. some index of its span is already spanned k times. *)
EXTENDS Util

SpanOf(r) == r[1]..r[Len(r)]
CovAt(reads, S, v) == Cardinality({ i \in S : v \in SpanOf(reads[i]) })

Subset(reads, S) == S \subseteq DOMAIN reads
CapRespected(reads, k, S) == \A i \in S : \A v \in SpanOf(reads[i]) : CovAt(reads, S, v) <= k
Maximal(reads, k, S) ==
    \A i \in DOMAIN reads \ S : \E v \in SpanOf(reads[i]) : CovAt(reads, S, v) >= k

SelectOK(reads, k, S) == Subset(reads, S) /\ CapRespected(reads, k, S) /\ Maximal(reads, k, S)
=============================================================================
