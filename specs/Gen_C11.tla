------------------------------- MODULE Gen_C11 -------------------------------
(* Scenario enumeration by TLC for the spec -> code direction of C11.

   "in" lines: every tuple of NF phasings of ploidy P over exactly N sites, file f drawing its
   phase set ids from Blk[f] (0 = unphased); with Holes, a site of a file may also be
   homozygous (a = <<0,..,0>>, b = 0) or missing (a = << >>).  Of the enumerated (ordered) set every
   Stride-th tuple is written, starting at Offset (Stride = 1: the whole space).
   "g" lines: every element of the group the property quantifies over, restricted to these id
   sets: for each file and each phase set id a permutation of the haplotypes (identity on ids
   that do not occur).  The driver combines tuples and group elements. *)
EXTENDS Compare, Json, IOUtils, SequencesExt
CONSTANTS P, N, NF, NA, BlkA, BlkB, BlkC, Holes, Stride, Offset, GStride

Blk(f) == CASE f = 1 -> BlkA [] f = 2 -> BlkB [] OTHER -> BlkC
HetTuples == { a \in [1..P -> 0..(NA - 1)] : Het(a) }    \* NA = 2: bi-allelic variants, NA = 3: alleles 0, 1, 2
SiteRecs(f) == { [b |-> b, a |-> a] : b \in Blk(f), a \in HetTuples }
               \cup (IF Holes THEN { [b |-> 0, a |-> [k \in 1..P |-> 0]], [b |-> 0, a |-> << >>] } ELSE {})
Phasings(f) == [1..N -> SiteRecs(f)]
Tuples == IF NF = 2 THEN { <<x, y>> : x \in Phasings(1), y \in Phasings(2) }
          ELSE { <<x, y, z>> : x \in Phasings(1), y \in Phasings(2), z \in Phasings(3) }
Sampled(S, stride, offset) == LET q == SetToSeq(S) IN { q[i] : i \in { j \in 1..Len(q) : (j % stride) = (offset % stride) } }
Ins == { [k |-> "in", p |-> P, F |-> t] : t \in Sampled(Tuples, Stride, Offset) }

MaxId == MaxSet(BlkA \cup BlkB \cup BlkC \cup {1})
GFile(f) == { g \in [1..MaxId -> Perms(P)] : \A id \in 1..MaxId : id \notin Blk(f) => g[id] = [k \in 1..P |-> k] }
GAll == IF NF = 2 THEN { <<x, y>> : x \in GFile(1), y \in GFile(2) }
        ELSE { <<x, y, z>> : x \in GFile(1), y \in GFile(2), z \in GFile(3) }
Gs == { [k |-> "g", p |-> P, g |-> t] : t \in Sampled(GAll, GStride, 0) }

ASSUME ndJsonSerialize(IOEnv.OUT_FILE, SetToSeq(Ins) \o SetToSeq(Gs))
=============================================================================
