CONSTANTS MaxP = 3
          MaxA = 3
          CmpP = 2
          CmpA = 3
          MaxLen = 2
          AlphaSize = 2
