------------------------------ MODULE MC_PQHeap ------------------------------
(* Model-checking wrapper for PQHeap: small constants, a history variable that
   records the operation sequence, and emission of complete histories so that
   the driver can replay every behaviour on the real PriorityQueue. *)
EXTENDS PQHeap, Json, Sequences
CONSTANT Depth, MaxLen, PopWeight
VARIABLES hist, w

S3 == { <<0>>, <<1>>, <<1, 0>> }
S5 == { <<0>>, <<1>>, <<2>>, <<1, 0>>, <<1, 1>> }
S6 == { <<0>>, <<1>>, <<2>>, <<3>>, <<1, 0>>, <<1, 1>> }

Rec(o, i, s) == [op |-> o, item |-> i, score |-> s]
MCInit == Init /\ hist = <<>> /\ w = 0
MCNext ==
    \/ \E i \in Items, s \in Scores :
          \/ HPush(i, s) /\ hist' = Append(hist, Rec("push", i, s)) /\ w' = 0
          \/ HChange(i, s) /\ hist' = Append(hist, Rec("change", i, s)) /\ w' = 0
    \* w only multiplies the pop successors so that random simulation pops often enough
    \/ (HPop \/ HPopEmpty) /\ hist' = Append(hist, Rec("pop", 0, <<>>)) /\ w' \in 1..PopWeight
MCSpec == MCInit /\ [][MCNext]_<<heap, pos, hist, w>>

Bound == Len(hist) <= Depth /\ Len(heap) <= MaxLen
Emit == IF Len(hist) = Depth THEN PrintT(<<"BEHAVIOUR", ToJson(hist)>>) ELSE TRUE
NoView == <<heap, pos>>
=============================================================================
