------------------------------ MODULE C16_Trace ------------------------------
(* Trace validation for C16: one trace (tid) = all runs of ONE (command, input)
   pair under different environments; every run must be a step of Determinism:
   the digest equals the digest on record for that pair. *)
EXTENDS Naturals, Sequences, Json, IOUtils, TLC
Trace == ndJsonDeserialize(IOEnv.TRACE_FILE)
VARIABLES l, result
Fail(e, c) == PrintT(<<"VERDICT", e.tid, e.seq, c>>)
Check(e, c, ok) == IF ok THEN TRUE ELSE Fail(e, c)
D == INSTANCE Determinism WITH Cmds <- {}, Inputs <- {}, Envs <- {}, Digests <- {}

Key(e) == <<e.cmd, e.input>>
JudgeRun(e) ==
    /\ Check(e, "Returns", e.exc = "")
    /\ Check(e, "SameResultAsBefore", (Key(e) \in DOMAIN result /\ e.exc = "") => result[Key(e)] = e.digest)
Judge(e) ==
    CASE e.ev = "Run"     -> JudgeRun(e)
      [] e.ev = "Crashed" -> Fail(e, "Returns")
      [] OTHER            -> Fail(e, "UnknownEvent")
Init == l = 1 /\ result = << >>
Next == /\ l <= Len(Trace)
        /\ LET e == Trace[l] IN
           /\ Judge(e)
           /\ result' = IF e.ev = "Run" /\ e.exc = "" /\ Key(e) \notin DOMAIN result
                        THEN (Key(e) :> e.digest) @@ result ELSE result
        /\ l' = l + 1
Spec == Init /\ [][Next]_<<l, result>>
=============================================================================
