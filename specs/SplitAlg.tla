------------------------------ MODULE SplitAlg ------------------------------
(* Design-level model of whatshap/cli/split.py:run_split - one pass over the
   input; each read is looked up in the name -> haplotype map (default 0) and
   appended to writer[haplotype] (and to every haplotype writer for an untagged
   read with --add-untagged); a Counter per class collects the read lengths; the
   histogram rows are written at the end.

   The environment feeds the reads one at a time (action Feed) and finally
   closes the input (Eof), so every input sequence up to the bound is a path.

   Two design decisions are parameters, so that TLC can compare the alternatives:
     ExitRule  "never"  the loop always runs to the end of the input
               "count"  with --discard-unknown-reads stop after as many reads were
                        written as there are names in the list   (run_split today)
               "seen"   ... stop once every listed name was seen at least once
     RowRule   "set"    one histogram row per length that occurs
               "chain"  one row per (class, length) key, sorted   (write_read_length_histogram today)
   Only "never"/"set" satisfy the property for all inputs; "count" is correct
   exactly when read names are unique (see MC_Split).                           *)
EXTENDS Split, TLC
CONSTANTS ExitRule, RowRule, ReadAlphabet, MaxReads
VARIABLES list, opt, sel,      \* the list, the options, the largest-block choice: fixed in Init
          reads,               \* the input consumed so far (history, needed by the property)
          pc,                  \* "loop" | "stopped" (early exit, input not exhausted) | "done"
          out, hist,           \* the writers and the per-class Counter of lengths
          missing, unseen,     \* bookkeeping of the early-exit rules
          rows                 \* the histogram file
vars == <<list, opt, sel, reads, pc, out, hist, missing, unseen, rows>>

ListNames == { list[i].name : i \in DOMAIN list }
Process(h) == opt.req[h + 1] \/ (h = 0 /\ opt.addU)
Bump(cnt, l) == IF l \in DOMAIN cnt THEN [cnt EXCEPT ![l] = @ + 1] ELSE (l :> 1) @@ cnt

InitAlg ==
    /\ reads = <<>> /\ pc = "loop"
    /\ out = [k \in 1..(opt.ploidy + 1) |-> <<>>]
    /\ hist = [k \in 1..(opt.ploidy + 1) |-> <<>>]
    /\ missing = IF opt.disc THEN Cardinality(ListNames) ELSE -1
    /\ unseen = IF opt.disc THEN ListNames ELSE {}
    /\ rows = <<>>

(* the body of `for read_name, read_length, record in input_iterator(...)` *)
Feed(a) ==
    LET r == [name |-> a.name, len |-> a.len, id |-> Len(reads) + 1]
        h == HapOf(list, opt, sel, r.name) IN
    /\ pc \in {"loop", "stopped"} /\ Len(reads) < MaxReads
    /\ reads' = Append(reads, r)
    /\ UNCHANGED <<list, opt, sel, rows>>
    /\ IF pc = "stopped" \/ Dropped(list, opt, r.name) \/ ~Process(h)
       THEN UNCHANGED <<pc, out, hist, missing, unseen>>
       ELSE /\ hist' = [hist EXCEPT ![h + 1] = Bump(@, r.len)]
            /\ out' = [k \in 1..(opt.ploidy + 1) |->
                          IF k = h + 1 \/ (h = 0 /\ opt.addU /\ k > 1) THEN Append(out[k], r) ELSE out[k]]
            /\ missing' = IF opt.disc THEN missing - 1 ELSE missing
            /\ unseen' = unseen \ {r.name}
            /\ pc' = IF opt.disc /\ (  (ExitRule = "count" /\ missing' = 0)
                                    \/ (ExitRule = "seen" /\ unseen' = {}))
                     THEN "stopped" ELSE "loop"

(* write_read_length_histogram *)
Keys == UNION { DOMAIN hist[k] : k \in DOMAIN hist }
Mult(l) == IF RowRule = "set" THEN 1 ELSE Cardinality({ k \in DOMAIN hist : l \in DOMAIN hist[k] })
RowFor(l) == <<l>> \o [k \in DOMAIN hist |-> IF l \in DOMAIN hist[k] THEN hist[k][l] ELSE 0]
RECURSIVE Rep(_, _)
Rep(x, n) == IF n = 0 THEN <<>> ELSE <<x>> \o Rep(x, n - 1)
RECURSIVE RowsFrom(_)
RowsFrom(K) == IF K = {} THEN <<>>
               ELSE LET l == MinSet(K) IN Rep(RowFor(l), Mult(l)) \o RowsFrom(K \ {l})
(* the input ends (or the loop was left): the histogram is written *)
Eof == /\ pc \in {"loop", "stopped"} /\ pc' = "done" /\ rows' = RowsFrom(Keys)
       /\ UNCHANGED <<list, opt, sel, reads, out, hist, missing, unseen>>

Next == (\E a \in ReadAlphabet : Feed(a)) \/ Eof

(* ---- what TLC checks ---------------------------------------------------------------------- *)
Finished == pc = "done"
InvDomain    == reads = <<>> => (WellFormed(reads, list, opt) /\ sel \in Selections(list))
(* while the loop runs, every requested output is the expected subsequence of the prefix read so far *)
InvPrefix    == pc = "loop" => Exact(reads, list, opt, sel, out)
InvRouting   == Finished => Routing(reads, list, opt, sel, out)
InvUnmodified == Finished => Unmodified(reads, opt, out)
InvOrder     == Finished => InputOrder(opt, out)
InvExact     == Finished => Exact(reads, list, opt, sel, out)
InvPartition == Finished => Partition(reads, opt, out)
InvHistCounts == Finished => HistCounts(list, opt, sel, out, rows)
InvHistTotals == Finished => HistTotals(opt, out, rows)
(* the decomposition used by the trace spec is exact: the three clauses hold iff out = Exp;
   evaluated in every state, so also on truncated outputs *)
InvLemma     == (Routing(reads, list, opt, sel, out) /\ Unmodified(reads, opt, out) /\ InputOrder(opt, out))
                    <=> Exact(reads, list, opt, sel, out)
(* when read names are unique the early exit "count" loses nothing *)
UniqueNames  == \A i, j \in DOMAIN reads : reads[i].name = reads[j].name => i = j
InvRoutingIfUnique == (Finished /\ UniqueNames) => Exact(reads, list, opt, sel, out)
=============================================================================
