------------------------------ MODULE C12_Trace ------------------------------
(* Trace validation for C12.  Each line of the ndjson trace is one execution of
   the real code with its parsed outputs; TLC evaluates every clause of the
   property on it (total verdicts: a failing clause prints and validation goes on).

   events
     Stats   one run of whatshap.cli.stats.run_stats on a VCF written from the
             abstract view `chroms` (see Stats.tla) of the reported sample:
               chroms  <<[name, sites]>>          only   --only-snvs
                       one entry per contiguous RUN of records of a chromosome, in
                       file order; in an un-indexed file a name may occur in several
                       non-adjacent entries (chrA.., chrB.., chrA..): the chromosome
                       is then all records of that name, whatever number of rows
                       the tool spreads them over (the numbers of its rows are summed)
               sel     --chromosome names (<<>> = none given)
               rows    per-chromosome rows of the --tsv file, records
                       [c, variants, het, hetsnvs, phased, phsnvs, unphased,
                        singletons, blocks, vsum, bpsum]
               all     <<>> or <<the ALL row>> (c = 0)
               trows, tall   the same numbers parsed from the text report
               blist   lines of --block-list  <<c, id, from, to, variants>>
               gtf     features of --gtf      <<c, start, end, id>>
               exc     "" or the exception type that escaped run_stats
     StatsLoose  the same for a file with phased calls whose PS value is '.'
             (only Returns and the identities are judged)
     Split   one family of blocks (sets of positions, per chromosome) put into a
             real PhasingStats with add_blocks():
               fam     <<[c, vs]>>                pieces <<[c, vs, span]>> = split_blocks
               det     numbers of get_detailed_stats()
     Crashed the driver died (abort, timeout, unexpected exception)            *)
EXTENDS Stats, Json, IOUtils, SequencesExt, TLC
Trace == ndJsonDeserialize(IOEnv.TRACE_FILE)
VARIABLES l
vars == <<l>>

Fail(e, c) == PrintT(<<"VERDICT", e.tid, e.seq, c>>)
Check(e, c, ok) == IF ok THEN TRUE ELSE Fail(e, c)

NoDup(s) == Cardinality(Rng(s)) = Len(s)
Cols == {"variants", "het", "hetsnvs", "phased", "phsnvs", "unphased", "singletons", "blocks", "vsum", "bpsum"}
RECURSIVE SumCol(_, _)
SumCol(rows, col) == IF rows = <<>> THEN 0 ELSE Head(rows)[col] + SumCol(Tail(rows), col)

(* ---------------------------------------------------------------- Stats *)
(* all records of chromosome c: the sites of every run named c, in file order *)
RECURSIVE CatSites(_, _, _)
CatSites(ch, c, i) == IF i > Len(ch) THEN <<>>
                      ELSE (IF ch[i].name = c THEN ch[i].sites ELSE <<>>) \o CatSites(ch, c, i + 1)
SitesOf(e, c) == CatSites(e.chroms, c, 1)
View(e, c)     == Considered(SitesOf(e, c), e.only)
NumRuns(e, c)  == Cardinality({ i \in DOMAIN e.chroms : e.chroms[i].name = c /\ Len(e.chroms[i].sites) > 0 })
(* the rows of chromosome c and the sum of one of their columns *)
NameRows(e, c) == SelectSeq(e.rows, LAMBDA r : r.c = c)
Tot(e, c, col) == SumCol(NameRows(e, c), col)
Selected(e, c) == Len(e.sel) = 0 \/ c \in Rng(e.sel)
RowNames(e)    == { e.rows[i].c : i \in DOMAIN e.rows }
(* the chromosomes of the file that the run has to report *)
Requested(e)   == { e.chroms[i].name : i \in { j \in DOMAIN e.chroms : Len(e.chroms[j].sites) > 0 /\ Selected(e, e.chroms[j].name) } }
(* P(c, V): about the summed rows of chromosome c and the view V of all its records *)
EachName(e, P(_, _)) == \A c \in RowNames(e) : P(c, View(e, c))

(* features / lines of one chromosome *)
LinesOf(e, c) == { e.blist[i] : i \in { j \in DOMAIN e.blist : e.blist[j][1] = c } }
FeatsOf(e, c) == { e.gtf[i] : i \in { j \in DOMAIN e.gtf : e.gtf[j][1] = c } }

GtfOK(e, c) ==
    LET V == View(e, c) IN
    /\ \A f \in FeatsOf(e, c) :                    \* a feature names a phase set and starts/ends at members of it
          /\ f[4] \in SetIds(V)
          /\ f[2] \in Members(V, f[4]) /\ f[3] \in Members(V, f[4]) /\ f[2] <= f[3]
    /\ \A id \in SetIds(V) : \A p \in Members(V, id) :   \* every phased variant lies in a feature of its set
          \E f \in FeatsOf(e, c) : f[4] = id /\ f[2] <= p /\ p <= f[3]

JudgeStats(e) ==
    IF e.exc # "" THEN Fail(e, "Returns")
    ELSE
    /\ Check(e, "Rows", /\ e.names                       \* every line names the reported sample, the files are well-formed
                        /\ \A c \in RowNames(e) : Len(NameRows(e, c)) <= Max2(1, NumRuns(e, c))   \* at most one row per run of records
                        /\ \A c \in RowNames(e) : Selected(e, c)
                        /\ \A i \in DOMAIN e.chroms :
                              (Len(e.chroms[i].sites) > 0 /\ Selected(e, e.chroms[i].name)) => e.chroms[i].name \in RowNames(e))
    /\ Check(e, "Variants",      EachName(e, LAMBDA c, V : Tot(e, c, "variants") = Variants(V)))
    /\ Check(e, "Heterozygous",  EachName(e, LAMBDA c, V : Tot(e, c, "het") = Hets(V)))
    /\ Check(e, "HetSnvs",       EachName(e, LAMBDA c, V : Tot(e, c, "hetsnvs") = HetSnvs(V)))
    /\ Check(e, "Phased",        EachName(e, LAMBDA c, V : Tot(e, c, "phased") = Phased(V)))
    /\ Check(e, "PhasedSnvs",    EachName(e, LAMBDA c, V : Tot(e, c, "phsnvs") = PhasedSnvs(V)))
    /\ Check(e, "Unphased",      EachName(e, LAMBDA c, V : Tot(e, c, "unphased") = Unphased(V)))
    /\ Check(e, "Singletons",    EachName(e, LAMBDA c, V : Tot(e, c, "singletons") = Singletons(V)))
    /\ Check(e, "Blocks",        EachName(e, LAMBDA c, V : Tot(e, c, "blocks") = Blocks(V)))
    \* the two identities, on the reported numbers themselves (ALL row included)
    /\ Check(e, "SumIdentity",  \A r \in Rng(e.rows) \cup Rng(e.all) : r.phased + r.unphased + r.singletons = r.het)
    /\ Check(e, "BlockSizeSum", \A r \in Rng(e.rows) \cup Rng(e.all) : r.vsum = r.phased)
    /\ Check(e, "BlockList",    /\ NoDup(e.blist)
                                /\ \A i \in DOMAIN e.blist : e.blist[i][1] \in RowNames(e)
                                /\ \A c \in RowNames(e) \cup Requested(e) :     \* also for a requested chromosome that got no row
                                      { <<b[2], b[3], b[4], b[5]>> : b \in LinesOf(e, c) } = BlockLines(View(e, c)))
    /\ Check(e, "BpSumBound",   EachName(e, LAMBDA c, V : BpSumOK(V, Tot(e, c, "bpsum"))))
    /\ Check(e, "BpSumWhenDisjoint", EachName(e, LAMBDA c, V : BpSumExact(V, Tot(e, c, "bpsum"))))
    /\ Check(e, "AllRowIsSum",  /\ Len(e.all) <= 1
                                /\ (Len(e.rows) >= 2 => Len(e.all) = 1)
                                /\ (Len(e.all) = 1 => \A col \in Cols : e.all[1][col] = SumCol(e.rows, col)))
    /\ Check(e, "TextReport",   e.trows = e.rows /\ e.tall = e.all)
    /\ Check(e, "Gtf",          /\ \A i \in DOMAIN e.gtf : e.gtf[i][1] \in RowNames(e)
                                /\ \A c \in RowNames(e) : GtfOK(e, c))

(* a file outside the judged domain (phased calls whose PS value is '.'): only
   termination without exception and the identities on the reported numbers *)
JudgeLoose(e) ==
    IF e.exc # "" THEN Fail(e, "Returns")
    ELSE
    /\ Check(e, "SumIdentity",  \A r \in Rng(e.rows) \cup Rng(e.all) : r.phased + r.unphased + r.singletons = r.het)
    /\ Check(e, "BlockSizeSum", \A r \in Rng(e.rows) \cup Rng(e.all) : r.vsum = r.phased)

(* ---------------------------------------------------------------- Split *)
BlocksOn(e, c) == LET idx == { i \in DOMAIN e.fam : e.fam[i].c = c }
                      s == SetToSeq(idx)
                  IN [k \in DOMAIN s |-> Rng(e.fam[s[k]].vs)]
JudgeSplit(e) ==
    LET P == e.pieces
        chr == { e.fam[i].c : i \in DOMAIN e.fam }
        bigs == { i \in DOMAIN e.fam : Len(e.fam[i].vs) >= 2 }
        hlo(x) == MinSet(Rng(x.vs))
        hhi(x) == MaxSet(Rng(x.vs))
    IN
    /\ Check(e, "PieceInsideBlock", \A i \in DOMAIN P : /\ Len(P[i].vs) >= 2 /\ NoDup(P[i].vs)
                                                        /\ \E j \in DOMAIN e.fam : e.fam[j].c = P[i].c /\ Rng(P[i].vs) \subseteq Rng(e.fam[j].vs))
    /\ Check(e, "PiecesDisjoint",   \A i, j \in DOMAIN P : (i < j /\ P[i].c = P[j].c) => (hhi(P[i]) < hlo(P[j]) \/ hhi(P[j]) < hlo(P[i])))
    /\ Check(e, "PieceSpan",        \A i \in DOMAIN P : P[i].span = hhi(P[i]) - hlo(P[i]))
    /\ Check(e, "BpSumBound",       /\ e.det.bpsum = SumCol(P, "span")
                                    /\ \A c \in chr : SumCol(SelectSeq(P, LAMBDA x : x.c = c), "span") <= FamCovered(BlocksOn(e, c)))
    /\ Check(e, "WholeWhenFree",    \A i \in bigs :
                                       (\A j \in bigs : (j # i /\ e.fam[j].c = e.fam[i].c) => (hhi(e.fam[i]) < hlo(e.fam[j]) \/ hhi(e.fam[j]) < hlo(e.fam[i])))
                                       => \E k \in DOMAIN P : P[k].c = e.fam[i].c /\ Rng(P[k].vs) = Rng(e.fam[i].vs))
    /\ Check(e, "CutOnlyWhereOverlapping", \A c \in chr :
                                       KeptTogether(BlocksOn(e, c), { Rng(P[k].vs) : k \in { m \in DOMAIN P : P[m].c = c } }))
    /\ Check(e, "Blocks",           e.det.blocks = Cardinality(bigs))
    /\ Check(e, "Singletons",       e.det.singletons = Cardinality({ i \in DOMAIN e.fam : Len(e.fam[i].vs) = 1 }))
    /\ Check(e, "Phased",           e.det.phased = SumOver(bigs, [i \in bigs |-> Len(e.fam[i].vs)]))
    /\ Check(e, "BlockSizeSum",     e.det.vsum = e.det.phased)

Judge(e) ==
    CASE e.ev = "Stats"   -> JudgeStats(e)
      [] e.ev = "StatsLoose" -> JudgeLoose(e)
      [] e.ev = "Split"   -> JudgeSplit(e)
      [] e.ev = "Crashed" -> Fail(e, "Returns")
      [] OTHER            -> Fail(e, "UnknownEvent")

Init == l = 1
Next == /\ l <= Len(Trace)
        /\ Judge(Trace[l])
        /\ l' = l + 1
Spec == Init /\ [][Next]_vars
=============================================================================
