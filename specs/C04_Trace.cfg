SPECIFICATION Spec
