--------------------------- MODULE MC_ColumnStore ---------------------------
(* Design-level run of ColumnStore: for every N in 1..MaxN and both tables the transcribed schedule obeys
   the contract (Preconditions, SpaceBound, TimeBound, Complete) and terminates.  Emit prints the event
   sequence of every finished run; the driver compares it with what the real tables log. *)
EXTENDS ColumnStore, TLC, Json
Emit == pc = "done" => PrintT(<<"BEHAVIOUR", ToJson([tbl |-> tbl, n |-> N, ops |-> hist])>>)
NoView == <<tbl, N, pc, i, j, stored, cnt, reads, bad>>
=============================================================================
