---------------------------- MODULE Determinism ----------------------------
(* C16: results depend on the input only.

   A run is an event Run(cmd, input, env, digest): a subcommand executed on a
   fixed set of input files and options under an environment env (interpreter
   hash seed, number of polyphase worker processes, number of output compression
   threads, repetition number); digest identifies the record-for-record content
   of everything it wrote, with the recorded command line removed.  The system
   is deterministic iff `result` stays a FUNCTION of <<cmd, input>>: Run is
   enabled only if the pair is new or the digest equals the one on record. *)
EXTENDS Naturals, FiniteSets, TLC
CONSTANTS Cmds, Inputs, Envs, Digests
VARIABLE result          \* <<cmd, input>> -> digest, for the pairs run so far

Init == result = << >>
Run(c, i, e, d) ==
    /\ (<<c, i>> \notin DOMAIN result) \/ result[<<c, i>>] = d
    /\ result' = (<<c, i>> :> d) @@ result
Next == \E c \in Cmds, i \in Inputs, e \in Envs, d \in Digests : Run(c, i, e, d)
Spec == Init /\ [][Next]_result

(* what an observer can check on a recorded history *)
Consistent(hist) == \A a, b \in DOMAIN hist :
    (hist[a].cmd = hist[b].cmd /\ hist[a].input = hist[b].input) => hist[a].digest = hist[b].digest
=============================================================================
