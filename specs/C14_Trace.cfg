SPECIFICATION Spec
