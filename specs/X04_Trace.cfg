SPECIFICATION Spec
