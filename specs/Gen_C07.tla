------------------------------- MODULE Gen_C07 -------------------------------
(* TLC enumerates the read-selection input space for the spec -> code direction
   of C07: every multiset of at most NReadsMax reads over NIdxMax variant
   indices (each read covering >= 2 of them, gaps allowed), every cap up to
   KMax, every set of preferred reads; every Sample-th is written. *)
EXTENDS ReadSelect, SequencesExt, Json, IOUtils, TLC
CONSTANTS NIdxMax, NReadsMax, KMax, Sample
Shapes == { SetToSortSeq(S, <) : S \in { T \in SUBSET (1..NIdxMax) : Cardinality(T) >= 2 } }
RECURSIVE ReadSeqs(_)
ReadSeqs(n) == IF n = 0 THEN { <<>> } ELSE LET sh == ReadSeqs(n - 1) IN
               sh \cup { Append(s, r) : s \in { u \in sh : Len(u) = n - 1 }, r \in Shapes }
Ordered(s) == \A i \in 1..(Len(s) - 1) : s[i] = s[i + 1] \/ LexLess(s[i], s[i + 1])
Inputs == UNION { { [reads |-> rs, k |-> kk, pref |-> SetToSortSeq(pf, <)] : kk \in 1..KMax, pf \in SUBSET (DOMAIN rs) }
                  : rs \in { s \in ReadSeqs(NReadsMax) : Ordered(s) /\ Len(s) >= 1 } }
Pick(S) == LET s == SetToSeq(S) IN [i \in 1..(Len(s) \div Sample) |-> s[i * Sample]]
ASSUME PrintT(<<"inputs", Cardinality(Inputs)>>)
ASSUME ndJsonSerialize(IOEnv.OUT_FILE, Pick(Inputs))
=============================================================================
