---------------------------- MODULE EditDistance ----------------------------
(* C19, second half: Levenshtein distance and the banded contract.

   Lev is the textbook recursive DEFINITION (exponential, only usable on short
   strings).  LevDP is the row-wise dynamic program used by the trace spec for
   longer strings; MC_EditDistance walks LevDP row by row and checks every cell
   against Lev on every string pair of a small universe. *)
EXTENDS Util, TLC

Min3(a, b, c) == Min2(a, Min2(b, c))
Prefix(s, n) == SubSeq(s, 1, n)

RECURSIVE Lev(_, _)
Lev(s, t) ==
    IF s = <<>> THEN Len(t)
    ELSE IF t = <<>> THEN Len(s)
    ELSE LET s1 == Prefix(s, Len(s) - 1)
             t1 == Prefix(t, Len(t) - 1)
         IN Min3(Lev(s1, t) + 1,
                 Lev(s, t1) + 1,
                 Lev(s1, t1) + (IF s[Len(s)] = t[Len(t)] THEN 0 ELSE 1))

(* row j of the DP matrix: entry i+1 = distance between s[1..i] and t[1..j] *)
FirstRow(s) == [i \in 1..(Len(s) + 1) |-> i - 1]
RECURSIVE BuildLevRow(_, _, _, _, _)
BuildLevRow(prev, s, c, i, acc) ==
    IF i > Len(s) THEN acc
    ELSE BuildLevRow(prev, s, c, i + 1,       \* TLCEval: TLC evaluates lazily; without it a row is a chain of |s| suspended Appends
            TLCEval(Append(acc, Min3(prev[i] + (IF s[i] = c THEN 0 ELSE 1),
                                     prev[i + 1] + 1,
                                     acc[i] + 1))))
NextRow(prev, s, c) == BuildLevRow(prev, s, c, 1, << prev[1] + 1 >>)
RECURSIVE LevRow(_, _, _)
LevRow(s, t, j) == IF j = 0 THEN FirstRow(s) ELSE NextRow(TLCEval(LevRow(s, t, j - 1)), s, t[j])
LevDP(s, t) == LevRow(s, t, Len(t))[Len(s) + 1]

(* contract of the banded variant: band -1 means unbanded *)
BandedOK(s, t, band, res) ==
    LET d == LevDP(s, t)
    IN IF band = -1 THEN res = d
       ELSE /\ (d <= band => res = d)
            /\ (d > band => res > band)
=============================================================================
