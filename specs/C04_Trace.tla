------------------------------ MODULE C04_Trace ------------------------------
(* Trace validation for C04: one line per `whatshap phase` run with the abstract
   input and output VCF (projected from the raw text of both files). *)
EXTENDS PhaseWrite, Json, IOUtils, TLC
Trace == ndJsonDeserialize(IOEnv.TRACE_FILE)
VARIABLE l
Fail(e, c) == PrintT(<<"VERDICT", e.tid, e.seq, c>>)
Check(e, c, ok) == IF ok THEN TRUE ELSE Fail(e, c)
JudgeWrite(e) ==
    /\ Check(e, "Returns", e.exc = "")
    /\ IF e.exc # "" THEN TRUE ELSE
       /\ Check(e, "SameRecords", SameRecords(e.fin, e.fout))
       /\ Check(e, "SameSamples", SameSamples(e.fin, e.fout))
       /\ Check(e, "HeaderKept", HeaderKept(e.fin, e.fout))
       /\ IF Aligned(e.fin, e.fout)
          THEN /\ Check(e, "UntouchedElsewhere", UntouchedElsewhere(e))
               /\ Check(e, "OtherFormatValuesKept", OtherFormatValuesKept(e))
               /\ Check(e, "AllelesPreserved", AllelesPreserved(e))
               /\ Check(e, "OnlySupportedHetPhased", OnlySupportedHetPhased(e))
               /\ Check(e, "PhasedOnlyWhereSupported", PhasedOnlyWhereSupported(e))
          ELSE TRUE
Judge(e) ==
    CASE e.ev = "PhaseWrite" -> JudgeWrite(e)
      [] e.ev = "Crashed"    -> Fail(e, "Returns")
      [] OTHER               -> Fail(e, "UnknownEvent")
Init == l = 1
Next == l <= Len(Trace) /\ Judge(Trace[l]) /\ l' = l + 1
Spec == Init /\ [][Next]_l
=============================================================================
