------------------------------ MODULE MC_X03Cov ------------------------------
(* Design level: the counter array of CovMonitor refines the multiset-of-intervals
   model on every history (add_read / max_coverage_in_range) over a small length;
   complete histories are emitted for replay on the real class. *)
EXTENDS X03Cov, Json, Sequences, TLC
CONSTANTS Length, Depth
VARIABLES cov, ivs, hist
vars == <<cov, ivs, hist>>

Init == cov = [i \in 0..(Length - 1) |-> 0] /\ ivs = <<>> /\ hist = <<>>
Add(b, e) == /\ cov' = [i \in 0..(Length - 1) |-> IF b <= i /\ i < e THEN cov[i] + 1 ELSE cov[i]]
             /\ ivs' = Append(ivs, <<b, e>>)
             /\ hist' = Append(hist, [op |-> "add", b |-> b, e |-> e])
Query(b, e) == /\ UNCHANGED <<cov, ivs>>
               /\ hist' = Append(hist, [op |-> "max", b |-> b, e |-> e])
Next == \E b \in 0..Length, e \in 0..Length : b <= e /\ (Add(b, e) \/ Query(b, e))
Spec == Init /\ [][Next]_vars

Bound == Len(hist) <= Depth
NoView == <<cov, Len(hist)>>
(* the array IS the coverage function of the multiset *)
Refines == \A i \in 0..(Length - 1) : cov[i] = CovOf(ivs, i)
(* the answer computed from the array slice = the abstract maximum, for every non-empty range *)
MaxAgrees == \A b \in 0..(Length - 1), e \in 1..Length :
                b < e => MaxSet({ cov[i] : i \in b..(e - 1) }) = MaxCov(ivs, b, e)
(* adding a read raises the maximum of a range by at most one, and by exactly one iff ... it covers a maximal index *)
Monotone == \A i \in 0..(Length - 1) : cov[i] <= Len(ivs)
NeverCovered == \A i \in 0..(Length - 1) : cov[i] = 0          \* negative control
Emit == IF Len(hist) = Depth THEN PrintT(<<"BEHAVIOUR", ToJson(hist)>>) ELSE TRUE
=============================================================================
