------------------------------ MODULE UnionFind ------------------------------
(* C18, second half: the abstract component finder.  State: a partition of a
   finite set of totally ordered values.  Merge joins two classes; the
   representative of a value is DEFINED as the minimum of its class. *)
EXTENDS Util, TLC
CONSTANT Values
VARIABLE part            \* set of disjoint non-empty sets covering Values

ClassOf(p, x) == CHOOSE c \in p : x \in c
Rep(p, x) == MinSet(ClassOf(p, x))
Merged(p, x, y) == LET cx == ClassOf(p, x) cy == ClassOf(p, y)
                   IN (p \ {cx, cy}) \cup {cx \cup cy}

Init == part = { {v} : v \in Values }
Merge(x, y) == x # y /\ part' = Merged(part, x, y)
Find(x) == UNCHANGED part
Next == \E x, y \in Values : Merge(x, y) \/ Find(x)
Spec == Init /\ [][Next]_part

IsPartition == /\ UNION part = Values
               /\ \A c, d \in part : c # {} /\ (c # d => c \cap d = {})
(* what the property promises *)
SameRepIffConnected == \A x, y \in Values : (Rep(part, x) = Rep(part, y)) <=> (ClassOf(part, x) = ClassOf(part, y))
=============================================================================
