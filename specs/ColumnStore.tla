------------------------------ MODULE ColumnStore ------------------------------
(* The column store of the two column-wise dynamic programs
       PedigreeDPTable  (src/pedigreedptable.cpp,  compute_table / compute_column)   table "P"
       GenotypeDPTable  (src/genotypedptable.cpp,  compute_backward_prob / compute_forward_prob /
                         compute_backward_column / compute_forward_column)             table "G"
   Both keep only every k-th column (k = floor(sqrt(N))) of an N-column table and recompute the
   columns of one block from its checkpoint when the second pass needs them.

   Part 1 is the CONTRACT every such schedule has to obey (what the trace specification
   X04_Trace judges on recorded executions, hook WHATSHAP_VERIF_DPTRACE):
     P: a column is computed only when its left neighbour's projection is stored and it is not
        stored itself (no leak); the backtrace reads column N-2, N-3, .., 0, each while stored;
     G: slot s (0..N-2) holds the backward projection between columns s and s+1; the backward
        column c is computed only while slot c is stored (or c = N-1) and slot c-1 is empty;
        the forward pass visits the columns 0..N-1 in order and reads slot c while stored;
     both: at most Bound(N) columns are stored at any time (the point of the checkpointing),
        and no column is computed more than twice (the price of it).
   Part 2 is an implementation-shaped transcription of the two schedules as a state machine
   (one action per loop iteration / branch, as in the C++ code).  TLC checks for every N up to
   MaxN that the transcription obeys the contract and terminates; the constant Variant switches
   it to defective schedules (negative controls).  Its event sequence per (table, N) is emitted
   (MC_ColumnStore!Emit) and compared with the sequence the real code logs. *)
EXTENDS Naturals, FiniteSets, Sequences

ISqrt(n) == CHOOSE r \in 0..n : r * r <= n /\ (r + 1) * (r + 1) > n
Min2(a, b) == IF a < b THEN a ELSE b

(* ------------------------------ Part 1: contract ------------------------------ *)
Bound(N) == LET k == ISqrt(N) IN IF k <= 1 THEN N ELSE (N \div k) + 2 * k + 1
MaxComputes == 2

PHasPredecessor(stored, c) == c = 0 \/ (c - 1) \in stored
PAfterCompute(N, stored, c) == IF c + 1 < N THEN stored \cup {c} ELSE stored
GHasSuccessor(N, slots, c) == c = N - 1 \/ c \in slots
GAfterBCompute(slots, c) == IF c > 0 THEN slots \cup {c - 1} ELSE slots

(* ------------------------- Part 2: the two schedules -------------------------- *)
CONSTANTS MaxN,      \* columns 1..MaxN
          Variant    \* "code" | "badstart" | "nofree" | "freeall" (negative controls)
VARIABLES tbl, N, pc, i, j, stored, cnt, reads, hist, bad
vars == <<tbl, N, pc, i, j, stored, cnt, reads, hist, bad>>

K == ISqrt(N)
Ev(op, c) == <<op, c>>

Init == /\ tbl \in {"P", "G"} /\ N \in 1..MaxN
        /\ pc = "start" /\ i = 0 /\ j = 0 /\ stored = {} /\ cnt = [c \in 0..MaxN |-> 0]
        /\ reads = <<>> /\ hist = <<>> /\ bad = ""

Flag(cond, name) == IF bad = "" /\ ~cond THEN name ELSE bad

(* ---- P ---- *)
PCompute(c, nextpc, ni, nj) ==        \* compute_column(c) with its "already there" shortcut
    IF c \in stored
    THEN /\ UNCHANGED <<stored, cnt, hist, bad>> /\ pc' = nextpc /\ i' = ni /\ j' = nj
    ELSE /\ bad' = Flag(PHasPredecessor(stored, c), "ComputeHasPredecessor")
         /\ stored' = PAfterCompute(N, stored, c)
         /\ cnt' = [cnt EXCEPT ![c] = @ + 1]
         /\ hist' = Append(hist, Ev("compute", c))
         /\ pc' = nextpc /\ i' = ni /\ j' = nj

PStart == /\ tbl = "P" /\ pc = "start" /\ pc' = "fwd" /\ i' = 0
          /\ UNCHANGED <<tbl, N, j, stored, cnt, reads, hist, bad>>
PFwd == /\ tbl = "P" /\ pc = "fwd"
        /\ PCompute(i, "fwddel", i, j)
        /\ UNCHANGED <<tbl, N, reads>>
PFwdDel == /\ tbl = "P" /\ pc = "fwddel"
           /\ IF K > 1 /\ i > 0 /\ ((i - 1) % K) # 0 /\ Variant # "keepall"
              THEN stored' = stored \ {i - 1} /\ hist' = Append(hist, Ev("free", i - 1))
              ELSE UNCHANGED <<stored, hist>>
           /\ IF i + 1 < N THEN pc' = "fwd" /\ i' = i + 1 ELSE pc' = "back" /\ i' = N - 1
           /\ UNCHANGED <<tbl, N, j, cnt, reads, bad>>
PBack == /\ tbl = "P" /\ pc = "back"
         /\ IF i = 0 THEN pc' = "done" /\ UNCHANGED j
            ELSE IF (i - 1) \notin stored
                 THEN /\ pc' = "recompute"
                      /\ j' = (IF Variant = "badstart" THEN (i \div K) * K ELSE ((i - 1) \div K) * K) + 1
                 ELSE pc' = "read" /\ UNCHANGED j
         /\ UNCHANGED <<tbl, N, i, stored, cnt, reads, hist, bad>>
PRecompute == /\ tbl = "P" /\ pc = "recompute"
              /\ IF j < i THEN PCompute(j, "recompute", i, j + 1)
                 ELSE pc' = "read" /\ UNCHANGED <<i, j, stored, cnt, hist, bad>>
              /\ UNCHANGED <<tbl, N, reads>>
PRead == /\ tbl = "P" /\ pc = "read"
         /\ bad' = Flag((i - 1) \in stored, "ReadWhileStored")
         /\ reads' = Append(reads, i - 1)
         /\ hist' = Append(hist, Ev("read", i - 1))
         /\ IF i % K = 0 /\ Variant # "nofree" THEN pc' = "backfree" /\ j' = i /\ UNCHANGED i
            ELSE pc' = "back" /\ i' = i - 1 /\ UNCHANGED j
         /\ UNCHANGED <<tbl, N, stored, cnt>>
PBackFree == /\ tbl = "P" /\ pc = "backfree"
             /\ IF j < i + K /\ j < N - 1
                THEN /\ stored' = stored \ {j} /\ hist' = Append(hist, Ev("free", j)) /\ j' = j + 1
                     /\ UNCHANGED <<pc, i>>
                ELSE pc' = "back" /\ i' = i - 1 /\ UNCHANGED <<j, stored, hist>>
             /\ UNCHANGED <<tbl, N, cnt, reads, bad>>

(* ---- G ---- *)
GBCompute(c, nextpc, ni, nj) ==       \* compute_backward_column(c) with its shortcut
    IF c > 0 /\ (c - 1) \in stored
    THEN /\ UNCHANGED <<stored, cnt, hist, bad>> /\ pc' = nextpc /\ i' = ni /\ j' = nj
    ELSE /\ bad' = Flag(GHasSuccessor(N, stored, c), "BackwardHasSuccessor")
         /\ stored' = GAfterBCompute(stored, c)
         /\ cnt' = [cnt EXCEPT ![c] = @ + 1]
         /\ hist' = Append(hist, Ev("bcompute", c))
         /\ pc' = nextpc /\ i' = ni /\ j' = nj

GStart == /\ tbl = "G" /\ pc = "start" /\ pc' = "bwd" /\ i' = N - 1
          /\ UNCHANGED <<tbl, N, j, stored, cnt, reads, hist, bad>>
GBwd == /\ tbl = "G" /\ pc = "bwd"
        /\ GBCompute(i, "bwddel", i, j)
        /\ UNCHANGED <<tbl, N, reads>>
GBwdDel == /\ tbl = "G" /\ pc = "bwddel"
           /\ IF K > 1 /\ i < N - 1 /\ ((i + 1) % K) # 0 /\ Variant # "keepall"
              THEN stored' = stored \ {i + 1} /\ hist' = Append(hist, Ev("free", i + 1))
              ELSE UNCHANGED <<stored, hist>>
           /\ IF i > 0 THEN pc' = "bwd" /\ i' = i - 1 ELSE pc' = "fwd" /\ i' = 0
           /\ UNCHANGED <<tbl, N, j, cnt, reads, bad>>
GFwd == /\ tbl = "G" /\ pc = "fwd"                 \* compute_forward_column(i), first half
        /\ hist' = Append(hist, Ev("fcompute", i))
        /\ IF i + 1 < N
           THEN IF i \notin stored
                THEN /\ pc' = "grecompute"
                     /\ j' = IF Variant = "badstart" THEN Min2((i \div K) * K + K - 1, N - 1)
                             ELSE Min2(((i + K) \div K) * K, N - 1)
                ELSE pc' = "gread" /\ UNCHANGED j
           ELSE pc' = "gnext" /\ UNCHANGED j
        /\ UNCHANGED <<tbl, N, i, stored, cnt, reads, bad>>
GRecompute == /\ tbl = "G" /\ pc = "grecompute"
              /\ IF j > i THEN GBCompute(j, "grecompute", i, j - 1)
                 ELSE pc' = "gread" /\ UNCHANGED <<i, j, stored, cnt, hist, bad>>
              /\ UNCHANGED <<tbl, N, reads>>
GRead == /\ tbl = "G" /\ pc = "gread"
         /\ bad' = Flag(i \in stored, "ReadWhileStored")
         /\ reads' = Append(reads, i)
         /\ hist' = Append(hist, Ev("read", i))
         /\ pc' = "gfree"
         /\ UNCHANGED <<tbl, N, i, j, stored, cnt>>
GFree == /\ tbl = "G" /\ pc = "gfree"
         /\ IF i \in stored /\ Variant # "nofree"
            THEN stored' = stored \ {i} /\ hist' = Append(hist, Ev("free", i))
            ELSE UNCHANGED <<stored, hist>>
         /\ pc' = "gnext"
         /\ UNCHANGED <<tbl, N, i, j, cnt, reads, bad>>
GNext == /\ tbl = "G" /\ pc = "gnext"
         /\ IF i + 1 < N THEN pc' = "fwd" /\ i' = i + 1 ELSE pc' = "done" /\ UNCHANGED i
         /\ UNCHANGED <<tbl, N, j, stored, cnt, reads, hist, bad>>

Next == \/ PStart \/ PFwd \/ PFwdDel \/ PBack \/ PRecompute \/ PRead \/ PBackFree
        \/ GStart \/ GBwd \/ GBwdDel \/ GFwd \/ GRecompute \/ GRead \/ GFree \/ GNext
Spec == Init /\ [][Next]_vars /\ WF_vars(Next)

(* ------------------------- the contract, on the model -------------------------- *)
Preconditions == bad = ""
SpaceBound == Cardinality(stored) <= Bound(N)
TimeBound == \A c \in 0..MaxN : cnt[c] <= MaxComputes
Complete == pc = "done" =>
               IF tbl = "P" THEN reads = [x \in 1..(N - 1) |-> N - 1 - x]
               ELSE reads = [x \in 1..(N - 1) |-> x - 1]
Terminates == <>(pc = "done")
=============================================================================
