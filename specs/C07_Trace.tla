------------------------------ MODULE C07_Trace ------------------------------
(* Trace validation for C07.
   Select     one call of whatshap.readselect.readselection:
              reads (sequence of sorted index sequences), k, sel (returned read numbers);
              posmap names how the driver placed the indices on coordinates (first
              variant on position 0, last on 2^31-1, ...): the relation is stated in
              the index space, so the clauses hold for every placement
   FamilyCap  the reads `whatshap phase` handed to the exact solver for one
              family (H1 hook): reads as index sequences over the accessible
              positions, k = --internal-downsampling, members = family size *)
EXTENDS ReadSelect, Json, IOUtils, TLC
Trace == ndJsonDeserialize(IOEnv.TRACE_FILE)
VARIABLE l
Fail(e, c) == PrintT(<<"VERDICT", e.tid, e.seq, c>>)
Check(e, c, ok) == IF ok THEN TRUE ELSE Fail(e, c)

JudgeSelect(e) ==
    LET S == Rng(e.sel) IN
    /\ Check(e, "Subset", Subset(e.reads, S) /\ Cardinality(S) = Len(e.sel))
    /\ IF Subset(e.reads, S)
       THEN /\ Check(e, "CapRespected", CapRespected(e.reads, e.k, S))
            /\ Check(e, "Maximal", Maximal(e.reads, e.k, S))
       ELSE TRUE

JudgeFamily(e) ==
    Check(e, "FamilyCap", e.members <= e.k => CapRespected(e.reads, e.k, DOMAIN e.reads))

Judge(e) ==
    CASE e.ev = "Select"    -> JudgeSelect(e)
      [] e.ev = "FamilyCap" -> JudgeFamily(e)
      [] e.ev = "Crashed"   -> Fail(e, "Returns")
      [] OTHER              -> Fail(e, "UnknownEvent")

Init == l = 1
Next == l <= Len(Trace) /\ Judge(Trace[l]) /\ l' = l + 1
Spec == Init /\ [][Next]_l
=============================================================================
