------------------------------ MODULE C18_Trace ------------------------------
(* Trace validation for C18.  A trace (one tid) is the history of calls made to
   ONE real PriorityQueue or ONE real ComponentFinder, each line one call with
   its observed result and cheap observations taken after it.  The abstract
   state (q / part) is carried along; every call must be a step the abstract
   model allows, then the abstract state follows the implementation's choice.

   PQ events   PQNew | Push item score | Change item score | Pop item score exc
               each with obs: len, empty, look = << <<item, score-or-<<>> >>, ... >>
   UF events   UFNew values | Merge x y | Find x res | FindAll res = << <<x, rep>>, ... >> *)
EXTENDS Util, Json, IOUtils, TLC
Trace == ndJsonDeserialize(IOEnv.TRACE_FILE)
VARIABLES l, q, part
vars == <<l, q, part>>

PQM == INSTANCE PQueue WITH Items <- {}, Scores <- {}, q <- q
UFM == INSTANCE UnionFind WITH Values <- {}, part <- part

Fail(e, c) == PrintT(<<"VERDICT", e.tid, e.seq, c>>)
Check(e, c, ok) == IF ok THEN TRUE ELSE Fail(e, c)

(* ---------------- priority queue ---------------- *)
PQAfter(e) ==      \* abstract state after the call, following the implementation's choice
    CASE e.ev = "PQNew"  -> << >>
      [] e.ev = "Push"   -> (e.item :> e.score) @@ q
      [] e.ev = "Change" -> IF e.item \in DOMAIN q THEN [q EXCEPT ![e.item] = e.score] ELSE q
      [] e.ev = "Pop"    -> IF e.exc = "" /\ e.item \in DOMAIN q THEN PQM!Without(q, e.item) ELSE q
      [] OTHER -> q

PQObs(e, qa) ==
    /\ Check(e, "LenIsQueued", e.len = Cardinality(DOMAIN qa))
    /\ Check(e, "EmptyIffNoneQueued", e.empty <=> (DOMAIN qa = {}))
    /\ \A k \in DOMAIN e.look :
          LET it == e.look[k][1] sc == e.look[k][2] IN
          Check(e, "LookupIsLastAssigned", IF it \in DOMAIN qa THEN sc = qa[it] ELSE sc = <<>>)

JudgePop(e) ==
    IF DOMAIN q = {} THEN Check(e, "PopEmptyRaises", e.exc = "IndexError")
    ELSE /\ Check(e, "PopReturns", e.exc = "")
         /\ Check(e, "PopQueuedItem", e.exc = "" => e.item \in DOMAIN q)
         /\ Check(e, "PopScoreLastAssigned", (e.exc = "" /\ e.item \in DOMAIN q) => e.score = q[e.item])
         /\ Check(e, "PopIsMaximum", (e.exc = "" /\ e.item \in DOMAIN q) => PQM!IsMax(q, e.item))

(* ---------------- component finder ---------------- *)
UFAfter(e) ==
    CASE e.ev = "UFNew" -> { {v} : v \in Rng(e.values) }
      [] e.ev = "Merge" -> UFM!Merged(part, e.x, e.y)
      [] OTHER -> part

JudgeFindAll(e, p) ==
    \A k \in DOMAIN e.res :
        Check(e, "FindIsMinOfComponent", e.res[k][2] = UFM!Rep(p, e.res[k][1]))

Judge(e) ==
    CASE e.ev \in {"PQNew", "Push", "Change"} -> PQObs(e, PQAfter(e))
      [] e.ev = "Pop"     -> JudgePop(e) /\ PQObs(e, PQAfter(e))
      [] e.ev = "UFNew"   -> TRUE
      [] e.ev = "Merge"   -> Check(e, "MergeReturns", e.exc = "")
      [] e.ev = "Find"    -> Check(e, "FindIsMinOfComponent", e.res = UFM!Rep(part, e.x))
      [] e.ev = "FindAll" -> JudgeFindAll(e, part)
      [] e.ev = "Crashed" -> Fail(e, "Returns")
      [] OTHER            -> Fail(e, "UnknownEvent")

Init == l = 1 /\ q = << >> /\ part = {}
Next == /\ l <= Len(Trace)
        /\ LET e == Trace[l] IN
           /\ Judge(e)
           /\ q' = PQAfter(e)
           /\ part' = UFAfter(e)
        /\ l' = l + 1
Spec == Init /\ [][Next]_vars
=============================================================================
