------------------------------- MODULE GenoCall -------------------------------
(* C08, second sentence: the decision rule that turns a likelihood triple into
   GT, GL and GQ (whatshap/cli/genotype.py:determine_genotype and
   whatshap/vcf.py:GenotypeVcfWriter.write_genotypes).

   Numbers are scaled integers; TLC only compares integers.
     likelihood triple  L = <<L00, L01, L11>>, parts per million (Scale = 10^6),
                        indexed by ALT count g = 0, 1, 2 as L[g + 1]
     threshold          --gt-qual-threshold q is a phred value: the call needs
                        max L > 1 - 10^(-q/10); ErrPpm tabulates 10^(-q/10)
     masses for GQ      milli-phred  mp = -10000 log10(mass)  (the driver takes the
                        logarithm, TLC the rounding and the cap)  *)
EXTENDS Util

Scale == 1000000
Genos == {0, 1, 2}
NoCall == -1

(* ------------------------------ the call ------------------------------ *)
Lik(L, g) == L[g + 1]
MaxLik(L) == MaxSet({ Lik(L, g) : g \in Genos })
IsUniqueMax(L, g) == \A h \in Genos \ {g} : Lik(L, g) > Lik(L, h)
Callable(L, thr) == { g \in Genos : IsUniqueMax(L, g) /\ Lik(L, g) > thr }
(* GT: the unique maximum if it exceeds the threshold, no call otherwise *)
Call(L, thr) == IF Callable(L, thr) = {} THEN NoCall ELSE CHOOSE g \in Callable(L, thr) : TRUE

(* phred threshold -> probability threshold, in ppm: 10^6 * 10^(-q/10) rounded *)
ErrPpm == [q \in {0, 1, 2, 3, 6, 10, 13, 20, 30, 50} |->
             CASE q = 0 -> 1000000 [] q = 1 -> 794328 [] q = 2 -> 630957 [] q = 3 -> 501187
               [] q = 6 -> 251189 [] q = 10 -> 100000 [] q = 13 -> 50119 [] q = 20 -> 10000
               [] q = 30 -> 1000 [] q = 50 -> 10]
ThrPpm(q) == Scale - ErrPpm[q]

(* ------------------------------ reading a call back from a file ------------------------------ *)
(* The file holds log10 L rounded to 6 significant digits, so the L recovered from it may be off
   by eps ppm from what the rule saw.  A reported call `out` is acceptable iff SOME triple within
   eps of the recovered one yields it (BoxCalls); CallWithin is the closed form used on traces,
   MC_GenoCall proves the two equal. *)
Box(L, eps) == { <<x, y, z>> : x \in (L[1] - eps)..(L[1] + eps), y \in (L[2] - eps)..(L[2] + eps),
                               z \in (L[3] - eps)..(L[3] + eps) }
BoxCalls(L, thr, eps) == { Call(L2, thr) : L2 \in Box(L, eps) }
CallWithin(L, thr, eps, out) ==
    IF out \in Genos
    THEN /\ \A h \in Genos \ {out} : Lik(L, out) + 2 * eps > Lik(L, h)
         /\ Lik(L, out) + eps > thr
    ELSE /\ out = NoCall
         /\ ~ \E g \in Genos : /\ \A h \in Genos \ {g} : Lik(L, g) - 2 * eps > Lik(L, h)
                               /\ Lik(L, g) - eps > thr

(* GL: log10 of a distribution: the recovered triple sums to one within tol ppm *)
IsDistribution(L, tol) == /\ \A g \in Genos : Lik(L, g) >= 0 /\ Lik(L, g) <= Scale + tol
                          /\ Abs(Lik(L, 1) + Lik(L, 0) + Lik(L, 2) - Scale) <= tol

(* ------------------------------ GQ ------------------------------ *)
GQCap == 10000
(* phred of a mass given in milli-phred, rounded to the nearest integer, capped *)
GQOf(mp) == Min2((mp + 500) \div 1000, GQCap)
(* mp is known up to tol: every value the rounding can give inside [mp - tol, mp + tol] *)
GQRange(mp, tol) == GQOf(Max2(mp - tol, 0))..GQOf(mp + tol)
(* the mass is only known to lie in [lo, hi] milli-phred (the rounding interval of the written GL values) *)
GQBetween(lo, hi) == GQOf(Max2(lo, 0))..GQOf(hi)
(* tolerance of a milli-phred value recovered from 6-significant-digit log10 values *)
MpTol(mp) == 3 + (mp \div 50000)
=============================================================================
