SPECIFICATION MCSpec
CONSTANTS Values = {1, 2, 3, 4, 5}
          Depth_ = 1000
VIEW NoView
CONSTRAINT Bound
INVARIANT ParentSmaller
INVARIANT RootIsMin
INVARIANT FindIsRep
PROPERTY Refines
