SPECIFICATION Spec
