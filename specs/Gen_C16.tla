------------------------------- MODULE Gen_C16 -------------------------------
(* The schedules that matter for hash randomisation: every iteration order
   (permutation) of an unordered collection of N user-visible names.  TLC
   enumerates them; the harness finds, for each, a PYTHONHASHSEED under which
   a Python set of those names iterates in exactly that order. *)
EXTENDS Naturals, Sequences, FiniteSets, Json, IOUtils, TLC, SequencesExt
CONSTANT N
Perms == { p \in [1..N -> 1..N] : \A i, j \in 1..N : p[i] = p[j] => i = j }
ASSUME Cardinality(Perms) = (IF N = 3 THEN 6 ELSE IF N = 4 THEN 24 ELSE Cardinality(Perms))
ASSUME ndJsonSerialize(IOEnv.OUT_FILE, SetToSeq({ [perm |-> p] : p \in Perms }))
=============================================================================
