---------------------------- MODULE Gen_C08Shapes ----------------------------
(* Scenario enumeration by TLC for the HMM part of C08 (spec -> code): the
   complete space of tiny instance SHAPES (GenoHMM.tla) within the bounds below:
   every sorted sequence of at most MaxReads reads, each read a set of at least
   two columns with an allele per cell (the columns in between are blanks).
   Every Sample-th shape of TLC's enumeration order is written (Sample = 1: all). *)
EXTENDS Naturals, Sequences, FiniteSets, Json, IOUtils, SequencesExt
CONSTANTS Sample, MaxReads

ColSets(m) == { S \in SUBSET (1..m) : Cardinality(S) >= 2 }
CellSeqs(S) == LET cs == SetToSortSeq(S, <) IN
    { [j \in 1..Len(cs) |-> <<cs[j], al[j]>>] : al \in [1..Len(cs) -> {0, 1}] }
ReadOpts(m, inds) == UNION { { [ind |-> i, cells |-> cl] : i \in inds, cl \in CellSeqs(S) } : S \in ColSets(m) }

RECURSIVE ReadSeqs(_, _)
ReadSeqs(opts, n) ==
    IF n = 0 THEN { <<>> }
    ELSE LET shorter == ReadSeqs(opts, n - 1) IN
         shorter \cup { Append(s, r) : s \in { u \in shorter : Len(u) = n - 1 }, r \in opts }
Sorted(s) == \A j \in 1..(Len(s) - 1) : s[j].cells[1][1] <= s[j + 1].cells[1][1]
SortedReadSeqs(opts, n) == { s \in ReadSeqs(opts, n) : Sorted(s) }

Single3 == { [nInd |-> 1, trios |-> <<>>, m |-> 3, reads |-> rs] : rs \in SortedReadSeqs(ReadOpts(3, {1}), MaxReads) }
Trio2 == { [nInd |-> 3, trios |-> << <<1, 2, 3>> >>, m |-> 2, reads |-> rs] : rs \in SortedReadSeqs(ReadOpts(2, {1, 2, 3}), MaxReads) }

Pick(S) == LET s == SetToSeq(S) IN [i \in 1..(Len(s) \div Sample) |-> s[i * Sample]]
ASSUME PrintT(<<"sizes", Cardinality(Single3), Cardinality(Trio2)>>)
ASSUME ndJsonSerialize(IOEnv.OUT_FILE, Pick(Single3) \o Pick(Trio2))
=============================================================================
