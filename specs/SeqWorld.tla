------------------------------ MODULE SeqWorld ------------------------------
(* C06, the world side: reference sequence, one VCF-style variant, the two
   haplotype sequences, and how an error-free read (a substring of a haplotype)
   is aligned with a CANONICAL CIGAR: indels directly after their anchor base
   (the variant's normalised position).  The walk below builds the alignment
   base by base, as wv/world.py:Haplotype.read does; the invariants say the
   alignment is sound (applying it to the reference and the read reproduces
   the variant's allele, lengths add up).  Bases are 0..3. *)
EXTENDS Util, TLC
CONSTANTS RefLen, Alphabet
VARIABLES ref, var, allele, hs, he,      \* the world: reference, variant, allele carried, read = hap[hs+1..he]
          i, cigar, rpos, pos0           \* the walk: next hap index, CIGAR so far, next ref position, alignment start
vars == <<ref, var, allele, hs, he, i, cigar, rpos, pos0>>

(* variant [pos, ref, alt] in 1-based TLA+ sequence coordinates: ref[pos..pos+Len(ref)-1] is replaced by alt *)
HapSeq(r, v, a) == IF a = 0 THEN r
                   ELSE SubSeq(r, 1, v.pos - 1) \o v.alt \o SubSeq(r, v.pos + Len(v.ref), Len(r))
(* for each haplotype index the operation that aligns it and the reference position it consumes (0 for I) *)
Common(v) == Min2(Len(v.ref), Len(v.alt))        \* anchor (indel) or substituted bases (snv/mnp)
OpAt(v, a, h) ==
    IF a = 0 THEN [op |-> "M", r |-> h]
    ELSE IF h < v.pos + Common(v) THEN [op |-> "M", r |-> h]
    ELSE IF h < v.pos + Len(v.alt) THEN [op |-> "I", r |-> 0]
    ELSE [op |-> "M", r |-> h - Len(v.alt) + Len(v.ref)]
DelBefore(v, a, h) == a = 1 /\ Len(v.ref) > Len(v.alt) /\ h = v.pos + Len(v.alt)   \* deletion sits before hap base h

Variants == LET P == RefLen \div 2 IN
    { [pos |-> P, ref |-> <<q[1]>>, alt |-> <<q[2]>>] : q \in { p \in Alphabet \X Alphabet : p[1] # p[2] } }       \* SNV
    \cup { [pos |-> P, ref |-> <<x>>, alt |-> <<x, y>>] : x \in Alphabet, y \in Alphabet }                      \* insertion
    \cup { [pos |-> P, ref |-> <<x, y>>, alt |-> <<x>>] : x \in Alphabet, y \in Alphabet }                      \* deletion
    \cup { [pos |-> P, ref |-> <<q[1], q[2]>>, alt |-> <<q[3], q[4]>>] :
              q \in { p \in Alphabet \X Alphabet \X Alphabet \X Alphabet : p[1] # p[3] /\ p[2] # p[4] } }              \* MNP

Push(cg, op) == IF cg # <<>> /\ cg[Len(cg)][1] = op
                THEN [cg EXCEPT ![Len(cg)] = <<op, cg[Len(cg)][2] + 1>>]
                ELSE Append(cg, <<op, 1>>)
PushN(cg, op, n) == IF n = 0 THEN cg ELSE Append(cg, <<op, n>>)

Init == /\ ref \in [1..RefLen -> Alphabet]
        /\ var \in { v \in Variants : SubSeq(ref, v.pos, v.pos + Len(v.ref) - 1) = v.ref }
        /\ allele \in {0, 1}
        /\ hs \in 0..(Len(HapSeq(ref, var, allele)) - 1)
        /\ he \in (hs + 1)..Len(HapSeq(ref, var, allele))
        /\ i = hs + 1 /\ cigar = <<>> /\ rpos = 0 /\ pos0 = 0

Step ==
    /\ i <= he
    /\ LET o == OpAt(var, allele, i) IN
       /\ IF o.op = "M"
          THEN /\ cigar' = Push(IF DelBefore(var, allele, i) /\ pos0 # 0
                                THEN PushN(cigar, "D", Len(var.ref) - Len(var.alt)) ELSE cigar, "M")
               /\ rpos' = o.r + 1
               /\ pos0' = IF pos0 = 0 THEN o.r ELSE pos0
          ELSE /\ cigar' = Push(cigar, IF pos0 = 0 THEN "S" ELSE "I")      \* leading inserted bases are soft-clipped
               /\ UNCHANGED <<rpos, pos0>>
    /\ i' = i + 1
    /\ UNCHANGED <<ref, var, allele, hs, he>>
Spec == Init /\ [][Step]_vars

Read == SubSeq(HapSeq(ref, var, allele), hs + 1, he)
OpLen(op) == SumSeq([k \in DOMAIN cigar |-> IF cigar[k][1] = op THEN cigar[k][2] ELSE 0])
(* lengths add up at every step of the walk *)
QueryLenOK == OpLen("M") + OpLen("I") + OpLen("S") = i - (hs + 1)
RefLenOK == pos0 # 0 => OpLen("M") + OpLen("D") = rpos - pos0
(* every M-aligned read base equals the reference except inside the variant's substituted bases *)
MatchesRef ==
    \A h \in (hs + 1)..(i - 1) :
        LET o == OpAt(var, allele, h) IN
        (o.op = "M" /\ ~(allele = 1 /\ o.r >= var.pos /\ o.r < var.pos + Common(var)))
            => HapSeq(ref, var, allele)[h] = ref[o.r]
AdjacentOpsDiffer == \A k \in 1..(Len(cigar) - 1) : cigar[k][1] # cigar[k + 1][1]
=============================================================================
