------------------------------ MODULE PedMECDP ------------------------------
(* Implementation-shaped model of src/pedigreedptable.cpp: one action per column.
   dp[b][t]    cost of the best solution of columns 1..c whose bipartition of the
               reads ACTIVE in column c (first <= c <= last, gaps included) is b
               and whose transmission value in column c is t
   proj[bp][t] forward projection: minimum of dp over all b that restrict to bp
               on the reads shared with column c+1; with the argmin b and the
               argmin predecessor transmission value (backtrace tables)
   After the last column the optimum is read off and the witness (bipartition of
   all reads + transmission vector) is reconstructed by walking the backtrace
   tables from right to left.  The model keeps all columns (the sqrt-spaced
   storage and recomputation of the code is modelled separately, Checkpoint.tla). *)
EXTENDS PedMEC, TLC
VARIABLES inst, c, proj, bt, result
vars == <<inst, c, proj, bt, result>>

FirstCol(I, r) == I.reads[r].cells[1][1]
LastCol(I, r) == I.reads[r].cells[Len(I.reads[r].cells)][1]
Active(I, k) == { r \in DOMAIN I.reads : FirstCol(I, r) <= k /\ k <= LastCol(I, r) }
Shared(I, k) == IF k >= I.m THEN {} ELSE Active(I, k) \cap Active(I, k + 1)
RestrictTo(b, S) == [r \in S |-> b[r]]
Ext(I, b) == [r \in DOMAIN I.reads |-> IF r \in DOMAIN b THEN b[r] ELSE 0]
BipsOf(S) == [S -> {0, 1}]

RecCost(I, k, t, j) == Popcount(Xor(t, j)) * I.rc[k]

(* one DP column: for every bipartition of the active reads and every t the best
   cost and the predecessor transmission value achieving it *)
DPColumn(I, k, prevproj) ==
    TLCEval([b \in BipsOf(Active(I, k)) |->
       [t \in TVals(I) |->
          LET cur == ColCost(I, k, Ext(I, b), t)
              cands == IF k = 1 THEN { <<0, t>> }
                       ELSE { << prevproj[RestrictTo(b, Shared(I, k - 1))][j].cost + RecCost(I, k, t, j), j >> : j \in TVals(I) }
              best == MinSet({ x[1] : x \in cands })
              arg == MinSet({ x[2] : x \in { y \in cands : y[1] = best } })
          IN [cost |-> Cap(cur + best), prevt |-> arg]]])

Projection(I, k, dp) ==
    TLCEval([bp \in BipsOf(Shared(I, k)) |->
       [t \in TVals(I) |->
          LET ext == { b \in DOMAIN dp : RestrictTo(b, Shared(I, k)) = bp }
              best == MinSet({ dp[b][t].cost : b \in ext })
              argb == CHOOSE b \in ext : dp[b][t].cost = best
          IN [cost |-> best, b |-> argb, prevt |-> dp[argb][t].prevt]]])

Init == /\ inst \in {}          \* overridden by the MC module
        /\ c = 0 /\ proj = << >> /\ bt = <<>> /\ result = << >>

(* walk the backtrace tables: returns <<part (partial function), tv (sequence)>> *)
RECURSIVE Back(_, _, _, _, _, _)
Back(I, tables, k, b, t, acc) ==
    \* b, t: bipartition of Active(k) and transmission value chosen for column k
    LET part2 == [r \in DOMAIN acc[1] \cup DOMAIN b |-> IF r \in DOMAIN b THEN b[r] ELSE acc[1][r]]
        tv2 == <<t>> \o acc[2]
    IN IF k = 1 THEN <<part2, tv2>>
       ELSE LET dpk == tables[k].dp
                pj == dpk[b][t].prevt
                e == tables[k - 1].proj[RestrictTo(b, Shared(I, k - 1))][pj]
            IN Back(I, tables, k - 1, e.b, pj, <<part2, tv2>>)

Column ==
    /\ c < inst.m
    /\ result = << >>
    /\ LET k == c + 1
           dp == DPColumn(inst, k, proj)
           pr == Projection(inst, k, dp)
       IN /\ c' = k
          /\ proj' = pr
          /\ bt' = Append(bt, [dp |-> dp, proj |-> pr])
          /\ UNCHANGED <<inst, result>>

Finish ==
    /\ c = inst.m /\ result = << >>
    /\ IF inst.m = 0
       THEN result' = [cost |-> 0, part |-> Ext(inst, << >>), tv |-> <<>>]
       ELSE LET dp == bt[inst.m].dp
                best == MinSet({ dp[b][t].cost : b \in DOMAIN dp, t \in TVals(inst) })
                bt_ == CHOOSE x \in { <<b, t>> : b \in DOMAIN dp, t \in TVals(inst) } : dp[x[1]][x[2]].cost = best
                w == Back(inst, bt, inst.m, bt_[1], bt_[2], << << >>, <<>> >>)
            IN result' = [cost |-> best, part |-> Ext(inst, w[1]), tv |-> w[2]]
    /\ UNCHANGED <<inst, c, proj, bt>>

Next == Column \/ Finish

(* ---- what the design must satisfy ---- *)
(* every projection entry is the brute-force optimum of the prefix restricted to
   that projected bipartition and ending transmission value *)
ProjIsPrefixOpt ==
    (c >= 1 /\ c <= inst.m) =>
        \A bp \in DOMAIN proj : \A t \in TVals(inst) :
            proj[bp][t].cost =
               MinSet({ BestUpTo(inst, part, c)[t] :
                          part \in { p \in Bipartitions(inst) : \A r \in DOMAIN bp : p[r] = bp[r] } })
FinalIsOpt == result # << >> => result.cost = OptCost(inst)
WitnessOK  == result # << >> => WitnessCost(inst, result.part, result.tv) = result.cost
=============================================================================
