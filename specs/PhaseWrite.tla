------------------------------ MODULE PhaseWrite ------------------------------
(* C04: the phased VCF is the input VCF plus phase information and nothing else.
   A relation between the abstract input file and the abstract output file.

   file   = [defs : set of header definition ids (contig/INFO/FILTER/FORMAT), samples : sequence of names (ids),
             recs : sequence of records]
   record = [chrom, pos, fixed (interned ID/REF/ALT/QUAL/FILTER/INFO), nalt, symbolic, snv, dup (same position as
             the previous record of the chromosome), keys (FORMAT keys other than the phase keys, in order),
             calls (per sample)]
   call   = [gt (sequence of alleles, -1 = missing), phased (GT separator), ps, hp (interned, -1 none),
             rest (interned values of all FORMAT keys except GT/PS/HP/PQ/HS), raw (interned whole call)]
   Phase encoding = GT order and separator, PS, HP (PQ, HS) of target samples on selected chromosomes:
   exactly what the statement exempts. *)
EXTENDS Util

Het(c) == \E i, j \in DOMAIN c.gt : c.gt[i] # c.gt[j]
StatesPhase(c) == c.phased \/ c.hp # -1

SameRecords(fin, fout) ==
    /\ Len(fin.recs) = Len(fout.recs)
    /\ \A i \in DOMAIN fin.recs :
          i \in DOMAIN fout.recs =>
              /\ fin.recs[i].chrom = fout.recs[i].chrom
              /\ fin.recs[i].pos = fout.recs[i].pos
              /\ fin.recs[i].fixed = fout.recs[i].fixed
SameSamples(fin, fout) == fin.samples = fout.samples
HeaderKept(fin, fout) == Rng(fin.defs) \subseteq Rng(fout.defs)      \* defs, targets, csel are sequences (JSON arrays)
(* the per-call clauses only need records and samples to line up (same number, CHROM, POS) *)
SameShape(fin, fout) ==
    /\ Len(fin.recs) = Len(fout.recs)
    /\ \A i \in DOMAIN fin.recs : fin.recs[i].chrom = fout.recs[i].chrom /\ fin.recs[i].pos = fout.recs[i].pos
Aligned(fin, fout) == SameShape(fin, fout) /\ SameSamples(fin, fout)

Selected(e, r, s) == s \in Rng(e.targets) /\ r.chrom \in Rng(e.csel)
UntouchedElsewhere(e) ==
    \A i \in DOMAIN e.fin.recs : \A s \in DOMAIN e.fin.samples :
        ~Selected(e, e.fin.recs[i], s) => e.fin.recs[i].calls[s].raw = e.fout.recs[i].calls[s].raw
OtherFormatValuesKept(e) ==
    \A i \in DOMAIN e.fin.recs :
        /\ \A k \in Rng(e.fin.recs[i].keys) : k \in Rng(e.fout.recs[i].keys)
        /\ \A s \in DOMAIN e.fin.samples : e.fin.recs[i].calls[s].rest = e.fout.recs[i].calls[s].rest
AllelesPreserved(e) ==
    (~e.distrust) =>
        \A i \in DOMAIN e.fin.recs : \A s \in DOMAIN e.fin.samples :
            SameBag(e.fin.recs[i].calls[s].gt, e.fout.recs[i].calls[s].gt)
(* only heterozygous calls of supported variant types are ever MARKED phased by the run: judged on the phase
   statements the run made or changed (a statement carried over unchanged from the input is not this run's
   marking; whether old statements may survive at all is C09's NoStalePhase) *)
MarkedByRun(cin, cout) ==
    StatesPhase(cout) /\ (cout.phased # cin.phased \/ cout.ps # cin.ps \/ cout.hp # cin.hp \/ cout.gt # cin.gt)
OnlySupportedHetPhased(e) ==
    \A i \in DOMAIN e.fout.recs : \A s \in DOMAIN e.fout.samples :
        LET r == e.fout.recs[i] c == r.calls[s] IN
        (Selected(e, r, s) /\ MarkedByRun(e.fin.recs[i].calls[s], c)) =>
            /\ Het(c) /\ Len(c.gt) = 2 /\ \A k \in DOMAIN c.gt : c.gt[k] \in {0, 1}
            /\ r.nalt = 1 /\ ~r.dup
            /\ (e.onlysnv => r.snv)
(* the same on the OUTPUT STATE of the selected calls: an old phase statement of the input must not survive on a call the
   run does not (or cannot) phase - a record of an unsupported type that still says "phased" is marked phased *)
PhasedOnlyWhereSupported(e) ==
    \A i \in DOMAIN e.fout.recs : \A s \in DOMAIN e.fout.samples :
        LET r == e.fout.recs[i] c == r.calls[s] IN
        (Selected(e, r, s) /\ StatesPhase(c)) =>
            /\ (~e.distrust => Het(c)) /\ Len(c.gt) = 2
            /\ r.nalt = 1 /\ ~r.dup
            /\ (e.onlysnv => r.snv)
=============================================================================
