SPECIFICATION Spec
