------------------------------- MODULE Gen_C08 -------------------------------
(* Scenario enumeration by TLC for the decision rule of C08 (spec -> code):
   every likelihood triple on the grid 1/G that sums to one, with every
   threshold probability on the same grid.  The driver calls the real
   determine_genotype on each pair with exactly these rationals. *)
EXTENDS Naturals, Sequences, Json, IOUtils, SequencesExt
CONSTANT G
Pairs == { [x |-> p[1], y |-> p[2], z |-> G - p[1] - p[2], thr |-> t] :
              p \in { p \in (0..G) \X (0..G) : p[1] + p[2] <= G }, t \in 0..G }
ASSUME ndJsonSerialize(IOEnv.OUT_FILE, SetToSeq(Pairs))
=============================================================================
