------------------------------ MODULE VcfModel ------------------------------
(* The abstract VCF shared by the command-level specifications (C13 unphase,
   C09 phase encodings; C04/C12 may extend it).

   call    [hasgt : BOOLEAN        the record's FORMAT has the GT key
            gt    : Seq(Int)       alleles in file order, -1 = '.', << >> without GT
            ph    : BOOLEAN        the GT string contains a '|' separator
            ps    : Int            PS value, NoVal (-1) if the key is absent or the value is '.'
            pq    : Int            PQ value, NoVal likewise
            hp    : Seq(<<block, hap>>)   HP entries in file order (k-th entry belongs to the
                                   k-th GT allele), << >> if absent / '.' / empty
            rest  : Seq(STRING)]   "KEY=value" of every other FORMAT field, in FORMAT order
   record  [fixed : STRING         the eight fixed columns CHROM..INFO, verbatim
            calls : Seq(call)]     one per sample column
   file    [hdr   : Seq(STRING)    header definitions by "KIND/ID" except FORMAT/HP, FORMAT/PS, FORMAT/PQ
            recs  : Seq(record)]

   Phase statements.  A call can state phase in two encodings:
     GT/PS  a '|'-separated heterozygous GT says: haplotype i carries gt[i], phase set = PS
     HP     entries b-h say: the k-th GT allele lies on haplotype h of phase set b
   A statement is  [block |-> b, al |-> <<allele on haplotype 1, allele on haplotype 2, ...>>];
   NoPhase (<< >>) stands for "no statement". *)
EXTENDS Util

NoVal == -1
MissingAllele == -1
NoPhase == << >>

AllEqual(s) == \A i \in DOMAIN s : s[i] = s[1]
FullyCalled(c) == c.hasgt /\ Len(c.gt) > 0 /\ \A i \in DOMAIN c.gt : c.gt[i] # MissingAllele
IsHet(c) == c.hasgt /\ Len(c.gt) > 0 /\ ~AllEqual(c.gt)

(* ---------------------------------------------------------------- decoders *)
DecPS(c) == IF c.hasgt /\ c.ph /\ IsHet(c) THEN [block |-> c.ps, al |-> c.gt] ELSE NoPhase

HPWellFormed(c) == /\ c.hasgt /\ Len(c.hp) = Len(c.gt) /\ Len(c.hp) > 0
                   /\ \A k \in DOMAIN c.hp : c.hp[k][1] = c.hp[1][1]
                   /\ { c.hp[k][2] : k \in DOMAIN c.hp } = 1..Len(c.hp)
DecHP(c) == IF c.hp = << >> THEN NoPhase
            ELSE IF ~HPWellFormed(c) THEN [block |-> -2, al |-> << >>]          \* undecodable statement
            ELSE [block |-> c.hp[1][1],
                  al |-> [h \in 1..Len(c.hp) |-> c.gt[CHOOSE k \in DOMAIN c.hp : c.hp[k][2] = h]]]

HasPSStatement(c) == DecPS(c) # NoPhase
HasHPStatement(c) == DecHP(c) # NoPhase

(* ---------------------------------------------------------------- encoders (the conventions) *)
RECURSIVE InsSorted(_, _)
InsSorted(x, s) == IF s = << >> THEN <<x>> ELSE IF x <= Head(s) THEN <<x>> \o s ELSE <<Head(s)>> \o InsSorted(x, Tail(s))
RECURSIVE SortAsc(_)
SortAsc(s) == IF s = << >> THEN << >> ELSE InsSorted(Head(s), SortAsc(Tail(s)))

(* remove every phase statement from a call, keeping PQ and everything else (re-phasing) *)
ClearPhase(c) == [c EXCEPT !.ph = FALSE, !.ps = NoVal, !.hp = << >>,
                           !.gt = IF FullyCalled(c) THEN SortAsc(c.gt) ELSE c.gt]

(* write statement p = [block, al] into an (already cleared) call *)
EncodePS(c, p) == [c EXCEPT !.gt = p.al, !.ph = TRUE, !.ps = p.block]
EncodeHP(c, p) ==      \* GT keeps its order; entry k names the haplotype that carries the k-th GT allele
    [c EXCEPT !.hp = [k \in DOMAIN c.gt |-> <<p.block, CHOOSE h \in DOMAIN p.al : p.al[h] = c.gt[k]>>]]
Encode(tag, c, p) == IF p = NoPhase THEN c ELSE IF tag = "PS" THEN EncodePS(c, p) ELSE EncodeHP(c, p)

(* ---------------------------------------------------------------- unphase *)
CallUnphased(c) == ~c.ph /\ c.ps = NoVal /\ c.pq = NoVal /\ c.hp = << >>
NoPhaseLeft(f) == \A i \in DOMAIN f.recs : \A j \in DOMAIN f.recs[i].calls : CallUnphased(f.recs[i].calls[j])

CallElseSame(c, d) == c.hasgt = d.hasgt /\ SameBag(c.gt, d.gt) /\ c.rest = d.rest
RecElseSame(r, s) == /\ r.fixed = s.fixed
                     /\ Len(r.calls) = Len(s.calls)
                     /\ \A j \in DOMAIN r.calls : CallElseSame(r.calls[j], s.calls[j])
NothingElse(f, g) == /\ Len(f.recs) = Len(g.recs)
                     /\ \A i \in DOMAIN f.recs : RecElseSame(f.recs[i], g.recs[i])
                     /\ Rng(f.hdr) \subseteq Rng(g.hdr)

(* the relation `whatshap unphase` has to satisfy between its input and its output *)
UnphaseRel(f, g) == NoPhaseLeft(g) /\ NothingElse(f, g)

(* one function satisfying the relation (the documented behaviour: sort fully called genotypes) *)
UnphaseCall(c) == [c EXCEPT !.ph = FALSE, !.ps = NoVal, !.pq = NoVal, !.hp = << >>,
                            !.gt = IF FullyCalled(c) THEN SortAsc(c.gt) ELSE c.gt]
UnphaseFile(f) == [f EXCEPT !.recs = [i \in DOMAIN f.recs |->
                        [f.recs[i] EXCEPT !.calls = [j \in DOMAIN f.recs[i].calls |-> UnphaseCall(f.recs[i].calls[j])]]]]
=============================================================================
