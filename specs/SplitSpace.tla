----------------------------- MODULE SplitSpace -----------------------------
(* The input spaces shared by the design-level model check (MC_Split) and the
   scenario generator (Gen_C14): haplotype lists as partial functions on the
   names 1..N (a name that no read carries is a "name absent from the reads"),
   option records that pass the CLI's validation. *)
EXTENDS Split

(* blocks = <<chromosome, phase set>>: two phase sets on chromosome 1, one on chromosome 2 *)
Blocks(nb) == IF nb = 1 THEN { <<1, 1>> }
              ELSE IF nb = 2 THEN { <<1, 1>>, <<1, 2>> }
              ELSE { <<1, 1>>, <<1, 2>>, <<2, 1>> }

(* what the list can say about one name: nothing ("absent"), none, or Hh in a block *)
Entries(p, nb) == { [hap |-> -1, ps |-> 0, chrom |-> 0], [hap |-> 0, ps |-> 0, chrom |-> 0] }
                  \cup { [hap |-> h, ps |-> b[2], chrom |-> b[1]] : h \in 1..p, b \in Blocks(nb) }

RECURSIVE LinesOf(_, _, _)
LinesOf(f, n, N) == IF n > N THEN <<>>
                    ELSE (IF f[n].hap < 0 THEN <<>>
                          ELSE << [name |-> n, hap |-> f[n].hap, ps |-> f[n].ps, chrom |-> f[n].chrom] >>)
                         \o LinesOf(f, n + 1, N)
Lists(N, p, nb) == { LinesOf(f, 1, N) : f \in [1..N -> Entries(p, nb)] }

(* requested outputs: --output-h1/--output-h2 (ploidy 2, at least one of them) or one -o per haplotype *)
Reqs(p) == IF p = 2 THEN { q \in [1..3 -> BOOLEAN] : q[2] \/ q[3] }
           ELSE { [k \in 1..(p + 1) |-> IF k = 1 THEN u ELSE TRUE] : u \in BOOLEAN }
Opts(p) == { [ploidy |-> p, req |-> q, addU |-> a, disc |-> d, largest |-> g] :
               q \in Reqs(p), a \in BOOLEAN, d \in BOOLEAN, g \in BOOLEAN }
=============================================================================
