------------------------------- MODULE Gen_C13 -------------------------------
(* Scenario enumeration by TLC for C13 (spec -> code): the space of call shapes a
   well-formed VCF record can carry as far as `whatshap unphase` is concerned.

     single  one sample, one record: every GT of ploidy 1..4 (alleles '.', 0, 1, 2 for ploidy
             <= 2 and '.', 0, 1 above), both separators, crossed with every presence pattern of
             PS / HP / PQ (0 = key not in FORMAT, 1 = key present with value '.', 2 = value)
     pair    two samples, one record: every pair of GTs of ploidy <= 2 (plus three triploid
             ones) over '.', 0, 1, with three tag patterns
     nogt    records whose FORMAT has no GT key: every PS/HP/PQ pattern, 1..2 samples

   Every Sample-th element of TLC's enumeration order is written (Sample = 1: all).  The driver
   turns a shape into VCF text (concrete tag values, other FORMAT fields, fixed columns). *)
EXTENDS Naturals, Integers, Sequences, FiniteSets, Json, IOUtils, SequencesExt
CONSTANT Sample

RECURSIVE Tuples(_, _)
Tuples(n, A) == IF n = 0 THEN { << >> } ELSE { Append(s, a) : s \in Tuples(n - 1, A), a \in A }

GTWide == Tuples(1, {-1, 0, 1, 2}) \cup Tuples(2, {-1, 0, 1, 2})
GTPoly == Tuples(3, {-1, 0, 1}) \cup Tuples(4, {-1, 0, 1})
Shapes(G) == { [gt |-> g, ph |-> b] : g \in G, b \in BOOLEAN } \ { [gt |-> g, ph |-> TRUE] : g \in Tuples(1, {-1, 0, 1, 2}) }
Pat == [ps : 0..2, hp : 0..2, pq : 0..2]

Single == { [k |-> "single", calls |-> <<s>>, pat |-> p] : s \in Shapes(GTWide \cup GTPoly), p \in Pat }

GTSmall == Tuples(1, {-1, 0, 1}) \cup Tuples(2, {-1, 0, 1}) \cup { <<0, 1, -1>>, <<1, 0, 1>>, <<-1, -1, -1>> }
PairPat == { [ps |-> 0, hp |-> 0, pq |-> 0], [ps |-> 2, hp |-> 0, pq |-> 1], [ps |-> 1, hp |-> 2, pq |-> 2] }
Pair == { [k |-> "pair", calls |-> <<s, t>>, pat |-> p] : s \in Shapes(GTSmall), t \in Shapes(GTSmall), p \in PairPat }

NoGT == { [k |-> "nogt", calls |-> [i \in 1..n |-> [gt |-> << >>, ph |-> FALSE]], pat |-> p] : n \in 1..2, p \in Pat }

Pick(S) == LET s == SetToSeq(S) IN [i \in 1..(Len(s) \div Sample) |-> s[i * Sample]]
ASSUME PrintT(<<"sizes", Cardinality(Single), Cardinality(Pair), Cardinality(NoGT)>>)
ASSUME ndJsonSerialize(IOEnv.OUT_FILE, Pick(Single) \o Pick(Pair) \o SetToSeq(NoGT))
=============================================================================
