------------------------------ MODULE Checkpoint ------------------------------
(* Design-level model of the sqrt(#columns) storage schedule of
   src/pedigreedptable.cpp:compute_table (the genotyping table uses the same
   scheme): during the forward pass only every k-th projection/backtrace column
   is kept, the backtrace recomputes the columns of one segment on demand from
   the last stored column and frees segments it has passed.

   stored = set of column indices (0-based, as in the code) whose projection and
   backtrace tables exist.  The model checks for every number of columns n that
   no step ever needs a column that is not stored (each compute_column(c > 0)
   reads column c-1, each backtrace step reads column i-1), that both
   assert(... != nullptr) of the code hold, and that at most n/k + 2k + 1
   columns are alive. *)
EXTENDS Naturals, FiniteSets, TLC
CONSTANTS MaxN, Off        \* Off = 0: the deletion rule of the code; Off # 0: a shifted rule (negative control)
VARIABLES n, k, pc, c, i, j, stored, ok
vars == <<n, k, pc, c, i, j, stored, ok>>

RECURSIVE ISqrt(_, _)
ISqrt(x, r) == IF (r + 1) * (r + 1) > x THEN r ELSE ISqrt(x, r + 1)
Sqrt(x) == ISqrt(x, 0)
Storable(col) == col + 1 < n          \* the last column has no projection column

Init == /\ n \in 1..MaxN /\ k = Sqrt(n)
        /\ pc = "forward" /\ c = 0 /\ i = 0 /\ j = 0 /\ stored = {} /\ ok = TRUE

(* forward pass: compute column c (needs c-1), then possibly delete c-1 *)
Forward ==
    /\ pc = "forward" /\ c < n
    /\ ok' = (ok /\ (c = 0 \/ (c - 1) \in stored))
    /\ LET s1 == IF Storable(c) THEN stored \cup {c} ELSE stored
           del == k > 1 /\ c > 0 /\ ((c - 1 + Off) % k) # 0
       IN stored' = IF del THEN s1 \ {c - 1} ELSE s1
    /\ c' = c + 1
    /\ pc' = IF c + 1 = n THEN "back" ELSE "forward"
    /\ i' = IF c + 1 = n THEN n - 1 ELSE i
    /\ UNCHANGED <<n, k, j>>

(* backtrace step for index i: make sure column i-1 exists (recompute from the last stored one) *)
BackNeed ==
    /\ pc = "back" /\ i > 0
    /\ IF (i - 1) \in stored THEN pc' = "use" /\ UNCHANGED <<j, ok>>
       ELSE /\ j' = ((i - 1) \div k) * k
            /\ ok' = (ok /\ (((i - 1) \div k) * k) \in stored)      \* assert(projection_column_table[j] != nullptr)
            /\ pc' = "recompute"
    /\ UNCHANGED <<n, k, c, i, stored>>
Recompute ==
    /\ pc = "recompute"
    /\ IF j + 1 < i
       THEN /\ ok' = (ok /\ j \in stored)                           \* compute_column(j+1) reads column j
            /\ stored' = stored \cup {j + 1}
            /\ j' = j + 1 /\ UNCHANGED pc
       ELSE pc' = "use" /\ UNCHANGED <<j, stored, ok>>
    /\ UNCHANGED <<n, k, c, i>>
Use ==
    /\ pc = "use"
    /\ ok' = (ok /\ (i - 1) \in stored)                             \* index/transmission backtrace tables of column i-1 are read
    /\ IF i % k = 0 THEN pc' = "free" /\ j' = i ELSE pc' = "back" /\ UNCHANGED j
    /\ i' = IF i % k = 0 THEN i ELSE i - 1
    /\ UNCHANGED <<n, k, c, stored>>
Free ==
    /\ pc = "free"
    /\ IF j < i + k /\ j < n - 1
       THEN /\ ok' = (ok /\ j \in stored)                           \* assert(projection_column_table[j] != nullptr)
            /\ stored' = stored \ {j}
            /\ j' = j + 1 /\ UNCHANGED <<pc, i>>
       ELSE pc' = "back" /\ i' = i - 1 /\ UNCHANGED <<j, stored, ok>>
    /\ UNCHANGED <<n, k, c>>
Done == pc = "back" /\ i = 0 /\ UNCHANGED vars
Next == Forward \/ BackNeed \/ Recompute \/ Use \/ Free \/ Done
Spec == Init /\ [][Next]_vars

NeverReadsMissingColumn == ok
Ceil(a, b) == (a + b - 1) \div b
MemoryBound == Cardinality(stored) <= Ceil(n, IF k = 0 THEN 1 ELSE k) + 2 * k + 1
=============================================================================
