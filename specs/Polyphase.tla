------------------------------ MODULE Polyphase ------------------------------
(* Property-level specification of `whatshap polyphase` (C15): a RELATION between
   the input VCF, the output VCF and the run's configuration.  Nothing about
   phasing quality is stated: which variants get phased, where blocks are cut
   and how alleles are ordered is the heuristic's business.

   A run r is a record
     ploidy, distrust (BOOLEAN), exc ("" = returned normally)
     targets   sequence of sample indices selected for phasing
     chroms    sequence of chromosome ids selected for phasing
     inh, outh sequences of header definitions (interned "FORMAT/GT", "contig/chr1" ...)
     ins, outs sequences of sample names (interned)
     inr, outr sequences of records
                 [c (chromosome id), pos (1-based POS), fixed (interned ID/REF/ALT/QUAL/FILTER/INFO),
                  keys (FORMAT keys without the phase-encoding keys PS/HP/HS/PQ),
                  calls (per sample) [gt (alleles, -1 = '.'), ph (GT written with '|'),
                                      ps (PS value or -1), rest (interned values of all other
                                      FORMAT keys), raw (interned whole sample column)]]
     acc       per sample index: the keys of the sample's READ-COVERED HETEROZYGOUS
               variants (heterozygous call of the run's ploidy, spanned by a read of the
               sample that spans at least two such variants), computed from the world
   The phase encoding of a call is (order and separator of GT, PS, HP, HS, PQ):
   exactly what the statement exempts from "passed through".                          *)
EXTENDS Util

Undet == -1     \* a missing allele '.' of a GT / an undetermined haplotype slot

IsHet(gt) == /\ Len(gt) >= 2
             /\ Undet \notin Rng(gt)
             /\ \E i, j \in DOMAIN gt : gt[i] # gt[j]

(* ------------------------------------------------------------------ *)
(* genotype forcing (mechanism 1): a haplotype column forced onto a genotype.
   col, res: alleles per haplotype slot (Undet allowed), gt: the target genotype
   as a sequence of alleles.  The contract only speaks about determined columns. *)
ForceOK(col, gt, res) ==
    /\ Len(res) = Len(col)
    /\ (Undet \notin Rng(col)) => SameBag(res, gt)

(* ------------------------------------------------------------------ *)
(* phase sets as intervals.  acc: the set of keys of the read-covered heterozygous
   variants of one sample (keys ordered like positions); S: the phased sites of that
   sample, a set of [key, ps] (ps = key of the variant whose position names the set). *)
MembersCovered(acc, S) == \A x \in S : x.key \in acc
NamedByFirst(acc, S)   == \A x \in S : x.ps \in acc /\ x.ps <= x.key
Disjoint(S)            == \A x, y \in S : (x.key < y.key /\ x.ps # y.ps) => x.key < y.ps
IntervalsOK(acc, S)    == MembersCovered(acc, S) /\ NamedByFirst(acc, S) /\ Disjoint(S)

(* The same statement said directly: the order acc can be cut into intervals (given by
   the set of their first elements) such that every phased site carries the first
   element of the interval it lies in.  MC_PolyCuts checks the two forms equivalent. *)
IntervalsByPartition(acc, S) ==
    \E starts \in SUBSET acc :
        \A x \in S : /\ x.key \in acc
                     /\ x.ps \in starts
                     /\ x.ps <= x.key
                     /\ ~ \E t \in starts : x.ps < t /\ t <= x.key

(* ------------------------------------------------------------------ *)
(* the run relation *)
Key(rec)        == rec.c * 100000 + rec.pos
PsKey(rec, cl)  == rec.c * 100000 + cl.ps
ChromOfKey(k)   == k \div 100000

SameShape(r) ==
    /\ Len(r.inr) = Len(r.outr)
    /\ \A i \in DOMAIN r.inr : Len(r.inr[i].calls) = Len(r.outr[i].calls)

Samples(r) == 1..Len(r.ins)
Selected(r, i, s)  == s \in Rng(r.targets) /\ r.inr[i].c \in Rng(r.chroms)
(* a selected sample is worked on iff it has reads linking two of its heterozygous variants *)
Processed(r, i, s) == Selected(r, i, s) /\ \E k \in Rng(r.acc[s]) : ChromOfKey(k) = r.inr[i].c

RecordsKept(r) ==
    /\ Len(r.inr) = Len(r.outr)
    /\ \A i \in DOMAIN r.inr : r.inr[i].c = r.outr[i].c /\ r.inr[i].pos = r.outr[i].pos
FixedFieldsKept(r) ==
    SameShape(r) => \A i \in DOMAIN r.inr : r.inr[i].fixed = r.outr[i].fixed
SamplesKept(r) == r.ins = r.outs
HeaderKept(r)  == Rng(r.inh) \subseteq Rng(r.outh)
(* calls of samples / chromosomes not selected, and of selected samples without linking
   reads, are copied verbatim (including any phasing they carried) *)
OthersUntouched(r) ==
    SameShape(r) => \A i \in DOMAIN r.inr : \A s \in DOMAIN r.inr[i].calls :
        ~Processed(r, i, s) => r.inr[i].calls[s].raw = r.outr[i].calls[s].raw
(* every FORMAT field outside the phase encoding keeps its place and value *)
FormatFieldsKept(r) ==
    SameShape(r) => \A i \in DOMAIN r.inr :
        /\ (\E s \in DOMAIN r.inr[i].calls : Processed(r, i, s)) => r.inr[i].keys = r.outr[i].keys
        /\ \A s \in DOMAIN r.inr[i].calls :
              Processed(r, i, s) => r.inr[i].calls[s].rest = r.outr[i].calls[s].rest

GenotypeObeyed(r) ==
    (SameShape(r) /\ ~r.distrust) => \A i \in DOMAIN r.inr : \A s \in DOMAIN r.inr[i].calls :
        (Processed(r, i, s) /\ r.outr[i].calls[s].ph) => SameBag(r.outr[i].calls[s].gt, r.inr[i].calls[s].gt)
UnphasedGenotypeKept(r) ==
    (SameShape(r) /\ ~r.distrust) => \A i \in DOMAIN r.inr : \A s \in DOMAIN r.inr[i].calls :
        (Processed(r, i, s) /\ ~r.outr[i].calls[s].ph) => SameBag(r.outr[i].calls[s].gt, r.inr[i].calls[s].gt)
OnlyHet(r) ==
    SameShape(r) => \A i \in DOMAIN r.inr : \A s \in DOMAIN r.inr[i].calls :
        (Processed(r, i, s) /\ r.outr[i].calls[s].ph) =>
            /\ IsHet(r.inr[i].calls[s].gt)
            /\ Len(r.inr[i].calls[s].gt) = r.ploidy
            /\ IsHet(r.outr[i].calls[s].gt)          \* also when --distrust-genotypes changed the genotype

PhasedSites(r, s) ==
    { [key |-> Key(r.outr[i]), ps |-> PsKey(r.outr[i], r.outr[i].calls[s])] :
        i \in { j \in DOMAIN r.outr : Processed(r, j, s) /\ r.outr[j].calls[s].ph } }
AccSet(r, s) == Rng(r.acc[s])

PhaseSetMembersCovered(r) == SameShape(r) => \A s \in Samples(r) : MembersCovered(AccSet(r, s), PhasedSites(r, s))
PhaseSetNamedByFirst(r)   == SameShape(r) => \A s \in Samples(r) : NamedByFirst(AccSet(r, s), PhasedSites(r, s))
PhaseSetsAreIntervals(r)  == SameShape(r) => \A s \in Samples(r) : Disjoint(PhasedSites(r, s))

PolyphaseOK(r) ==
    /\ RecordsKept(r) /\ FixedFieldsKept(r) /\ SamplesKept(r) /\ HeaderKept(r)
    /\ OthersUntouched(r) /\ FormatFieldsKept(r)
    /\ GenotypeObeyed(r) /\ UnphasedGenotypeKept(r) /\ OnlyHet(r)
    /\ PhaseSetMembersCovered(r) /\ PhaseSetNamedByFirst(r) /\ PhaseSetsAreIntervals(r)
=============================================================================
