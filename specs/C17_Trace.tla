------------------------------ MODULE C17_Trace ------------------------------
(* Trace validation for C17.  One trace (tid) = one history over real files:

     World          v0 : sample -> site -> call [ph, ps, al, raw] of the phased VCF V0 as written
                    reads : [smp, tpl, cov, al]  the error-free reads (alleles by construction)
     Haplotag       b : read -> [hp, ps]    projection of the BAM written by whatshap haplotag
     Unphase        u : sample -> site -> call   projection of the VCF given to haplotagphase
                    (output of whatshap unphase; with a partially phased input the kept
                    phase sets are copied back from V0)
     HaplotagPhase  w : sample -> site -> call   projection of the VCF written by whatshap haplotagphase

   exc = "" or the exception type.  The abstract file system is carried in `fs`. *)
EXTENDS TagPhaseChain, Json, IOUtils, TLC
Trace == ndJsonDeserialize(IOEnv.TRACE_FILE)
VARIABLES l, fs
vars == <<l, fs>>

Fail(e, c) == PrintT(<<"VERDICT", e.tid, e.seq, c>>)
Check(e, c, ok) == IF ok THEN TRUE ELSE Fail(e, c)

Empty == [have |-> {}, v0 |-> <<>>, reads |-> <<>>, b |-> <<>>, u |-> <<>>]

JudgeFinal(e) ==
    IF ~({"V0", "B", "U"} \subseteq fs.have) THEN Fail(e, "IncompleteHistory")
    ELSE /\ Check(e, "Shape", Len(e.w) = Len(fs.v0) /\ \A s \in DOMAIN e.w : Len(e.w[s]) = Len(fs.v0[s]))
         /\ (Len(e.w) = Len(fs.v0) /\ \A s \in DOMAIN e.w : Len(e.w[s]) = Len(fs.v0[s])) =>
              /\ Check(e, "OrderRestored", \A s \in DOMAIN e.w : OrderRestored(fs.v0[s], fs.u[s], e.w[s]))
              /\ Check(e, "AllelesKept", \A s \in DOMAIN e.w : AllelesKept(fs.v0[s], fs.u[s], e.w[s]))
              /\ Check(e, "SetOfCoveringReads", \A s \in DOMAIN e.w : SetOfCoveringReads(fs.reads, fs.b, s, fs.u[s], e.w[s]))
              /\ Check(e, "PrephasedUntouched", \A s \in DOMAIN e.w : PrephasedUntouched(fs.u[s], e.w[s]))

Judge(e) ==
    CASE e.ev = "World"    -> Check(e, "Premise", SetsSeparated(e.reads, e.v0))
      [] e.ev = "Haplotag" -> /\ Check(e, "Returns", e.exc = "")
                              /\ e.exc = "" => Check(e, "Shape", Len(e.b) = Len(fs.reads))
      [] e.ev = "Unphase"  -> /\ Check(e, "Returns", e.exc = "")
                              /\ e.exc = "" => Check(e, "Shape", Len(e.u) = Len(fs.v0))
      [] e.ev = "HaplotagPhase" -> /\ Check(e, "Returns", e.exc = "")
                                   /\ e.exc = "" => JudgeFinal(e)
      [] e.ev = "Crashed"  -> Fail(e, "Returns")
      [] OTHER             -> Fail(e, "UnknownEvent")

Apply(e) ==
    LET base == IF e.seq = 1 THEN Empty ELSE fs IN
    CASE e.ev = "World"    -> [Empty EXCEPT !.have = {"V0"}, !.v0 = e.v0, !.reads = e.reads]
      [] e.ev = "Haplotag" -> IF e.exc = "" THEN [base EXCEPT !.have = @ \cup {"B"}, !.b = e.b] ELSE base
      [] e.ev = "Unphase"  -> IF e.exc = "" THEN [base EXCEPT !.have = @ \cup {"U"}, !.u = e.u] ELSE base
      [] OTHER             -> base

Init == l = 1 /\ fs = Empty
Next == /\ l <= Len(Trace)
        /\ LET e == Trace[l] IN Judge(e) /\ fs' = Apply(e)
        /\ l' = l + 1
Spec == Init /\ [][Next]_vars
=============================================================================
