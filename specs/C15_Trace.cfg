SPECIFICATION Spec
