SPECIFICATION Spec
CONSTANTS MaxN = 40
          Variant = "code"
INVARIANT Preconditions
INVARIANT SpaceBound
INVARIANT TimeBound
INVARIANT Complete
PROPERTY Terminates
