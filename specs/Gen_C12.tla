------------------------------- MODULE Gen_C12 -------------------------------
(* Scenario enumeration by TLC for C12 (spec -> code).

   A pattern is the sequence of call kinds of the sites of one chromosome:

      0  0/0  SNV                     5  partially missing call tagged with the
      1  1/1  SNV                        phase information of set 1 ('.|1' + PS,
      2  0/1  SNV, unphased              './1' + HP)
      3  ./.                          6  0/1  non-SNV, unphased
      4  0/.                          7  1/1  non-SNV
      10+L  heterozygous SNV in phase set L        (L = 1..MaxSets)
      20+L  heterozygous non-SNV in phase set L

   Set labels are canonical: label L+1 first occurs after label L (the driver
   assigns arbitrary ids, so every id order is still exercised).  Interleaved
   (A B A B) and nested (A B B A) sets are ordinary members of the space.
   Every pattern over the chosen kinds with MinLen..MaxLen sites is written.

   Families of blocks for the replay of StatsSplit into the real PhasingStats:
   every canonical labelling of FamPos positions with at most FamBlocks blocks.

   The ASSUME lets TLC confirm the identities of Stats.tla on the view of every
   pattern it writes (with and without --only-snvs). *)
EXTENDS Stats, Json, IOUtils, SequencesExt, TLC
CONSTANTS Fixed, NonSnvSets, MaxSets, MinLen, MaxLen, FamPos, FamBlocks

LabelOf(x) == IF x >= 20 THEN x - 20 ELSE IF x >= 10 THEN x - 10 ELSE 0
RECURSIVE MaxSetLab(_)
MaxSetLab(p) == IF p = <<>> THEN 0 ELSE Max2(LabelOf(p[Len(p)]), MaxSetLab(SubSeq(p, 1, Len(p) - 1)))
SetKinds(p) == LET ls == 1..Min2(MaxSetLab(p) + 1, MaxSets)
               IN { 10 + l : l \in ls } \cup (IF NonSnvSets THEN { 20 + l : l \in ls } ELSE {})
RECURSIVE Pats(_)
Pats(n) == IF n = 0 THEN { <<>> }
           ELSE UNION { { Append(p, x) : x \in Fixed \cup SetKinds(p) } : p \in Pats(n - 1) }
AllPats == UNION { Pats(n) : n \in MinLen..MaxLen }

SiteOf(x, i) ==
    [pos |-> 10 * i,
     snv |-> ~(x \in {6, 7} \/ x >= 20),
     gt  |-> CASE x \in {0}    -> <<0, 0>>
               [] x \in {1, 7} -> <<1, 1>>
               [] x = 3        -> <<-1, -1>>
               [] x = 4        -> <<0, -1>>
               [] x = 5        -> <<-1, 1>>
               [] OTHER        -> <<0, 1>>,
     ps  |-> IF x = 5 THEN 1 ELSE IF x >= 10 THEN LabelOf(x) ELSE -1]
ViewOf(p) == [i \in DOMAIN p |-> SiteOf(p[i], i)]

ASSUME \A p \in AllPats : Identities(ViewOf(p)) /\ Identities(Considered(ViewOf(p), TRUE))

Fams == IF FamPos = 0 THEN {} ELSE Labellings(FamPos, FamBlocks)

ASSUME PrintT(<<"sizes", Cardinality(AllPats), Cardinality(Fams)>>)
ASSUME ndJsonSerialize(IOEnv.OUT_FILE,
          SetToSeq({ [k |-> "pat", s |-> p] : p \in AllPats }) \o SetToSeq({ [k |-> "fam", lab |-> l] : l \in Fams }))
=============================================================================
