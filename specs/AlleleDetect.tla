---------------------------- MODULE AlleleDetect ----------------------------
(* C06, the relation between a read's geometry and what allele detection may
   report for a variant.  A read (one query name) consists of 1-2 alignments;
   each alignment is described by its ALIGNED BLOCKS on the reference
   (half-open 0-based intervals; soft/hard clips excluded, N skips split blocks).
   A variant v = [pos, reflen, altlen, kind, truth, det, clean, unshiftable]:
   truth = allele carried by the haplotype the read copies, det = allele
   recorded (-1 none), clean = no other difference from the reference and no
   clip/skip inside the +-overhang window. *)
EXTENDS Util

(* An indel lies BETWEEN its anchor base (v.pos) and the base after its reference allele: a read sees it
   only if it has aligned bases on both flanks, so the covered/overlapped interval of an insertion or
   deletion extends one base beyond the reference allele.  (A read that starts right after the anchor of
   an insertion, or ends at the anchor, is a boundary read: it neither fully covers the variant nor is
   it disjoint from it - the property leaves such partially overlapping reads unconstrained.) *)
CoverEnd(v) == v.pos + v.reflen + (IF v.kind \in {2, 3, 5} THEN 1 ELSE 0)    \* 5 = multi-allelic record (may contain indel alleles)
BlockCovers(b, v) == b[1] <= v.pos /\ CoverEnd(v) <= b[2]
BlockCoversStrict(b, v) == b[1] < v.pos /\ v.pos + v.reflen < b[2]
BlockOverlaps(b, v) == b[1] < CoverEnd(v) /\ v.pos < b[2]

Blocks(e) == UNION { Rng(e.segs[k].blocks) : k \in DOMAIN e.segs }
FullyCovers(e, v) == \E b \in Blocks(e) : BlockCovers(b, v)
StrictlyCovers(e, v) == \E b \in Blocks(e) : BlockCoversStrict(b, v)
Overlaps(e, v) == \E b \in Blocks(e) : BlockOverlaps(b, v)
(* every alignment of the read that touches the variant covers it strictly (no mate sees it only partially) *)
AllTouchingCoverStrictly(e, v) == \A b \in Blocks(e) : BlockOverlaps(b, v) => BlockCoversStrict(b, v)

NeverWrong(e, v) == FullyCovers(e, v) => v.det \in {v.truth, -1}
NoneIfNoOverlap(e, v) == ~Overlaps(e, v) => v.det = -1
AlwaysFoundRef(e, v) ==
    (e.withref /\ StrictlyCovers(e, v) /\ AllTouchingCoverStrictly(e, v) /\ v.clean) => v.det = v.truth
AlwaysFoundNoRef(e, v) ==
    (~e.withref /\ v.kind \in {1, 2, 3} /\ v.unshiftable /\ StrictlyCovers(e, v) /\ AllTouchingCoverStrictly(e, v) /\ v.clean)
        => v.det = v.truth

(* sanity of the materialised alignment (binds the harness to SeqWorld's invariants) *)
CigRefLen(cg) == SumSeq([k \in DOMAIN cg |-> IF cg[k][1] \in {0, 2, 3, 7, 8} THEN cg[k][2] ELSE 0])
CigQryLen(cg) == SumSeq([k \in DOMAIN cg |-> IF cg[k][1] \in {0, 1, 4, 7, 8} THEN cg[k][2] ELSE 0])
SegSane(s) == /\ CigRefLen(s.cig) = s.re - s.rs
              /\ CigQryLen(s.cig) = s.qlen
              /\ \A k \in DOMAIN s.blocks : s.rs <= s.blocks[k][1] /\ s.blocks[k][1] < s.blocks[k][2] /\ s.blocks[k][2] <= s.re
=============================================================================
