SPECIFICATION Spec
