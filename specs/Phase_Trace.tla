----------------------------- MODULE Phase_Trace -----------------------------
(* Trace validation of whole `whatshap phase` runs (C02, C03, C05, C20).  One
   line = one run: the abstract world it was given, the H1 hook records of every
   (chromosome, family) instance and the projection of everything it wrote.
   Clause names carry the property id; each property's check reports its own. *)
EXTENDS PhaseRun, Json, IOUtils
Trace == ndJsonDeserialize(IOEnv.TRACE_FILE)
VARIABLE l
Fail(e, c) == PrintT(<<"VERDICT", e.tid, e.seq, c>>)
Check(e, c, ok) == IF ok THEN TRUE ELSE Fail(e, c)

ReadBased(e) == e.ped = <<>>
JudgeRun(e) ==
    /\ Check(e, "Returns", e.exc = "")
    /\ IF e.exc # "" THEN TRUE ELSE
       /\ \A s \in Rng(e.targets), c \in Rng(e.csel) :
            /\ (e.errfree /\ ~e.distrust /\ ReadBased(e)) => Check(e, "C02_TruthUpToFlip", TruthUpToFlip(e, s, c))
            /\ Check(e, "C03_PhasedOnlyAccessible", PhasedOnlyAccessible(e, s, c))
            /\ Check(e, "C03_SetsAreComponents", SetsAreComponents(e, s, c))
            /\ Check(e, "C03_NamedByLeftmost", NamedByLeftmost(e, s, c))
       /\ (e.ped # <<>> /\ ~e.distrust) =>
            \A c \in Rng(e.csel) :
                /\ Check(e, "C05_PaternalMaternal", PaternalMaternal(e, c))
                /\ Check(e, "C05_TransmissionConsistent", TransmissionConsistent(e, c))
                /\ Check(e, "C05_ConflictOrMissingUnphased", ConflictOrMissingUnphased(e, c))
                /\ Check(e, "C05_GeneticHaplotyping", GeneticHaplotyping(e, c))
       \* the transmission the run REPORTS to the user is the recombination list: it must agree with the transmission vector
       \* behind the phased calls (same relations as C20, judged for C05 on pedigree runs)
       /\ (e.ped # <<>> /\ ~e.distrust) => Check(e, "C05_ReportedTransmissionInList", RecombInsideSet(e) /\ RecombAllRuns(e))
       /\ Check(e, "C20_ReadListComplete", ReadListComplete(e))
       /\ Check(e, "C20_GtChangesExact", GtChangesExact(e))
       /\ Check(e, "C20_RecombInsideSet", RecombInsideSet(e))
       /\ Check(e, "C20_RecombAllRuns", RecombAllRuns(e))

Judge(e) ==
    CASE e.ev = "PhaseRun" -> JudgeRun(e)
      [] e.ev = "Crashed"  -> Fail(e, "Returns")
      [] OTHER             -> Fail(e, "UnknownEvent")
Init == l = 1
Next == l <= Len(Trace) /\ Judge(Trace[l]) /\ l' = l + 1
Spec == Init /\ [][Next]_l
=============================================================================
