SPECIFICATION Spec
CONSTANTS MaxP = 4
          MaxA = 5
INVARIANT DefIsRank
INVARIANT ClosedFormIsDef
INVARIANT Gapless
INVARIANT CountIsBinomial
INVARIANT TotalOrder
