------------------------------ MODULE PhaseRun ------------------------------
(* Property-level specification of one run of `whatshap phase` (default exact
   algorithm), as a relation between the abstract world the run was given, the
   solver instances it built per (chromosome, family) (H1 events) and what it
   wrote.  Used by the trace specs of C02, C03, C05 and C20.

   A run record e (JSON shape of the trace):
     nS, nC            number of samples / chromosomes (1-based indices below)
     sites[c]          sequence of [pos, kind] (0-based position; 1 snv 2 ins 3 del 4 mnp)
     truth[s][c][i]    <<a0, a1>> true haplotype alleles of sample s at site i
     vgt[s][c][i]      <<a, b>> genotype written in the input VCF (-1 = missing allele)
     errfree           reads are error-free copies of the true haplotypes
     targets, csel     samples / chromosomes the run was asked to process
     ped               sequence of <<father, mother, child>> given in the PED file (empty: none)
     k, distrust, genhap
     h1                sequence of solver instances: [c, fam, trios, reads, acc, hom, rc, cost, part, tv, sr, comps]
                       reads[r] = [s, src, name, vars = << <<pos, allele, q>>, ... >>]
                       comps = << <<pos, component>>, ... >>
     out[s][c]         sequence over sites of [pos, a, b, ph, ps]: the phase statement the output file
                       makes for that call under either encoding (ph = FALSE: unphased, a <= b)
     lists             [readreq, gtreq, recreq, read, gt, rec], indiff (genotype differences input/output) *)
EXTENDS Util, TLC

SiteIdx(e, c, p) == CHOOSE i \in DOMAIN e.sites[c] : e.sites[c][i].pos = p
IsSite(e, c, p) == \E i \in DOMAIN e.sites[c] : e.sites[c][i].pos = p
Flip(x) == <<x[2], x[1]>>

Phased(e, s, c) == { i \in DOMAIN e.out[s][c] : e.out[s][c][i].ph }
SetsOf(e, s, c) == { e.out[s][c][i].ps : i \in Phased(e, s, c) }
MembersOf(e, s, c, ps) == { i \in Phased(e, s, c) : e.out[s][c][i].ps = ps }

(* ------------------------------------------------------------------ C02 *)
(* every phase set carries exactly the true alleles, up to exchanging the two haplotypes of the set as a whole *)
TruthUpToFlip(e, s, c) ==
    \A ps \in SetsOf(e, s, c) :
        LET M == MembersOf(e, s, c, ps)
            stated(i) == <<e.out[s][c][i].a, e.out[s][c][i].b>>
            true_(i) == e.truth[s][c][SiteIdx(e, c, e.out[s][c][i].pos)]
        IN \/ \A i \in M : stated(i) = true_(i)
           \/ \A i \in M : stated(i) = Flip(true_(i))

(* ------------------------------------------------------------------ C03 *)
H1For(e, c, s) == { j \in DOMAIN e.h1 : e.h1[j].c = c /\ s \in Rng(e.h1[j].fam) }
PosOfRead(r) == { r.vars[k][1] : k \in DOMAIN r.vars }

(* With trusted genotypes every position of a read links (the phasable table holds heterozygous sites only, plus - in
   pedigree mode - the master block of positions homozygous in some family member).  With --distrust-genotypes
   heterozygosity is decided by the RESULT: a read links the positions at which the super-reads of its sample are
   heterozygous, and the master block consists of the accessible positions at which the super-reads of some family
   member are homozygous (H1 records the super-reads, so this is the run's own view of its result). *)
FamIdx(h, s) == CHOOSE f \in DOMAIN h.fam : h.fam[f] = s
AccIdx(h, p) == CHOOSE x \in DOMAIN h.acc : h.acc[x] = p
SRPair(h, s, p) == << h.sr[FamIdx(h, s)][1][AccIdx(h, p)], h.sr[FamIdx(h, s)][2][AccIdx(h, p)] >>
HetD(h, s, p) == s \in Rng(h.fam) /\ p \in Rng(h.acc) /\ SRPair(h, s, p) \in { <<0, 1>>, <<1, 0>> }
HomD(h, s, p) == s \in Rng(h.fam) /\ p \in Rng(h.acc) /\ SRPair(h, s, p) \in { <<0, 0>>, <<1, 1>> }
Master(e, h) ==
    IF Len(h.fam) > 1 /\ e.genhap
    THEN IF e.distrust THEN { p \in Rng(h.acc) : \E s \in Rng(h.fam) : HomD(h, s, p) }
         ELSE Rng(h.hom) \cap Rng(h.acc)
    ELSE {}
ReadLinks(e, h, r, p) == p \in PosOfRead(r) /\ (e.distrust => HetD(h, r.s, p))
Links(e, h) ==
    LET master == Master(e, h) IN
    { <<p, q>> \in (Rng(h.acc) \X Rng(h.acc)) :
        \/ p = q
        \/ \E r \in DOMAIN h.reads : ReadLinks(e, h, h.reads[r], p) /\ ReadLinks(e, h, h.reads[r], q)
        \/ (p \in master /\ q \in master) }

RECURSIVE Closure(_, _)
(* component (set of positions) reachable from the set S under the link relation L *)
Closure(S, L) ==
    LET T == S \cup { q \in { l[2] : l \in L } : \E p \in S : <<p, q>> \in L }
    IN IF T = S THEN S ELSE Closure(T, L)

CompOf(e, h, p) == Closure({p}, Links(e, h))

(* two phased variants share a phase set iff connected; the id is 1 + leftmost position of the component *)
SetsAreComponents(e, s, c) ==
    \A j \in H1For(e, c, s) :
        LET h == e.h1[j] IN
        \A u, v \in Phased(e, s, c) :
            LET pu == e.out[s][c][u].pos pv == e.out[s][c][v].pos IN
            (pu \in Rng(h.acc) /\ pv \in Rng(h.acc)) =>
                ((e.out[s][c][u].ps = e.out[s][c][v].ps) <=> (pv \in CompOf(e, h, pu)))
NamedByLeftmost(e, s, c) ==
    \A j \in H1For(e, c, s) :
        LET h == e.h1[j] IN
        \A u \in Phased(e, s, c) :
            LET pu == e.out[s][c][u].pos IN
            pu \in Rng(h.acc) => e.out[s][c][u].ps = 1 + MinSet(CompOf(e, h, pu))
PhasedOnlyAccessible(e, s, c) ==
    \A u \in Phased(e, s, c) : \E j \in H1For(e, c, s) : e.out[s][c][u].pos \in Rng(e.h1[j].acc)

(* ------------------------------------------------------------------ C05 *)
Alleles(g) == {g[1], g[2]}
Missing(g) == g[1] = -1 \/ g[2] = -1
GenoSum(g) == g[1] + g[2]
(* child genotype obtainable by one allele from each parent *)
MendelOK(f, m, ch) == \E x \in Alleles(f), y \in Alleles(m) : Alleles(ch) = {x, y} /\ GenoSum(ch) = x + y
TrioBad(e, t, c, i) ==
    LET f == e.vgt[t[1]][c][i] m == e.vgt[t[2]][c][i] ch == e.vgt[t[3]][c][i] IN
    Missing(f) \/ Missing(m) \/ Missing(ch) \/ ~MendelOK(f, m, ch)
FamilyOf(e, s) == { x \in 1..e.nS : \E j \in DOMAIN e.h1 : s \in Rng(e.h1[j].fam) /\ x \in Rng(e.h1[j].fam) }
TriosOf(e, s) == { k \in DOMAIN e.ped : s \in Rng(e.ped[k]) }
OutAt(e, s, c, i) == e.out[s][c][i]

PaternalMaternal(e, c) ==
    \A k \in DOMAIN e.ped :
        LET t == e.ped[k] IN
        \A i \in DOMAIN e.sites[c] :
            OutAt(e, t[3], c, i).ph =>
                /\ OutAt(e, t[3], c, i).a \in Alleles(e.vgt[t[1]][c][i])
                /\ OutAt(e, t[3], c, i).b \in Alleles(e.vgt[t[2]][c][i])

(* transmission values of the h1 event of chromosome c that contains trio t, at position p, for that trio *)
TrioIndexIn(h, t) == CHOOSE k \in DOMAIN h.trios : h.trios[k] = t
TVAt(h, p) == h.tv[CHOOSE x \in DOMAIN h.acc : h.acc[x] = p]
TransmissionConsistent(e, c) ==
    \A j \in DOMAIN e.h1 :
        LET h == e.h1[j] IN
        h.c = c =>
        \A k \in DOMAIN h.trios :
            LET t == h.trios[k] IN
            \A i \in DOMAIN e.sites[c] :
                LET p == e.sites[c][i].pos
                    ch == OutAt(e, t[3], c, i) fa == OutAt(e, t[1], c, i) mo == OutAt(e, t[2], c, i) IN
                (p \in Rng(h.acc) /\ ch.ph) =>
                    LET tvv == TVAt(h, p)
                        fbit == Bit(tvv, 2 * (k - 1)) mbit == Bit(tvv, 2 * (k - 1) + 1) IN
                    /\ (fa.ph /\ fa.ps = ch.ps) => ch.a = (IF fbit = 1 THEN fa.a ELSE fa.b)
                    /\ (mo.ph /\ mo.ps = ch.ps) => ch.b = (IF mbit = 1 THEN mo.a ELSE mo.b)

ConflictOrMissingUnphased(e, c) ==
    \A k \in DOMAIN e.ped :
        \A i \in DOMAIN e.sites[c] :
            TrioBad(e, e.ped[k], c, i) =>
                \A s \in FamilyOf(e, e.ped[k][3]) : ~OutAt(e, s, c, i).ph

IsHet(g) == ~Missing(g) /\ g[1] # g[2]
IsHom(g) == ~Missing(g) /\ g[1] = g[2]
(* by default a child-heterozygous site with a homozygous parent is phased even without reads,
   provided no trio of the family is in conflict / has a missing genotype there and the site's type is supported *)
GeneticHaplotyping(e, c) ==
    e.genhap =>
    \A k \in DOMAIN e.ped :
        LET t == e.ped[k] IN
        \A i \in DOMAIN e.sites[c] :
            ( /\ IsHet(e.vgt[t[3]][c][i])
              /\ (IsHom(e.vgt[t[1]][c][i]) \/ IsHom(e.vgt[t[2]][c][i]))
              /\ \A k2 \in DOMAIN e.ped : (FamilyOf(e, e.ped[k2][3]) = FamilyOf(e, t[3])) => ~TrioBad(e, e.ped[k2], c, i)
              /\ \A s \in FamilyOf(e, t[3]) : ~Missing(e.vgt[s][c][i])
              /\ (e.onlysnv => e.sites[c][i].kind = 1) )
            => OutAt(e, t[3], c, i).ph

(* ------------------------------------------------------------------ C20 *)
AllH1Reads(e) == { <<j, r>> \in UNION { { <<j, r>> : r \in DOMAIN e.h1[j].reads } : j \in DOMAIN e.h1 } : TRUE }
CompAt(h, p) == LET x == CHOOSE y \in DOMAIN h.comps : h.comps[y][1] = p IN h.comps[x][2]
ExpectedReadLine(e, jr) ==
    LET h == e.h1[jr[1]] r == h.reads[jr[2]] IN
    [name |-> r.name, s |-> r.s, ps |-> CompAt(h, r.vars[1][1]) + 1, hap |-> h.part[jr[2]],
     n |-> Len(r.vars), first |-> r.vars[1][1] + 1, last |-> r.vars[Len(r.vars)][1] + 1]
ListedReadLine(x) == [name |-> x.name, s |-> x.s, ps |-> x.ps, hap |-> x.hap, n |-> x.n, first |-> x.first, last |-> x.last]
ReadListComplete(e) ==
    e.lists.readreq =>
        LET exp == [jr \in AllH1Reads(e) |-> ExpectedReadLine(e, jr)]
            got == e.lists.read IN
        /\ Len(got) = Cardinality(AllH1Reads(e))
        /\ \A jr \in AllH1Reads(e) : Cardinality({ x \in DOMAIN got : ListedReadLine(got[x]) = exp[jr] })
                                      = Cardinality({ jr2 \in AllH1Reads(e) : exp[jr2] = exp[jr] })
        /\ \A x \in DOMAIN got : \E jr \in AllH1Reads(e) : ListedReadLine(got[x]) = exp[jr]

GtChangesExact(e) ==
    /\ (~e.distrust) => e.indiff = <<>>
    /\ e.lists.gtreq => (Rng(e.lists.gt) = Rng(e.indiff) /\ Len(e.lists.gt) = Len(e.indiff))

RecombInsideSet(e) ==
    e.lists.recreq =>
        \A x \in DOMAIN e.lists.rec :
            LET l == e.lists.rec[x] IN
            \E j \in DOMAIN e.h1 :
                LET h == e.h1[j] IN
                /\ h.c = l.c /\ l.child \in Rng(h.fam)
                /\ l.p1 \in Rng(h.acc) /\ l.p2 \in Rng(h.acc) /\ l.p1 < l.p2
                /\ CompAt(h, l.p1) = CompAt(h, l.p2)
                /\ \E k \in DOMAIN h.trios :
                      /\ h.trios[k][3] = l.child
                      /\ LET v1 == (TVAt(h, l.p1) \div (4 ^ (k - 1))) % 4
                             v2 == (TVAt(h, l.p2) \div (4 ^ (k - 1))) % 4 IN
                         /\ l.f1 = v1 % 2 /\ l.f2 = v2 % 2 /\ l.m1 = v1 \div 2 /\ l.m2 = v2 \div 2
                         /\ v1 # v2

(* every (chromosome, family) whose instance shows a transmission change inside one component
   (not at the first two variants of the component) is represented in the list *)
BlockPositions(h, comp) == { h.comps[y][1] : y \in { z \in DOMAIN h.comps : h.comps[z][2] = comp } }
RecombAllRuns(e) ==
    e.lists.recreq =>
        \A j \in DOMAIN e.h1 :
            LET h == e.h1[j] IN
            \A k \in DOMAIN h.trios :
                LET tvk(p) == (TVAt(h, p) \div (4 ^ (k - 1))) % 4
                    hasEvent == \E comp \in { h.comps[y][2] : y \in DOMAIN h.comps } :
                                   LET B == BlockPositions(h, comp) IN
                                   \E p, q \in B : /\ p < q /\ ~\E z \in B : p < z /\ z < q
                                                   /\ Cardinality({ z \in B : z < p }) >= 1
                                                   /\ tvk(p) # tvk(q)
                IN hasEvent => \E x \in DOMAIN e.lists.rec : e.lists.rec[x].c = h.c /\ e.lists.rec[x].child = h.trios[k][3]
=============================================================================
