------------------------------ MODULE MC_Haplotag ------------------------------
(* Design-level state machine of haplotag, model-checked against the property
   clauses of Haplotag.tla on every tiny world.

   The machine is the design of the command, not its property:
     pass 1  Scan(i)    alignments are looked at one by one, IN ANY ORDER; the observed
                        alleles of a usable alignment are added to the score accumulator
                        of its name group, per phase set and haplotype
             Decide(g)  per name group: take a phase set with the highest top score (any
                        of them), tag iff its best haplotype is strictly better than the
                        second
     pass 2  Emit(i)    alignments are written in file order; an eligible alignment gets
                        the decision of its name, everything else loses HP/PS/PC

   Two runs are executed in lock step (a product machine): run 1 on the world W, run 2 on
   W with the two haplotypes of phase set SwapSet exchanged, so that the hyper-property
   Symmetry is an ordinary invariant.  Worlds: one chromosome, one sample, NSites sites,
   NAln alignments; every call pattern, every name grouping, every kind, every observed
   allele/quality combination over Quals. *)
EXTENDS Haplotag, TLC
CONSTANTS NAln, NSites, Quals, Kinds, FixFirstSite, TagSuppOpts
VARIABLES W, pc, scanned, acc, seen, dec, out

vars == <<W, pc, scanned, acc, seen, dec, out>>
Runs == {1, 2}
SwapSet == 1
PSIds == {1, 2}
NoDec == <<0, 0, 0>>          \* decision <<ps, hp, margin>>

CallOpts == { [ph |-> FALSE, ps |-> 0, al |-> <<0, 1>>] }
            \cup { [ph |-> TRUE, ps |-> p, al |-> t] : p \in PSIds, t \in { <<0, 1>>, <<1, 0>> } }
FirstCallOpts == IF FixFirstSite THEN { [ph |-> FALSE, ps |-> 0, al |-> <<0, 1>>], [ph |-> TRUE, ps |-> 1, al |-> <<0, 1>>] }
                 ELSE CallOpts

ObsAt(j) == { <<>> } \cup { << <<j, a, q>> >> : a \in {0, 1}, q \in Quals }
RECURSIVE ObsSeqs(_)
ObsSeqs(j) == IF j = 0 THEN { <<>> } ELSE { s \o t : s \in ObsSeqs(j - 1), t \in ObsAt(j) }

Aln(i, nm, kind, obs) ==
    [ name |-> nm, unm |-> kind = "unm", sec |-> kind = "sec", sup |-> kind = "sup",
      mapq |-> IF kind = "low" THEN 0 ELSE 60, rg |-> 1,
      chrom |-> IF kind = "unm" THEN 0 ELSE 1, pos |-> 10 * i, end |-> 10 * i + 5, bx |-> 0,
      obs |-> IF kind = "unm" THEN <<>> ELSE obs, rest |-> i ]

AlnOpts(i) == { Aln(i, nm, kind, obs) : nm \in 1..i, kind \in Kinds, obs \in ObsSeqs(NSites) }

World(calls, alns, ts) ==
    [ ploidy |-> 2, tagSupp |-> ts, linked |-> FALSE, cutoff |-> 0, ignoreRG |-> FALSE, onlySample |-> 1,
      rgSample |-> <<1>>, sites |-> [ j \in 1..NSites |-> [chrom |-> 1, pos |-> 100 * j, len |-> 1] ],
      phase |-> << calls >>, regions |-> <<>>, aln |-> alns ]

(* worlds are built by the first steps of the machine (calls, then one alignment after the
   other, then the option), so that the enumeration of worlds is part of the state graph *)
Skeleton == World([ j \in 1..NSites |-> [ph |-> FALSE, ps |-> 0, al |-> <<0, 1>>] ], <<>>, FALSE)

(* the world of run r *)
WR(r) == IF r = 1 THEN W ELSE [ W EXCEPT !.phase = SwappedPhase(W, 1, 1, SwapSet) ]

Names == 1..NAln
AccDom == Names \X (PSIds \cup {0}) \X {1, 2}
ZeroAcc == [ x \in AccDom |-> 0 ]

Init == /\ W = Skeleton
        /\ pc = "calls"
        /\ scanned = {}
        /\ acc = [ r \in Runs |-> ZeroAcc ]
        /\ seen = [ g \in Names |-> {} ]
        /\ dec = [ r \in Runs |-> [ g \in Names |-> NoDec ] ]
        /\ out = [ r \in Runs |-> <<>> ]

BuildCalls ==
    /\ pc = "calls"
    /\ \E c \in { c \in [1..NSites -> CallOpts] : c[1] \in FirstCallOpts } : W' = [ W EXCEPT !.phase = << c >> ]
    /\ pc' = "aln"
    /\ UNCHANGED <<scanned, acc, seen, dec, out>>
BuildAln ==
    /\ pc = "aln"
    /\ \E a \in AlnOpts(Len(W.aln) + 1) : W' = [ W EXCEPT !.aln = Append(@, a) ]
    /\ pc' = IF Len(W.aln) + 1 = NAln THEN "opts" ELSE "aln"
    /\ UNCHANGED <<scanned, acc, seen, dec, out>>
BuildOpts ==
    /\ pc = "opts"
    /\ \E ts \in TagSuppOpts : W' = [ W EXCEPT !.tagSupp = ts ]
    /\ pc' = "scan"
    /\ UNCHANGED <<scanned, acc, seen, dec, out>>

(* add the observations of alignment i to the accumulator of run r *)
RECURSIVE AddObs(_, _, _, _, _)
AddObs(A, V, g, obs, n) ==
    IF n > Len(obs) THEN A
    ELSE LET j == obs[n][1]
             c == V.phase[1][j]
             A2 == IF c.ph /\ Het(c.al)
                   THEN [ x \in AccDom |->
                            IF x[1] = g /\ x[2] = c.ps /\ obs[n][2] = c.al[x[3]] THEN A[x] + obs[n][3] ELSE A[x] ]
                   ELSE A
         IN AddObs(A2, V, g, obs, n + 1)

Scan(i) ==
    /\ pc = "scan" /\ i \notin scanned
    /\ LET a == W.aln[i] IN
       /\ acc' = [ r \in Runs |-> IF Usable(a) THEN AddObs(acc[r], WR(r), a.name, a.obs, 1) ELSE acc[r] ]
       /\ seen' = IF Usable(a)
                  THEN [ seen EXCEPT ![a.name] = @ \cup { W.phase[1][a.obs[n][1]].ps :
                                                           n \in { m \in DOMAIN a.obs : W.phase[1][a.obs[m][1]].ph } } ]
                  ELSE seen
    /\ scanned' = scanned \cup {i}
    /\ pc' = IF scanned' = 1..NAln THEN "decide" ELSE "scan"
    /\ UNCHANGED <<W, dec, out>>

Top(A, g, p) == Max2(A[<<g, p, 1>>], A[<<g, p, 2>>])

DecisionFor(A, g, p) ==
    LET s1 == A[<<g, p, 1>>]
        s2 == A[<<g, p, 2>>] IN
    IF s1 = s2 THEN NoDec
    ELSE IF s1 > s2 THEN <<p, 1, s1 - s2>> ELSE <<p, 2, s2 - s1>>

(* all groups are decided in one step; the choice among equally good phase sets is free,
   but it is the same in both runs (they differ only by a permutation of one score pair) *)
Decide ==
    /\ pc = "decide"
    /\ \E choice \in [ Names -> PSIds \cup {0} ] :
          /\ \A g \in Names :
                IF seen[g] = {} THEN choice[g] = 0
                ELSE /\ choice[g] \in seen[g]
                     /\ \A p \in seen[g] : Top(acc[1], g, p) <= Top(acc[1], g, choice[g])
          /\ dec' = [ r \in Runs |-> [ g \in Names |->
                         IF choice[g] = 0 THEN NoDec ELSE DecisionFor(acc[r], g, choice[g]) ] ]
    /\ pc' = "emit"
    /\ UNCHANGED <<W, scanned, acc, seen, out>>

Emit ==
    /\ pc = "emit"
    /\ LET i == Len(out[1]) + 1
           a == W.aln[i] IN
       /\ out' = [ r \in Runs |->
                     LET d == dec[r][a.name] IN
                     Append(out[r],
                        IF Eligible(W, a) /\ d # NoDec
                        THEN [rest |-> a.rest, hp |-> d[2], ps |-> d[1], pc |-> d[3]]
                        ELSE [rest |-> a.rest, hp |-> Absent, ps |-> Absent, pc |-> Absent]) ]
       /\ pc' = IF i = NAln THEN "done" ELSE "emit"
    /\ UNCHANGED <<W, scanned, acc, seen, dec>>

Next == BuildCalls \/ BuildAln \/ BuildOpts \/ (\E i \in 1..NAln : Scan(i)) \/ Decide \/ Emit
Spec == Init /\ [][Next]_vars

-----------------------------------------------------------------------------
(* invariants: the property clauses on the finished runs *)
Done == pc = "done"
AllOut(r, P(_, _, _)) == \A n \in 1..NAln : P(WR(r), n, out[r][n])

InvConservation == Done => \A r \in Runs : Conservation(WR(r), out[r])
InvTagShape     == Done => \A r \in Runs : \A n \in 1..NAln : TagShape(out[r][n])
InvDecision     == Done => \A r \in Runs : AllOut(r, Decision)
InvUntaggedWhen == Done => \A r \in Runs : AllOut(r, UntaggedWhen)
InvIneligible   == Done => \A r \in Runs : AllOut(r, IneligibleUntagged)
InvTaggedWhen   == Done => \A r \in Runs : AllOut(r, TaggedWhen)
InvSymmetry     == Done => Symmetry(W, out[1], out[2], 1, 1, SwapSet)

(* invariants of the mechanism *)
(* after pass 1 the accumulator is the definitional score, whatever the scan order was *)
AccIsScore ==
    pc = "decide" =>
       \A r \in Runs : \A i \in 1..NAln : \A p \in PSIds : \A h \in {1, 2} :
           acc[r][<< W.aln[i].name, p, h >>] = Score(WR(r), i, <<1, p>>, h)
SeenIsTouched ==
    pc = "decide" => \A i \in 1..NAln : { k[2] : k \in Touched(W, i) } = seen[W.aln[i].name]
(* a tie is never tagged; the decision commutes with the exchange of haplotypes *)
Decided == pc = "emit" /\ out[1] = <<>>
TieUntagged ==
    Decided =>
       \A r \in Runs : \A g \in Names :
          dec[r][g] # NoDec => acc[r][<<g, dec[r][g][1], 1>>] # acc[r][<<g, dec[r][g][1], 2>>]
DecisionSymmetric ==
    Decided =>
       \A g \in Names :
          LET d1 == dec[1][g]
              d2 == dec[2][g] IN
          IF d1 # NoDec /\ d1[1] = SwapSet THEN d2 = <<d1[1], 3 - d1[2], d1[3]>> ELSE d2 = d1
=============================================================================
