------------------------------- MODULE Gen_C01 -------------------------------
(* Scenario enumeration by TLC for C01 (spec -> code): the complete space of
   tiny (Ped)MEC instances within the bounds below; every Sample-th instance of
   TLC's enumeration order is written (Sample = 1: all). *)
EXTENDS PedMECSpace, Json, IOUtils
CONSTANT Sample

Pick(S) == LET s == SetToSeq(S) IN [i \in 1..(Len(s) \div Sample) |-> s[i * Sample]]
All == Pick(SingleTrusted2) \o Pick(SingleTrusted3) \o Pick(SingleHet3) \o Pick(SingleDistrust) \o Pick(Trio)
ASSUME PrintT(<<"sizes", Cardinality(SingleTrusted2), Cardinality(SingleTrusted3), Cardinality(SingleHet3),
                Cardinality(SingleDistrust), Cardinality(Trio)>>)
ASSUME ndJsonSerialize(IOEnv.OUT_FILE, All)
=============================================================================
