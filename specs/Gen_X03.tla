------------------------------- MODULE Gen_X03 -------------------------------
(* Scenario enumeration by TLC for X03 (spec -> code):
     col     every small pile-up column: counts of the reference base (up to MaxRef, so that
             ratios on both sides of every --minrel occur with count >= --minabs), of two
             alternative bases (a >= b) and of read-N, with what the rule must emit for each option set
             (the driver materialises columns as alignments; the trace spec recomputes)
     mendel  every (mother, father, child) triple of diploid genotypes over MaxAllele + 1 alleles *)
EXTENDS X03Pileup, X03Ped, Json, IOUtils, SequencesExt
CONSTANTS MaxCount, MaxRef, MaxAllele

Cols == { [k |-> "col", r |-> r, a |-> a, b |-> b, n |-> n] :
          r \in 0..MaxRef, a \in 0..MaxCount, b \in 0..MaxCount, n \in 0..1 }
ColsOK == { x \in Cols : x.b <= x.a /\ x.r + x.a + x.b + x.n >= 1 }
Genos == { <<x, y>> : x \in 0..MaxAllele, y \in 0..MaxAllele }
Triples == { [k |-> "mendel", m |-> m, f |-> f, c |-> c, conflict |-> ~Compatible(m, f, c)] :
             m \in { g \in Genos : g[1] <= g[2] }, f \in { g \in Genos : g[1] <= g[2] }, c \in { g \in Genos : g[1] <= g[2] } }

ASSUME ndJsonSerialize(IOEnv.OUT_FILE, SetToSeq(ColsOK) \o SetToSeq(Triples))
=============================================================================
