------------------------------- MODULE Gen_C10 -------------------------------
(* Scenario enumeration by TLC for the spec -> code direction of C10.

   Over K consecutive variant sites of one chromosome and ploidy P TLC writes
     pat    every call pattern: per site an unphased heterozygous call (ps = 0) or a
            phased call in one of <= MaxSets phase sets with any non-constant allele
            tuple or the homozygous tuple; set ids in order of first appearance
            (interleaved sets included)
     group  every shape of a name group: one alignment of any kind, or two alignments
            of one name (mates, or a read with a supplementary / secondary / low-MAPQ
            line) covering disjoint site intervals; an alignment covers an interval
            lo..hi of sites (lo > hi: no site) and shows any allele vector there.
   The driver materialises pattern x chunk-of-groups as one VCF + one BAM. *)
EXTENDS Naturals, Sequences, FiniteSets, Json, IOUtils, SequencesExt
CONSTANTS K, P, MaxSets

Tuples == [1..P -> {0, 1}]
HetTuples == { t \in Tuples : \E x \in 1..P, y \in 1..P : t[x] # t[y] }
HomTuple == [ x \in 1..P |-> 1 ]
Unphased == [ps |-> 0, al |-> [ x \in 1..P |-> IF x = 1 THEN 0 ELSE 1 ]]
SiteOpts == {Unphased} \cup { [ps |-> s, al |-> t] : s \in 1..MaxSets, t \in HetTuples \cup {HomTuple} }

MaxUpTo(p, j) == IF j = 0 THEN 0 ELSE
                 LET S == { p[i].ps : i \in 1..j } IN CHOOSE m \in S \cup {0} : \A x \in S : x <= m
Canonical(p) == \A j \in 1..K : p[j].ps <= MaxUpTo(p, j - 1) + 1
Patterns == { p \in [1..K -> SiteOpts] : Canonical(p) }

Covers == { [lo |-> lo, hi |-> hi, al |-> v] : lo \in 1..K, hi \in 1..K, v \in UNION { [1..n -> {0, 1}] : n \in 1..K } }
CoverOK(c) == c.lo <= c.hi /\ Len(c.al) = c.hi - c.lo + 1
NoCover == [lo |-> 1, hi |-> 0, al |-> <<>>]
Cov == { c \in Covers : CoverOK(c) } \cup {NoCover}
Disjoint(c, d) == c = NoCover \/ d = NoCover \/ c.hi < d.lo \/ d.hi < c.lo

Kinds1 == {"prim", "dup", "sec", "sup", "low"}
Singles == { << [kind |-> k, c |-> c] >> : k \in Kinds1, c \in Cov }
           \cup { << [kind |-> k, c |-> NoCover] >> : k \in {"unm", "unmp"} }
Kinds2 == {"prim", "sup", "sec", "low", "unmp"}
Mates(c, k) == { e \in Cov : Disjoint(c, e) /\ (k = "unmp" => e = NoCover) }
Pairs == UNION { UNION { { << [kind |-> "prim", c |-> c], [kind |-> k, c |-> d] >> : d \in Mates(c, k) }
                         : k \in Kinds2 } : c \in Cov }

Out == SetToSeq({ [k |-> "pat", p |-> p] : p \in Patterns })
       \o SetToSeq({ [k |-> "group", a |-> g] : g \in Singles \cup Pairs })

ASSUME ndJsonSerialize(IOEnv.OUT_FILE, Out)
=============================================================================
