--------------------------- MODULE MC_EditDistance ---------------------------
(* Design-level check: the row-wise DP, stepped row by row, computes in every
   cell the recursive Levenshtein distance of the corresponding prefixes, for
   every pair of strings over Alphabet up to MaxLen; and distance laws hold. *)
EXTENDS EditDistance, TLC
CONSTANTS MaxLen, Alphabet
VARIABLES s, t, j, row

RECURSIVE Strings(_)
Strings(n) == IF n = 0 THEN { <<>> }
              ELSE Strings(n - 1) \cup { Append(u, c) : u \in { v \in Strings(n - 1) : Len(v) = n - 1 }, c \in Alphabet }

Init == /\ s \in Strings(MaxLen) /\ t \in Strings(MaxLen)
        /\ j = 0 /\ row = FirstRow(s)
Next == /\ j < Len(t)
        /\ j' = j + 1
        /\ row' = NextRow(row, s, t[j + 1])
        /\ UNCHANGED <<s, t>>
Spec == Init /\ [][Next]_<<s, t, j, row>>

CellIsLev  == \A i \in 0..Len(s) : row[i + 1] = Lev(Prefix(s, i), Prefix(t, j))
FinalIsLev == (j = Len(t)) => (row[Len(s) + 1] = LevDP(s, t) /\ LevDP(s, t) = Lev(s, t))
Symmetric  == (j = 0) => Lev(s, t) = Lev(t, s)
ZeroIffEq  == (j = 0) => ((Lev(s, t) = 0) <=> (s = t))
LenBounds  == (j = 0) => /\ Lev(s, t) >= Abs(Len(s) - Len(t))
                         /\ Lev(s, t) <= Max2(Len(s), Len(t))
=============================================================================
