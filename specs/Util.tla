------------------------------- MODULE Util -------------------------------
(* Small helpers shared by all whatshap specifications. *)
EXTENDS Naturals, Integers, Sequences, FiniteSets

Rng(s) == { s[i] : i \in DOMAIN s }

RECURSIVE SumSeq(_)
SumSeq(s) == IF s = <<>> THEN 0 ELSE Head(s) + SumSeq(Tail(s))

RECURSIVE SumOver(_, _)
(* sum of f[x] over the finite set S *)
SumOver(S, f) == IF S = {} THEN 0
                ELSE LET x == CHOOSE y \in S : TRUE IN f[x] + SumOver(S \ {x}, f)

MinSet(S) == CHOOSE x \in S : \A y \in S : x <= y
MaxSet(S) == CHOOSE x \in S : \A y \in S : y <= x

Abs(x) == IF x < 0 THEN -x ELSE x
Min2(a, b) == IF a <= b THEN a ELSE b
Max2(a, b) == IF a >= b THEN a ELSE b

(* number of indices carrying value v *)
Count(s, v) == Cardinality({ i \in DOMAIN s : s[i] = v })

(* two sequences are permutations of one another *)
SameBag(s, t) == /\ Len(s) = Len(t)
                 /\ \A v \in Rng(s) \cup Rng(t) : Count(s, v) = Count(t, v)

IsSortedAsc(s) == \A i \in 1..(Len(s) - 1) : s[i] <= s[i + 1]

(* lexicographic strict order on integer sequences; a proper prefix is lower *)
RECURSIVE LexLess(_, _)
LexLess(a, b) ==
    IF b = <<>> THEN FALSE
    ELSE IF a = <<>> THEN TRUE
    ELSE IF Head(a) < Head(b) THEN TRUE
    ELSE IF Head(a) > Head(b) THEN FALSE
    ELSE LexLess(Tail(a), Tail(b))

RECURSIVE Popcount(_)
Popcount(n) == IF n = 0 THEN 0 ELSE (n % 2) + Popcount(n \div 2)

(* bit i (0-based) of n *)
Bit(n, i) == (n \div (2 ^ i)) % 2

RECURSIVE Xor(_, _)
Xor(a, b) == IF a = 0 /\ b = 0 THEN 0
             ELSE (((a % 2) + (b % 2)) % 2) + 2 * Xor(a \div 2, b \div 2)
=============================================================================
