------------------------------ MODULE X03HapCut ------------------------------
(* X03 (b): `whatshap hapcut2vcf` - a hapCUT / hapCUT2 block file plus the VCF it was
   computed from become a phased VCF ("HapCUT's output is combined with the original VCF").

   Abstract input
     recs    sequence of VCF records [c (contig number), pos (1-based), nalt, gt (sequence of
             alleles, <<>> = missing), ph (phased?), ps (0 = none)]     one sample
     blocks  sequence of blocks; a block is a sequence of lines [c, pos (1-based), h1, h2],
             h = -1 for the "-" hapCUT2 writes for a pruned variant
   Model (the code's documented behaviour):
     - lines with a "-" allele are dropped; a block without remaining lines does not exist;
     - a block is a phase set; its id is the position of its first remaining line
       (deviation named: that line may be homozygous / absent from the VCF, the id then is
       not the position of a phased member);
     - a bi-allelic record at a block line gets the alleles of the line: GT h1|h2, PS id if
       h1 # h2; GT h/h unphased without PS if h1 = h2 (the genotype is CHANGED to what hapCUT says);
     - every other record of the VCF is written without phase information (GT sorted, no PS):
       records outside blocks, multi-allelic records, records without ALT;
     - the output has exactly the records of the input, in order          [finding: see X03_Trace]
   Domain: one sample; block chromosomes appear in VCF order, each chromosome's blocks are
   consecutive; record positions are unique per contig; block alleles in {0, 1, -1}. *)
EXTENDS Util, TLC

KeptLines(b) == SelectSeq(b, LAMBDA x : x.h1 # -1 /\ x.h2 # -1)
RealBlocks(blocks) == SelectSeq([k \in DOMAIN blocks |-> KeptLines(blocks[k])], LAMBDA b : b # <<>>)
BlockChrom(b) == b[1].c
BlockId(b) == b[1].pos
Processed(blocks) == { BlockChrom(b) : b \in Rng(RealBlocks(blocks)) }

(* the set of <<c, pos, h1, h2, id>> statements the block file makes; the chromosome of a line's
   block decides which `write` call sees it *)
Statements(blocks) ==
    UNION { { <<BlockChrom(b), b[k].pos, b[k].h1, b[k].h2, BlockId(b)>> : k \in DOMAIN b } : b \in Rng(RealBlocks(blocks)) }

SortPair(g) == IF Len(g) = 2 /\ g[1] > g[2] THEN <<g[2], g[1]>> ELSE g
Unphased(r) == [c |-> r.c, pos |-> r.pos, gt |-> SortPair(r.gt), ph |-> FALSE, ps |-> 0]

InBlock(r, S) == r.nalt = 1 /\ \E s \in S : s[1] = r.c /\ s[2] = r.pos
ExpectedRec(r, S) ==
    IF ~InBlock(r, S) THEN Unphased(r)
    ELSE LET s == CHOOSE t \in S : t[1] = r.c /\ t[2] = r.pos IN
         IF s[3] # s[4] THEN [c |-> r.c, pos |-> r.pos, gt |-> <<s[3], s[4]>>, ph |-> TRUE, ps |-> s[5]]
         ELSE [c |-> r.c, pos |-> r.pos, gt |-> <<s[3], s[4]>>, ph |-> FALSE, ps |-> 0]

IsSubSeqOfRuns(cs) == \A i, j \in DOMAIN cs : i < j => cs[i] <= cs[j]
HcDomain(recs, blocks) ==
    LET rb == RealBlocks(blocks) IN
    /\ IsSubSeqOfRuns([k \in DOMAIN rb |-> BlockChrom(rb[k])])
    /\ IsSubSeqOfRuns([k \in DOMAIN recs |-> recs[k].c])
    /\ \A i, j \in DOMAIN recs : i # j => <<recs[i].c, recs[i].pos>> # <<recs[j].c, recs[j].pos>>
    /\ \A b \in Rng(rb) : \A k \in DOMAIN b : b[k].c = BlockChrom(b) /\ b[k].h1 \in {0, 1} /\ b[k].h2 \in {0, 1}
    /\ Processed(blocks) \subseteq { recs[k].c : k \in DOMAIN recs }
    /\ \A s, t \in Statements(blocks) : (s[1] = t[1] /\ s[2] = t[2]) => s = t
=============================================================================
