---------------------------- MODULE MC_MergeModel ----------------------------
(* Design-level check of the read-merging model of AltSolve.tla: for every tiny
   ERROR-FREE read set of an all-heterozygous sample (reads are copies of
   haplotype A or of its complement B on 4 positions, with or without uncovered
   positions inside) and every parameter set, the model
     PureModel      never puts reads of the two haplotypes that share a position
                    into one group (contract (c) is a theorem of the model),
     OutIsPure      every merged read is a copy of one haplotype, no quality is lost,
     GroupsAreCCs   the grouping is a fixpoint: linked reads are in one group.
   Negative control NeverMerges must be violated (something does get merged). *)
EXTENDS AltSolve, TLC
CONSTANT Sample
VARIABLES rs, hap, par, hA

Pars == { [e |-> 150, maxerr |-> 250, pos |-> 1000000, neg |-> 1000],
          [e |-> 150, maxerr |-> 250, pos |-> 20, neg |-> 20],
          [e |-> 500, maxerr |-> 500, pos |-> 2, neg |-> 2] }
ColSets4 == { S \in SUBSET (1..4) : Cardinality(S) >= 2 }
ReadOf(A, S, h) == LET cs == SetToSortSeq(S, <) IN [k \in DOMAIN cs |-> << cs[k], IF h = 0 THEN A[cs[k]] ELSE 1 - A[cs[k]], 1 + h >>]
Opts == ColSets4 \X {0, 1}
Seqs == { s \in UNION { [1..n -> Opts] : n \in 1..3 } :
            \A k \in 1..(Len(s) - 1) : MinSet(s[k][1]) <= MinSet(s[k + 1][1]) }
Picked == LET q == SetToSeq(Seqs) IN { q[i * Sample] : i \in 1..(Len(q) \div Sample) }

Init == /\ hA \in [1..4 -> {0, 1}]
        /\ par \in Pars
        /\ \E s \in Picked : /\ rs = [k \in DOMAIN s |-> ReadOf(hA, s[k][1], s[k][2])]
                             /\ hap = [k \in DOMAIN s |-> s[k][2]]
Next == UNCHANGED <<rs, hap, par, hA>>
Spec == Init /\ [][Next]_<<rs, hap, par, hA>>

G == ModelGroup(rs, par)
PureModel == PureGroups(rs, G, hap)
OutIsPure == LET out == MergedOut(rs, G) IN
    \A k \in DOMAIN out : \E h \in {0, 1} : \A j \in DOMAIN out[k] :
        /\ out[k][j][2] = (IF h = 0 THEN hA[out[k][j][1]] ELSE 1 - hA[out[k][j][1]])
        /\ out[k][j][3] >= 1
GroupsAreCCs == \A i, j \in DOMAIN rs : Linked(rs[i], rs[j], par) => G[i] = G[j]
NeverMerges == Len(MergedOut(rs, G)) = Len(rs)
=============================================================================
