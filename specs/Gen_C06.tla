------------------------------- MODULE Gen_C06 -------------------------------
(* TLC enumerates the read/variant geometry space of C06 (spec -> code):
   variant kind x length, allele carried, read start offset relative to the
   variant start and end offset relative to the variant end (in haplotype
   coordinates, so starts/ends inside the variant are included), decoration. *)
EXTENDS Naturals, Integers, Sequences, FiniteSets, Json, IOUtils, TLC, SequencesExt
CONSTANTS Sample, MaxOff
Kinds == { <<1, 1>>, <<2, 1>>, <<2, 2>>, <<2, 3>>, <<3, 1>>, <<3, 2>>, <<3, 3>>, <<4, 2>>, <<4, 3>> }
Decos == { "plain", "softclip", "hardclip", "eqx", "farindel", "nskip", "nskipover", "pair", "pairoverlap" }
Geo == { [kind |-> kl[1], len |-> kl[2], allele |-> a, so |-> so, eo |-> eo, deco |-> d] :
            kl \in Kinds, a \in {0, 1}, so \in (0 - MaxOff)..3, eo \in (0 - 3)..MaxOff, d \in Decos }
Pick(S) == LET s == SetToSeq(S) IN [i \in 1..(Len(s) \div Sample) |-> s[i * Sample]]
ASSUME PrintT(<<"geometries", Cardinality(Geo)>>)
ASSUME ndJsonSerialize(IOEnv.OUT_FILE, Pick(Geo))
=============================================================================
