--------------------------- MODULE ForceGenotypes ---------------------------
(* Implementation-shaped transcription of whatshap/polyphase/threading.py:
   force_genotypes, for ONE position (one column of the haplotype matrix).

     col   the alleles the threading put on the haplotype slots (Undet = -1 when the
           slot's cluster has no consensus at the position)
     gt    the genotype to be enforced, as a sorted sequence of alleles

   steps of the code                                    action
     count alleles, skip if a slot is undetermined      CountAlleles
     abundant / lacking alleles, alleles_to_insert,
     affected_positions (both sorted); nothing to do
     if no allele is abundant                           Detect
     try every distinct permutation of the alleles to
     insert on the affected slots, keep the likeliest   Permute

   The likelihood (binomial fit of the clusters' allele depths) only SELECTS among the
   permutations, so the choice is nondeterministic here.  The code starts from
   best_likelihood = -inf and replaces the given column only on a strictly larger
   likelihood: if every permutation evaluates to -inf (binom.pmf underflow on very deep
   clusters) the column is left as it was.  FiniteLikelihood = TRUE assumes that does not
   happen; with FALSE the action KeepGiven is enabled and TLC shows `Forced` violated.   *)
EXTENDS Polyphase, TLC
CONSTANTS MaxPloidy, NumAlleles, FiniteLikelihood
VARIABLES pc, col, gt, affected, inserts, res
fvars == <<pc, col, gt, affected, inserts, res>>

Alleles == 0..(NumAlleles - 1)
Genotypes(p) == { g \in [1..p -> Alleles] : IsSortedAsc(g) }
Columns(p)   == [1..p -> Alleles \cup {Undet}]

Present(c, a) == Count(c, a)
Want(g, a)    == Count(g, a)
Abundant(c, g) == { a \in Alleles : Present(c, a) > Want(g, a) }
Lacking(c, g)  == { a \in Alleles : Present(c, a) < Want(g, a) }

Copies(a, n) == [i \in 1..n |-> a]
(* alleles_to_insert after .sort(): for an abundant allele the wanted number of copies
   (its slots are all given up), for a lacking allele the missing number of copies *)
RECURSIVE InsertsFrom(_, _, _)
InsertsFrom(c, g, a) ==
    IF a >= NumAlleles THEN <<>>
    ELSE (IF a \in Abundant(c, g) THEN Copies(a, Want(g, a))
          ELSE IF a \in Lacking(c, g) THEN Copies(a, Want(g, a) - Present(c, a))
          ELSE <<>>) \o InsertsFrom(c, g, a + 1)

RECURSIVE AscSeq(_)
AscSeq(S) == IF S = {} THEN <<>> ELSE LET m == MinSet(S) IN <<m>> \o AscSeq(S \ {m})
(* affected_positions after .sort(): every slot that carries an abundant allele *)
AffectedSlots(c, g) == AscSeq({ s \in DOMAIN c : c[s] \in Abundant(c, g) })

(* set(itertools.permutations(alleles_to_insert)) *)
Perms(ins) == { p \in [DOMAIN ins -> Rng(ins)] : SameBag(p, ins) }

(* newconfig = given_config[:]; newconfig[affected[i]] = perm[i] *)
Apply(c, aff, perm) ==
    [s \in DOMAIN c |-> IF \E i \in DOMAIN aff : aff[i] = s
                        THEN perm[CHOOSE i \in DOMAIN aff : aff[i] = s]
                        ELSE c[s]]

Init == /\ pc = "count"
        /\ \E p \in 1..MaxPloidy : col \in Columns(p) /\ gt \in Genotypes(p)
        /\ affected = <<>> /\ inserts = <<>> /\ res = <<>>

CountAlleles ==
    /\ pc = "count"
    /\ IF Undet \in Rng(col)
       THEN pc' = "done" /\ res' = col
       ELSE pc' = "detect" /\ res' = res
    /\ UNCHANGED <<col, gt, affected, inserts>>

Detect == /\ pc = "detect"
          /\ affected' = AffectedSlots(col, gt)
          /\ inserts' = InsertsFrom(col, gt, 0)
          /\ IF Abundant(col, gt) = {}
             THEN pc' = "done" /\ res' = col
             ELSE pc' = "perm" /\ res' = res
          /\ UNCHANGED <<col, gt>>

Permute == /\ pc = "perm"
           /\ Len(inserts) <= Len(affected)          \* otherwise affected_positions[i] raises IndexError
           /\ \E perm \in Perms(inserts) : res' = Apply(col, SubSeq(affected, 1, Len(inserts)), perm)
           /\ pc' = "done"
           /\ UNCHANGED <<col, gt, affected, inserts>>

KeepGiven == /\ pc = "perm"
             /\ ~FiniteLikelihood
             /\ res' = col
             /\ pc' = "done"
             /\ UNCHANGED <<col, gt, affected, inserts>>

Next == CountAlleles \/ Detect \/ Permute \/ KeepGiven
Spec == Init /\ [][Next]_fvars

(* ---- invariants ---- *)
TypeOK == pc \in {"count", "detect", "perm", "done"}
(* as many alleles to insert as slots given up: the loop over perm never indexes past
   affected_positions and never leaves an affected slot with its old allele *)
InsertsFit == pc = "perm" => Len(inserts) = Len(affected)
(* the contract used by the property: a determined column ends with exactly the genotype *)
Forced == pc = "done" => ForceOK(col, gt, res)
(* least change: slots whose allele is not in excess keep it *)
UnaffectedUnchanged ==
    pc = "done" => \A s \in DOMAIN col : (Undet \in Rng(col) \/ col[s] \notin Abundant(col, gt)) => res[s] = col[s]
=============================================================================
