---------------------------- MODULE ReadSelectAlg ----------------------------
(* Implementation-shaped model of whatshap/readselect.pyx (readselection,
   readselection_helper, _slice_read_selection, bridging).  The priority order
   is left completely nondeterministic (any pop order), and whether a bridging
   candidate joins two blocks is abstracted to a nondeterministic choice, so
   the invariants hold for every scoring scheme and every tie-break.

   Phases of one helper run:  idle -> slice (pop all queued reads) -> bridge
   (optional) -> idle ... until no undecided read remains.  With preferred
   reads the helper runs first on the preferred reads, then on the others.
   SubtractFirst = TRUE models the intended behaviour (preferred reads are
   removed from the second run); FALSE models the pinned code, where the first
   run empties the set it was given so the later subtraction removes nothing
   and preferred reads are offered - and counted - a second time. *)
EXTENDS ReadSelect, TLC
CONSTANTS Bridging, SubtractFirst
VARIABLES reads, k, pref,          \* the input: sequence of reads, cap, set of preferred read numbers
          stage,                   \* "pref" or "rest" or "done": which helper run
          phase,                   \* "idle", "slice", "bridge"
          undecided, selected, cov,
          pq, covered, inslice, violating
vars == <<reads, k, pref, stage, phase, undecided, selected, cov, pq, covered, inslice, violating>>

NIdx == MaxSet(UNION { Rng(reads[i]) : i \in DOMAIN reads } \cup {1})
MaxCovIn(r) == MaxSet({ cov[v] : v \in SpanOf(r) })
AddRead(c, r) == [v \in DOMAIN c |-> IF v \in SpanOf(r) THEN c[v] + 1 ELSE c[v]]

InitWith(rs, kk, pf) ==
    /\ reads = rs /\ k = kk /\ pref = pf
    /\ stage = (IF pf = {} THEN "rest" ELSE "pref")
    /\ phase = "idle"
    /\ undecided = (IF pf = {} THEN DOMAIN rs ELSE pf)
    /\ selected = {}
    /\ cov = [v \in 1..MaxSet(UNION { Rng(rs[i]) : i \in DOMAIN rs } \cup {1}) |-> 0]
    /\ pq = {} /\ covered = {} /\ inslice = {} /\ violating = {}

StartSlice ==
    /\ phase = "idle" /\ undecided # {} /\ stage # "done"
    /\ phase' = "slice" /\ pq' = undecided
    /\ covered' = {} /\ inslice' = {} /\ violating' = {}
    /\ UNCHANGED <<reads, k, pref, stage, undecided, selected, cov>>

SlicePop ==
    /\ phase = "slice"
    /\ \E i \in pq :
        LET r == reads[i] IN
        /\ pq' = pq \ {i}
        /\ IF MaxCovIn(r) >= k
           THEN violating' = violating \cup {i} /\ UNCHANGED <<cov, inslice, covered>>
           ELSE IF Rng(r) \ covered # {}
                THEN /\ cov' = AddRead(cov, r)
                     /\ inslice' = inslice \cup {i}
                     /\ covered' = covered \cup Rng(r)
                     /\ UNCHANGED violating
                ELSE UNCHANGED <<cov, inslice, covered, violating>>
    /\ UNCHANGED <<reads, k, pref, stage, phase, undecided, selected>>

EndSlice ==
    /\ phase = "slice" /\ pq = {}
    /\ selected' = selected \cup inslice
    /\ undecided' = (undecided \ inslice) \ violating
    /\ IF Bridging THEN phase' = "bridge" /\ pq' = undecided'
                   ELSE phase' = "idle" /\ pq' = {}
    /\ UNCHANGED <<reads, k, pref, stage, cov, covered, inslice, violating>>

BridgePop ==
    /\ phase = "bridge"
    /\ \E i \in pq :
        LET r == reads[i] IN
        /\ pq' = pq \ {i}
        /\ IF MaxCovIn(r) >= k
           THEN undecided' = undecided \ {i} /\ UNCHANGED <<selected, cov>>
           ELSE \/ UNCHANGED <<undecided, selected, cov>>                 \* covers one block only: skipped
                \/ /\ selected' = selected \cup {i}                        \* joins two blocks: taken
                   /\ cov' = AddRead(cov, r)
                   /\ undecided' = undecided \ {i}
    /\ UNCHANGED <<reads, k, pref, stage, phase, covered, inslice, violating>>

EndBridge ==
    /\ phase = "bridge" /\ pq = {}
    /\ phase' = "idle"
    /\ UNCHANGED <<reads, k, pref, stage, undecided, selected, cov, pq, covered, inslice, violating>>

NextStage ==
    /\ phase = "idle" /\ undecided = {}
    /\ \/ /\ stage = "pref" /\ stage' = "rest"
          /\ undecided' = (IF SubtractFirst THEN DOMAIN reads \ pref ELSE DOMAIN reads)
       \/ /\ stage = "rest" /\ stage' = "done" /\ UNCHANGED undecided
    /\ UNCHANGED <<reads, k, pref, phase, selected, cov, pq, covered, inslice, violating>>

Next == StartSlice \/ SlicePop \/ EndSlice \/ BridgePop \/ EndBridge \/ NextStage
Fair == WF_vars(Next)

(* ---- invariants ---- *)
CountedOnce == \A v \in DOMAIN cov : cov[v] = CovAt(reads, selected \cup (IF phase = "slice" THEN inslice ELSE {}), v)
CapAlways   == \A v \in DOMAIN cov : cov[v] <= k
FinalOK     == stage = "done" => SelectOK(reads, k, selected)
Terminates  == <>(stage = "done")
=============================================================================
