---------------------------- MODULE PhasePipeline ----------------------------
(* Design-level model of `whatshap phase` for one sample on one chromosome: the
   pipeline stages as actions, each described by its CONTRACT (the property of
   the stage proved/checked elsewhere), composed from the other specifications:

     Detect      C06  every (read, variant) entry is the true allele or absent
     Select      C07  any subset satisfying ReadSelect!SelectOK (cap k, maximal)
     Solve       C01  any optimal bipartition of the PedMEC instance built from the
                      selected reads; a reported allele pair must agree with every
                      optimal assignment of its column, anything else is a tie flag
     Components  C03  read-connectivity of the selected reads (UnionFind: rep = min)
     Write       C04  phased call = super-read alleles, PS = 1 + leftmost position

   TLC explores every world within the bounds and every admissible choice of each
   stage and checks the end-to-end properties (C02, C03, cap) on what is written. *)
EXTENDS Util, TLC, FiniteSets
CONSTANTS NSites, MaxReads, Caps
VARIABLES truth, reads, k, pc, detected, selected, part, sr, comp, out
vars == <<truth, reads, k, pc, detected, selected, part, sr, comp, out>>

RS == INSTANCE ReadSelect
MEC == INSTANCE PedMEC

Sites == 1..NSites
CovSets == { S \in SUBSET Sites : Cardinality(S) >= 2 }
ReadShapes == { [hap |-> h, cov |-> S] : h \in {0, 1}, S \in CovSets }
RECURSIVE SeqsUpTo(_, _)
SeqsUpTo(S, n) == IF n = 0 THEN { <<>> } ELSE LET sh == SeqsUpTo(S, n - 1) IN
                  sh \cup { Append(s, x) : s \in { u \in sh : Len(u) = n - 1 }, x \in S }

Init ==
    /\ truth \in { t \in [Sites -> { <<0, 1>>, <<1, 0>> }] : t[1] = <<0, 1>> }
    /\ reads \in SeqsUpTo(ReadShapes, MaxReads)
    /\ k \in Caps
    /\ pc = "detect"
    /\ detected = << >> /\ selected = {} /\ part = << >> /\ sr = << >> /\ comp = << >> /\ out = << >>

(* ---- Detect: per read the set of sites where an allele was recorded (always the true one) *)
Detect ==
    /\ pc = "detect"
    /\ detected' \in [DOMAIN reads -> SUBSET Sites]
    /\ \A r \in DOMAIN reads : detected'[r] \subseteq reads[r].cov
    /\ pc' = "select"
    /\ UNCHANGED <<truth, reads, k, selected, part, sr, comp, out>>

Usable == { r \in DOMAIN reads : Cardinality(detected[r]) >= 2 }
SortedSeqOf(S) == LET RECURSIVE Build(_, _)
                      Build(T, acc) == IF T = {} THEN acc ELSE Build(T \ {MinSet(T)}, Append(acc, MinSet(T)))
                  IN Build(S, <<>>)
UsableSeq == SortedSeqOf(Usable)                      \* read numbers handed to selection, in order
ReadCols == [i \in DOMAIN UsableSeq |-> SortedSeqOf(detected[UsableSeq[i]])]

(* ---- Select: any acceptable selection *)
Select ==
    /\ pc = "select"
    /\ \E S \in SUBSET (DOMAIN UsableSeq) :
          /\ RS!SelectOK(ReadCols, k, S)
          /\ selected' = { UsableSeq[i] : i \in S }
    /\ pc' = "solve"
    /\ UNCHANGED <<truth, reads, k, detected, part, sr, comp, out>>

(* ---- Solve: the MEC instance of the selected reads, all genotypes heterozygous *)
SelSeq == SortedSeqOf(selected)
Inst == [nInd |-> 1, trios |-> <<>>, m |-> NSites, rc |-> [c \in Sites |-> 0],
         reads |-> [i \in DOMAIN SelSeq |->
                       [ind |-> 1,
                        cells |-> LET cols == SortedSeqOf(detected[SelSeq[i]]) IN
                                  [j \in DOMAIN cols |-> <<cols[j], truth[cols[j]][reads[SelSeq[i]].hap + 1], 1>>]]],
         distrust |-> FALSE, gt |-> << [c \in Sites |-> 1] >>, gl |-> << [c \in Sites |-> <<0, 0, 0>>] >>]
TIE == 3
Solve ==
    /\ pc = "solve"
    /\ \E p \in MEC!Bipartitions(Inst) :
          /\ MEC!BestForPart(Inst, p) = MEC!OptCost(Inst)
          /\ part' = p
          /\ \E s \in [Sites -> { <<0, 1>>, <<1, 0>>, <<TIE, TIE>> }] :
                /\ \A c \in Sites :
                      s[c] # <<TIE, TIE>> =>
                          \A a \in MEC!OptAssign(Inst, c, p, 0) : <<a[0], a[1]>> = s[c]
                /\ sr' = s
    /\ pc' = "components"
    /\ UNCHANGED <<truth, reads, k, detected, selected, comp, out>>

(* ---- Components: sites covered by some selected read, connected through selected reads *)
Accessible == UNION { detected[r] : r \in selected }
Linked(u, v) == u = v \/ \E r \in selected : u \in detected[r] /\ v \in detected[r]
RECURSIVE Reach(_)
Reach(S) == LET T == S \cup { v \in Accessible : \E u \in S : Linked(u, v) } IN IF T = S THEN S ELSE Reach(T)
Components ==
    /\ pc = "components"
    /\ comp' = [v \in Accessible |-> MinSet(Reach({v}))]
    /\ pc' = "write"
    /\ UNCHANGED <<truth, reads, k, detected, selected, part, sr, out>>

(* ---- Write *)
Write ==
    /\ pc = "write"
    /\ out' = [v \in Sites |->
                 IF v \in Accessible /\ sr[v] # <<TIE, TIE>>
                 THEN [ph |-> TRUE, ps |-> comp[v] + 1, al |-> sr[v]]
                 ELSE [ph |-> FALSE, ps |-> 0, al |-> <<0, 1>>]]
    /\ pc' = "done"
    /\ UNCHANGED <<truth, reads, k, detected, selected, part, sr, comp>>

Next == Detect \/ Select \/ Solve \/ Components \/ Write
Spec == Init /\ [][Next]_vars

(* ---- end-to-end properties of what was written ---- *)
TypeOK == pc \in {"detect", "select", "solve", "components", "write", "done"}
PhasedSites == { v \in Sites : out[v].ph }
TruthUpToFlipInv ==
    pc = "done" =>
        \A ps \in { out[v].ps : v \in PhasedSites } :
            LET M == { v \in PhasedSites : out[v].ps = ps } IN
            \/ \A v \in M : out[v].al = truth[v]
            \/ \A v \in M : out[v].al = <<truth[v][2], truth[v][1]>>
ComponentsInv ==
    pc = "done" =>
        \A u, v \in PhasedSites : (out[u].ps = out[v].ps) <=> (v \in Reach({u}))
CapInv ==
    pc \in {"solve", "components", "write", "done"} =>
        \A v \in Sites : Cardinality({ r \in selected : MinSet(detected[r]) <= v /\ v <= MaxSet(detected[r]) }) <= k
(* with error-free reads the optimum is 0 and every covered site of a component with >= 2 sites is forced *)
ZeroCost == pc \in {"components", "write", "done"} => MEC!BestForPart(Inst, part) = 0
=============================================================================
