SPECIFICATION Spec
CONSTANTS MaxLen = 3
          Alphabet = {0, 1}
INVARIANT CellIsLev
INVARIANT FinalIsLev
INVARIANT Symmetric
INVARIANT ZeroIffEq
INVARIANT LenBounds
