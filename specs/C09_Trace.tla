------------------------------ MODULE C09_Trace ------------------------------
(* Trace validation for C09 (PS and HP encodings).  One tid = one history of real commands over
   real files: `whatshap phase` with --tag=PS / --tag=HP (reads from a BAM, or a phased VCF as the
   only phase input), `whatshap unphase`, re-phasing of already phased files.  After every step
   the driver logs the output projected to the abstract VCF of VcfModel (raw GT / PS / HP per call,
   by its own text parser) AND what whatshap's own VcfReader(path, phases=True) decodes from it.

   events
     Load     id, file, dec
     Phase    src, dst, tag, targets (1-based sample indices), inp ("bam" | "vcf"), snvs (--only-snvs), key
              (identifies phase input and options), exc, out, dec,
              skip per record: TRUE if this run does not support the record (multi-ALT, second record at a
                   position, indel under --only-snvs) - known from the construction of the world
              P    the phasing the run handed to the writer (arguments of PhasedVcfWriter.write):
                   per sample, per record a statement [block, al] or << >>; block = 1-based position of
                   the leftmost variant of the component
              g    for inp = "vcf": the phased VCF used as phase input, projected
     Unphase  src, dst, exc, out, dec
   dec = [exc |-> "" or exception name, ph |-> per sample, per record: statement or << >>]

   clauses
     Returns         phase / unphase raise nothing
     RoundTrip       target samples: every statement of P comes back from the written encoding, decoded by the
                     convention (VcfModel!DecPS/DecHP on the raw text) and by whatshap's reader
     TagEquivalence  two runs on the same file with the same phase input and targets but different tags
                     decode to the same statements (sets, set names, ordered alleles)
     NoStalePhase    target samples, EVERY record (also those the run skips): the output states nothing but P: no
                     differing statement in the other encoding, no statement in any encoding where P has none
     DecodesCleanly  unless a non-target sample already carried the other encoding in the input, the
                     output can be read back (no MixedPhasingError or any other exception)
     VcfReproduces   phased VCF g as only phase input: every phase set of g with >= 2 shared heterozygous
                     variants (and at most 7 sets overlapping anywhere = 14 pseudo reads <= cap 15) comes
                     back with the same members and the same alleles up to a flip of the whole set
     VcfReproducesAnyContigLayout
                     event PhaseLayout (src, tag, targets, skip, exc, g, contigs = per contig of a three-contig variant
                     file [cov per sample, out]): the same demand on every contig of the variant file for which the
                     phase-input file of the sample has records - in whatever order the phase-input files list their
                     contigs, whichever contigs they lack or have in addition *)
EXTENDS VcfModel, Json, IOUtils, TLC
Trace == ndJsonDeserialize(IOEnv.TRACE_FILE)
VARIABLES l, files, runs
vars == <<l, files, runs>>

Fail(e, c) == PrintT(<<"VERDICT", e.tid, e.seq, c>>)
Check(e, c, ok) == IF ok THEN TRUE ELSE Fail(e, c)

Dec(tag, c) == IF tag = "PS" THEN DecPS(c) ELSE DecHP(c)
Other(tag) == IF tag = "PS" THEN "HP" ELSE "PS"
Recs(f) == DOMAIN f.recs
Call(f, s, i) == f.recs[i].calls[s]
NSamples(f) == IF f.recs = << >> THEN 0 ELSE Len(f.recs[1].calls)
Tgt(e) == Rng(e.targets)

Shape(e) == /\ Len(e.out.recs) = Len(files[e.src].recs)
            /\ \A s \in Tgt(e) : s \in DOMAIN e.P /\ Len(e.P[s]) = Len(e.out.recs)

(* what was written comes back: at every site with a statement in P *)
RoundTripSpec(e) == \A s \in Tgt(e) : \A i \in Recs(e.out) :
                        e.P[s][i] # NoPhase => Dec(e.tag, Call(e.out, s, i)) = e.P[s][i]
RoundTripReal(e) == e.dec.exc = "" => \A s \in Tgt(e) : \A i \in Recs(e.out) :
                        e.P[s][i] # NoPhase => e.dec.ph[s][i] = e.P[s][i]

(* and nothing else is stated for a target sample: no statement in the other encoding that differs from P,
   no statement at all (either encoding, either decoder) where the run made none *)
NoStale(e) == \A s \in Tgt(e) : \A i \in Recs(e.out) :
                  /\ Dec(Other(e.tag), Call(e.out, s, i)) \in {NoPhase, e.P[s][i]}
                  /\ e.P[s][i] = NoPhase => Dec(e.tag, Call(e.out, s, i)) = NoPhase
NoStaleReal(e) == e.dec.exc = "" => \A s \in Tgt(e) : \A i \in Recs(e.out) :
                  e.P[s][i] = NoPhase => e.dec.ph[s][i] = NoPhase

Inherited(e) == LET src == files[e.src] IN
    \E s \in (1..NSamples(src)) \ Tgt(e) : \E i \in Recs(src) : Dec(Other(e.tag), Call(src, s, i)) # NoPhase

(* ---- phased VCF as the only phase input ---- *)
GStmt(c) == IF DecPS(c) # NoPhase THEN DecPS(c) ELSE DecHP(c)
Flip(al) == <<al[2], al[1]>>
Usable(p) == p # NoPhase /\ Len(p.al) = 2 /\ p.al[1] # p.al[2]
SharedHet(e, src, g, s) == { i \in Recs(src) : LET c == Call(src, s, i) IN
                             /\ ~e.skip[i]          \* a record this run supports (not multi-ALT / duplicate / indel under --only-snvs)
                             /\ FullyCalled(c) /\ Len(c.gt) = 2 /\ IsHet(c)
                             /\ Usable(GStmt(Call(g, s, i))) /\ SameBag(GStmt(Call(g, s, i)).al, c.gt) }
SetsOf(g, s, H) == { { i \in H : GStmt(Call(g, s, i)).block = GStmt(Call(g, s, j)).block } : j \in H }
Overlap(Bs, i) == Cardinality({ B \in Bs : MinSet(B) <= i /\ i <= MaxSet(B) })
FitsCap(Bs, H) == \A i \in H : 2 * Overlap({ B \in Bs : Cardinality(B) >= 2 }, i) <= 15
SetReproduced(e, g, s, H, B) ==
    LET O(i) == Dec(e.tag, Call(e.out, s, i)) IN
    /\ \A i \in B : O(i) # NoPhase
    /\ \A i \in B : O(i).block = O(MinSet(B)).block
    /\ { i \in H : O(i) # NoPhase /\ O(i).block = O(MinSet(B)).block } = B
    /\ \/ \A i \in B : O(i).al = GStmt(Call(g, s, i)).al
       \/ \A i \in B : O(i).al = Flip(GStmt(Call(g, s, i)).al)
VcfReproduces(e) ==
    e.inp = "vcf" =>
        \A s \in Tgt(e) :
            LET H == SharedHet(e, files[e.src], e.g, s)
                Bs == SetsOf(e.g, s, H) IN
            FitsCap(Bs, H) => \A B \in Bs : Cardinality(B) >= 2 => SetReproduced(e, e.g, s, H, B)

(* ---- the same on a variant file with several contigs, whatever the contig layout of the phase-input files: a contig of the
        variant file for which the file that phases sample s has records (cov[s]) must get every such set back; src and g are
        the single-contig files every contig is a (shifted) copy of ---- *)
OnContig(e, c) == [tag |-> e.tag, skip |-> e.skip, out |-> c.out]
LayoutShape(e) == \A k \in DOMAIN e.contigs : /\ Len(e.contigs[k].out.recs) = Len(files[e.src].recs)
                                              /\ \A s \in Tgt(e) : s \in DOMAIN e.contigs[k].cov
LayoutReproduces(e) ==
    \A k \in DOMAIN e.contigs :
        LET c == e.contigs[k]
            x == OnContig(e, c) IN
        \A s \in Tgt(e) : c.cov[s] =>
            LET H == SharedHet(x, files[e.src], e.g, s)
                Bs == SetsOf(e.g, s, H) IN
            FitsCap(Bs, H) => \A B \in Bs : Cardinality(B) >= 2 => SetReproduced(x, e.g, s, H, B)
JudgeLayout(e) ==
    IF e.src \notin DOMAIN files THEN Fail(e, "UnknownSource")
    ELSE IF e.exc # "" THEN Fail(e, "Returns")
    ELSE IF ~LayoutShape(e) THEN Fail(e, "RecordsKept")
    ELSE Check(e, "VcfReproducesAnyContigLayout", LayoutReproduces(e))

(* ---- the same run with the other tag ---- *)
Key(e) == <<e.src, e.key, e.targets>>
SameStatements(e, o) ==          \* o = the earlier run [tag, out, dec]
    /\ \A s \in Tgt(e) : \A i \in Recs(e.out) : Dec(e.tag, Call(e.out, s, i)) = Dec(o.tag, Call(o.out, s, i))
    /\ (e.dec.exc = "" /\ o.dec.exc = "") => \A s \in Tgt(e) : \A i \in Recs(e.out) : e.dec.ph[s][i] = o.dec.ph[s][i]

JudgePhase(e) ==
    IF e.src \notin DOMAIN files THEN Fail(e, "UnknownSource")
    ELSE IF e.exc # "" THEN Fail(e, "Returns")
    ELSE IF ~Shape(e) THEN Fail(e, "RecordsKept")
    ELSE /\ Check(e, "RoundTrip", RoundTripSpec(e) /\ RoundTripReal(e))
         /\ Check(e, "NoStalePhase", NoStale(e) /\ NoStaleReal(e))
         /\ Check(e, "DecodesCleanly", ~Inherited(e) => e.dec.exc = "")
         /\ Check(e, "VcfReproduces", VcfReproduces(e))
         /\ Check(e, "TagEquivalence",
                  (Key(e) \in DOMAIN runs /\ runs[Key(e)].tag # e.tag /\ Len(runs[Key(e)].out.recs) = Len(e.out.recs))
                      => SameStatements(e, runs[Key(e)]))

Judge(e) ==
    CASE e.ev = "Load"    -> TRUE
      [] e.ev = "Phase"   -> JudgePhase(e)
      [] e.ev = "Unphase" -> Check(e, "Returns", e.exc = "")
      [] e.ev = "PhaseLayout" -> JudgeLayout(e)
      \* two outputs (one per tag) as the two contigs of ONE file - what per-chromosome runs with different --tag values leave
      \* behind: each contig must decode exactly as it does alone (decoding has no state that crosses contigs)
      [] e.ev = "Concat"  -> Check(e, "ContigsDecodeIndependently",
                                   (e.a.exc = "" /\ e.b.exc = "") => (e.ab.exc = "" /\ e.ab.ph1 = e.a.ph /\ e.ab.ph2 = e.b.ph))
      \* the same run under both tags with --distrust-genotypes --include-homozygous: identical genotypes and decoded phase
      [] e.ev = "Twin"    -> /\ Check(e, "Returns", e.exc = "")
                             /\ e.exc = "" => Check(e, "TagEquivalenceDistrust", e.a = e.b /\ e.ga = e.gb)
      [] e.ev = "Crashed" -> Fail(e, "Returns")
      [] OTHER            -> Fail(e, "UnknownEvent")

Put(fn, k, v) == (k :> v) @@ fn
Empty == << >>
Init == l = 1 /\ files = Empty /\ runs = Empty
Next == /\ l <= Len(Trace)
        /\ LET e == Trace[l]
               fs == IF e.seq = 1 THEN Empty ELSE files
               rs == IF e.seq = 1 THEN Empty ELSE runs
               ok == e.ev \in {"Unphase", "Phase"} /\ e.exc = "" /\ e.src \in DOMAIN fs
           IN
           /\ Judge(e)
           /\ files' = IF e.ev = "Load" THEN Put(fs, e.id, e.file)
                       ELSE IF ok THEN Put(fs, e.dst, e.out) ELSE fs
           /\ runs' = IF ok /\ e.ev = "Phase" /\ Key(e) \notin DOMAIN rs
                      THEN Put(rs, Key(e), [tag |-> e.tag, out |-> e.out, dec |-> e.dec]) ELSE rs
        /\ l' = l + 1
Spec == Init /\ [][Next]_vars
=============================================================================
