------------------------------ MODULE C15_Trace ------------------------------
(* Trace validation for C15.  Every line is one recorded execution of real whatshap
   code, judged against the property-level module Polyphase.tla only (the
   implementation-shaped modules ForceGenotypes / PolyCuts never raise alarms).

   events
     Force  style, col, gt, res      one position of a call of threading.force_genotypes:
                                      column before, target genotype, column after
     Cuts   acc, sites, exc           one call of cli.polyphase.phase_single_individual with a
                                      given breakpoint list: positions of the read-covered
                                      variants, phased sites [key, ps] as the writer would use them
     Poly   the run record described in Polyphase.tla: one `whatshap polyphase` run        *)
EXTENDS Polyphase, Json, IOUtils, TLC
Trace == ndJsonDeserialize(IOEnv.TRACE_FILE)
VARIABLES l
vars == <<l>>

Fail(e, c) == PrintT(<<"VERDICT", e.tid, e.seq, c>>)
Check(e, c, ok) == IF ok THEN TRUE ELSE Fail(e, c)

JudgeForce(e) ==
    /\ Check(e, "ForceShape", Len(e.res) = Len(e.col))
    /\ Check(e, "ForceObeyed", ForceOK(e.col, e.gt, e.res))

JudgeCuts(e) ==
    IF e.exc # "" THEN Fail(e, "Returns")
    ELSE LET S == Rng(e.sites) A == Rng(e.acc) IN
         /\ Check(e, "PhaseSetMembersCovered", MembersCovered(A, S))
         /\ Check(e, "PhaseSetNamedByFirst", NamedByFirst(A, S))
         /\ Check(e, "PhaseSetsAreIntervals", Disjoint(S))

JudgePoly(e) ==
    IF e.exc # "" THEN Fail(e, "Returns")
    ELSE /\ Check(e, "RecordsKept", RecordsKept(e))
         /\ Check(e, "FixedFieldsKept", FixedFieldsKept(e))
         /\ Check(e, "SamplesKept", SamplesKept(e))
         /\ Check(e, "HeaderKept", HeaderKept(e))
         /\ Check(e, "OthersUntouched", OthersUntouched(e))
         /\ Check(e, "FormatFieldsKept", FormatFieldsKept(e))
         /\ Check(e, "GenotypeObeyed", GenotypeObeyed(e))
         /\ Check(e, "UnphasedGenotypeKept", UnphasedGenotypeKept(e))
         /\ Check(e, "OnlyHet", OnlyHet(e))
         /\ Check(e, "PhaseSetMembersCovered", PhaseSetMembersCovered(e))
         /\ Check(e, "PhaseSetNamedByFirst", PhaseSetNamedByFirst(e))
         /\ Check(e, "PhaseSetsAreIntervals", PhaseSetsAreIntervals(e))

Judge(e) ==
    CASE e.ev = "Force"   -> JudgeForce(e)
      [] e.ev = "Cuts"    -> JudgeCuts(e)
      [] e.ev = "Poly"    -> JudgePoly(e)
      [] e.ev = "Crashed" -> Fail(e, "Returns")
      [] OTHER            -> Fail(e, "UnknownEvent")

Init == l = 1
Next == /\ l <= Len(Trace)
        /\ Judge(Trace[l])
        /\ l' = l + 1
Spec == Init /\ [][Next]_vars
=============================================================================
