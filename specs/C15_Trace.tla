------------------------------ MODULE C15_Trace ------------------------------
(* Trace validation for C15.  Every line is one recorded execution of real whatshap
   code, judged against the property-level module Polyphase.tla only (the
   implementation-shaped modules ForceGenotypes / PolyCuts never raise alarms).

   events
     Force  style, col, gt, res      one position of a call of threading.force_genotypes:
                                      column before, target genotype, column after
     Cuts   acc, sites, exc           one call of cli.polyphase.phase_single_individual with a
                                      given breakpoint list: positions of the read-covered
                                      variants, phased sites [key, ps] as the writer would use them
     Poly   the run record described in Polyphase.tla: one `whatshap polyphase` run        *)
EXTENDS Polyphase, Json, IOUtils, TLC
Trace == ndJsonDeserialize(IOEnv.TRACE_FILE)
VARIABLES l
vars == <<l>>

Fail(e, c) == PrintT(<<"VERDICT", e.tid, e.seq, c>>)
Check(e, c, ok) == IF ok THEN TRUE ELSE Fail(e, c)

JudgeForce(e) ==
    /\ Check(e, "ForceShape", Len(e.res) = Len(e.col))
    /\ Check(e, "ForceObeyed", ForceOK(e.col, e.gt, e.res))

JudgeCuts(e) ==
    IF e.exc # "" THEN Fail(e, "Returns")
    ELSE LET S == Rng(e.sites) A == Rng(e.acc) IN
         /\ Check(e, "PhaseSetMembersCovered", MembersCovered(A, S))
         /\ Check(e, "PhaseSetNamedByFirst", NamedByFirst(A, S))
         /\ Check(e, "PhaseSetsAreIntervals", Disjoint(S))

JudgePoly(e) ==
    IF e.exc # "" THEN Fail(e, "Returns")
    ELSE /\ Check(e, "RecordsKept", RecordsKept(e))
         /\ Check(e, "FixedFieldsKept", FixedFieldsKept(e))
         /\ Check(e, "SamplesKept", SamplesKept(e))
         /\ Check(e, "HeaderKept", HeaderKept(e))
         /\ Check(e, "OthersUntouched", OthersUntouched(e))
         /\ Check(e, "FormatFieldsKept", FormatFieldsKept(e))
         /\ Check(e, "GenotypeObeyed", GenotypeObeyed(e))
         /\ Check(e, "UnphasedGenotypeKept", UnphasedGenotypeKept(e))
         /\ Check(e, "OnlyHet", OnlyHet(e))
         /\ Check(e, "PhaseSetMembersCovered", PhaseSetMembersCovered(e))
         /\ Check(e, "PhaseSetNamedByFirst", PhaseSetNamedByFirst(e))
         /\ Check(e, "PhaseSetsAreIntervals", PhaseSetsAreIntervals(e))

(* Reordering of the threads of one block (whatshap.polyphase.reorder.get_optimal_assignments without pre-phasing): at every
   breakpoint the affected threads (ascending, e.bps[b].aff) are linked to the threads e.bps[b].best (the most likely
   permutation); asg[b] says which thread sits in haplotype slot i (0-based values, 1-based TLA indices) for piece b.
   The pieces must stay PERMUTATIONS of the threads - otherwise a haplotype row is written twice and another is lost, and the
   written genotype no longer lists the alleles of the input genotype - and follow exactly the chosen links. *)
IsPerm(a, P) == Len(a) = P /\ { a[i] : i \in 1..P } = 0..(P - 1)
LinkOf(bp, t) == IF \E k \in DOMAIN bp.aff : bp.aff[k] = t
                 THEN bp.best[CHOOSE k \in DOMAIN bp.aff : bp.aff[k] = t] ELSE t
JudgeAssign(e) ==
    /\ Check(e, "Returns", e.exc = "")
    /\ e.exc = "" =>
         /\ Check(e, "AssignmentsArePermutations", Len(e.asg) = Len(e.bps) + 1 /\ \A b \in DOMAIN e.asg : IsPerm(e.asg[b], e.ploidy))
         /\ Check(e, "AssignmentsFollowLinks",
                  (Len(e.asg) = Len(e.bps) + 1 /\ \A b \in DOMAIN e.asg : IsPerm(e.asg[b], e.ploidy)) =>
                      /\ e.asg[1] = [i \in 1..e.ploidy |-> i - 1]
                      /\ \A b \in DOMAIN e.bps : \A i \in 1..e.ploidy : e.asg[b + 1][i] = LinkOf(e.bps[b], e.asg[b][i]))

Judge(e) ==
    CASE e.ev = "Force"   -> JudgeForce(e)
      [] e.ev = "Assign"  -> JudgeAssign(e)
      [] e.ev = "Cuts"    -> JudgeCuts(e)
      [] e.ev = "Poly"    -> JudgePoly(e)
      [] e.ev = "Crashed" -> Fail(e, "Returns")
      [] OTHER            -> Fail(e, "UnknownEvent")

Init == l = 1
Next == /\ l <= Len(Trace)
        /\ Judge(Trace[l])
        /\ l' = l + 1
Spec == Init /\ [][Next]_vars
=============================================================================
