------------------------------- MODULE PQueue -------------------------------
(* C18, first half: the abstract priority queue.

   The queue is a partial function from items to scores.  A score is a
   non-empty sequence of integers compared lexicographically, a proper prefix
   being lower (scalar score s = <<s>>).  Pop removes SOME item whose score is
   not strictly lower than any other queued score - ties may pop in any order.
   Pushing an item that is already queued and changing the score of an absent
   item are outside the modelled domain (undefined in the code, never done by
   its only client, read selection). *)
EXTENDS Util, TLC
CONSTANTS Items, Scores
VARIABLE q

Lower(a, b) == LexLess(a, b)
IsMax(qq, i) == i \in DOMAIN qq /\ \A j \in DOMAIN qq : ~Lower(qq[i], qq[j])
Without(qq, i) == [j \in DOMAIN qq \ {i} |-> qq[j]]

Init == q = << >>
Push(i, s)   == i \notin DOMAIN q /\ q' = (i :> s) @@ q
Pop          == \E i \in DOMAIN q : IsMax(q, i) /\ q' = Without(q, i)
PopEmpty     == DOMAIN q = {} /\ UNCHANGED q          \* raises IndexError
Change(i, s) == i \in DOMAIN q /\ q' = [q EXCEPT ![i] = s]
Next == \/ \E i \in Items, s \in Scores : Push(i, s) \/ Change(i, s)
        \/ Pop \/ PopEmpty
Spec == Init /\ [][Next]_q
TypeOK == DOMAIN q \subseteq Items /\ \A i \in DOMAIN q : q[i] \in Scores
=============================================================================
