---------------------------- MODULE MC_VcfHistory ----------------------------
(* Model-checking wrapper for VcfHistory: concrete tiny files, history emission. *)
EXTENDS VcfHistory, Json, SequencesExt

C(gt) == [hasgt |-> TRUE, gt |-> gt, ph |-> FALSE, ps |-> NoVal, pq |-> NoVal, hp |-> << >>, rest |-> <<"GQ=30">>]
CPQ(gt) == [C(gt) EXCEPT !.pq = 17]
\* a call phased by some other tool, in either encoding
CPS(gt, b) == [C(gt) EXCEPT !.ph = TRUE, !.ps = b, !.pq = 5]
CHP(gt, b, h1, h2) == [C(gt) EXCEPT !.hp = << <<b, h1>>, <<b, h2>> >>]
R(i, calls) == [fixed |-> ToString(i), calls |-> calls]
F(recs) == [hdr |-> <<"FORMAT/GT", "FORMAT/GQ">>, recs |-> recs]

\* two samples x two records
Small == { F(<< R(1, <<C(<<0, 1>>), C(<<1, 0>>)>>), R(2, <<C(<<1, 0>>), C(<<1, 1>>)>>) >>),
           F(<< R(1, <<CPS(<<1, 0>>, 10), CHP(<<0, 1>>, 10, 2, 1)>>), R(2, <<CPS(<<0, 1>>, 10), CPQ(<<0, 1>>)>>) >>) }
\* two samples x three records: record 2 is an indel (cfg: IndelSites = {2}), record 3 a multi-ALT record no run
\* supports (NeverSites = {3}) that arrives phased by another tool, in a different encoding per sample
Skips == { F(<< R(1, <<C(<<1, 0>>), CHP(<<0, 1>>, 10, 2, 1)>>), R(2, <<CPS(<<1, 0>>, 10), C(<<0, 1>>)>>),
                R(3, <<CPS(<<2, 1>>, 10), CHP(<<1, 2>>, 10, 2, 1)>>) >>) }
\* two samples x three records: sample 1 heterozygous everywhere (one GT unsorted), sample 2 has a homozygous site
Medium == { F(<< R(1, <<C(<<0, 1>>), C(<<0, 1>>)>>), R(2, <<C(<<1, 0>>), C(<<1, 1>>)>>), R(3, <<C(<<0, 1>>), CPQ(<<1, 0>>)>>) >>) }
\* one sample x three records, for history emission
One == { F(<< R(1, <<C(<<0, 1>>)>>), R(2, <<C(<<1, 0>>)>>), R(3, <<C(<<0, 1>>)>>) >>) }

NoHist == <<f, f0, last>>

(* ---- emission of command histories (P is irrelevant here: one canonical phasing per step) ---- *)
OnePhasing(g, T, snvs) == { CHOOSE P \in PhasingChoices(g, T, snvs) :
                               \A s \in T : \A i \in HetSites(g, s) \cap Supported(snvs) : P[s][i] # NoPhase }
EmitNext == /\ f0' = f0
            /\ Len(hist) < Depth
            /\ \/ UnphaseStep /\ hist' = Append(hist, [op |-> "U", tag |-> "", T |-> << >>, snvs |-> FALSE])
               \/ \E tag \in Tags, T \in Targets, snvs \in SnvsOpts : \E P \in OnePhasing(f, T, snvs) :
                     /\ PhaseStep(tag, T, snvs, P)
                     /\ hist' = Append(hist, [op |-> "P", tag |-> tag, T |-> SetToSeq(T), snvs |-> snvs])
EmitSpec == Init /\ [][EmitNext]_vars
Emit == IF Len(hist) >= 1 THEN PrintT(<<"BEHAVIOUR", ToJson(hist)>>) ELSE TRUE
=============================================================================
