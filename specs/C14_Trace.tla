------------------------------ MODULE C14_Trace ------------------------------
(* Trace validation for C14.  Every line is one complete run of the real
   whatshap.cli.split.run_split on files materialised from an abstract scenario,
   with everything that was read back from its outputs:

     Split  reads  << [name, len, id] >>     the input (id = position)
            list   << [name, hap, ps, chrom] >>   in file order
            opt    [ploidy, req, addU, disc, largest]
            exc    "" or the name of the exception that escaped run_split
            outs   ploidy + 1 sequences of [name, id, len] read back from the
                   requested outputs (<< >> for outputs that were not requested);
                   id = 0: the record's content is not the content of an input record
            histreq, hist   --read-lengths-histogram was given; its rows

   Read names are interned by the driver (name = the number of the abstract name,
   99 = a name that is none of the scenario's), whatever their spelling in the
   files is (read<n>, PacBio-style, or any string over the QNAME alphabet [!-?A-~]
   including quotes, hash, comma, semicolon, backslash): Routing judges the run by
   the list as a plain tab-separated table of those names.

   One clause per sentence of the property (names = vocabulary of reports).
   --only-largest-block is a relation: a selection under which the routing (and
   the histogram) is right is looked for; if there is none, one that explains the
   histogram alone (the histogram shows the classes the implementation used), else
   the routing alone, else an arbitrary one is used; the unexplained clauses fail. *)
EXTENDS Split, Json, IOUtils, TLC
Trace == ndJsonDeserialize(IOEnv.TRACE_FILE)
VARIABLE l

Fail(e, c) == PrintT(<<"VERDICT", e.tid, e.seq, c>>)
Check(e, c, ok) == IF ok THEN TRUE ELSE Fail(e, c)

InDomain(e) ==
    /\ WellFormed(e.reads, e.list, e.opt)
    /\ e.exc = "" => /\ Len(e.outs) = e.opt.ploidy + 1
                     /\ \A k \in 0..e.opt.ploidy : ~e.opt.req[k + 1] => e.outs[k + 1] = <<>>
    /\ e.opt.largest => e.cols = 4
    /\ e.valid                                   \* whatshap.cli.split.validate accepted the options

JudgeSplit(e) ==
    LET reads == e.reads
        list == e.list
        opt == e.opt
        out == e.outs
        rows == e.hist
        S == Selections(list)
        HistOK(s) == ~e.histreq \/ HistCounts(list, opt, s, out, rows)
        R(s) == Routing(reads, list, opt, s, out)
        sel == IF \E s \in S : R(s) /\ HistOK(s) THEN CHOOSE s \in S : R(s) /\ HistOK(s)
               ELSE IF \E s \in S : HistOK(s) THEN CHOOSE s \in S : HistOK(s)
               ELSE IF \E s \in S : R(s) THEN CHOOSE s \in S : R(s)
               ELSE CHOOSE s \in S : TRUE
    IN
    IF ~InDomain(e) THEN Fail(e, "ScenarioInDomain")
    ELSE IF e.exc # "" THEN Fail(e, "Returns")
    ELSE /\ Check(e, "Routing", Routing(reads, list, opt, sel, out))
         /\ Check(e, "Unmodified", Unmodified(reads, opt, out))
         /\ Check(e, "InputOrder", InputOrder(opt, out))
         /\ Check(e, "Partition", Partition(reads, opt, out))
         /\ Check(e, "HistogramCounts", e.histreq => HistCounts(list, opt, sel, out, rows))
         /\ Check(e, "HistogramTotals", e.histreq => HistTotals(opt, out, rows))
         /\ Check(e, "SpecLemma", (Routing(reads, list, opt, sel, out) /\ Unmodified(reads, opt, out) /\ InputOrder(opt, out))
                                     <=> Exact(reads, list, opt, sel, out))

Judge(e) ==
    CASE e.ev = "Split"   -> JudgeSplit(e)
      [] e.ev = "Crashed" -> Fail(e, "Returns")
      [] OTHER            -> Fail(e, "UnknownEvent")

Init == l = 1
Next == l <= Len(Trace) /\ Judge(Trace[l]) /\ l' = l + 1
Spec == Init /\ [][Next]_l
=============================================================================
