------------------------------ MODULE MC_GenoCall ------------------------------
(* Design-level model check of the decision rule GenoCall: TLC enumerates
   - every likelihood triple on the grid Scale/G that sums to one, with every
     threshold on that grid and every phred threshold of the table  (kind "call"),
   - every small integer triple with every threshold and tolerance 0..MaxEps, to
     prove the closed form CallWithin equal to the image of the eps-box (kind "box"),
   - a grid of milli-phred masses  (kind "gq"). *)
EXTENDS GenoCall
CONSTANTS G, N, MaxEps, MaxMp, MpStep
VARIABLES kind, L, thr, eps, mp
vars == <<kind, L, thr, eps, mp>>

Unit == Scale \div G
GridT == { <<x * Unit, y * Unit, (G - x - y) * Unit>> : <<x, y>> \in { p \in (0..G) \X (0..G) : p[1] + p[2] <= G } }
Thresholds == { x * Unit : x \in 0..G } \cup { ThrPpm(q) : q \in DOMAIN ErrPpm }
SmallT == (0..N) \X (0..N) \X (0..N)
MpGrid == { i * MpStep : i \in 0..(MaxMp \div MpStep) }

Init == \/ kind = "call" /\ L \in GridT /\ thr \in Thresholds /\ eps = 0 /\ mp = 0
        \/ kind = "box" /\ L \in SmallT /\ thr \in (-1)..(N + 1) /\ eps \in 0..MaxEps /\ mp = 0
        \/ kind = "gq" /\ L = <<0, 0, 0>> /\ thr = 0 /\ eps = 0 /\ mp \in MpGrid
Next == UNCHANGED vars
Spec == Init /\ [][Next]_vars

IsCall == kind = "call"
(* the call is unique: at most one genotype is callable *)
CallIsUnique == Cardinality(Callable(L, thr)) <= 1
(* no call iff the maximum does not exceed the threshold or is attained twice *)
NoCallIffMaxLeThrOrTie ==
    Call(L, thr) = NoCall <=> (MaxLik(L) <= thr \/ Cardinality({ g \in Genos : Lik(L, g) = MaxLik(L) }) >= 2)
CallIsArgMax == Call(L, thr) # NoCall => Lik(L, Call(L, thr)) = MaxLik(L) /\ Lik(L, Call(L, thr)) > thr
(* raising the threshold can only remove a call, never change it *)
ThresholdMonotone ==
    \A t2 \in Thresholds : t2 >= thr => (Call(L, t2) = NoCall \/ Call(L, t2) = Call(L, thr))
(* with threshold 0 (the default q = 0) every triple without a tie for the maximum is called *)
DefaultCallsAll == IsCall /\ thr = ThrPpm(0) => (thr = 0 /\ (Call(L, thr) = NoCall => ~ \E g \in Genos : IsUniqueMax(L, g)))
(* a distribution on the grid is recognised as one *)
GridIsDistribution == IsCall => IsDistribution(L, 0)

(* the closed form used on traces is exactly the image of the eps-box *)
CallWithinIsBoxImage ==
    kind = "box" => \A out \in Genos \cup {NoCall, 7} : CallWithin(L, thr, eps, out) <=> out \in BoxCalls(L, thr, eps)
ExactIsZeroBox == kind = "box" /\ eps = 0 => \A out \in Genos \cup {NoCall} : CallWithin(L, thr, 0, out) <=> out = Call(L, thr)

(* the phred table: decreasing, and ten phred units are a factor of ten *)
TableOK ==
    /\ \A q1, q2 \in DOMAIN ErrPpm : q1 < q2 => ErrPpm[q1] > ErrPpm[q2]
    /\ \A q1 \in DOMAIN ErrPpm : (q1 + 10) \in DOMAIN ErrPpm => Abs(ErrPpm[q1] - 10 * ErrPpm[q1 + 10]) <= 10
    /\ ErrPpm[0] = Scale /\ ErrPpm[10] * 10 = Scale /\ Abs(ErrPpm[3] * 2 - Scale) <= 2500

(* GQ: nearest integer phred, monotone in the mass, capped *)
GQRounds == kind = "gq" => (IF mp >= 1000 * GQCap THEN GQOf(mp) = GQCap
                            ELSE Abs(1000 * GQOf(mp) - mp) <= 500 /\ GQOf(mp) <= GQCap)
GQMonotone == kind = "gq" => \A m2 \in MpGrid : mp <= m2 => GQOf(mp) <= GQOf(m2)
GQRangeOK == kind = "gq" => /\ GQOf(mp) \in GQRange(mp, MpTol(mp))
                            /\ Cardinality(GQRange(mp, MpTol(mp))) <= 2
                            /\ GQRange(mp, 0) = {GQOf(mp)}
=============================================================================
