----------------------------- MODULE PhaseWriter -----------------------------
(* Implementation-shaped model of vcf.py:PhasedVcfWriter.write for one chromosome:
   records are streamed, target samples' old phasing is removed, records the
   writer does not support are skipped, phase results (super-read alleles per
   position, components) are written to the remaining ones.  TLC explores every
   small file, every target set, every phasing result the solver stage may hand
   over (only for positions of supported records, as the reader guarantees) and
   checks the clauses of PhaseWrite on input/output. *)
EXTENDS PhaseWrite, TLC
CONSTANTS NRec, Distrust, OnlySnv, TagPS
VARIABLES fin, targets, phases, i, prev, out
vars == <<fin, targets, phases, i, prev, out>>

Samples == {1, 2}
GTs == { <<0, 0>>, <<0, 1>>, <<1, 1>>, <<-1, -1>>, <<0, -1>> }
Calls == { c \in { [gt |-> g, phased |-> p, ps |-> IF p THEN 7 ELSE -1, hp |-> -1, rest |-> 0, raw |-> 0] : g \in GTs, p \in BOOLEAN } :
              c.phased => c.gt = <<0, 1>> }
Kinds == { "snv", "indel", "multi", "symbolic" }
Rec(pos, kind, calls) ==
    [chrom |-> 1, pos |-> pos, fixed |-> 0, nalt |-> IF kind = "multi" THEN 2 ELSE 1, symbolic |-> kind = "symbolic",
     snv |-> kind = "snv", dup |-> FALSE, keys |-> <<>>, calls |-> calls]
(* a symbolic ALT (<DEL>, <INS>, ...) is read like any other single ALT allele: the repository's own tests pin genetic
   phasing of such records (test_genetic_phasing_symbolic_alt) *)
Supported(r) == r.nalt = 1
(* positions the reader hands to the phasing stages: first supported biallelic record of each position *)
Eligible(recs) == { recs[k].pos : k \in { x \in DOMAIN recs : Supported(recs[x]) /\ (OnlySnv => recs[x].snv)
                                                               /\ ~\E y \in 1..(x - 1) : recs[y].pos = recs[x].pos } }
PhaseVals == { <<0, 1>>, <<1, 0>> } \cup (IF Distrust THEN { <<0, 0>>, <<1, 1>> } ELSE {})

Init ==
    /\ fin \in [1..NRec -> { Rec(p, k, cs) : p \in 1..2, k \in Kinds, cs \in [Samples -> Calls] }]
    /\ \A a \in 1..(NRec - 1) : fin[a].pos <= fin[a + 1].pos
    /\ targets \in SUBSET Samples
    /\ phases \in [targets -> [Eligible(fin) -> PhaseVals \cup { <<>> }]]      \* <<>> = no phase for this position
    (* contract of the earlier stages (C01/C05): a sample gets alleles only where its genotype is called, and
       unless genotypes are distrusted the alleles are those of the genotype *)
    /\ \A s \in targets : \A p \in Eligible(fin) :
          LET k == CHOOSE x \in DOMAIN fin : fin[x].pos = p /\ Supported(fin[x]) /\ (OnlySnv => fin[x].snv)
                                               /\ ~\E y \in 1..(x - 1) : fin[y].pos = p
              g == fin[k].calls[s].gt IN
          phases[s][p] # <<>> => /\ \A a \in DOMAIN g : g[a] # -1
                                  /\ (~Distrust => SameBag(phases[s][p], g))
    /\ i = 1 /\ prev = 0 /\ out = <<>>

Sorted2(g) == IF \A k \in DOMAIN g : g[k] # -1 THEN (IF g[1] <= g[2] THEN g ELSE <<g[2], g[1]>>) ELSE g
RemoveOld(c) == IF TagPS THEN [c EXCEPT !.phased = FALSE, !.gt = Sorted2(c.gt)] ELSE c
IsHom(g) == g[1] = g[2] /\ g[1] # -1
AnyPhase(r) == \E s \in targets : r.pos \in DOMAIN phases[s] /\ phases[s][r.pos] # <<>>

WriteCall(r, s, c0) ==
    LET ph == IF r.pos \in DOMAIN phases[s] THEN phases[s][r.pos] ELSE <<>>
        changed == ph # <<>> /\ ~SameBag(ph, c0.gt)                  \* genotype to be changed (only with distrust)
        g1 == IF changed THEN Sorted2(ph) ELSE c0.gt
        het == ~IsHom(g1)
    IN IF ph # <<>> /\ het /\ ph[1] # ph[2]
       THEN IF TagPS THEN [c0 EXCEPT !.gt = ph, !.phased = TRUE, !.ps = r.pos + 1]
            ELSE [c0 EXCEPT !.gt = g1, !.hp = r.pos + 1]
       ELSE IF TagPS THEN [c0 EXCEPT !.gt = g1, !.ps = -1] ELSE [c0 EXCEPT !.gt = g1, !.hp = -1]

Step ==
    /\ i <= NRec
    /\ LET r == fin[i]
           cleaned == [s \in Samples |-> IF s \in targets THEN RemoveOld(r.calls[s]) ELSE r.calls[s]]
           skip == r.nalt > 1 \/ r.pos = prev \/ (OnlySnv /\ ~r.snv) \/ ~AnyPhase(r)
           newcalls == IF skip THEN cleaned
                       ELSE [s \in Samples |-> IF s \in targets THEN WriteCall(r, s, cleaned[s]) ELSE cleaned[s]]
           \* dup (for the judge) follows the READER's rule: an earlier record of a supported type sits at this position
           isdup == \E y \in 1..(i - 1) : fin[y].pos = r.pos /\ Supported(fin[y]) /\ (OnlySnv => fin[y].snv)
       IN /\ out' = Append(out, [r EXCEPT !.calls = newcalls, !.dup = isdup])
          /\ prev' = IF skip THEN prev ELSE r.pos          \* the writer remembers only positions it processed
    /\ i' = i + 1
    /\ UNCHANGED <<fin, targets, phases>>
Spec == Init /\ [][Step]_vars

(* the run as an event of PhaseWrite; raw = the whole call for the identity clause *)
WithRaw(recs) == [k \in DOMAIN recs |-> [recs[k] EXCEPT !.calls = [s \in Samples |-> [recs[k].calls[s] EXCEPT !.raw = recs[k].calls[s]]]]]
RECURSIVE SeqOfSet(_)
SeqOfSet(S) == IF S = {} THEN <<>> ELSE LET x == CHOOSE y \in S : TRUE IN <<x>> \o SeqOfSet(S \ {x})
Ev == [fin |-> [defs |-> <<>>, samples |-> <<1, 2>>, recs |-> WithRaw(fin)],
       fout |-> [defs |-> <<>>, samples |-> <<1, 2>>, recs |-> WithRaw(out)],
       targets |-> SeqOfSet(targets), csel |-> <<1>>, distrust |-> Distrust, onlysnv |-> OnlySnv]
Done == i > NRec
InvSameRecords == Done => SameRecords(Ev.fin, Ev.fout)
InvUntouched == Done => UntouchedElsewhere(Ev)
InvAlleles == Done => AllelesPreserved(Ev)
(* phase statements made by THIS run (pre-existing phase of the other encoding is C09's subject) *)
InvOnlySupported ==
    Done => \A k \in DOMAIN out : \A s \in targets :
        LET c == out[k].calls[s] IN
        ((TagPS /\ c.phased) \/ (~TagPS /\ c.hp # -1)) =>
            /\ Het(c) /\ out[k].nalt = 1 /\ ~out[k].dup /\ (OnlySnv => out[k].snv)
=============================================================================
