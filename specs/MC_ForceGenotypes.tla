-------------------------- MODULE MC_ForceGenotypes --------------------------
(* Model-checking wrapper for ForceGenotypes: every haplotype column (including
   undetermined slots) x every target genotype up to MaxPloidy / NumAlleles, and
   emission of every such case so that the driver replays it into the real
   whatshap.polyphase.threading.force_genotypes. *)
EXTENDS ForceGenotypes, Json

Emit == IF pc = "count" THEN PrintT(<<"BEHAVIOUR", ToJson([col |-> col, gt |-> gt])>>) ELSE TRUE
=============================================================================
