SPECIFICATION Spec
