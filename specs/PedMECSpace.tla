----------------------------- MODULE PedMECSpace -----------------------------
(* The space of tiny (Ped)MEC instances shared by the scenario enumerator
   (Gen_C01) and the design-level model check of the column DP (MC_PedMECDP). *)
EXTENDS PedMEC, SequencesExt

ColSets(m) == { S \in SUBSET (1..m) : Cardinality(S) >= 2 }
CellSeqs(S) == LET cs == SetToSortSeq(S, <) IN
    { [k \in 1..Len(cs) |-> <<cs[k], al[k], IF k = 1 THEN w ELSE 1>>] : al \in [1..Len(cs) -> {0, 1}], w \in {1, 2} }
ReadOpts(m, inds) == UNION { { [ind |-> i, cells |-> cl] : i \in inds, cl \in CellSeqs(S) } : S \in ColSets(m) }

RECURSIVE ReadSeqs(_, _)
(* sequences of at most n reads with non-decreasing first column *)
ReadSeqs(opts, n) ==
    IF n = 0 THEN { <<>> }
    ELSE LET shorter == ReadSeqs(opts, n - 1) IN
         shorter \cup { Append(s, r) : s \in { u \in shorter : Len(u) = n - 1 },
                                       r \in opts } 
Sorted(s) == \A k \in 1..(Len(s) - 1) : s[k].cells[1][1] <= s[k + 1].cells[1][1]
SortedReadSeqs(opts, n) == { s \in ReadSeqs(opts, n) : Sorted(s) }

ZeroGL(n, m) == [i \in 1..n |-> [c \in 1..m |-> <<0, 0, 0>>]]
GLOpts == { <<0, 3, 7>>, <<5, 0, 5>>, <<2, 2, 0>> }

Single(m, rs, g, dis, gl) ==
    [nInd |-> 1, trios |-> <<>>, m |-> m, rc |-> [c \in 1..m |-> 0], reads |-> rs,
     distrust |-> dis, gt |-> <<g>>, gl |-> <<gl>>]

SingleTrusted2 == { Single(2, rs, g, FALSE, ZeroGL(1, 2)[1]) : rs \in SortedReadSeqs(ReadOpts(2, {1}), 3), g \in [1..2 -> 0..2] }
SingleTrusted3 == { Single(3, rs, g, FALSE, ZeroGL(1, 3)[1]) : rs \in SortedReadSeqs(ReadOpts(3, {1}), 2), g \in [1..3 -> 0..2] }
SingleHet3     == { Single(3, rs, <<1, 1, 1>>, FALSE, ZeroGL(1, 3)[1]) : rs \in { s \in SortedReadSeqs(ReadOpts(3, {1}), 3) : Len(s) = 3 } }
SingleDistrust == { Single(2, rs, <<1, 1>>, TRUE, gl) : rs \in SortedReadSeqs(ReadOpts(2, {1}), 2), gl \in [1..2 -> GLOpts] }

(* a trio, 2 columns: Mendelian-consistent genotype triples <<father, mother, child>> per column *)
TrioGT == { <<1, 1, 1>>, <<1, 0, 1>>, <<0, 1, 0>>, <<1, 1, 2>>, <<2, 1, 1>> }
Trio == { [nInd |-> 3, trios |-> << <<1, 2, 3>> >>, m |-> 2, rc |-> <<0, r>>, reads |-> rs, distrust |-> FALSE,
           gt |-> << <<g1[1], g2[1]>>, <<g1[2], g2[2]>>, <<g1[3], g2[3]>> >>, gl |-> ZeroGL(3, 2)]
          : rs \in SortedReadSeqs(ReadOpts(2, {1, 2, 3}), 2), g1 \in TrioGT, g2 \in TrioGT, r \in {0, 2} }

=============================================================================
