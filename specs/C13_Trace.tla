------------------------------ MODULE C13_Trace ------------------------------
(* Trace validation for C13 (`whatshap unphase`).  One tid = one history of real commands over
   real files, every file projected to the abstract VCF of VcfModel by the driver's own text
   parser (not by pysam).

   events
     Load     id, file                       the input file as written by the materialiser
     Unphase  src, dst, exc, out             run_unphase on file src; out = projected stdout VCF
              srcmeta, meta, srccols, cols   raw '##' lines (without the FORMAT definitions of HP/PS/PQ and
                                             '##phasing') and raw '#CHROM' line of source and output
   All strings are byte-transparent: the driver escapes every byte >= 0x80 as \xNN, so string equality
   is equality of the bytes of the files, whatever their character encoding.
     Phase    src, dst, tag, exc, out        a real `whatshap phase` run on file src (not judged here
                                             beyond being recorded; C04/C09 judge phase)

   carried state (reset at seq = 1)
     files  id -> abstract file       der  id -> [op, src]      uof  id -> id of a file that is U(id)

   clauses (one per sentence of the statement)
     Succeeds           unphase raises nothing on a well-formed VCF
     NoPhaseLeft        no '|' in any GT, no PS / HP / PQ value in any call of the output
     NothingElse        same number and order of records, fixed columns verbatim, per call the same
                        other FORMAT fields in the same order and the same multiset of alleles;
                        no header definition lost except those of HP / PS / PQ
     HeaderVerbatim     every other header line of the source is in the output byte for byte, and the
                        '#CHROM' line (sample names) is byte-identical
     Idempotent         the source is itself an unphase output  =>  output records = source records
     CommutesWithPhase  the source was written by `whatshap phase` from file g and U(g) is on
                        record  =>  output records = records of U(g) *)
EXTENDS VcfModel, Json, IOUtils, TLC
Trace == ndJsonDeserialize(IOEnv.TRACE_FILE)
VARIABLES l, files, der, uof
vars == <<l, files, der, uof>>

Fail(e, c) == PrintT(<<"VERDICT", e.tid, e.seq, c>>)
Check(e, c, ok) == IF ok THEN TRUE ELSE Fail(e, c)

Known(id) == id \in DOMAIN files

JudgeUnphase(e) ==
    IF ~Known(e.src) THEN Fail(e, "UnknownSource")
    ELSE IF e.exc # "" THEN Fail(e, "Succeeds")
    ELSE LET in == files[e.src] IN
         /\ Check(e, "NoPhaseLeft", NoPhaseLeft(e.out))
         /\ Check(e, "NothingElse", NothingElse(in, e.out))
         /\ Check(e, "HeaderVerbatim", Rng(e.srcmeta) \subseteq Rng(e.meta) /\ e.cols = e.srccols)
         /\ Check(e, "Idempotent", der[e.src].op = "U" => e.out.recs = in.recs)
         /\ Check(e, "CommutesWithPhase",
                  (der[e.src].op = "P" /\ der[e.src].src \in DOMAIN uof)
                      => e.out.recs = files[uof[der[e.src].src]].recs)

Judge(e) ==
    CASE e.ev = "Load"    -> TRUE
      [] e.ev = "Unphase" -> JudgeUnphase(e)
      [] e.ev = "Phase"   -> Check(e, "UnknownSource", Known(e.src))
      [] e.ev = "Crashed" -> Fail(e, "Returns")
      [] OTHER            -> Fail(e, "UnknownEvent")

Put(fn, k, v) == (k :> v) @@ fn
Empty == << >>

Init == l = 1 /\ files = Empty /\ der = Empty /\ uof = Empty
Next == /\ l <= Len(Trace)
        /\ LET e == Trace[l]
               fs == IF e.seq = 1 THEN Empty ELSE files
               ds == IF e.seq = 1 THEN Empty ELSE der
               us == IF e.seq = 1 THEN Empty ELSE uof
               ok == e.ev \in {"Unphase", "Phase"} /\ e.exc = "" /\ e.src \in DOMAIN fs
           IN
           /\ Judge(e)
           /\ files' = IF e.ev = "Load" THEN Put(fs, e.id, e.file)
                       ELSE IF ok THEN Put(fs, e.dst, e.out) ELSE fs
           /\ der' = IF e.ev = "Load" THEN Put(ds, e.id, [op |-> "L", src |-> -1])
                     ELSE IF ok THEN Put(ds, e.dst, [op |-> IF e.ev = "Unphase" THEN "U" ELSE "P", src |-> e.src]) ELSE ds
           /\ uof' = IF ok /\ e.ev = "Unphase" /\ e.src \notin DOMAIN us THEN Put(us, e.src, e.dst) ELSE us
        /\ l' = l + 1
Spec == Init /\ [][Next]_vars
=============================================================================
