----------------------------- MODULE MC_PolyCuts -----------------------------
(* Model-checking wrapper for PolyCuts: position vectors (with adjacent bases, so that
   the key position+1 of one variant collides with the next variant), and emission of
   every initial state so that the driver replays the breakpoint list into the real
   compute_cut_positions / phase_single_individual. *)
EXTENDS PolyCuts, Json

MCAcc == { <<7>>, <<7, 8>>, <<7, 20>>, <<7, 8, 9>>, <<7, 8, 20>>, <<7, 20, 21>>, <<5, 20, 40>>,
           <<7, 8, 9, 10>>, <<7, 8, 20, 21>>, <<7, 20, 21, 40>>, <<5, 20, 40, 60>>,
           <<5, 6, 20, 40, 41>>, <<5, 20, 40, 60, 80>> }

MCLogConfs == {0, -1, -3}
MCLogConfs2 == {-1, -3}

Emit == IF pcc = "loop" /\ k = 1 /\ cuts = <<>>
        THEN PrintT(<<"BEHAVIOUR", ToJson([n |-> n, ploidy |-> Ploidy, sens |-> sens, acc |-> acc,
                                           bps |-> bps])>>)
        ELSE TRUE
=============================================================================
