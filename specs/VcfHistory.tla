----------------------------- MODULE VcfHistory -----------------------------
(* Histories of whole commands over one variant file (C09, C13).

   One action per command:  Phase(tag, T, snvs, P)  -- `whatshap phase --tag=tag --sample T...
   [--only-snvs]` whose run produced the phasing P (for each target sample and record either
   NoPhase or a statement [block, al]);  Unphase  -- `whatshap unphase`.  The file is the abstract
   VCF of VcfModel.  A run does not support every record: multi-ALT records and records at a
   duplicated position never (NeverSites), indels not under --only-snvs (IndelSites); P has no
   statement there, yet the output must not state anything else for a target sample at ANY record.

   The encoders are the ones the VCF conventions prescribe (VcfModel!ClearPhase, Encode).  With
   Faithful = FALSE the Phase action instead mirrors what whatshap/vcf.py did before commit d882ab3
   (existing phase only cleared when writing PS, and then only the GT/'|' part) and leaves records the
   run does not support untouched: TLC then finds the NoStalePhase / RoundTrip counterexamples --
   the negative control of this model.

   Design-level claims checked by TLC over all histories (state graph is finite):
     C09  RoundTrip, NoStalePhase, DecodesCleanly, SampleClean, TagEquivalence
     C13  UnphaseOK (NoPhaseLeft + NothingElse), Idempotent, CommutesWithPhase, UnphaseIsConstant *)
EXTENDS VcfModel, TLC
CONSTANTS NS,            \* number of samples
          Inits,         \* set of initial files
          Faithful,      \* TRUE: conventions; FALSE: transcription of a wrong writer (negative control)
          ClearAll,      \* TRUE: old statements of target samples are removed at every record; FALSE: only at the
                         \* records the run supports (second negative control: the seeded change of round 2)
          IndelSites,    \* record indices that are not SNVs (skipped under --only-snvs)
          NeverSites,    \* record indices no run supports (multi-ALT, duplicated position)
          SnvsOpts,      \* values of the --only-snvs option that are explored (subset of BOOLEAN)
          Depth          \* bound on the history length (emission only)
VARIABLES f, f0, last, hist
vars == <<f, f0, last, hist>>

Samples == 1..NS
Sites == DOMAIN (CHOOSE x \in Inits : TRUE).recs
PosOf(i) == 10 * i                     \* 1-based position of record i; a block is named by its leftmost position

Call(g, s, i) == g.recs[i].calls[s]
Supported(snvs) == (Sites \ NeverSites) \ (IF snvs THEN IndelSites ELSE {})
HetSites(g, s) == { i \in Sites : IsHet(Call(g, s, i)) /\ FullyCalled(Call(g, s, i)) /\ Len(Call(g, s, i).gt) = 2 }

(* all phasings a run can report for sample s of file g: a subset of the heterozygous sites,
   partitioned into blocks named by their leftmost member, with an allele order per site *)
Labelings(H) == { lab \in [H -> H] : \A x \in H : lab[x] <= x /\ lab[lab[x]] = lab[x] }
PhasingsOf(g, s, snvs) ==
    UNION { UNION { { [i \in Sites |-> IF i \in H THEN [block |-> PosOf(lab[i]), al |-> o[i]] ELSE NoPhase]
                      : o \in [H -> {<<0, 1>>, <<1, 0>>}] }
                    : lab \in Labelings(H) }
            : H \in SUBSET (HetSites(g, s) \cap Supported(snvs)) }

(* --------------------------------------------------------------------- the commands *)
\* what the pinned code does before writing (vcf.py:_remove_existing_phasing): only for tag PS, only GT
CodeClear(tag, c) == IF tag = "PS" THEN [c EXCEPT !.ph = FALSE, !.gt = IF FullyCalled(c) THEN SortAsc(c.gt) ELSE c.gt]
                     ELSE c
\* what the pinned code writes (vcf.py:_set_PS / _set_HP; the unphased branch sets the tag to '.')
CodeEncode(tag, c, p) ==
    IF p = NoPhase THEN (IF tag = "PS" THEN [c EXCEPT !.ps = NoVal] ELSE [c EXCEPT !.hp = << >>])
    ELSE IF tag = "PS" THEN [c EXCEPT !.gt = p.al, !.ph = TRUE, !.ps = p.block]
    ELSE [c EXCEPT !.hp = [k \in 1..2 |-> <<p.block, p.al[k] + 1>>]]

PhaseCall(tag, c, p, sup) == IF Faithful THEN (IF sup \/ ClearAll THEN Encode(tag, ClearPhase(c), p) ELSE c)
                             ELSE IF sup THEN CodeEncode(tag, CodeClear(tag, c), p) ELSE c
PhaseFile(g, tag, T, snvs, P) ==
    [g EXCEPT !.recs = [i \in DOMAIN g.recs |->
        [g.recs[i] EXCEPT !.calls = [s \in DOMAIN g.recs[i].calls |->
            IF s \in T THEN PhaseCall(tag, g.recs[i].calls[s], P[s][i], i \in Supported(snvs)) ELSE g.recs[i].calls[s]]]]]

Tags == {"PS", "HP"}
Targets == (SUBSET Samples) \ {{}}
RECURSIVE PhasingChoices(_, _, _)
PhasingChoices(g, T, snvs) ==          \* functions T -> phasing of that sample
    IF T = {} THEN { << >> }
    ELSE LET s == CHOOSE x \in T : TRUE IN
         { (s :> p) @@ r : p \in PhasingsOf(g, s, snvs), r \in PhasingChoices(g, T \ {s}, snvs) }

PhaseStep(tag, T, snvs, P) == /\ f' = PhaseFile(f, tag, T, snvs, P)
                              /\ last' = [op |-> "phase", tag |-> tag, T |-> T, P |-> P]
UnphaseStep == /\ f' = UnphaseFile(f)
               /\ last' = [op |-> "unphase", tag |-> "", T |-> {}, P |-> << >>]
Phase(tag, T, snvs, P) == PhaseStep(tag, T, snvs, P) /\ hist' = hist
Unphase == UnphaseStep /\ hist' = hist

Init == f \in Inits /\ f0 = f /\ last = [op |-> "init", tag |-> "", T |-> {}, P |-> << >>] /\ hist = << >>
Next == /\ f0' = f0
        /\ \/ Unphase
           \/ \E tag \in Tags, T \in Targets, snvs \in SnvsOpts : \E P \in PhasingChoices(f, T, snvs) : Phase(tag, T, snvs, P)
Spec == Init /\ [][Next]_vars

(* --------------------------------------------------------------------- C09 *)
Dec(tag, c) == IF tag = "PS" THEN DecPS(c) ELSE DecHP(c)
Other(tag) == IF tag = "PS" THEN "HP" ELSE "PS"

\* state predicates about the step that led here (last = the command, f = its output)
RoundTrip == last.op = "phase" =>
    \A s \in last.T : \A i \in Sites : Dec(last.tag, Call(f, s, i)) = last.P[s][i]
NoStalePhase == last.op = "phase" =>
    \A s \in last.T : \A i \in Sites : \A tg \in Tags :
        Dec(tg, Call(f, s, i)) \in {NoPhase, last.P[s][i]}
\* after phasing all samples the file carries one encoding only (it can be read back)
AnyPS(g) == \E s \in Samples, i \in Sites : HasPSStatement(Call(g, s, i))
AnyHP(g) == \E s \in Samples, i \in Sites : HasHPStatement(Call(g, s, i))
DecodesCleanly == (last.op = "phase" /\ last.T = Samples) => ~(AnyPS(f) /\ AnyHP(f))
\* a sample never carries both encodings
SampleClean == \A s \in Samples :
    ~ (/\ \E i \in Sites : HasPSStatement(Call(f, s, i))
       /\ \E i \in Sites : HasHPStatement(Call(f, s, i)))
\* both tags written from the same run decode to the same statements
\* (PhaseFile acts call by call, so single-sample target sets cover the claim)
Singles == { {s} : s \in Samples }
TagEquivalence == \A T \in Singles, snvs \in SnvsOpts : \A P \in PhasingChoices(f, T, snvs) :
    \A s \in T : \A i \in Sites :
        DecPS(Call(PhaseFile(f, "PS", T, snvs, P), s, i)) = DecHP(Call(PhaseFile(f, "HP", T, snvs, P), s, i))

(* --------------------------------------------------------------------- C13 *)
UnphaseOK == UnphaseRel(f, UnphaseFile(f))
Idempotent == UnphaseFile(UnphaseFile(f)) = UnphaseFile(f)
\* along any sequence of phase / unphase commands the unphased records stay those of the original
UnphaseIsConstant == UnphaseFile(f).recs = UnphaseFile(f0).recs
\* the literal statement: unphasing a phased file = unphasing the file that was phased
CommutesWithPhase == \A tag \in Tags, T \in Singles, snvs \in SnvsOpts : \A P \in PhasingChoices(f, T, snvs) :
                         UnphaseFile(PhaseFile(f, tag, T, snvs, P)).recs = UnphaseFile(f).recs
=============================================================================
