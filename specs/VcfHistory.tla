----------------------------- MODULE VcfHistory -----------------------------
(* Histories of whole commands over one variant file (C09, C13).

   One action per command:  Phase(tag, T, P)  -- `whatshap phase --tag=tag --sample T...` whose
   run produced the phasing P (for each target sample and record either NoPhase or a statement
   [block, al]);  Unphase  -- `whatshap unphase`.  The file is the abstract VCF of VcfModel.

   The encoders are the ones the VCF conventions prescribe (VcfModel!ClearPhase, Encode).  With
   Faithful = FALSE the Phase action instead mirrors what whatshap/vcf.py does on the pinned
   tree (existing phase only cleared when writing PS, and then only the GT/'|' part): TLC then
   finds the NoStalePhase / RoundTrip counterexamples -- the negative control of this model.

   Design-level claims checked by TLC over all histories (state graph is finite):
     C09  RoundTrip, NoStalePhase, DecodesCleanly, SampleClean, TagEquivalence
     C13  UnphaseOK (NoPhaseLeft + NothingElse), Idempotent, CommutesWithPhase, UnphaseIsConstant *)
EXTENDS VcfModel, TLC
CONSTANTS NS,            \* number of samples
          Inits,         \* set of initial files
          Faithful,      \* TRUE: conventions; FALSE: transcription of the pinned code
          Depth          \* bound on the history length (emission only)
VARIABLES f, f0, last, hist
vars == <<f, f0, last, hist>>

Samples == 1..NS
Sites == DOMAIN (CHOOSE x \in Inits : TRUE).recs
PosOf(i) == 10 * i                     \* 1-based position of record i; a block is named by its leftmost position

Call(g, s, i) == g.recs[i].calls[s]
HetSites(g, s) == { i \in Sites : IsHet(Call(g, s, i)) /\ FullyCalled(Call(g, s, i)) /\ Len(Call(g, s, i).gt) = 2 }

(* all phasings a run can report for sample s of file g: a subset of the heterozygous sites,
   partitioned into blocks named by their leftmost member, with an allele order per site *)
Labelings(H) == { lab \in [H -> H] : \A x \in H : lab[x] <= x /\ lab[lab[x]] = lab[x] }
PhasingsOf(g, s) ==
    UNION { UNION { { [i \in Sites |-> IF i \in H THEN [block |-> PosOf(lab[i]), al |-> o[i]] ELSE NoPhase]
                      : o \in [H -> {<<0, 1>>, <<1, 0>>}] }
                    : lab \in Labelings(H) }
            : H \in SUBSET HetSites(g, s) }

(* --------------------------------------------------------------------- the commands *)
\* what the pinned code does before writing (vcf.py:_remove_existing_phasing): only for tag PS, only GT
CodeClear(tag, c) == IF tag = "PS" THEN [c EXCEPT !.ph = FALSE, !.gt = IF FullyCalled(c) THEN SortAsc(c.gt) ELSE c.gt]
                     ELSE c
\* what the pinned code writes (vcf.py:_set_PS / _set_HP; the unphased branch sets the tag to '.')
CodeEncode(tag, c, p) ==
    IF p = NoPhase THEN (IF tag = "PS" THEN [c EXCEPT !.ps = NoVal] ELSE [c EXCEPT !.hp = << >>])
    ELSE IF tag = "PS" THEN [c EXCEPT !.gt = p.al, !.ph = TRUE, !.ps = p.block]
    ELSE [c EXCEPT !.hp = [k \in 1..2 |-> <<p.block, p.al[k] + 1>>]]

PhaseCall(tag, c, p) == IF Faithful THEN Encode(tag, ClearPhase(c), p) ELSE CodeEncode(tag, CodeClear(tag, c), p)
PhaseFile(g, tag, T, P) ==
    [g EXCEPT !.recs = [i \in DOMAIN g.recs |->
        [g.recs[i] EXCEPT !.calls = [s \in DOMAIN g.recs[i].calls |->
            IF s \in T THEN PhaseCall(tag, g.recs[i].calls[s], P[s][i]) ELSE g.recs[i].calls[s]]]]]

Tags == {"PS", "HP"}
Targets == (SUBSET Samples) \ {{}}
RECURSIVE PhasingChoices(_, _)
PhasingChoices(g, T) ==          \* functions T -> phasing of that sample
    IF T = {} THEN { << >> }
    ELSE LET s == CHOOSE x \in T : TRUE IN
         { (s :> p) @@ r : p \in PhasingsOf(g, s), r \in PhasingChoices(g, T \ {s}) }

PhaseStep(tag, T, P) == /\ f' = PhaseFile(f, tag, T, P)
                        /\ last' = [op |-> "phase", tag |-> tag, T |-> T, P |-> P]
UnphaseStep == /\ f' = UnphaseFile(f)
               /\ last' = [op |-> "unphase", tag |-> "", T |-> {}, P |-> << >>]
Phase(tag, T, P) == PhaseStep(tag, T, P) /\ hist' = hist
Unphase == UnphaseStep /\ hist' = hist

Init == f \in Inits /\ f0 = f /\ last = [op |-> "init", tag |-> "", T |-> {}, P |-> << >>] /\ hist = << >>
Next == /\ f0' = f0
        /\ \/ Unphase
           \/ \E tag \in Tags, T \in Targets : \E P \in PhasingChoices(f, T) : Phase(tag, T, P)
Spec == Init /\ [][Next]_vars

(* --------------------------------------------------------------------- C09 *)
Dec(tag, c) == IF tag = "PS" THEN DecPS(c) ELSE DecHP(c)
Other(tag) == IF tag = "PS" THEN "HP" ELSE "PS"

\* state predicates about the step that led here (last = the command, f = its output)
RoundTrip == last.op = "phase" =>
    \A s \in last.T : \A i \in Sites : Dec(last.tag, Call(f, s, i)) = last.P[s][i]
NoStalePhase == last.op = "phase" =>
    \A s \in last.T : \A i \in Sites : \A tg \in Tags :
        Dec(tg, Call(f, s, i)) \in {NoPhase, last.P[s][i]}
\* after phasing all samples the file carries one encoding only (it can be read back)
AnyPS(g) == \E s \in Samples, i \in Sites : HasPSStatement(Call(g, s, i))
AnyHP(g) == \E s \in Samples, i \in Sites : HasHPStatement(Call(g, s, i))
DecodesCleanly == (last.op = "phase" /\ last.T = Samples) => ~(AnyPS(f) /\ AnyHP(f))
\* a sample never carries both encodings
SampleClean == \A s \in Samples :
    ~ (/\ \E i \in Sites : HasPSStatement(Call(f, s, i))
       /\ \E i \in Sites : HasHPStatement(Call(f, s, i)))
\* both tags written from the same run decode to the same statements
\* (PhaseFile acts call by call, so single-sample target sets cover the claim)
Singles == { {s} : s \in Samples }
TagEquivalence == \A T \in Singles : \A P \in PhasingChoices(f, T) :
    \A s \in T : \A i \in Sites :
        DecPS(Call(PhaseFile(f, "PS", T, P), s, i)) = DecHP(Call(PhaseFile(f, "HP", T, P), s, i))

(* --------------------------------------------------------------------- C13 *)
UnphaseOK == UnphaseRel(f, UnphaseFile(f))
Idempotent == UnphaseFile(UnphaseFile(f)) = UnphaseFile(f)
\* along any sequence of phase / unphase commands the unphased records stay those of the original
UnphaseIsConstant == UnphaseFile(f).recs = UnphaseFile(f0).recs
\* the literal statement: unphasing a phased file = unphasing the file that was phased
CommutesWithPhase == \A tag \in Tags, T \in Singles : \A P \in PhasingChoices(f, T) :
                         UnphaseFile(PhaseFile(f, tag, T, P)).recs = UnphaseFile(f).recs
=============================================================================
