-------------------------------- MODULE X03Ped --------------------------------
(* X03 (c): whatshap/pedigree.py - PedReader, mendelian_conflict, the recombination cost
   computers and the genetic map reader.

   PED lines (abstract): [k, ind, fa, mo] with k in
       "rec" (>= 6 fields) | "comment" (#...) | "empty" (exactly a newline) |
       "short" (1..5 fields) | "ws" (white space only: split() gives no fields)
   ids are positive integers, 0 is the PED code for "unknown".
   Model: comment / empty lines are skipped; a short line is a ParseError, and so is a
   white-space-only line (deviation named: it is not skipped); an individual occurring on
   two record lines is a ParseError; otherwise one trio per record line, in order;
   samples() = all members of the trios with both parents known.

   Distances are integers in units of 1e-8 cM.  The phred cost of a distance is the integer
   nearest to -10 log10((1 - exp(-2 d / 100)) / 2); TLA+ has no transcendental functions, so
   the definition is TABULATED: LowUnits[c - 7] is the smallest number of units whose cost is
   <= c (computed once with 60-digit decimal arithmetic; no boundary is closer than 0.015
   units to an integer).  Distances below 1e-10 cM (here: <= 0 units) are clamped by the
   genetic-map computer to 1e-10 cM = cost 120; the uniform computer raises ValueError for
   distance 0 ("Cannot convert genetic distance of zero to phred"). *)
EXTENDS Util, TLC

(* ---------------------------------------------------------------- PedReader *)
PedRecs(lines) == SelectSeq(lines, LAMBDA x : x.k = "rec")
PedBad(lines) == \/ \E i \in DOMAIN lines : lines[i].k \in {"short", "ws"}
                 \/ LET r == PedRecs(lines) IN \E i, j \in DOMAIN r : i < j /\ r[i].ind = r[j].ind
PedTrios(lines) == LET r == PedRecs(lines) IN [i \in DOMAIN r |-> <<r[i].ind, r[i].fa, r[i].mo>>]
PedSamples(lines) == UNION { { t[1], t[2], t[3] } : t \in { x \in Rng(PedTrios(lines)) : x[2] # 0 /\ x[3] # 0 } }

(* ------------------------------------------------------- mendelian_conflict *)
(* no conflict iff the child's genotype is {a, b} for an allele a of the mother and b of the father *)
Compatible(m, f, c) == \E a \in Rng(m), b \in Rng(f) : SameBag(<<a, b>>, c)

(* -------------------------------------------------------------- phred table *)
LowUnits == <<1659963985, 1270615572, 981596474, 763362280, 596555003, 467910321, 368031833, 290093288, 229038800,
    181067257, 143287410, 113479928, 89928990, 71300548, 56552752, 44869082, 35607831, 28263562, 22437481, 17814493,
    14145366, 11232793, 8920463, 7084475, 5626578, 4468833, 3549394, 2819178, 2239223, 1778596, 1412738, 1122145,
    891331, 707996, 562373, 446704, 354826, 281847, 223878, 177832, 141256, 112204, 89126, 70796, 56235, 44669,
    35482, 28184, 22388, 17783, 14126, 11221, 8913, 7080, 5624, 4467, 3549, 2819, 2239, 1779, 1413, 1123, 892, 708,
    563, 447, 355, 282, 224, 178, 142, 113, 90, 71, 57, 45, 36, 29, 23, 18, 15, 12, 9, 8, 6, 5, 4, 3, 3, 2, 2, 2, 1>>
(* cost of d >= 1 units (d < 2^31, i.e. below 21.47 cM): the least c in 8..100 with LowUnits[c - 7] <= d *)
PhredOfUnits(d) == MinSet({ c \in 8..100 : LowUnits[c - 7] <= d })
ClampedCost == 120

(* ----------------------------------------------- UniformRecombinationCostComputer *)
(* rate r100 / 100 cM/Mb: the distance of dbp base pairs is dbp * r100 units *)
(* deviation named: for an EMPTY position list both computers return <<0>> (find_recombination documents it) *)
UniformCosts(r100, pos) == IF pos = <<>> THEN <<0>> ELSE [i \in DOMAIN pos |-> IF i = 1 THEN 0 ELSE PhredOfUnits((pos[i] - pos[i - 1]) * r100)]
UniformHasZero(r100, pos) == \E i \in 2..Len(pos) : (pos[i] - pos[i - 1]) * r100 = 0

(* --------------------------------------------- GeneticMapRecombinationCostComputer *)
(* map: sequence of <<position, cumulative units>>, positions strictly increasing and > 0.
   Cumulative distance of a position as a fraction <<numerator, denominator>>:
     before the first entry    linear from (0, 0) to the first entry
     inside                    linear between the neighbouring entries
     after the last entry      extrapolated with the average rate  last.cum / last.pos *)
Lo(map, p) == IF \E k \in DOMAIN map : map[k][1] <= p THEN MaxSet({ k \in DOMAIN map : map[k][1] <= p }) ELSE 0
Hi(map, p) == IF \E k \in DOMAIN map : map[k][1] >= p THEN MinSet({ k \in DOMAIN map : map[k][1] >= p }) ELSE 0
CumFrac(map, p) ==
    LET i == Lo(map, p)
        j == Hi(map, p)
        n == Len(map) IN
    IF i = 0 THEN <<p * map[j][2], map[j][1]>>
    ELSE IF j = 0 THEN <<map[n][2] * map[n][1] + (p - map[n][1]) * map[n][2], map[n][1]>>
    ELSE IF i = j THEN <<map[i][2], 1>>
    ELSE <<map[i][2] * (map[j][1] - map[i][1]) + (p - map[i][1]) * (map[j][2] - map[i][2]), map[j][1] - map[i][1]>>
Integral(fr) == (fr[1] % fr[2]) = 0
CumUnits(map, p) == LET fr == CumFrac(map, p) IN fr[1] \div fr[2]
MapDomain(map, pos) == /\ Len(map) >= 1 /\ map[1][1] > 0
                       /\ \A k \in 1..(Len(map) - 1) : map[k][1] < map[k + 1][1]
                       /\ IsSortedAsc(pos)
                       /\ \A k \in DOMAIN pos : pos[k] >= 0 /\ Integral(CumFrac(map, pos[k]))
MapCosts(map, pos) ==
    IF pos = <<>> THEN <<0>> ELSE
    [i \in DOMAIN pos |-> IF i = 1 THEN 0
                          ELSE LET d == CumUnits(map, pos[i]) - CumUnits(map, pos[i - 1]) IN
                               IF d <= 0 THEN ClampedCost ELSE PhredOfUnits(d)]

(* genetic map file lines (abstract kinds): "ok" | "empty" | "fields2" | "fields4" | "badpos" | "baddist";
   the first line of the file is a header and is not looked at *)
MapLineBad(k) == k \in {"fields2", "fields4", "badpos", "baddist"}
=============================================================================
