------------------------------- MODULE Gen_C19 -------------------------------
(* Scenario enumeration by TLC for the spec -> code direction of C19: every
   genotype up to (MaxP, MaxA), every ordered pair of genotypes up to
   (CmpP, CmpA), every string pair over Alphabet up to MaxLen.  Written as
   ndjson; the driver runs the real code on each line. *)
EXTENDS GenotypeIndex, Json, IOUtils, SequencesExt
CONSTANTS MaxP, MaxA, CmpP, CmpA, MaxLen, AlphaSize

RECURSIVE Strings(_, _)
Strings(n, A) == IF n = 0 THEN { <<>> }
                 ELSE Strings(n - 1, A) \cup { Append(u, c) : u \in { v \in Strings(n - 1, A) : Len(v) = n - 1 }, c \in A }

Genos == UNION { UNION { { [k |-> "geno", p |-> p, a |-> a, g |-> g, idx |-> Index(g)] : g \in SortedSeqs(p, a) \ (IF a > 1 THEN SortedSeqs(p, a - 1) ELSE {}) }
                         : a \in 1..MaxA } : p \in 1..MaxP }
Pairs == UNION { { [k |-> "cmp", g |-> g, h |-> h] : g \in SortedSeqs(p, CmpA), h \in SortedSeqs(p, CmpA) } : p \in 1..CmpP }
Spaces == UNION { { [k |-> "space", p |-> p, a |-> a, n |-> Cardinality(SortedSeqs(p, a))] : a \in 1..MaxA } : p \in 1..MaxP }
Edits == { [k |-> "edit", s |-> s, t |-> t] : s \in Strings(MaxLen, 0..(AlphaSize - 1)), t \in Strings(MaxLen, 0..(AlphaSize - 1)) }

ASSUME ndJsonSerialize(IOEnv.OUT_FILE, SetToSeq(Genos) \o SetToSeq(Pairs) \o SetToSeq(Spaces) \o SetToSeq(Edits))
=============================================================================
