------------------------------- MODULE X03Cov -------------------------------
(* X03 (d): whatshap/coverage.py CovMonitor.
   ABSTRACT model: the multiset of half-open index intervals [b, e) added so far;
   coverage of index i = number of intervals containing i;
   max_coverage_in_range(b, e) = the largest coverage of an index in [b, e)
   (Python's max() of an empty slice raises ValueError: modelled as MaxEmpty).
   IMPLEMENTATION-shaped model: an array of counters.
   Domain: 0 <= b <= e <= length (negative indices wrap and out-of-range indices raise
   after a partial update in the code: outside the modelled domain; read selection only
   passes index ranges of a read's first / last variant). *)
EXTENDS Util

CovOf(ivs, i) == Cardinality({ k \in DOMAIN ivs : ivs[k][1] <= i /\ i < ivs[k][2] })
MaxCov(ivs, b, e) == MaxSet({ CovOf(ivs, i) : i \in b..(e - 1) })
InDomain(len, b, e) == 0 <= b /\ b <= e /\ e <= len
=============================================================================
