-------------------------- MODULE MC_GenotypeIndex --------------------------
(* Design-level check: walk the VCF order genotype by genotype.  The n-th
   genotype visited (n from 0) must have Index = IndexCF = n, the walk must
   visit every genotype exactly once (gapless bijection), and the successor is
   defined only through the order relation. *)
EXTENDS GenotypeIndex
CONSTANTS MaxP, MaxA
VARIABLES p, a, g, n

Init == /\ p \in 1..MaxP /\ a \in 1..MaxA
        /\ g = [i \in 1..p |-> 0] /\ n = 0

Later(h) == { k \in SortedSeqs(p, a) : Precedes(h, k) }
Next == /\ Later(g) # {}
        /\ g' = CHOOSE k \in Later(g) : \A k2 \in Later(g) : k2 = k \/ Precedes(k, k2)
        /\ n' = n + 1
        /\ UNCHANGED <<p, a>>
Spec == Init /\ [][Next]_<<p, a, g, n>>

DefIsRank       == Index(g) = n
ClosedFormIsDef == IndexCF(g) = n
Gapless         == (Later(g) = {}) => n + 1 = NumGenotypes(p, a)
CountIsBinomial == Cardinality(SortedSeqs(p, a)) = NumGenotypes(p, a)
TotalOrder      == \A h \in SortedSeqs(p, a) : h = g \/ Precedes(h, g) \/ Precedes(g, h)
=============================================================================
