------------------------------- MODULE GenoHMM -------------------------------
(* C08, first sentence: the hidden Markov model behind `whatshap genotype`
   (GenotypeDPTable), described STRUCTURALLY.  No number occurs in this module.

   An instance SHAPE S (a record; also the JSON the driver sends):
     nInd   individuals 1..nInd (order of Pedigree.add_individual)
     trios  sequence of <<father, mother, child>>
     m      number of columns 1..m (the `positions` given to the table; a column
            need not be covered by any read)
     reads  sequence of [ind, cells], cells = sequence of <<column, allele>>,
            strictly increasing columns, at least two cells (the iterator of the
            backward pass asserts first column < last column); the read set is
            sorted by first column.  A read is ACTIVE in every column between
            its first and last cell; where it has no cell it is BLANK there.

   Hidden state of column c = (bipartition of the reads active in c,
   transmission value t in 0..4^T-1, allele assignment a in 0..2^P-1 to the P
   IBD partitions).  A behaviour of this spec is ONE hidden path through all
   columns, factorised into micro-steps

        pre --Carry--> carried --Transmit--> trans --Assign--> assigned --Emit--> pre (next column) / done

   so that the reachable state graph is a layered DAG.  Every edge carries a
   symbolic label; the weight of a path is the product of its labels:

     carry                    1        every bipartition of the newly starting reads (uniform)
     start                    1        every transmission value may start the chain
     rec(col, x, n, row)      r^x (1-r)^(n-x) / sum over the row, r = 10^(-recombcost[col]/10):
                                       x of the n = 2T meioses switch between col-1 and col;
                                       row[x+1] = number of successors t' with x switches
     assign(col, gv, mult, norm)
                              prod_i prior[i][col][gv[i]] / mult, normalised by the sum of
                              prod_i prior[i][col][g[i]] over the genotype vectors g in norm
                              (gv = genotype vector induced by (t, a); mult = number of
                              assignments inducing gv; norm = all inducible vectors)
     emit(factors)            prod over the non-blank active reads: 1-p if the allele that
                              (bipartition, t, a) puts on the read's haplotype equals the
                              read's allele (match), p otherwise; p = 10^(-quality/10)

   The Assign edge is tagged with gv: the posterior probability that individual
   i has genotype g in column c is the share of path weight running through
   Assign edges of column c whose tag has gv[i] = g.

   Haplotype/transmission labelling is PedMEC's (= pedigreepartitions.cpp); a read
   whose bit in the bipartition is 0 lies on haplotype 1 of its individual, as in
   genotypecolumncostcomputer.cpp (the sum over all bipartitions is symmetric in
   this choice). *)
EXTENDS PedMEC, SequencesExt, Json

CONSTANTS Shapes,      \* sequence of shapes explored in one TLC run
          PrintEdges        \* TRUE: every edge is printed once as <<"EDGE", json>>

VARIABLES k,           \* index of the shape this behaviour belongs to
          ph,          \* "pre" | "carried" | "trans" | "assigned" | "done"
          c,           \* current column
          bip,         \* bipartition: bit r-1 = side of read r (only active reads carry bits)
          t,           \* transmission value of the current column (of the previous one in pre/carried)
          a,           \* allele assignment of the current column (bit p = allele of partition p)
          tab          \* Tables(S): constant along a behaviour (not part of a node's identity)
vars == <<k, ph, c, bip, t, a, tab>>

S == Shapes[k]

(* ------------------------------ reads and columns ------------------------------ *)
Cells(Sh, r) == Sh.reads[r].cells
FirstCol(Sh, r) == Cells(Sh, r)[1][1]
LastCol(Sh, r) == Cells(Sh, r)[Len(Cells(Sh, r))][1]
Active(Sh, col) == { r \in DOMAIN Sh.reads : FirstCol(Sh, r) <= col /\ col <= LastCol(Sh, r) }
Starting(Sh, col) == { r \in DOMAIN Sh.reads : FirstCol(Sh, r) = col }
HasCell(Sh, r, col) == \E j \in DOMAIN Cells(Sh, r) : Cells(Sh, r)[j][1] = col
AlleleAt(Sh, r, col) == LET j == CHOOSE j \in DOMAIN Cells(Sh, r) : Cells(Sh, r)[j][1] = col
                        IN Cells(Sh, r)[j][2]

ShapeOK(Sh) ==
    /\ Sh.m >= 1 /\ Sh.nInd >= 1
    /\ \A r \in DOMAIN Sh.reads :
          /\ Sh.reads[r].ind \in 1..Sh.nInd
          /\ Len(Cells(Sh, r)) >= 2
          /\ \A j \in DOMAIN Cells(Sh, r) : Cells(Sh, r)[j][1] \in 1..Sh.m /\ Cells(Sh, r)[j][2] \in {0, 1}
          /\ \A j \in 1..(Len(Cells(Sh, r)) - 1) : Cells(Sh, r)[j][1] < Cells(Sh, r)[j + 1][1]
    /\ \A r \in 1..(Len(Sh.reads) - 1) : FirstCol(Sh, r) <= FirstCol(Sh, r + 1)

Mask(R) == SumOver(R, [r \in R |-> 2 ^ (r - 1)])
Side(b, r) == Bit(b, r - 1)
Restr(b, R) == Mask({ r \in R : Side(b, r) = 1 })
SubMasks(R) == { Mask(X) : X \in SUBSET R }
HapOfRead(b, r) == 1 - Side(b, r)

(* ------------------------------ transmission, assignment ------------------------------ *)
Meioses(Sh) == 2 * NTrios(Sh)
Switches(t1, t2) == Popcount(Xor(t1, t2))
(* row[x+1] = number of transmission values reached from t1 with x switches *)
Row(Sh, t1) == [x1 \in 1..(Meioses(Sh) + 1) |->
                   Cardinality({ t2 \in TVals(Sh) : Switches(t1, t2) = x1 - 1 })]

AssignSet(Sh) == 0..((2 ^ NParts(Sh)) - 1)
GenoVecDef(Sh, tv, as) == [i \in 1..Sh.nInd |-> Bit(as, PartOf(Sh, tv, i, 0)) + Bit(as, PartOf(Sh, tv, i, 1))]

(* Tables of the shape, computed once per behaviour (in Init) and carried in the variable
   `tab`, because TLC neither memoises operators nor caches constant definitions used under
   a quantifier: per transmission value the IBD partition of each haplotype, the genotype
   vector induced by each assignment, its multiplicity, and the inducible vectors. *)
Tables(Sh) ==
    [part |-> [tv \in TVals(Sh) |-> [i \in 1..Sh.nInd |-> <<PartOf(Sh, tv, i, 0), PartOf(Sh, tv, i, 1)>>]],
     asg  |-> [tv \in TVals(Sh) |->
                LET gvOf == TLCEval([a2 \in AssignSet(Sh) |-> GenoVecDef(Sh, tv, a2)])
                IN [gv   |-> gvOf,
                    mult |-> [a2 \in AssignSet(Sh) |-> Cardinality({ a3 \in AssignSet(Sh) : gvOf[a3] = gvOf[a2] })],
                    norm |-> SetToSeq({ gvOf[a2] : a2 \in AssignSet(Sh) })]]]

(* ------------------------------ emission ------------------------------ *)
NonBlank(Sh, col) == { r \in Active(Sh, col) : HasCell(Sh, r, col) }
AlleleOnRead(Sh, tb, b, tv, as, r) == Bit(as, tb.part[tv][Sh.reads[r].ind][HapOfRead(b, r) + 1])
RECURSIVE EmitFactors(_, _, _, _, _, _, _)
EmitFactors(Sh, tb, col, b, tv, as, R) ==
    IF R = {} THEN <<>>
    ELSE LET r == MinSet(R)
         IN <<[read |-> r, col |-> col, match |-> (AlleleOnRead(Sh, tb, b, tv, as, r) = AlleleAt(Sh, r, col))]>>
            \o EmitFactors(Sh, tb, col, b, tv, as, R \ {r})

(* ------------------------------ the state graph ------------------------------ *)
Node == <<k, ph, c, bip, t, a>>
Out(lab) == IF PrintEdges THEN PrintT(<<"EDGE", ToJson([src |-> Node, dst |-> Node', lab |-> lab])>>) ELSE TRUE

Init == /\ k \in DOMAIN Shapes
        /\ ph = "pre" /\ c = 1 /\ bip = 0 /\ t = 0 /\ a = 0
        /\ tab = Tables(Shapes[k])

Carry ==
    /\ ph = "pre"
    /\ \E nb \in SubMasks(Starting(S, c)) : bip' = bip + nb
    /\ ph' = "carried" /\ UNCHANGED <<k, c, t, a, tab>>
    /\ Out([kind |-> "carry"])

Transmit ==
    /\ ph = "carried"
    /\ t' \in TVals(S)
    /\ ph' = "trans" /\ UNCHANGED <<k, c, bip, a, tab>>
    /\ Out(IF c = 1 THEN [kind |-> "start"]
           ELSE [kind |-> "rec", col |-> c, x |-> Switches(t, t'), n |-> Meioses(S), row |-> Row(S, t)])

Assign ==
    /\ ph = "trans"
    /\ a' \in AssignSet(S)
    /\ ph' = "assigned" /\ UNCHANGED <<k, c, bip, t, tab>>
    /\ LET gv == tab.asg[t].gv[a']
       IN Out([kind |-> "assign", col |-> c, gv |-> gv, mult |-> tab.asg[t].mult[a'],
               norm |-> tab.asg[t].norm, tags |-> gv])

Emit ==
    /\ ph = "assigned"
    /\ IF c < S.m
       THEN /\ ph' = "pre" /\ c' = c + 1 /\ bip' = Restr(bip, Active(S, c + 1)) /\ a' = 0
            /\ UNCHANGED <<k, t, tab>>
       ELSE /\ ph' = "done" /\ c' = c + 1 /\ bip' = 0 /\ a' = 0 /\ t' = 0
            /\ UNCHANGED <<k, tab>>
    /\ Out([kind |-> "emit", factors |-> EmitFactors(S, tab, c, bip, t, a, NonBlank(S, c))])

Next == Carry \/ Transmit \/ Assign \/ Emit
Spec == Init /\ [][Next]_vars

(* ------------------------------ design-level properties ------------------------------ *)
RECURSIVE Binom(_, _)
Binom(n, x) == IF x = 0 \/ x = n THEN 1 ELSE IF x < 0 \/ x > n THEN 0 ELSE Binom(n - 1, x - 1) + Binom(n - 1, x)

TypeOK ==
    /\ ShapeOK(S)
    /\ ph \in {"pre", "carried", "trans", "assigned", "done"}
    /\ c \in 1..(S.m + 1) /\ (c = S.m + 1 <=> ph = "done")
    /\ t \in TVals(S) /\ a \in AssignSet(S)

(* only reads active in the current column are on a side; before Carry the newly starting ones are not yet *)
BipOnActiveReads ==
    ph # "done" =>
        /\ bip = Restr(bip, Active(S, c))
        /\ ph = "pre" => Restr(bip, Starting(S, c)) = 0

(* a step never moves a read that is active on both sides of it to the other side *)
SidesAreCarried ==
    [][ph # "assigned" \/ c = S.m \/
        \A r \in Active(S, c) \cap Active(S, c + 1) : Side(bip', r) = Side(bip, r)]_vars
TablesConstant == [][tab' = tab]_vars
SidesKeptInsideColumn ==
    [][(ph \in {"carried", "trans"}) => (bip' = bip)]_vars

(* every hidden path can be continued until the last column has emitted *)
NoDeadEnd == ph # "done" => ENABLED Next

(* the switch counts leaving any transmission value are binomial: the row-normalisation of
   transitionprobabilitycomputer.cpp divides by (r + (1-r))^n = 1 *)
RowIsBinomial ==
    \A x \in 0..Meioses(S) : Row(S, t)[x + 1] = Binom(Meioses(S), x)

(* the multiplicities of the inducible genotype vectors partition the assignments *)
MultPartition ==
    LET at == tab.asg[t]
        ns == Rng(at.norm)
        cls == [gv \in ns |-> { a2 \in AssignSet(S) : at.gv[a2] = gv }]
    IN /\ Cardinality(ns) = Len(at.norm)
       /\ UNION { cls[gv] : gv \in ns } = AssignSet(S)
       /\ \A gv \in ns : cls[gv] # {} /\ \A a2 \in cls[gv] : at.mult[a2] = Cardinality(cls[gv])
TablesAreDefinitions ==
    /\ (ph = "pre" /\ c = 1) => tab = Tables(S)
    /\ \A a2 \in AssignSet(S) : tab.asg[t].gv[a2] = GenoVecDef(S, t, a2)

(* the number of emission factors of a column is the number of non-blank entries *)
EmitCoversColumn ==
    ph = "assigned" => Len(EmitFactors(S, tab, c, bip, t, a, NonBlank(S, c))) = Cardinality(NonBlank(S, c))
=============================================================================
