------------------------------ MODULE X02_Trace ------------------------------
(* Trace validation for X02: every line is one recorded call of an alternative
   phasing algorithm / of the read merger, with everything it returned.
     HSolve  inst, rl, am, cost4, part, tv, nsr, sr (by individual), srind, mut, nomut      PedMecHeuristic
     CSolve  inst, cost, nsr, cols0, cols1, h0, h1             HapChatCore
     Merge   reads, par, out, errfree, hap, sid, outsid        ReadMerger.merge
     PRun    alg, merging, exc                                 whole `whatshap phase` run
   Clause names are the vocabulary of the reports. *)
EXTENDS AltSolve, Json, IOUtils
Trace == ndJsonDeserialize(IOEnv.TRACE_FILE)
VARIABLE l

Fail(e, c) == PrintT(<<"VERDICT", e.tid, e.seq, c>>)
Check(e, c, ok) == IF ok THEN TRUE ELSE Fail(e, c)

(* ---------------------------------------------------------------- heuristic *)
HShapeOK(e) ==
    LET I == e.inst
        n == NSamples(I) IN
    /\ Len(e.part) = Len(I.reads)
    /\ \A r \in DOMAIN e.part : e.part[r] \in {0, 1}
    /\ Len(e.tv) = I.m
    /\ \A c \in DOMAIN e.tv : e.tv[c] \in TVals(I)
    /\ e.nsr = n
    /\ Len(e.sr) = n
    /\ \A i \in DOMAIN e.sr : Len(e.sr[i]) = 2 /\ \A h \in 1..2 : Len(e.sr[i][h]) = I.m
                                /\ \A c \in 1..I.m : e.sr[i][h][c] \in {0, 1}

JudgeHSolve(e) ==
    LET I == e.inst IN
    /\ Check(e, "ScenarioInDomain", HDomain(I) /\ InstanceOK(I))
    /\ Check(e, "HShape", HShapeOK(e))
    /\ Check(e, "HSuperReadsInPedigreeOrder", e.srind = [k \in 1..Len(e.srind) |-> k])
    /\ IF HShapeOK(e) /\ HDomain(I)
       THEN LET dir == SROptimalUnder(I, Direct(e.part), e.tv, e.sr, e.am)
                inv == IF dir /\ Len(e.part) = 0 THEN TRUE ELSE SROptimalUnder(I, Inverted(e.part), e.tv, e.sr, e.am)
                hp == IF dir \/ ~inv THEN Direct(e.part) ELSE Inverted(e.part)
            IN /\ Check(e, "HGenotypesRespected",
                        I.distrust \/ \A i \in 1..NSamples(I), c \in 1..I.m : e.sr[i][1][c] + e.sr[i][2][c] = I.gt[i][c])
               /\ Check(e, "HSuperReadsOptimalForWitness", dir \/ inv)
               /\ Check(e, "HPartitionLabelsSuperReads", dir \/ ~inv)
               /\ Check(e, "HReportedCostIsWitnessCost", e.cost4 = HWitnessCost4(I, hp, e.tv, e.am))
               /\ Check(e, "HMutationsReported", e.nomut \/ { <<x[1], x[2], x[3]>> : x \in Rng(e.mut) } = HMutations(I, e.tv, e.sr))
       ELSE TRUE

(* ------------------------------------------------------------------ hapchat *)
CShapeOK(e) ==
    LET I == e.inst
        cov == SetToSortSeq(Covered(I), <) IN
    /\ e.nsr = 1
    /\ e.cols0 = cov /\ e.cols1 = cov
    /\ Len(e.h0) = Len(cov) /\ Len(e.h1) = Len(cov)
    /\ \A k \in DOMAIN e.h0 : e.h0[k] \in {0, 1} /\ e.h1[k] \in {0, 1}

HapFun(cols, h) == [c \in Rng(cols) |-> h[CHOOSE k \in DOMAIN cols : cols[k] = c]]

JudgeCSolve(e) ==
    LET I == e.inst IN
    /\ Check(e, "CShape", CShapeOK(e))
    /\ IF CShapeOK(e)
       THEN /\ Check(e, "CComplementary", \A k \in DOMAIN e.h0 : e.h0[k] + e.h1[k] = 1)
            /\ Check(e, "CCostRealisedByHaplotypes",
                     e.cost \in ReachSums(I, HapFun(e.cols0, e.h0), HapFun(e.cols1, e.h1), Len(I.reads)))
            /\ Check(e, "CCostAtLeastOptimum", e.cost >= OptHet(I))
            /\ Check(e, "COptimalWithinK",
                     (Gapless(I) /\ SingleBlock(I)) => LET k == KOpt(I) IN k >= Inf \/ e.cost = k)
       ELSE TRUE

(* ------------------------------------------------------------------- merger *)
JudgeMerge(e) ==
    LET rs == e.reads
        n == Len(rs)
        wit == { g \in Groupings(n) : MergedOut(rs, g) = e.out } IN
    /\ Check(e, "MIsMergeOfGroups", wit # {})
    /\ Check(e, "MFollowsModel", e.out = MergedOut(rs, ModelGroup(rs, e.par)))
    /\ Check(e, "MKeepsSampleId", \A k \in DOMAIN e.outsid : e.outsid[k] = e.sid)
    /\ Check(e, "MNoCrossHaplotypeMerge", e.errfree => \E g \in wit : PureGroups(rs, g, e.hap))

Judge(e) ==
    CASE e.ev = "HSolve"  -> JudgeHSolve(e)
      [] e.ev = "CSolve"  -> JudgeCSolve(e)
      [] e.ev = "Merge"   -> JudgeMerge(e)
      [] e.ev = "PRun"    -> Check(e, "PipelineReturns", e.exc = "")
      [] e.ev = "Crashed" -> Fail(e, "Returns")
      [] OTHER            -> Fail(e, "UnknownEvent")

Init == l = 1
Next == l <= Len(Trace) /\ Judge(Trace[l]) /\ l' = l + 1
Spec == Init /\ [][Next]_l
=============================================================================
