------------------------------ MODULE C10_Trace ------------------------------
(* Trace validation for C10.  One line = one real run of whatshap haplotag:

     Haplotag  W    the abstract input (see Haplotag.tla), built by the harness:
                    the observed alleles are those the harness put into the reads
               out  projection of the written BAM: [rest, hp, ps, pc, aux] per record
                    (rest: identity of the fixed columns and of the values of the
                    tags other than HP/PS/PC; aux: identity of the ORDERED list of
                    the auxiliary fields other than HP/PS/PC WITH their value types
                    A/i/f/Z/H/B+element type, as SAM text shows them; W.aln[i].aux
                    is the same projection of input alignment i)
               exc  "" or the exception type the command ended with
               swap <<>> or <<sample, chrom, ps>>: this run repeats the previous run
                    of the same trace with the two haplotypes of that phase set
                    exchanged in the VCF

   The first run of a trace is kept in `st` so that Symmetry relates two runs. *)
EXTENDS Haplotag, Json, IOUtils, TLC
Trace == ndJsonDeserialize(IOEnv.TRACE_FILE)
VARIABLES l, st
vars == <<l, st>>

Fail(e, c) == PrintT(<<"VERDICT", e.tid, e.seq, c>>)
Check(e, c, ok) == IF ok THEN TRUE ELSE Fail(e, c)

None == [has |-> FALSE]

(* "identical except for the HP, PS and PC tags": the other auxiliary fields of a written
   alignment are those of the input alignment it stems from - same order, same value
   types (a character field stays a character field, a hex string a hex string, an array
   keeps its element type), same values *)
OtherTags(W, i, o) == o.aux = W.aln[i].aux

JudgeRun(e) ==
    LET W == e.W
        out == e.out
        cons == Conservation(W, out)
        I(n) == IdxOf(W, out[n].rest) IN
    /\ Check(e, "Returns", e.exc = "")
    /\ Check(e, "Premise", CloudsSeparated(W) /\ RestUnique(W))
    /\ e.exc = "" =>
        /\ Check(e, "Conservation", cons)
        /\ Check(e, "TagShape", \A n \in DOMAIN out : TagShape(out[n]))
        \* the per-alignment clauses need the correspondence between written and input alignments
        /\ ExactlyOnce(W, out) =>
            /\ Check(e, "OtherTags", \A n \in DOMAIN out : OtherTags(W, I(n), out[n]))
            /\ Check(e, "Decision", \A n \in DOMAIN out : Decision(W, I(n), out[n]))
            /\ Check(e, "UntaggedWhen", \A n \in DOMAIN out : UntaggedWhen(W, I(n), out[n]))
            /\ Check(e, "IneligibleUntagged", \A n \in DOMAIN out : IneligibleUntagged(W, I(n), out[n]))
            /\ Check(e, "TaggedWhen", \A n \in DOMAIN out : TaggedWhen(W, I(n), out[n]))

JudgeSwap(e) ==
    IF e.swap = <<>> THEN TRUE
    ELSE IF ~st.has THEN Fail(e, "SwapWithoutBase")
    ELSE /\ Check(e, "SwapWorld", IsSwapOf(st.W, e.W, e.swap[1], e.swap[2], e.swap[3]) /\ e.W.ploidy = 2)
         /\ (e.exc = "" /\ st.exc = "") =>
                Check(e, "Symmetry", Symmetry(st.W, st.out, e.out, e.swap[1], e.swap[2], e.swap[3]))

Judge(e) ==
    CASE e.ev = "Haplotag" -> JudgeRun(e) /\ JudgeSwap(e)
      [] e.ev = "Crashed"  -> Fail(e, "Returns")
      [] OTHER             -> Fail(e, "UnknownEvent")

Init == l = 1 /\ st = None
Next == /\ l <= Len(Trace)
        /\ LET e == Trace[l] IN
           /\ Judge(e)
           /\ st' = IF e.ev = "Haplotag" /\ e.swap = <<>>
                    THEN [has |-> TRUE, W |-> e.W, out |-> e.out, exc |-> e.exc]
                    ELSE IF e.seq = 1 THEN None ELSE st
        /\ l' = l + 1
Spec == Init /\ [][Next]_vars
=============================================================================
