SPECIFICATION Spec
