------------------------------ MODULE X03Pileup ------------------------------
(* X03 (a): the pile-up rule of `whatshap find_snv_candidates`, as a function of
   an abstract world (reference contigs, alignments) and the options.

   Bases are integers in LETTER order (the code sorts equal counts by letter):
       A = 1, C = 2, G = 3, N = 4, T = 5
   A world W has
       refs   sequence (contig order of the BAM header) of sequences of bases
       reads  sequence of [c, pos (0-based), ops (<<op, n>> ...), seq, qual, mapq, flag]
   Options par: minabs, relnum / relden (= --minrel as a fraction), multi,
       dtype ("" | "pacbio" | "nanopore" | "illumina"), chrom (0 = all contigs).

   WHICH alignments / bases count (pysam pileup with the arguments the command passes:
   stepper "samtools", min_mapping_quality 20, min_base_quality 5, no reference):
     - alignment usable iff mapq >= 20, not unmapped / secondary / QC-fail / duplicate, and
       if paired then properly paired (orphans are ignored); supplementary alignments COUNT;
     - a base counts iff it is aligned to the position by an M / = / X operation and its
       quality is >= 5; insertions, soft / hard clips, padding contribute nothing, a deleted
       position ('*') contributes nothing;
     - a reference skip (N operation) contributes nothing              [the code asserts: finding]
     - case and strand are irrelevant, the read base N is an allele like any other
       (deviation named here: the code can emit ALT = N; modelled as it is).
   RULE per reference position whose reference base is not N:
     alt candidates = bases b # ref with count(b) >= 1, count(b) >= minabs and
                      count(b) / (count(b) + count(ref)) >= minrel,
     ordered by (count, letter) descending;  --multi-allelics: all of them;
     otherwise the best one, and NOTHING if the best two have equal counts
     ("only the best ALT allele is reported (if unique)").
   Presets: pacbio / illumina set (3, 1/4), nanopore sets (3, 2/5), overriding the options. *)
EXTENDS Util, TLC

BaseN == 4
MinMapQ == 20
MinBaseQ == 5

FlagSet(f, b) == ((f \div b) % 2) = 1
Usable(r) == /\ r.mapq >= MinMapQ
             /\ ~FlagSet(r.flag, 4) /\ ~FlagSet(r.flag, 256) /\ ~FlagSet(r.flag, 512) /\ ~FlagSet(r.flag, 1024)
             /\ (FlagSet(r.flag, 1) => FlagSet(r.flag, 2))

(* aligned pairs <<reference position (0-based), query index (1-based)>> *)
RECURSIVE Walk(_, _, _, _)
Walk(ops, k, rp, qp) ==
    IF k > Len(ops) THEN {}
    ELSE LET o == ops[k][1]
             n == ops[k][2] IN
         IF o \in {"M", "=", "X"} THEN { <<rp + d, qp + d>> : d \in 0..(n - 1) } \cup Walk(ops, k + 1, rp + n, qp + n)
         ELSE IF o \in {"I", "S"} THEN Walk(ops, k + 1, rp, qp + n)
         ELSE IF o \in {"D", "N"} THEN Walk(ops, k + 1, rp + n, qp)
         ELSE Walk(ops, k + 1, rp, qp)                       \* H, P

(* the <<position, base>> pairs an alignment contributes *)
Counted(r) == IF ~Usable(r) THEN {}
              ELSE { <<x[1], r.seq[x[2]]>> : x \in { y \in Walk(r.ops, 1, r.pos, 1) : r.qual[y[2]] >= MinBaseQ } }

Pile(W) == TLCEval([k \in DOMAIN W.reads |-> Counted(W.reads[k])])
CountIn(W, P, c, p, b) == Cardinality({ k \in DOMAIN W.reads : W.reads[k].c = c /\ <<p, b>> \in P[k] })

EffPar(par) == IF par.dtype \in {"pacbio", "illumina"} THEN [par EXCEPT !.minabs = 3, !.relnum = 1, !.relden = 4]
               ELSE IF par.dtype = "nanopore" THEN [par EXCEPT !.minabs = 3, !.relnum = 2, !.relden = 5]
               ELSE par

Passes(cnt, refc, par) == cnt >= 1 /\ cnt >= par.minabs /\ cnt * par.relden >= par.relnum * (cnt + refc)

(* cnt: function base -> count.  Sequence of alt bases ordered by (count, letter) descending *)
Better(cnt, a, b) == cnt[a] > cnt[b] \/ (cnt[a] = cnt[b] /\ a > b)
RECURSIVE OrderAlts(_, _)
OrderAlts(cnt, S) == IF S = {} THEN <<>>
                     ELSE LET a == CHOOSE x \in S : \A y \in S : y = x \/ Better(cnt, x, y)
                          IN <<a>> \o OrderAlts(cnt, S \ {a})
AltList(cnt, ref, par) == OrderAlts(cnt, { b \in (1..5) \ {ref} : Passes(cnt[b], cnt[ref], par) })

(* what one column emits: <<>> = no record *)
Emits(cnt, ref, par) ==
    IF ref = BaseN THEN <<>>
    ELSE LET al == AltList(cnt, ref, par) IN
         IF al = <<>> THEN <<>>
         ELSE IF par.multi THEN al
         ELSE IF Len(al) > 1 /\ cnt[al[1]] = cnt[al[2]] THEN <<>>
         ELSE <<al[1]>>

Contigs(W, par) == IF par.chrom = 0 THEN DOMAIN W.refs ELSE {par.chrom}
ColCounts(W, P, c, p) == [b \in 1..5 |-> CountIn(W, P, c, p, b)]

(* expected records as a function <<contig, 1-based position>> -> alt list, over the emitting sites only *)
Expected(W, par0) ==
    LET par == EffPar(par0)
        P == Pile(W)
        sites == UNION { { <<c, p>> : p \in 0..(Len(W.refs[c]) - 1) } : c \in Contigs(W, par) }
        em == TLCEval([s \in sites |-> Emits(ColCounts(W, P, s[1], s[2]), W.refs[s[1]][s[2] + 1], par)])
    IN [s \in { <<t[1], t[2] + 1>> : t \in { u \in sites : em[u] # <<>> } } |-> em[<<s[1], s[2] - 1>>]]

(* -------------------------------------------------------------------------------------------
   The pile-up STRING of one column and its parser (implementation-shaped, for MC_X03Pileup).
   Tokens as pysam writes them; the code joins them without separator and scans with four
   regular expressions.  A token is a sequence of characters (strings of length 1). *)
IsNuc(ch) == ch \in {"A", "C", "G", "T", "N", "a", "c", "g", "t", "n"}
IsDigit(ch) == ch \in {"0", "1", "2", "3", "4", "5", "6", "7", "8", "9"}
DigitVal(ch) == CASE ch = "0" -> 0 [] ch = "1" -> 1 [] ch = "2" -> 2 [] ch = "3" -> 3 [] ch = "4" -> 4
                  [] ch = "5" -> 5 [] ch = "6" -> 6 [] ch = "7" -> 7 [] ch = "8" -> 8 [] ch = "9" -> 9
Upper(ch) == CASE ch = "a" -> "A" [] ch = "c" -> "C" [] ch = "g" -> "G" [] ch = "t" -> "T" [] ch = "n" -> "N" [] OTHER -> ch
=============================================================================
