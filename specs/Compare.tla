------------------------------ MODULE Compare ------------------------------
(* What `whatshap compare` has to report (property C11).  Everything here is a
   DEFINITION by brute force (set comprehension, minimum over all haplotype
   correspondences / all sequences of correspondences); nothing follows the
   shape of the implementation, except the two recurrences at the end of the
   polyploid section, which MC_Compare proves equal to the brute-force
   definitions on small blocks and which the trace spec uses beyond
   brute-force range.

   A phasing (one VCF, one sample, one chromosome) is a sequence over the
   sites 1..N of records
        [b |-> phase set id (0 = the call makes no phase statement),
         a |-> << allele on haplotype 1, ..., allele on haplotype P >>]
   with a = << >> when the file has no record for the site (or a different ALT).
   A comparison looks at a sequence F of phasings (2 for the pairwise report,
   >= 2 for the multiway report) over the same sites.

   UNITS: every error count below is measured in "haplotype units", i.e. it is
   P x the number printed by whatshap (whatshap divides by the ploidy; for
   P = 2 one switch error = 2 units).  The driver multiplies by P.

   STYLE: TLC re-evaluates a LET definition at every use inside an action but
   evaluates an operator argument once; shared subterms are therefore passed as
   arguments of small helper operators (names ending in _) instead of LET. *)
EXTENDS Util, TLC

(* ------------------------------------------------------------------ helpers *)
RECURSIVE SortedSeqOf(_)
SortedIns_(S, m) == <<m>> \o SortedSeqOf(S \ {m})
SortedSeqOf(S) == IF S = {} THEN << >> ELSE SortedIns_(S, MinSet(S))

PermsOn(P) == { f \in [1..P -> 1..P] : \A i, j \in 1..P : f[i] = f[j] => i = j }
Perms2 == PermsOn(2)
Perms3 == PermsOn(3)
Perms4 == PermsOn(4)
Perms(P) == CASE P = 2 -> Perms2 [] P = 3 -> Perms3 [] P = 4 -> Perms4 [] OTHER -> PermsOn(P)

Ham(u, v) == Cardinality({ i \in DOMAIN u : u[i] # v[i] })
Ones(d) == Cardinality({ i \in DOMAIN d : d[i] = 1 })
Zeros(d) == Cardinality({ i \in DOMAIN d : d[i] = 0 })

(* ------------------------------------------------------------------ common variants, intersection blocks *)
Het(a) == Len(a) > 0 /\ \E i \in DOMAIN a : a[i] # a[1]
NSites(F) == Len(F[1])
Common(F) == { s \in 1..NSites(F) : \A f \in DOMAIN F : Het(F[f][s].a) }
(* jointly phased: a common heterozygous variant that every file assigns to a phase set *)
Joint(F) == { s \in Common(F) : \A f \in DOMAIN F : F[f][s].b > 0 }
JointId(F, s) == [f \in DOMAIN F |-> F[f][s].b]
(* intersection blocks: classes of equal joint phase set id with at least two variants *)
Blocks_(F, J) == { blk \in { { t \in J : JointId(F, t) = JointId(F, s) } : s \in J } : Cardinality(blk) >= 2 }
Blocks(F) == Blocks_(F, Joint(F))
(* the P haplotypes of file f on block blk (sites in genomic order): Haps[k][i] *)
Haps_(F, f, q, P) == TLCEval([k \in 1..P |-> TLCEval([i \in 1..Len(q) |-> F[f][q[i]].a[k]])])
Haps(F, f, blk, P) == Haps_(F, f, SortedSeqOf(blk), P)
BlockLen(X) == Len(X[1])

PhaseSets(A) == { A[s].b : s \in DOMAIN A } \ {0}

(* ------------------------------------------------------------------ Hamming distance, genotype differences *)
(* minimum over the haplotype correspondences pi (haplotype k of Y <-> haplotype pi[k] of X) *)
HammingUnits(X, Y, P) ==
    MinSet({ SumOver(1..P, [k \in 1..P |-> Ham(Y[k], X[pi[k]])]) : pi \in Perms(P) })

Column(X, i) == [k \in DOMAIN X |-> X[k][i]]
Matching(X, Y) == { i \in 1..BlockLen(X) : SameBag(Column(X, i), Column(Y, i)) }
DiffGenotypes(X, Y) == BlockLen(X) - Cardinality(Matching(X, Y))

(* ------------------------------------------------------------------ diploid switch errors, switch/flip decomposition *)
SwitchEnc(h) == [i \in 1..(Len(h) - 1) |-> IF h[i] = h[i + 1] THEN 0 ELSE 1]
SwitchDiff(h, g) == TLCEval([i \in 1..(Len(h) - 1) |-> IF (h[i] = h[i + 1]) # (g[i] = g[i + 1]) THEN 1 ELSE 0])
(* Hamming distance of the switch encodings, minimum over the correspondences *)
DiploidSwitches(X, Y) == MinSet({ Ones(SwitchDiff(X[pi[1]], Y[1])) : pi \in Perms2 })
DiploidDiff_(X, Y, sw) == SwitchDiff(X[(CHOOSE p \in Perms2 : Ones(SwitchDiff(X[p[1]], Y[1])) = sw)[1]], Y[1])
DiploidDiff(X, Y) == DiploidDiff_(X, Y, DiploidSwitches(X, Y))
(* maximal runs of consecutive differing switch positions; a run of r = r div 2 flips + r mod 2 switches *)
Runs(d) == { r \in (DOMAIN d) \X (DOMAIN d) :
               /\ r[1] <= r[2]
               /\ \A k \in r[1]..r[2] : d[k] = 1
               /\ (r[1] = 1 \/ d[r[1] - 1] = 0)
               /\ (r[2] = Len(d) \/ d[r[2] + 1] = 0) }
RunLen(r) == r[2] - r[1] + 1
SFOfRuns_(R) == [s |-> SumOver(R, [r \in R |-> RunLen(r) % 2]), f |-> SumOver(R, [r \in R |-> RunLen(r) \div 2])]
SFOf(d) == SFOfRuns_(Runs(d))
DiploidSF(X, Y) == SFOf(DiploidDiff(X, Y))

(* ------------------------------------------------------------------ general (polyploid) switch errors *)
(* A sequence of correspondences sig[1..n], one per position.  Changing the partner of one
   haplotype between consecutive positions costs one switch unit, an allele that differs from
   its partner's costs one flip unit. *)
PermSeqs(P, n) == [1..n -> Perms(P)]
PermDist(p1, p2) == Cardinality({ k \in DOMAIN p1 : p1[k] # p2[k] })
FlipsAt(X, Y, pi, i) == Cardinality({ k \in DOMAIN pi : X[pi[k]][i] # Y[k][i] })
SwCostN_(sig, n) == SumOver(2..n, [i \in 2..n |-> PermDist(sig[i], sig[i - 1])])
SwCost(sig) == SwCostN_(sig, Len(sig))
FlCostN_(X, Y, sig, n) == SumOver(1..n, [i \in 1..n |-> FlipsAt(X, Y, sig[i], i)])
FlCost(X, Y, sig) == FlCostN_(X, Y, sig, Len(sig))

SubHaps(X, q) == TLCEval([k \in DOMAIN X |-> TLCEval([i \in 1..Len(q) |-> X[k][q[i]]])])
(* switch errors: positions with different genotypes are left out, no flips allowed *)
PolySwitchesBF_(Xm, Ym, P, n) ==
    IF n = 0 THEN 0
    ELSE MinSet({ SwCost(sig) : sig \in { s \in PermSeqs(P, n) : FlCost(Xm, Ym, s) = 0 } })
PolySwitchesBFq_(X, Y, P, q) == PolySwitchesBF_(SubHaps(X, q), SubHaps(Y, q), P, Len(q))
PolySwitchesBF(X, Y, P) == PolySwitchesBFq_(X, Y, P, SortedSeqOf(Matching(X, Y)))
(* switch/flip: all positions, unit costs; the optimal decompositions *)
PolySFCostsBF(X, Y, P) == { <<SwCost(sig), FlCost(X, Y, sig)>> : sig \in PermSeqs(P, BlockLen(X)) }
PolySFMinOf_(C) == MinSet({ c[1] + c[2] : c \in C })
PolySFMinBF(X, Y, P) == PolySFMinOf_(PolySFCostsBF(X, Y, P))
PolySFFlipsOf_(C, m) == { c[2] : c \in { d \in C : d[1] + d[2] = m } }
PolySFFlipsOfC_(C) == PolySFFlipsOf_(C, PolySFMinOf_(C))
PolySFFlipsBF(X, Y, P) == PolySFFlipsOfC_(PolySFCostsBF(X, Y, P))

(* The same two minima as recurrences over the positions (for blocks beyond brute force). *)
Inf == 1000000
RECURSIVE SwCol(_, _, _, _)
SwStep_(X, Y, P, i, prev) ==
    TLCEval([pi \in Perms(P) |-> IF FlipsAt(X, Y, pi, i) = 0
                                 THEN Min2(Inf, MinSet({ prev[pj] + PermDist(pi, pj) : pj \in Perms(P) }))
                                 ELSE Inf])
SwCol(X, Y, P, i) ==     \* [pi |-> min switch units of a flip-free sequence for positions 1..i ending in pi]
    IF i = 1 THEN TLCEval([pi \in Perms(P) |-> IF FlipsAt(X, Y, pi, 1) = 0 THEN 0 ELSE Inf])
    ELSE SwStep_(X, Y, P, i, SwCol(X, Y, P, i - 1))
MinOverPerms_(last, P) == MinSet({ last[pi] : pi \in Perms(P) })
PolySwitchesDP_(Xm, Ym, P, n) == IF n = 0 THEN 0 ELSE MinOverPerms_(SwCol(Xm, Ym, P, n), P)
PolySwitchesDPq_(X, Y, P, q) == PolySwitchesDP_(SubHaps(X, q), SubHaps(Y, q), P, Len(q))
PolySwitchesDP(X, Y, P) == PolySwitchesDPq_(X, Y, P, SortedSeqOf(Matching(X, Y)))

RECURSIVE SFCol(_, _, _, _, _)
SFCell_(P, FMax, pi, fl, prev) ==
    TLCEval([g \in 0..FMax |-> IF g < fl THEN Inf
                               ELSE Min2(Inf, MinSet({ prev[pj][g - fl] + PermDist(pi, pj) : pj \in Perms(P) }))])
SFStep_(X, Y, P, i, FMax, prev) ==
    TLCEval([pi \in Perms(P) |-> SFCell_(P, FMax, pi, FlipsAt(X, Y, pi, i), prev)])
SFCol(X, Y, P, i, FMax) ==   \* [pi |-> [g |-> min switch units with exactly g flip units on positions 1..i, ending in pi]]
    IF i = 1 THEN TLCEval([pi \in Perms(P) |-> TLCEval([g \in 0..FMax |-> IF FlipsAt(X, Y, pi, 1) = g THEN 0 ELSE Inf])])
    ELSE SFStep_(X, Y, P, i, FMax, SFCol(X, Y, P, i - 1, FMax))
(* [g |-> min switch units among sequences with exactly g flip units]; an optimum never needs
   more flips than the Hamming distance (constant correspondence, no switch) *)
MinSwLast_(last, P, FMax) == TLCEval([g \in 0..FMax |-> MinSet({ last[pi][g] : pi \in Perms(P) })])
MinSwGivenFlipsF_(X, Y, P, FMax) == MinSwLast_(SFCol(X, Y, P, BlockLen(X), FMax), P, FMax)
MinSwGivenFlips(X, Y, P) == MinSwGivenFlipsF_(X, Y, P, HammingUnits(X, Y, P))
SFMinOfM_(m) == MinSet({ g + m[g] : g \in DOMAIN m })
SFFlipsOfM_(m, best) == { g \in DOMAIN m : g + m[g] = best }
PolySFMinDP(X, Y, P) == SFMinOfM_(MinSwGivenFlips(X, Y, P))
SFFlipsOfMM_(m) == SFFlipsOfM_(m, SFMinOfM_(m))
PolySFFlipsDP(X, Y, P) == SFFlipsOfMM_(MinSwGivenFlips(X, Y, P))

(* ------------------------------------------------------------------ the report for one block, in haplotype units *)
(* sfF = the flip counts of the admissible switch/flip decompositions (switches = sfmin - flips):
   for P = 2 the run-length decomposition (unique), for P > 2 every minimum-cost decomposition. *)
BlockReport2_(X, Y, sw, sf) ==
    [n |-> BlockLen(X), ham |-> HammingUnits(X, Y, 2), dg |-> DiffGenotypes(X, Y),
     sw |-> 2 * sw, sfmin |-> 2 * (sf.s + sf.f), sfF |-> { 2 * sf.f }]
BlockReportP_(X, Y, P, m) ==
    [n |-> BlockLen(X), ham |-> HammingUnits(X, Y, P), dg |-> DiffGenotypes(X, Y),
     sw |-> PolySwitchesDP(X, Y, P), sfmin |-> SFMinOfM_(m), sfF |-> SFFlipsOfMM_(m)]
BlockReport(X, Y, P) ==
    IF P = 2 THEN BlockReport2_(X, Y, DiploidSwitches(X, Y), DiploidSF(X, Y))
    ELSE BlockReportP_(X, Y, P, MinSwGivenFlips(X, Y, P))
ReportOf(F, blk, P) == BlockReport(Haps(F, 1, blk, P), Haps(F, 2, blk, P), P)

RECURSIVE SumSets(_, _)
SumSetsStep_(S, f, x) == { u + v : u \in f[x], v \in SumSets(S \ {x}, f) }
SumSets(S, f) == IF S = {} THEN {0}     \* { sum of one element of f[x] per x in S }
                 ELSE SumSetsStep_(S, f, CHOOSE y \in S : TRUE)

(* totals over all intersection blocks (the "ALL INTERSECTION BLOCKS" columns) *)
Reports(F, B, P) == TLCEval([blk \in B |-> ReportOf(F, blk, P)])
Totals_(B, rep) ==
    [nblk |-> Cardinality(B),
     cov |-> SumOver(B, [blk \in B |-> rep[blk].n]),
     pairs |-> SumOver(B, [blk \in B |-> rep[blk].n - 1]),
     sw |-> SumOver(B, [blk \in B |-> rep[blk].sw]),
     ham |-> SumOver(B, [blk \in B |-> rep[blk].ham]),
     dg |-> SumOver(B, [blk \in B |-> rep[blk].dg]),
     sfmin |-> SumOver(B, [blk \in B |-> rep[blk].sfmin]),
     sfF |-> SumSets(B, [blk \in B |-> rep[blk].sfF])]
TotalsB_(F, B, P) == Totals_(B, Reports(F, B, P))
Totals(F, P) == TotalsB_(F, Blocks(F), P)
LongestOf(B) == { blk \in B : \A o \in B : Cardinality(o) <= Cardinality(blk) }
Longest(F) == LongestOf(Blocks(F))
EmptyReport == [n |-> 1, ham |-> 0, dg |-> 0, sw |-> 0, sfmin |-> 0, sfF |-> {0}]   \* no block: 0 pairs, zeros

(* a reported row r = [nblk, cov, pairs, sw, sfs, sff, ham, dg] against the totals *)
RowBlocksOK(r, t) == r.nblk = t.nblk /\ r.cov = t.cov /\ r.pairs = t.pairs
RowSwitchesOK(r, t) == r.sw = t.sw
RowSFOK(r, t) == r.sfs + r.sff = t.sfmin /\ r.sff \in t.sfF
RowHammingOK(r, t) == r.ham = t.ham
RowDGOK(r, t) == r.dg = t.dg
(* the "LARGEST INTERSECTION BLOCK" columns lr = [pairs, sw, sfs, sff, ham, dg] against one block report *)
LargestIs(lr, rep) == /\ lr.pairs = rep.n - 1 /\ lr.sw = rep.sw /\ lr.ham = rep.ham /\ lr.dg = rep.dg
                      /\ lr.sfs + lr.sff = rep.sfmin /\ lr.sff \in rep.sfF

(* ------------------------------------------------------------------ longest-block agreement (diploid) *)
EqVec(X, Y) == [i \in 1..BlockLen(X) |-> IF X[1][i] = Y[1][i] THEN 1 ELSE 0]
NeqVec(X, Y) == [i \in 1..BlockLen(X) |-> IF X[1][i] = Y[1][i] THEN 0 ELSE 1]
(* position-wise agreement under the better of the two correspondences (either one in a tie) *)
LongestAgreement_(X, Y, d, n) ==
    (IF d <= n - d THEN { EqVec(X, Y) } ELSE {}) \cup (IF n - d <= d THEN { NeqVec(X, Y) } ELSE {})
LongestAgreement(X, Y) == LongestAgreement_(X, Y, Ham(X[1], Y[1]), BlockLen(X))

(* BED: the adjacent variant pairs <<site, next site>> of all blocks at which the switch encodings differ *)
SwitchPositionsOf_(q, d) == { <<q[i], q[i + 1]>> : i \in { j \in DOMAIN d : d[j] = 1 } }
SwitchPositionsB_(F, B) ==
    UNION { SwitchPositionsOf_(SortedSeqOf(blk), DiploidDiff(Haps(F, 1, blk, 2), Haps(F, 2, blk, 2))) : blk \in B }
SwitchPositions(F) == SwitchPositionsB_(F, Blocks(F))

(* ------------------------------------------------------------------ multiway comparison (diploid, >= 2 files) *)
(* for every adjacent pair of a block: which files have a switch there; files are split into the side of
   file 1 and the others; the split is named by the set of files NOT on file 1's side *)
SwitchEncs(F, blk) == TLCEval([f \in DOMAIN F |-> TLCEval(SwitchEnc(Haps(F, f, blk, 2)[1]))])
Splits_(F, se, n) == [i \in 1..(n - 1) |-> { f \in DOMAIN F : se[f][i] # se[1][i] }]
SplitsOf(F, blk) == Splits_(F, SwitchEncs(F, blk), Cardinality(blk))
(* all <<block, index of adjacent pair, split>> *)
MultiPairs_(F, B) == UNION { { <<blk, i, SplitsOf(F, blk)[i]>> : i \in 1..(Cardinality(blk) - 1) } : blk \in B }
MultiPairs(F) == MultiPairs_(F, Blocks(F))
MultiHist_(MP) == [sp \in { x[3] : x \in MP } |-> Cardinality({ x \in MP : x[3] = sp })]
MultiHist(F) == MultiHist_(MultiPairs(F))
MultiCompared(F) == Cardinality(MultiPairs(F))

(* ------------------------------------------------------------------ relabelling haplotypes (the group action) *)
Relabel(A, ps, pi) ==   \* list the haplotypes of phase set ps of phasing A in the order pi
    [s \in DOMAIN A |-> IF A[s].b = ps THEN [b |-> ps, a |-> [k \in DOMAIN pi |-> A[s].a[pi[k]]]] ELSE A[s]]
(* A2 differs from A only by the order in which haplotypes are listed, per phase set *)
SameUpToLabels(A, A2, P) ==
    /\ Len(A) = Len(A2)
    /\ \A s \in DOMAIN A : A[s].b = A2[s].b /\ Len(A[s].a) = Len(A2[s].a)
    /\ \A s \in DOMAIN A : (A[s].b = 0 \/ A[s].a = << >>) => SameBag(A[s].a, A2[s].a)
    /\ \A ps \in PhaseSets(A) : \E pi \in Perms(P) :
          \A s \in DOMAIN A : (A[s].b = ps /\ A[s].a # << >>) => A2[s].a = [k \in 1..P |-> A[s].a[pi[k]]]
=============================================================================
