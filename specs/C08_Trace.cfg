SPECIFICATION Spec
