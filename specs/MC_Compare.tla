----------------------------- MODULE MC_Compare -----------------------------
(* Design-level model checking of the definitions in Compare.tla.

   State machine: NF phasings over the same sites are built site by site
   (AddSite: every file gets a heterozygous allele tuple of ploidy P and a
   phase set id from its id set; 0 = unphased), and at any time the haplotypes
   of one phase set of one file may be re-listed in another order (Relist, the
   generators of the group the property quantifies over).  Reachable states =
   all tuples of phasings up to MaxN sites.

   Checked for every reachable state / every Relist transition:
     Identity            switches = (non-flip switches) + 2 x flips, per block and in total (P = 2)
     ZeroWhenSame        two phasings that are equal up to haplotype order have no errors at all
     HapChoiceIrrelevant the diploid switch encoding does not depend on the haplotype looked at,
                         so "haplotype 0 of both files" realises the minimum over correspondences (P = 2)
     AgreementIsHamming  every admissible longest-block agreement vector has exactly Hamming-distance zeros (P = 2)
     BedIsSwitches       number of switch positions = switch errors (P = 2)
     GeneralIsDiploid    the general definitions (minimum over sequences of haplotype correspondences)
                         specialise to the diploid formulas: switch errors, and the run-length
                         decomposition is one of the minimum-cost decompositions (P = 2)
     DPIsBruteForce      the recurrences used beyond brute-force range equal the brute-force minima
     MultiwaySums        multiway counts sum to the compared pairs; where the multiway blocks coincide with the
                         pairwise blocks of files i, j the pairs separating i from j are their switch errors (NF >= 3, P = 2)
     RelistInvariant     (action property) every reported quantity is unchanged by Relist *)
EXTENDS Compare
CONSTANTS P, MaxN, NF, BlkSets
VARIABLE F
vars == <<F>>

BS_012_012 == << {0, 1, 2}, {0, 1, 2} >>
BS_1_12 == << {1}, {1, 2} >>
BS_1_1 == << {1}, {1} >>
BS_01_01 == << {0, 1}, {0, 1} >>
BS_01_01_01 == << {0, 1}, {0, 1}, {0, 1} >>
BS_1_1_1 == << {1}, {1}, {1} >>
BS_12_1_01 == << {1, 2}, {1}, {0, 1} >>
BS_1_1_12 == << {1}, {1}, {1, 2} >>

HetTuples == { a \in [1..P -> {0, 1}] : Het(a) }
SiteRecs(f) == { [b |-> b, a |-> a] : b \in BlkSets[f], a \in HetTuples }

Init == F = [f \in 1..NF |-> << >>]
AddSite == /\ Len(F[1]) < MaxN
           /\ \E r \in [1..NF -> UNION { SiteRecs(f) : f \in 1..NF }] :
                 /\ \A f \in 1..NF : r[f] \in SiteRecs(f)
                 /\ F' = [f \in 1..NF |-> Append(F[f], r[f])]
(* generators of the symmetric group: the adjacent transpositions *)
Swap(i) == [k \in 1..P |-> IF k = i THEN i + 1 ELSE IF k = i + 1 THEN i ELSE k]
Gens == { Swap(i) : i \in 1..(P - 1) }
Relist == \E f \in 1..NF : \E ps \in PhaseSets(F[f]) : \E pi \in Gens :
              F' = [F EXCEPT ![f] = Relabel(F[f], ps, pi)]
Next == AddSite \/ Relist
Spec == Init /\ [][Next]_vars

(* ------------------------------------------------------------------ theorems *)
Pair(i, j) == << F[i], F[j] >>
BlockPairs == { <<i, j>> \in (1..NF) \X (1..NF) : i < j }
AllPairs(Q(_)) == \A ij \in BlockPairs : Q(Pair(ij[1], ij[2]))
(* Q(X, Y) for the haplotypes of every intersection block of the pair G *)
AllBlocks(G, Q(_, _)) == \A blk \in Blocks(G) : Q(Haps(G, 1, blk, P), Haps(G, 2, blk, P))

IdRep_(r) == \A f \in r.sfF : r.sw = (r.sfmin - f) + 2 * f
IdBlk_(X, Y) == IdRep_(BlockReport(X, Y, P))
IdentityAt(G) == AllBlocks(G, IdBlk_) /\ IdRep_(Totals(G, P))
Identity == P = 2 => AllPairs(IdentityAt)

ZeroRep_(r) == r.sw = 0 /\ r.ham = 0 /\ r.dg = 0 /\ r.sfmin = 0 /\ r.sfF = {0}
ZeroBlk_(X, Y) == ZeroRep_(BlockReport(X, Y, P))
ZeroAt(G) == SameUpToLabels(G[1], G[2], P) => (AllBlocks(G, ZeroBlk_) /\ ZeroRep_(Totals(G, P)))
ZeroWhenSame == AllPairs(ZeroAt)

HapChoiceBlk_(X, Y) ==
    /\ SwitchEnc(X[1]) = SwitchEnc(X[2]) /\ SwitchEnc(Y[1]) = SwitchEnc(Y[2])
    /\ \A pi \in Perms2 : Ones(SwitchDiff(X[pi[1]], Y[1])) = Ones(SwitchDiff(X[1], Y[1]))
    /\ DiploidSwitches(X, Y) = Ham(SwitchEnc(X[1]), SwitchEnc(Y[1]))
HapChoiceAt(G) == AllBlocks(G, HapChoiceBlk_)
HapChoiceIrrelevant == P = 2 => AllPairs(HapChoiceAt)

AgreementBlk_(X, Y) ==
    /\ LongestAgreement(X, Y) # {}
    /\ \A v \in LongestAgreement(X, Y) : 2 * Zeros(v) = HammingUnits(X, Y, 2)
AgreementAt(G) == AllBlocks(G, AgreementBlk_)
AgreementIsHamming == P = 2 => AllPairs(AgreementAt)

BedAt(G) == 2 * Cardinality(SwitchPositions(G)) = Totals(G, 2).sw
BedIsSwitches == P = 2 => AllPairs(BedAt)

GeneralBlkSF_(X, Y, sf, C) ==
    /\ PolySwitchesBF(X, Y, 2) = 2 * DiploidSwitches(X, Y)
    /\ PolySFMinOf_(C) = 2 * (sf.s + sf.f)
    /\ 2 * sf.f \in PolySFFlipsOfC_(C)
    /\ HammingUnits(X, Y, 2) = 2 * Min2(Ham(X[1], Y[1]), BlockLen(X) - Ham(X[1], Y[1]))
GeneralBlk_(X, Y) == GeneralBlkSF_(X, Y, DiploidSF(X, Y), PolySFCostsBF(X, Y, 2))
GeneralAt(G) == AllBlocks(G, GeneralBlk_)
GeneralIsDiploid == P = 2 => AllPairs(GeneralAt)

DPBlkC_(X, Y, C, m) ==
    /\ PolySwitchesDP(X, Y, P) = PolySwitchesBF(X, Y, P)
    /\ SFMinOfM_(m) = PolySFMinOf_(C)
    /\ SFFlipsOfMM_(m) = PolySFFlipsOfC_(C)
DPBlk_(X, Y) == DPBlkC_(X, Y, PolySFCostsBF(X, Y, P), MinSwGivenFlips(X, Y, P))
DPAt(G) == AllBlocks(G, DPBlk_)
DPIsBruteForce == AllPairs(DPAt)

Separating(h, i, j) == SumOver(DOMAIN h, [sp \in DOMAIN h |-> IF (i \in sp) # (j \in sp) THEN h[sp] ELSE 0])
MultiwayH_(h) ==
    /\ SumOver(DOMAIN h, h) = MultiCompared(F)
    /\ \A sp \in DOMAIN h : 1 \notin sp /\ h[sp] >= 1
    \* where the multiway blocks are the blocks of the pairwise comparison of i and j, the pairs that
    \* separate i from j are exactly the switch errors between i and j
    /\ \A ij \in BlockPairs : Blocks(Pair(ij[1], ij[2])) = Blocks(F) =>
              2 * Separating(h, ij[1], ij[2]) = Totals(Pair(ij[1], ij[2]), 2).sw
MultiwaySums == (P = 2 /\ NF >= 3) => MultiwayH_(MultiHist(F))

(* everything the command reports, as a function of the tuple of phasings *)
AgreeZeros_(G, B) == UNION { { <<blk, Zeros(v)>> : v \in LongestAgreement(Haps(G, 1, blk, 2), Haps(G, 2, blk, 2)) } : blk \in B }
PairMetrics_(G, B) ==
    [tot |-> TotalsB_(G, B, P),
     largest |-> { ReportOf(G, blk, P) : blk \in LongestOf(B) },
     blocks |-> Reports(G, B, P),
     bed |-> IF P = 2 THEN SwitchPositionsB_(G, B) ELSE {},
     agreeZeros |-> IF P = 2 THEN AgreeZeros_(G, B) ELSE {}]
PairMetrics(G) == PairMetrics_(G, Blocks(G))
Metrics(H) ==
    [ pairs |-> [ij \in BlockPairs |-> PairMetrics(<< H[ij[1]], H[ij[2]] >>)],
      multi |-> IF P = 2 /\ NF >= 3 THEN MultiHist(H) ELSE << >> ]
RelistInvariant == [][Len(F'[1]) = Len(F[1]) => Metrics(F') = Metrics(F)]_vars
=============================================================================
