SPECIFICATION Spec
