--------------------------- MODULE MC_TagPhaseChain ---------------------------
(* Design-level model checking of the chain of C17 over tiny abstract worlds, with the
   commands as actions over an abstract file system fs (file name -> content or Null).

   World: N sites of one chromosome, one diploid sample.  V0 phases some heterozygous sites
   in up to MaxSets contiguous phase sets (ids 1..k from left to right), the other sites
   are heterozygous-unphased or homozygous.  Up to NReads error-free reads, each a copy of
   one haplotype of the truth over an interval of sites that does not contain phased sites
   of two sets.  keep = the phase sets left phased in U (partially phased input;
   {} = plain `whatshap unphase`).

   Actions: Haplotag (V0 -> B) and Unphase (V0 -> U) in either order, then
   HaplotagPhase (U, B -> W).  Invariants on the final state: the three clauses of the
   property.  The same run emits every world (Emit) for the replay on the real commands. *)
EXTENDS TagPhaseChain, Json, TLC, SequencesExt
CONSTANTS N, NReads, MaxSets, WithKeep, Multi
VARIABLES world, fs, have, step

vars == <<world, fs, have, step>>
(* have = the files that exist; a missing file has the placeholder content <<>> *)

(* per site: truth tuple, and how V0 writes it *)
HetTruths == { <<0, 1>>, <<1, 0>> } \cup (IF Multi THEN { <<1, 2>>, <<2, 1>>, <<0, 2>>, <<2, 0>> } ELSE {})
SiteOpts == { [t |-> t, mode |-> m] : t \in HetTruths, m \in {"phased", "unphased"} }
            \cup { [t |-> <<1, 1>>, mode |-> "hom"] }

(* set ids along the sites: contiguous blocks numbered from the left *)
RECURSIVE SetIds(_, _, _)
SetIds(sites, j, cur) ==
    IF j > Len(sites) THEN { <<>> }
    ELSE IF sites[j].mode # "phased" THEN { <<0>> \o rest : rest \in SetIds(sites, j + 1, cur) }
    ELSE UNION { { <<p>> \o rest : rest \in SetIds(sites, j + 1, p) } : p \in { q \in {cur, cur + 1} : q >= 1 /\ q <= MaxSets } }
         \* staying in the current set or opening the next one

V0Of(sites, ids) ==
    [ j \in 1..N |-> IF sites[j].mode = "phased" THEN Call(TRUE, ids[j], sites[j].t)
                     ELSE Call(FALSE, 0, Sorted2(sites[j].t)) ]

ReadOpts(sites, ids) ==
    { [smp |-> 1, tpl |-> 0, cov |-> [ n \in 1..(hi - lo + 1) |-> lo + n - 1 ],
       al |-> [ n \in 1..(hi - lo + 1) |-> sites[lo + n - 1].t[h] ]] :
        lo \in 1..N, hi \in 1..N, h \in {1, 2} }
ReadOK(rd, v0) == /\ Len(rd.cov) >= 1
                  /\ \A i \in CovSet(rd), j \in CovSet(rd) : (v0[i].ph /\ v0[j].ph) => v0[i].ps = v0[j].ps
GoodReads(sites, ids) == { rd \in ReadOpts(sites, ids) : DOMAIN rd.cov # {} /\ ReadOK(rd, V0Of(sites, ids)) }

RECURSIVE ReadSeqs(_, _)
(* non-decreasing sequences (reads are a multiset) *)
ReadSeqs(S, n) == IF n = 0 THEN { <<>> }
                  ELSE ReadSeqs(S, n - 1) \cup { Append(s, r) : s \in { q \in ReadSeqs(S, n - 1) : Len(q) = n - 1 }, r \in S }

SetsOf(v0) == { v0[j].ps : j \in { i \in DOMAIN v0 : v0[i].ph } }

Init == /\ world = [sites |-> <<>>, reads |-> <<>>, keep |-> {}]
        /\ fs = [V0 |-> <<>>, B |-> <<>>, U |-> <<>>, W |-> <<>>]
        /\ have = {}
        /\ step = "sites"

ChooseSites ==
    /\ step = "sites"
    /\ \E sites \in [1..N -> SiteOpts] : \E ids \in SetIds(sites, 1, 0) :
          /\ world' = [sites |-> sites, reads |-> <<>>, keep |-> {}]
          /\ fs' = [fs EXCEPT !.V0 = V0Of(sites, ids)]
    /\ have' = {"V0"}
    /\ step' = "reads"

ChooseReads ==
    /\ step = "reads"
    /\ \E rs \in ReadSeqs(GoodReads(world.sites, [ j \in 1..N |-> fs.V0[j].ps ]), NReads) :
       \E keep \in (IF WithKeep THEN SUBSET SetsOf(fs.V0) ELSE { {} }) :
          /\ world' = [world EXCEPT !.reads = [ r \in DOMAIN rs |-> [rs[r] EXCEPT !.tpl = r] ], !.keep = keep]
          /\ SetsSeparated(world'.reads, << fs.V0 >>)
    /\ step' = "run"
    /\ UNCHANGED <<fs, have>>

(* all results the design allows, built read by read / site by site *)
RECURSIVE TagSeqs(_)
TagSeqs(n) == IF n = 0 THEN { <<>> }
              ELSE { Append(f, t) : f \in TagSeqs(n - 1), t \in TagChoices(fs.V0, world.reads[n]) }
RECURSIVE CallSeqs(_)
CallSeqs(n) == IF n = 0 THEN { <<>> }
               ELSE { Append(f, c) : f \in CallSeqs(n - 1), c \in PhaseCallChoices(world.reads, fs.B, 1, fs.U, n, 70) }

Haplotag ==
    /\ step = "run" /\ "B" \notin have
    /\ \E b \in TagSeqs(Len(world.reads)) : fs' = [fs EXCEPT !.B = b]
    /\ have' = have \cup {"B"}
    /\ UNCHANGED <<world, step>>

Unphase ==
    /\ step = "run" /\ "U" \notin have
    /\ fs' = [fs EXCEPT !.U = UnphaseOp(fs.V0, world.keep)]
    /\ have' = have \cup {"U"}
    /\ UNCHANGED <<world, step>>

HaplotagPhase ==
    /\ step = "run" /\ {"B", "U"} \subseteq have /\ "W" \notin have
    /\ \E w \in CallSeqs(N) : fs' = [fs EXCEPT !.W = w]
    /\ have' = have \cup {"W"}
    /\ step' = "done"
    /\ UNCHANGED world

Next == ChooseSites \/ ChooseReads \/ Haplotag \/ Unphase \/ HaplotagPhase
Spec == Init /\ [][Next]_vars

-----------------------------------------------------------------------------
Done == step = "done"
InvPremise == step \in {"run", "done"} => SetsSeparated(world.reads, << fs.V0 >>)
InvOrderRestored == Done => OrderRestored(fs.V0, fs.U, fs.W)
InvSetOfCoveringReads == Done => SetOfCoveringReads(world.reads, fs.B, 1, fs.U, fs.W)
InvPrephasedUntouched == Done => PrephasedUntouched(fs.U, fs.W)
InvAllelesKept == Done => AllelesKept(fs.V0, fs.U, fs.W)
(* sanity of the design: every phased heterozygous site (multi-allelic ones too) covered by a tagged read is phased again *)
InvCoveredIsRephased ==
    Done => \A j \in 1..N :
               (fs.V0[j].ph /\ Het(fs.V0[j].al) /\ \E r \in DOMAIN world.reads : j \in CovSet(world.reads[r]) /\ fs.B[r].hp # Absent)
                  => fs.W[j].ph /\ fs.W[j].ps = fs.V0[j].ps

(* for the emission run: worlds only, the chain itself is not explored *)
StopAtRun == step # "run"

(* emission of worlds for the replay on the real commands (once per world) *)
Emit == IF step = "run" /\ have = {"V0"}
        THEN PrintT(<<"BEHAVIOUR", ToJson([v0 |-> [ j \in 1..N |-> [ph |-> fs.V0[j].ph, ps |-> fs.V0[j].ps, al |-> fs.V0[j].al] ],
                                            truth |-> [ j \in 1..N |-> world.sites[j].t ],
                                            reads |-> [ r \in DOMAIN world.reads |-> [cov |-> world.reads[r].cov, al |-> world.reads[r].al] ],
                                            keep |-> SetToSeq(world.keep)])>>)
        ELSE TRUE
=============================================================================
