SPECIFICATION Spec
CONSTANTS NAln = 2
          NSites = 2
          Quals = {1, 2}
          Kinds = {"prim", "sup", "low"}
          FixFirstSite = TRUE
INVARIANT InvConservation
INVARIANT InvTagShape
INVARIANT InvDecision
INVARIANT InvUntaggedWhen
INVARIANT InvIneligible
INVARIANT InvTaggedWhen
INVARIANT InvSymmetry
INVARIANT AccIsScore
INVARIANT SeenIsTouched
INVARIANT TieUntagged
INVARIANT DecisionSymmetric
