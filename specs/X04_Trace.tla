------------------------------ MODULE X04_Trace ------------------------------
(* Trace validation of the column store of PedigreeDPTable ("P") and GenotypeDPTable ("G") against the
   contract of ColumnStore.tla.  One line per event logged by the hook WHATSHAP_VERIF_DPTRACE
       begin | compute c | bcompute c | fcompute c | read c | free c | end        (tbl, col, n = columns)
   plus   Result  (the driver's own observation after the run: schedule compared with the model's)
   The abstract store is carried along; every event must be a step the contract allows. *)
EXTENDS Naturals, FiniteSets, Sequences, Json, IOUtils, TLC
CK == INSTANCE ColumnStore WITH MaxN <- 0, Variant <- "code", tbl <- "", N <- 0, pc <- "", i <- 0, j <- 0,
                               stored <- {}, cnt <- <<>>, reads <- <<>>, hist <- <<>>, bad <- ""
Trace == ndJsonDeserialize(IOEnv.TRACE_FILE)
VARIABLES l, open, n, stored, cnt, nreads, nf
vars == <<l, open, n, stored, cnt, nreads, nf>>

Fail(e, c) == PrintT(<<"VERDICT", e.tid, e.seq, c>>)
Check(e, c, ok) == IF ok THEN TRUE ELSE Fail(e, c)

Count(c) == IF c \in DOMAIN cnt THEN cnt[c] ELSE 0
Bump(c) == [x \in (DOMAIN cnt) \cup {c} |-> IF x = c THEN Count(c) + 1 ELSE cnt[x]]

StoredAfter(e) ==
    CASE e.ev = "begin"    -> {}
      [] e.ev = "compute"  -> CK!PAfterCompute(n, stored, e.col)
      [] e.ev = "bcompute" -> CK!GAfterBCompute(stored, e.col)
      [] e.ev = "free"     -> stored \ {e.col}
      [] OTHER -> stored

Common(e) == /\ Check(e, "EventInsideRun", open)
             /\ Check(e, "ColumnCountStable", e.n = n)
             /\ Check(e, "ColumnInRange", e.col \in 0..(n - 1))
             /\ Check(e, "SpaceBound", Cardinality(StoredAfter(e)) <= CK!Bound(n))

Judge(e) ==
    CASE e.ev = "begin"    -> Check(e, "RunsDoNotNest", ~open)
      [] e.ev = "compute"  -> /\ Common(e)
                              /\ Check(e, "ComputeHasPredecessor", CK!PHasPredecessor(stored, e.col))
                              /\ Check(e, "NoLeakOnCompute", e.col \notin stored)
                              /\ Check(e, "ComputedAtMostTwice", Count(e.col) < CK!MaxComputes)
      [] e.ev = "bcompute" -> /\ Common(e)
                              /\ Check(e, "BackwardHasSuccessor", CK!GHasSuccessor(n, stored, e.col))
                              /\ Check(e, "NoLeakOnCompute", e.col = 0 \/ (e.col - 1) \notin stored)
                              /\ Check(e, "ComputedAtMostTwice", Count(e.col) < CK!MaxComputes)
      [] e.ev = "fcompute" -> /\ Common(e)
                              /\ Check(e, "ForwardInOrder", e.col = nf)
                              /\ Check(e, "ForwardReadEachSlot", nreads = IF e.col < n THEN e.col ELSE n - 1)
      [] e.ev = "read"     -> /\ Common(e)
                              /\ Check(e, "ReadWhileStored", e.col \in stored)
                              /\ Check(e, "ReadInOrder",
                                       IF e.tbl = "P" THEN e.col = n - 2 - nreads
                                       ELSE e.col = nreads /\ e.col + 1 = nf)
      [] e.ev = "free"     -> Common(e)
      [] e.ev = "end"      -> /\ Check(e, "EventInsideRun", open)
                              /\ Check(e, "AllColumnsRead", nreads = n - 1)
                              /\ Check(e, "ForwardComplete", e.tbl = "P" \/ nf = n)
      [] e.ev = "Result"   -> /\ Check(e, "RunLogged", e.logged)
                              /\ Check(e, "ResultReturned", e.exc = "")
      [] e.ev = "Crashed"  -> Fail(e, "Returns")
      [] OTHER             -> Fail(e, "UnknownEvent")

Init == l = 1 /\ open = FALSE /\ n = 0 /\ stored = {} /\ cnt = <<>> /\ nreads = 0 /\ nf = 0
Next == /\ l <= Len(Trace)
        /\ LET e == Trace[l] IN
           /\ Judge(e)
           /\ open' = (IF e.ev = "begin" THEN TRUE ELSE IF e.ev \in {"end", "Result", "Crashed"} THEN FALSE ELSE open)
           /\ n' = (IF e.ev = "begin" THEN e.n ELSE n)
           /\ stored' = StoredAfter(e)
           /\ cnt' = (IF e.ev = "begin" THEN <<>> ELSE IF e.ev \in {"compute", "bcompute"} THEN Bump(e.col) ELSE cnt)
           /\ nreads' = (IF e.ev = "begin" THEN 0 ELSE IF e.ev = "read" THEN nreads + 1 ELSE nreads)
           /\ nf' = (IF e.ev = "begin" THEN 0 ELSE IF e.ev = "fcompute" THEN e.col + 1 ELSE nf)
        /\ l' = l + 1
Spec == Init /\ [][Next]_vars
=============================================================================
