---------------------------- MODULE MC_Workflow ----------------------------
(* Design-level model checking of whatshap as a set of commands over an abstract file
   system (Workflow.tla).  State = the file system fs; every command is an action with
   the abstract semantics of Workflow.tla PART 2; a file is named by its derivation
   ("st(un(phPS(x,b)))"), so a state IS a workflow: the set of commands that have been run
   (the order in which independent commands ran is irrelevant and is not part of the state).
   TLC explores every workflow of at most MaxCmds commands on every tiny world and checks
   the cross-command invariants W1..W12 in every state.

   World: one diploid sample, N sites on one chromosome (POS 10, 20, ...; site 2 is not an
   SNV), truth per site from {0|1, 1|0, 1|1}; error-free single-end reads, each a copy of one
   haplotype over an interval of sites; orient = which haplotype `phase` lists first.

   Broken selects a deliberately wrong design of one command (negative controls):
     "unphase_keeps_hp"   unphase removes '|' and PS but forgets HP
     "hp_zero_based"      phase --tag HP names a set by POS - 1
     "list_shifted"       the haplotag list reports the haplotype of the tag plus one
     "split_swapped"      split writes the H1 reads to the H2 output and vice versa
     "tagphase_inverted"  haplotagphase lists the two alleles in the other order at every second site          *)
EXTENDS Workflow, Json
CONSTANTS N, NReads, MaxCmds, WorldSet, Broken, Cmds, TagOpts, Want, Caps
VARIABLES fs, world
vars == <<fs, world>>

Truths == { <<0, 1>>, <<1, 0>>, <<1, 1>> }
Pos(j) == 10 * j
InitCall(t) == [hasgt |-> TRUE, gt |-> IF t[1] <= t[2] THEN t ELSE <<t[2], t[1]>>, ph |-> FALSE, ps |-> -1, pq |-> -1,
                hp |-> << >>, rest |-> << >>]
InitVcf(truth) == << [j \in 1..N |-> [chr |-> 1, pos |-> Pos(j), snv |-> j # 2, call |-> InitCall(truth[j])]] >>
ReadOf(truth, lo, hi, h) == [lo |-> lo, hi |-> hi, h |-> h]
ReadShapes == { [lo |-> lo, hi |-> hi, h |-> h] : lo \in 1..N, hi \in 1..N, h \in {1, 2} }
GoodShapes == { r \in ReadShapes : r.lo <= r.hi }
Aln(truth, r, n) == [name |-> n, smp |-> 1, tpl |-> n, chr |-> 1, s |-> Pos(r.lo) - 5, e |-> Pos(r.hi) + 4, len |-> Pos(r.hi) - Pos(r.lo) + 9 + n,
                     cov |-> [k \in 1..(r.hi - r.lo + 1) |-> r.lo + k - 1],
                     al |-> [k \in 1..(r.hi - r.lo + 1) |-> truth[r.lo + k - 1][r.h]],
                     hp |-> -1, ps |-> -1]
(* read multisets as non-decreasing sequences of shapes *)
ShapeKey(r) == (r.lo * 10 + r.hi) * 10 + r.h
RECURSIVE ShapeSeqs(_)
ShapeSeqs(n) == IF n = 0 THEN { << >> }
                ELSE { Append(q, r) : q \in ShapeSeqs(n - 1), r \in GoodShapes }
SortedShapeSeqs(n) == { q \in ShapeSeqs(n) : \A i \in 1..(n - 1) : ShapeKey(q[i]) <= ShapeKey(q[i + 1]) }

AllWorlds == { [truth |-> << t >>, shapes |-> q, orient |-> o] :
                 t \in [1..N -> Truths], q \in SortedShapeSeqs(NReads), o \in BOOLEAN }
Sh(lo, hi, h) == [lo |-> lo, hi |-> hi, h |-> h]
(* a few worlds with structure: two blocks + a single-site read; one block across a homozygous site;
   a chain; nothing connected; interleaved blocks (1,3 | 2,4) *)
FixedWorlds ==
    { [truth |-> << << <<0, 1>>, <<1, 0>>, <<0, 1>>, <<1, 0>> >> >>, shapes |-> << Sh(1, 2, 1), Sh(3, 4, 2), Sh(2, 2, 2) >>, orient |-> TRUE],
      [truth |-> << << <<0, 1>>, <<1, 1>>, <<1, 0>>, <<0, 1>> >> >>, shapes |-> << Sh(1, 3, 1), Sh(4, 4, 1) >>, orient |-> FALSE],
      [truth |-> << << <<1, 0>>, <<1, 0>>, <<0, 1>>, <<0, 1>> >> >>, shapes |-> << Sh(1, 2, 2), Sh(2, 3, 1), Sh(3, 4, 2) >>, orient |-> TRUE],
      [truth |-> << << <<0, 1>>, <<0, 1>>, <<1, 1>>, <<1, 0>> >> >>, shapes |-> << Sh(1, 1, 1), Sh(2, 2, 2), Sh(3, 4, 1) >>, orient |-> TRUE] }
OneWorld == { [truth |-> << << <<0, 1>>, <<1, 0>>, <<0, 1>>, <<1, 0>> >> >>, shapes |-> << Sh(1, 2, 1), Sh(3, 4, 2), Sh(2, 2, 2) >>, orient |-> TRUE] }
TwoWorlds == { [truth |-> << << <<0, 1>>, <<1, 0>>, <<0, 1>>, <<1, 0>> >> >>, shapes |-> << Sh(1, 2, 1), Sh(3, 4, 2), Sh(2, 2, 2) >>, orient |-> TRUE],
               [truth |-> << << <<0, 1>>, <<1, 1>>, <<1, 0>>, <<0, 1>> >> >>, shapes |-> << Sh(1, 3, 1), Sh(4, 4, 1) >>, orient |-> FALSE] }
Worlds == CASE WorldSet = "all" -> AllWorlds [] WorldSet = "one" -> OneWorld [] WorldSet = "two" -> TwoWorlds [] OTHER -> FixedWorlds

BamOf(w) == [n \in DOMAIN w.shapes |-> Aln(w.truth[1], w.shapes[n], n)]

-----------------------------------------------------------------------------
Opt(tag, smp, disc) == [tag |-> tag, smp |-> smp, disc |-> disc]
Ids(kind) == { i \in DOMAIN fs : fs[i].kind = kind }
NCmds == Cardinality({ i \in DOMAIN fs : fs[i].cmd # "init" /\ fs[i].kind # "list" })
Id1(c, a) == c \o "(" \o a \o ")"
Id2(c, a, b) == c \o "(" \o a \o "," \o b \o ")"
Add(id, f) == id \notin DOMAIN fs /\ fs' = fs @@ (id :> f)
On(c) == c \in Cmds

(* ---- the (possibly broken) designs ---- *)
MyUnphase(v) ==
    IF Broken = "unphase_keeps_hp"
    THEN [s \in DOMAIN v |-> [j \in DOMAIN v[s] |-> [v[s][j] EXCEPT !.call = [VM!UnphaseCall(@) EXCEPT !.hp = v[s][j].call.hp]]]]
    ELSE UnphaseDesign(v)
MyPhase(v, bam, tag) ==
    IF Broken = "hp_zero_based" /\ tag = "HP"
    THEN [s \in DOMAIN v |-> [j \in DOMAIN v[s] |->
            LET p == PhaseStmt(world, bam, s, v[s], j) IN
            [v[s][j] EXCEPT !.call = VM!Encode(tag, VM!ClearPhase(@), IF p = VM!NoPhase THEN p ELSE [p EXCEPT !.block = @ - 1])]]]
    ELSE PhaseDesign(world, v, bam, tag)
MyList(bam) ==
    IF Broken = "list_shifted"
    THEN [n \in DOMAIN bam |-> [ListOfBam(bam)[n] EXCEPT !.hap = IF @ = 0 THEN 0 ELSE 3 - @]]
    ELSE ListOfBam(bam)
MySplit(bam, list, disc) ==
    IF Broken = "split_swapped"
    THEN LET sp == SplitDesign(bam, list, disc) IN [sp EXCEPT !.out = << sp.out[1], sp.out[3], sp.out[2] >>]
    ELSE SplitDesign(bam, list, disc)
MyTagPhase(v, bam) ==
    IF Broken = "tagphase_inverted"
    THEN { [s \in DOMAIN w |-> [j \in DOMAIN w[s] |->
              IF HasStmt(w[s][j].call) /\ ~HasStmt(v[s][j].call) /\ (j % 2) = 0
              THEN [w[s][j] EXCEPT !.call.gt = << @[2], @[1] >>] ELSE w[s][j]]] : w \in HaplotagPhaseDesign(v, bam) }
    ELSE HaplotagPhaseDesign(v, bam)

(* ---- the commands ---- *)
Phase(f, b, tag) ==
    /\ On("phase")
    /\ Add(Id2("ph" \o tag, f, b), File("vcf", "phase", <<f, b>>, Opt(tag, 0, FALSE), MyPhase(fs[f].c, fs[b].c, tag)))
Unphase(f) ==
    /\ On("unphase")
    /\ Add(Id1("un", f), File("vcf", "unphase", <<f>>, NoOpt, MyUnphase(fs[f].c)))
Stats(f) ==
    /\ On("stats")
    /\ Add(Id1("st", f), File("stats", "stats", <<f>>, Opt("", 1, FALSE), StatsDesign(fs[f].c, 1)))
Compare(f, g) ==
    /\ On("compare")
    /\ Add(Id2("cp", f, g), File("cmp", "compare", <<f, g>>, Opt("", 1, FALSE), CompareDesign(fs[f].c, fs[g].c, 1)))
Haplotag(f, b) ==
    /\ On("haplotag")
    /\ Id2("ht", f, b) \notin DOMAIN fs
    /\ \E t \in HaplotagDesign(fs[f].c, fs[b].c) :
          fs' = fs @@ (Id2("ht", f, b) :> File("bam", "haplotag", <<f, b>>, NoOpt, t))
                   @@ (Id2("hl", f, b) :> File("list", "haplotag", <<f, b>>, NoOpt, MyList(t)))
Split(b, l, disc) ==
    /\ On("split")
    /\ Add(Id2(IF disc THEN "sd" ELSE "sp", b, l), File("split", "split", <<b, l>>, Opt("", 0, disc),
                                                       MySplit(fs[b].c, fs[l].c, disc)))
HaplotagPhase(f, b) ==
    /\ On("haplotagphase")
    /\ fs[f].cmd \in {"init", "unphase"} /\ fs[b].cmd = "haplotag"
    /\ Id2("hp", f, b) \notin DOMAIN fs
    /\ \E w \in MyTagPhase(fs[f].c, fs[b].c) :
          fs' = fs @@ (Id2("hp", f, b) :> File("vcf", "haplotagphase", <<f, b>>, NoOpt, w))

Init == /\ world \in Worlds
        /\ fs = ("x" :> File("vcf", "init", << >>, NoOpt, InitVcf(world.truth[1])))
             @@ ("b" :> File("bam", "init", << >>, NoOpt, BamOf(world)))
Next == /\ NCmds < MaxCmds
        /\ UNCHANGED world
        /\ \/ \E f \in Ids("vcf"), b \in Ids("bam"), tag \in TagOpts : Phase(f, b, tag)
           \/ \E f \in Ids("vcf") : Unphase(f) \/ Stats(f)
           \/ \E f \in Ids("vcf"), g \in Ids("vcf") : Compare(f, g)
           \/ \E f \in Ids("vcf"), b \in Ids("bam") : Haplotag(f, b) \/ HaplotagPhase(f, b)
           \/ \E b \in Ids("bam"), l \in Ids("list"), disc \in BOOLEAN : Split(b, l, disc)
Spec == Init /\ [][Next]_vars

-----------------------------------------------------------------------------
All == DOMAIN fs
InvW1a == W1a(fs, All)
InvW1b == W1b(fs, All)
InvW2a == W2a(fs, All)
InvW2b == W2b(fs, All)
InvW3a == W3a(fs, All)
InvW3b == W3b(fs, All)
InvW3c == W3c(fs, All)
InvW3d == W3d(fs, All)
InvW4a == W4a(fs, All)
InvW4b == W4b(fs, All)
InvW5 == W5(fs, All)
InvW5c == W5c(fs, All)
InvW6 == W6(fs, All)
InvW7 == W7(fs, All)
InvW7n == W7n(fs, All)
InvW8a == W8a(fs, All)
InvW8b == W8b(fs, All)
InvW9 == W9(fs, All)
InvW10 == W10(fs, All, TRUE)
InvW10b == W10b(fs, All, TRUE)
InvW11 == W11(fs, All)
InvW12 == W12(fs, All)
(* sanity of the model itself: every file's arguments exist, every list is consistent *)
InvClosed == \A i \in DOMAIN fs : \A n \in DOMAIN fs[i].args : fs[i].args[n] \in DOMAIN fs

(* emission: a state with MaxCmds commands is one workflow (the commands without contents) *)
Shape == [i \in DOMAIN fs |-> [kind |-> fs[i].kind, cmd |-> fs[i].cmd, args |-> fs[i].args, opt |-> fs[i].opt]]
(* caps on the number of runs per command (state constraint PerCmd; only used to keep targeted emission runs small) *)
AllCmdNames == {"phase", "unphase", "stats", "compare", "haplotag", "split", "haplotagphase"}
CapsNone == [c \in AllCmdNames |-> 99]
Caps1 == [c \in AllCmdNames |-> 1]
Caps2 == [c \in AllCmdNames |-> 2]
CapsR == [c \in AllCmdNames |-> IF c \in {"stats", "compare"} THEN 2 ELSE 1]
CountCmd(c) == Cardinality({ i \in DOMAIN fs : fs[i].cmd = c /\ fs[i].kind # "list" })
PerCmd == \A c \in Cmds : CountCmd(c) <= Caps[c]

(* Want = the invariants the emitted workflows have to exercise ({} = no condition) *)
Emit == IF NCmds = MaxCmds /\ (Want = {} \/ \E nm \in Want : Live(nm, fs)) THEN PrintT(<<"BEHAVIOUR", ToJson(Shape)>>) ELSE TRUE
(* non-vacuity, to be VIOLATED: some reachable workflow exercises invariant nm *)
NeverLive == \A nm \in Want : ~Live(nm, fs)
=============================================================================
