SPECIFICATION Spec
