------------------------------ MODULE C06_Trace ------------------------------
(* Trace validation for C06: one line per read name given to
   ReadSetReader.read with what was recorded for every variant.  A scenario
   may be a HISTORY of several read() calls on one reader object: every call
   is judged by the same clauses (the property is stateless: what an earlier
   call was asked for must not matter), so no state is carried along. *)
EXTENDS AlleleDetect, Json, IOUtils, TLC
Trace == ndJsonDeserialize(IOEnv.TRACE_FILE)
VARIABLE l
Fail(e, c) == PrintT(<<"VERDICT", e.tid, e.seq, c>>)
Check(e, c, ok) == IF ok THEN TRUE ELSE Fail(e, c)

JudgeDetect(e) ==
    /\ Check(e, "WorldSane", \A k \in DOMAIN e.segs : SegSane(e.segs[k]))
    /\ \A k \in DOMAIN e.vars :
         LET v == e.vars[k] IN
         /\ Check(e, "NeverWrong", NeverWrong(e, v))
         /\ Check(e, "NoneIfNoOverlap", NoneIfNoOverlap(e, v))
         /\ Check(e, "AlwaysFoundRef", AlwaysFoundRef(e, v))
         /\ Check(e, "AlwaysFoundNoRef", AlwaysFoundNoRef(e, v))
(* what one call recorded for one read name: alleles only at positions of variants that THIS call asked for
   (req = positions of the requested variants, rec = positions at which the read has an allele) *)
JudgeRecorded(e) ==
    Check(e, "OnlyRequested", \A k \in DOMAIN e.rec : \E j \in DOMAIN e.req : e.req[j] = e.rec[k])
Judge(e) ==
    CASE e.ev = "Detect"  -> JudgeDetect(e)
      [] e.ev = "Recorded" -> JudgeRecorded(e)
      [] e.ev = "Crashed" -> Fail(e, "Returns")
      [] OTHER            -> Fail(e, "UnknownEvent")
Init == l = 1
Next == l <= Len(Trace) /\ Judge(Trace[l]) /\ l' = l + 1
Spec == Init /\ [][Next]_l
=============================================================================
