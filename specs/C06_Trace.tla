------------------------------ MODULE C06_Trace ------------------------------
(* Trace validation for C06: one line per read name given to
   ReadSetReader.read with what was recorded for every variant. *)
EXTENDS AlleleDetect, Json, IOUtils, TLC
Trace == ndJsonDeserialize(IOEnv.TRACE_FILE)
VARIABLE l
Fail(e, c) == PrintT(<<"VERDICT", e.tid, e.seq, c>>)
Check(e, c, ok) == IF ok THEN TRUE ELSE Fail(e, c)

JudgeDetect(e) ==
    /\ Check(e, "WorldSane", \A k \in DOMAIN e.segs : SegSane(e.segs[k]))
    /\ \A k \in DOMAIN e.vars :
         LET v == e.vars[k] IN
         /\ Check(e, "NeverWrong", NeverWrong(e, v))
         /\ Check(e, "NoneIfNoOverlap", NoneIfNoOverlap(e, v))
         /\ Check(e, "AlwaysFoundRef", AlwaysFoundRef(e, v))
         /\ Check(e, "AlwaysFoundNoRef", AlwaysFoundNoRef(e, v))
Judge(e) ==
    CASE e.ev = "Detect"  -> JudgeDetect(e)
      [] e.ev = "Crashed" -> Fail(e, "Returns")
      [] OTHER            -> Fail(e, "UnknownEvent")
Init == l = 1
Next == l <= Len(Trace) /\ Judge(Trace[l]) /\ l' = l + 1
Spec == Init /\ [][Next]_l
=============================================================================
