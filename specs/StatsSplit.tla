----------------------------- MODULE StatsSplit -----------------------------
(* Implementation-shaped model of PhasingStats.get_nonoverlapping_blocks
   (whatshap/cli/stats.py), one loop iteration per step:

       pos_sorted_blocks = sorted(blocks, key=leftmost, reverse=True), len > 1 only
       while pos_sorted_blocks:
           block = pos_sorted_blocks.pop()                    # the leftmost block
           if pos_sorted_blocks:
               next_block = pos_sorted_blocks[-1]
               if block.end > next_block.start:               # overlap
                   block, new_block = block.split(next.start, next.end)
                   if len(new_block) > 1: append new_block and re-sort
                   if len(block) < 2: continue
           split_blocks.append(block)

   A block of the family is a set of positions (the blocks of one chromosome are
   pairwise disjoint sets, positions are distinct).  A piece remembers the block
   it was cut from (src).  The invariants say that the emitted pieces are
   pairwise disjoint intervals, each made of variants of one block (hence inside
   that block's hull), which gives the bound  sum of piece lengths <= span
   covered by the blocks  that Stats.tla states for bp_per_block_sum. *)
EXTENDS Integers, Sequences, FiniteSets, SequencesExt, Util, Stats
CONSTANTS NPos, MaxBlocks
VARIABLES lab,    \* build phase: the labelling chosen so far (one label per position), then fixed
          fam,    \* the family: sequence of pairwise disjoint non-empty sets of positions (<<>> while building)
          todo,   \* pos_sorted_blocks: pieces sorted by DEscending leftmost position, popped from the end
          out     \* split_blocks
vars == <<lab, fam, todo, out>>

PLo(x) == MinSet(x.vs)
PHi(x) == MaxSet(x.vs)
SortDesc(s) == SortSeq(s, LAMBDA a, b : PLo(a) > PLo(b))

(* build phase: TLC chooses the family position by position (canonical labellings
   of Stats.tla, so that the enumeration is spread over the BFS workers); the
   choice of the last position also performs the first two statements of the
   function (sort by leftmost, keep blocks with more than one variant) *)
Init == lab = <<>> /\ fam = <<>> /\ todo = <<>> /\ out = <<>>
Choose == /\ Len(lab) < NPos
          /\ \E k \in NextLabels(lab, MaxBlocks) :
                IF Len(lab) + 1 < NPos
                THEN lab' = Append(lab, k) /\ UNCHANGED <<fam, todo, out>>
                ELSE LET f == FamOf(Append(lab, k))
                     IN /\ lab' = Append(lab, k)
                        /\ fam' = f
                        /\ todo' = SortDesc(SetToSeq({ [src |-> i, vs |-> f[i]] : i \in { j \in DOMAIN f : Cardinality(f[j]) > 1 } }))
                        /\ out' = <<>>

Step ==
    /\ Len(lab) = NPos
    /\ todo # <<>>
    /\ LET block == todo[Len(todo)]
           rest  == SubSeq(todo, 1, Len(todo) - 1)
       IN IF rest = <<>>
          THEN todo' = rest /\ out' = Append(out, block)
          ELSE LET nxt == rest[Len(rest)]
               IN IF PHi(block) > PLo(nxt)
                  THEN LET left  == [src |-> block.src, vs |-> { p \in block.vs : p < PLo(nxt) }]
                           right == [src |-> block.src, vs |-> { p \in block.vs : p > PHi(nxt) }]
                       IN /\ todo' = IF Cardinality(right.vs) > 1 THEN SortDesc(Append(rest, right)) ELSE rest
                          /\ out'  = IF Cardinality(left.vs) < 2 THEN out ELSE Append(out, left)
                  ELSE todo' = rest /\ out' = Append(out, block)
    /\ UNCHANGED <<lab, fam>>
Next == Choose \/ Step
Spec == Init /\ [][Next]_vars

Done == Len(lab) = NPos /\ todo = <<>>
Span(x) == PHi(x) - PLo(x)
RECURSIVE SpanSeq(_)
SpanSeq(s) == IF s = <<>> THEN 0 ELSE Span(Head(s)) + SpanSeq(Tail(s))

(* ---- invariants ---- *)
TodoSorted    == \A i \in 1..(Len(todo) - 1) : PLo(todo[i]) > PLo(todo[i + 1])
PiecesOfBlock == \A x \in Rng(out) \cup Rng(todo) : x.vs \subseteq fam[x.src] /\ Cardinality(x.vs) >= 2
OutDisjoint   == \A i, j \in DOMAIN out : i < j => PHi(out[i]) < PLo(out[j])      \* even emitted left to right
OutLeftOfTodo == \A o \in Rng(out), t \in Rng(todo) : PHi(o) < PLo(t)
SumBound      == SpanSeq(out) <= FamCovered(fam)
(* at termination *)
NonEmptyOut   == (Done /\ FamBig(fam) # {}) => out # <<>>          \* median() of the lengths never sees an empty list
WholeWhenFree == Done => \A i \in FamBig(fam) : FamFree(fam, i) => \E o \in Rng(out) : o.vs = fam[i]
CutOnlyWhereOverlapping == Done => KeptTogether(fam, { o.vs : o \in Rng(out) })
(* every step consumes: the loop terminates *)
RECURSIVE CardSeq(_)
CardSeq(s) == IF s = <<>> THEN 0 ELSE Cardinality(Head(s).vs) + CardSeq(Tail(s))
Measure == CardSeq(todo)
Decreases == [][Len(lab) = NPos => Measure' < Measure]_vars
=============================================================================
