SPECIFICATION MCSpec
CONSTANTS ExitRule = "never"
          RowRule = "set"
          ReadAlphabet <- MCAlphabet
          MaxReads = 2
          N = 2
          Lens = {0, 1}
          Ploidies = {2}
          NB = 2
          UniqueOnly = FALSE
CONSTRAINT Unique
INVARIANT InvDomain
INVARIANT InvPrefix
INVARIANT InvRouting
INVARIANT InvUnmodified
INVARIANT InvOrder
INVARIANT InvExact
INVARIANT InvPartition
INVARIANT InvHistCounts
INVARIANT InvHistTotals
INVARIANT InvLemma
