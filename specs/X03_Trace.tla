------------------------------ MODULE X03_Trace ------------------------------
(* Trace validation for X03 (small tools and utility modules).  One line = one recorded run /
   call of the real code with everything it returned; every clause is evaluated on every line.

     Snv       W (refs, reads), par, sample, tostdout, exc, out (<<c, pos, ref, alts>>...),
               hdr (sample columns of the header), shape (per record <<id ".", qual ".", filter PASS,
               info ".", ncols, fmt, call>>), pre (stdout lines before ##fileformat, -1 = n/a)
     HapCut    recs, blocks, nsamples, exc, out                         whatshap hapcut2vcf
     HapParse  kind, exc                                                malformed hapCUT files
     Ped       lines, exc, trios, samples                               PedReader
     Mendel    m, f, c, res                                             mendelian_conflict
     Uniform   r100, pos, exc, costs                                    UniformRecombinationCostComputer
     GenMap    map, pos, exc, costs                                     GeneticMapRecombinationCostComputer
     MapLoad   kinds, exc, n                                            load_genetic_map
     CovNew / CovAdd / CovMax   length | b, e | b, e, res, exc          CovMonitor (history per tid)
     Fmt       kind, res          detect_file_format        Plural n, res        plural_s
   Clause names are the vocabulary of the reports. *)
EXTENDS X03Pileup, X03HapCut, X03Ped, X03Cov, Json, IOUtils
Trace == ndJsonDeserialize(IOEnv.TRACE_FILE)
VARIABLES l, ivs, clen
vars == <<l, ivs, clen>>

Fail(e, c) == PrintT(<<"VERDICT", e.tid, e.seq, c>>)
Check(e, c, ok) == IF ok THEN TRUE ELSE Fail(e, c)

(* ------------------------------------------------------- find_snv_candidates *)
SiteLess(a, b) == a[1] < b[1] \/ (a[1] = b[1] /\ a[2] < b[2])
JudgeSnv(e) ==
    LET exp == Expected(e.W, e.par)
        sites == { <<e.out[k][1], e.out[k][2]>> : k \in DOMAIN e.out }
        want == IF e.sample = "" THEN <<>> ELSE <<"FORMAT", e.sample>> IN
    /\ Check(e, "SnvReturns", e.exc = "")
    /\ IF e.exc # "" THEN TRUE ELSE
       /\ Check(e, "SnvSorted", \A k \in 1..(Len(e.out) - 1) : SiteLess(e.out[k], e.out[k + 1]))
       /\ Check(e, "SnvSitesAreRule", sites = DOMAIN exp)
       /\ Check(e, "SnvRefIsReference",
                \A k \in DOMAIN e.out : LET o == e.out[k] IN
                    o[1] \in DOMAIN e.W.refs /\ o[2] \in 1..Len(e.W.refs[o[1]]) /\ o[3] = e.W.refs[o[1]][o[2]])
       /\ Check(e, "SnvAltIsRule",
                \A k \in DOMAIN e.out : LET o == e.out[k] IN <<o[1], o[2]>> \in DOMAIN exp => o[4] = exp[<<o[1], o[2]>>])
       /\ Check(e, "SnvRecordShape",
                /\ e.hdr = want
                /\ \A k \in DOMAIN e.shape : LET s == e.shape[k] IN
                      /\ s[1] /\ s[2] /\ s[3] /\ s[4]
                      /\ IF e.sample = "" THEN s[5] = 8 ELSE s[5] = 10 /\ s[6] = "GT" /\ s[7] = ".")
       /\ Check(e, "SnvStdoutIsVcf", e.tostdout => e.pre = 0)

(* ---------------------------------------------------------------- hapcut2vcf *)
Site(r) == <<r.c, r.pos>>
JudgeHapCut(e) ==
    LET S == Statements(e.blocks)
        insites == [k \in DOMAIN e.recs |-> Site(e.recs[k])]
        outsites == [k \in DOMAIN e.out |-> Site(e.out[k])]
        InRec(o) == CHOOSE r \in Rng(e.recs) : Site(r) = Site(o)
        known == { k \in DOMAIN e.out : \E r \in Rng(e.recs) : Site(r) = Site(e.out[k]) } IN
    /\ Check(e, "ScenarioInDomain", HcDomain(e.recs, e.blocks))
    /\ IF e.nsamples # 1 THEN Check(e, "HcMultiSampleRejected", e.exc = "CommandLineError")
       ELSE /\ Check(e, "HcReturns", e.exc = "")
            /\ Check(e, "HcAllRecordsKept", e.exc = "" => outsites = insites)
            /\ Check(e, "HcPhasedPerBlock",
                     \A k \in known : LET r == InRec(e.out[k]) IN InBlock(r, S) => e.out[k] = ExpectedRec(r, S))
            /\ Check(e, "HcOthersWithoutPhase",
                     \A k \in known : LET r == InRec(e.out[k]) IN ~InBlock(r, S) => e.out[k] = Unphased(r))

(* ------------------------------------------------------------------ pedigree *)
JudgePed(e) ==
    IF PedBad(e.lines) THEN Check(e, "PedRejectsBadFile", e.exc = "ParseError")
    ELSE /\ Check(e, "PedReturns", e.exc = "")
         /\ Check(e, "PedTrios", [k \in DOMAIN e.trios |-> <<e.trios[k][1], e.trios[k][2], e.trios[k][3]>>] = PedTrios(e.lines))
         /\ Check(e, "PedSamples", Rng(e.samples) = PedSamples(e.lines) /\ Len(e.samples) = Cardinality(Rng(e.samples)))

JudgeUniform(e) ==
    IF UniformHasZero(e.r100, e.pos) THEN Check(e, "UniformZeroDistanceRaises", e.exc = "ValueError")
    ELSE /\ Check(e, "UniformReturns", e.exc = "")
         /\ Check(e, "UniformCostIsPhred", e.exc = "" => e.costs = UniformCosts(e.r100, e.pos))
         /\ Check(e, "CostsNonNegative", \A k \in DOMAIN e.costs : e.costs[k] >= 0)
         /\ Check(e, "CostsMonotoneInDistance",
                  \A a, b \in 2..Len(e.costs) :
                      (e.pos[a] - e.pos[a - 1] <= e.pos[b] - e.pos[b - 1]) => e.costs[a] >= e.costs[b])

JudgeGenMap(e) ==
    /\ Check(e, "ScenarioInDomain", MapDomain(e.map, e.pos))
    /\ Check(e, "GenMapReturns", e.exc = "")
    /\ Check(e, "GenMapCostIsPhredOfInterpolation", e.exc = "" => e.costs = MapCosts(e.map, e.pos))
    /\ Check(e, "CostsNonNegative", \A k \in DOMAIN e.costs : e.costs[k] >= 0)

JudgeMapLoad(e) ==
    LET body == SubSeq(e.kinds, 2, Len(e.kinds))
        bad == \E k \in DOMAIN body : MapLineBad(body[k]) IN
    IF bad THEN Check(e, "MapRejectsBadLine", e.exc = "ParseError")
    ELSE /\ Check(e, "MapLoadReturns", e.exc = "")
         /\ Check(e, "MapEntries", e.n = Cardinality({ k \in DOMAIN body : body[k] = "ok" }))

(* ----------------------------------------------------------------- CovMonitor *)
JudgeCov(e) ==
    CASE e.ev = "CovNew" -> Check(e, "CovReturns", e.exc = "")
      [] e.ev = "CovAdd" -> /\ Check(e, "ScenarioInDomain", InDomain(clen, e.b, e.e))
                            /\ Check(e, "CovReturns", e.exc = "")
      [] e.ev = "CovMax" -> /\ Check(e, "ScenarioInDomain", InDomain(clen, e.b, e.e))
                            /\ IF e.b = e.e THEN Check(e, "CovMaxEmptyRaises", e.exc = "ValueError")
                               ELSE /\ Check(e, "CovReturns", e.exc = "")
                                    /\ Check(e, "CovMaxIsModel", e.res = MaxCov(ivs, e.b, e.e))

(* -------------------------------------------------------------------- helpers *)
FmtOf(kind) == CASE kind \in {"vcf", "vcfgz"} -> "VCF" [] kind = "bam" -> "BAM" [] kind = "cram" -> "CRAM" [] OTHER -> ""

Judge(e) ==
    CASE e.ev = "Snv"      -> JudgeSnv(e)
      [] e.ev = "HapCut"   -> JudgeHapCut(e)
      [] e.ev = "HapParse" -> Check(e, "HcRejectsMalformed", e.exc = "ParseError")
      [] e.ev = "Ped"      -> JudgePed(e)
      [] e.ev = "Mendel"   -> Check(e, "MendelianConflict", e.res = ~Compatible(e.m, e.f, e.c))
      [] e.ev = "Uniform"  -> JudgeUniform(e)
      [] e.ev = "GenMap"   -> JudgeGenMap(e)
      [] e.ev = "MapLoad"  -> JudgeMapLoad(e)
      [] e.ev \in {"CovNew", "CovAdd", "CovMax"} -> JudgeCov(e)
      [] e.ev = "Fmt"      -> Check(e, "DetectFileFormat", e.res = FmtOf(e.kind))
      [] e.ev = "Plural"   -> Check(e, "PluralS", e.res = (IF e.n = 1 THEN "" ELSE "s"))
      [] e.ev = "Crashed"  -> Fail(e, "Returns")
      [] OTHER             -> Fail(e, "UnknownEvent")

Init == l = 1 /\ ivs = <<>> /\ clen = 0
Next == /\ l <= Len(Trace)
        /\ LET e == Trace[l] IN
           /\ Judge(e)
           /\ ivs' = IF e.ev = "CovNew" \/ e.seq = 1 THEN <<>>
                     ELSE IF e.ev = "CovAdd" /\ e.exc = "" THEN Append(ivs, <<e.b, e.e>>) ELSE ivs
           /\ clen' = IF e.ev = "CovNew" THEN e.length ELSE IF e.seq = 1 THEN 0 ELSE clen
        /\ l' = l + 1
Spec == Init /\ [][Next]_vars
=============================================================================
