SPECIFICATION Spec
