------------------------------ MODULE Workflow ------------------------------
(* whatshap at SYSTEM level: a set of file-to-file COMMANDS that users chain into
   workflows (DESIGN.md Part B section 8, growth of the specification).

   State of the system = an abstract FILE SYSTEM  fs : file id -> file record

       [kind |-> "vcf" | "bam" | "list" | "stats" | "cmp" | "split",
        cmd  |-> the command that wrote the file ("init" for the files of the world),
        args |-> the ids of the files the command read,
        opt  |-> [tag, smp, disc]   --tag of phase / --sample of stats and compare /
                                    --discard-unknown-reads of split,
        c    |-> typed abstract content]

   Contents (abstraction level: the phase statements of one sample)
     vcf    sample -> seq of sites [chr, pos, snv, call]; call is the call of VcfModel.tla
            (GT in file order, '|', PS, PQ, HP entries, other FORMAT fields).  The phase
            STATEMENT of a call is decoded from GT/PS or from HP (VcfModel!DecPS / DecHP).
     bam    seq of alignments [name, smp, tpl, chr, s, e, len, cov, al, hp, ps]
            [s, e) 0-based reference interval, hp / ps = -1 when the tag is absent;
            cov / al (sites the read covers, alleles it shows) are known in the design
            model only - the real files are judged without them
     list   seq of rows [name, hap (0 = none), ps (0 = none), chr]   (haplotag list)
     stats  [rows : seq of [c, variants, het, hetsnvs, phased, unphased, singletons, blocks],
             blist : seq of <<c, phase set, from, to, variants>>]     (--tsv, --block-list)
     cmp    [rows : seq of [c, het0 (heterozygous variants of the first file), all : [nblk, cov, pairs, sw, sfs, sff, ham, dg],
                               lg  : [pairs, sw, sfs, sff, ham, dg]]]  (--tsv-pairwise; error
            counts in haplotype units = 2 x the printed number, as in Compare.tla)
     split  [out : <<untagged, h1, h2>> each a seq of [name, id, len], rows : histogram rows]

   PART 1 - the cross-command invariants W1..W12.  They are METAMORPHIC: each ties the
   outputs of two or more commands together and none needs to know which phasing is right.
   They are written over (fs, S): all instances in which a file of S takes part (S = DOMAIN fs
   for the model checker, S = the files the last command wrote for trace validation).

   PART 2 - the DESIGN of the commands (abstract semantics), reusing the property-level
   definitions of Stats.tla, Compare.tla, VcfModel.tla, Split.tla and the command design of
   TagPhaseChain.tla.  MC_Workflow runs the commands as actions and checks PART 1. *)
EXTENDS Util, TLC

VM == INSTANCE VcfModel
ST == INSTANCE Stats
CP == INSTANCE Compare
SP == INSTANCE Split
TC == INSTANCE TagPhaseChain

Absent == -1
NoOpt == [tag |-> "", smp |-> 0, disc |-> FALSE]
File(kind, cmd, args, opt, c) == [kind |-> kind, cmd |-> cmd, args |-> args, opt |-> opt, c |-> c]

-----------------------------------------------------------------------------
(* views of a VCF content *)
Stmt(call) == IF VM!DecPS(call) # VM!NoPhase THEN VM!DecPS(call) ELSE VM!DecHP(call)
HasStmt(call) == Stmt(call) # VM!NoPhase
BlockOf(call) == IF HasStmt(call) THEN Stmt(call).block ELSE -1
OnChrom(sites, k) == SelectSeq(sites, LAMBDA x : x.chr = k)
ChromsOf(v) == UNION { { v[s][j].chr : j \in DOMAIN v[s] } : s \in DOMAIN v }
AnyStmt(v) == \E s \in DOMAIN v : \E j \in DOMAIN v[s] : HasStmt(v[s][j].call)

(* as `whatshap stats` sees one sample on one chromosome (Stats.tla) *)
StatsView(sites) == [j \in DOMAIN sites |-> [pos |-> sites[j].pos, snv |-> sites[j].snv, gt |-> sites[j].call.gt,
                                              ps |-> BlockOf(sites[j].call)]]
(* as `whatshap compare` sees it (Compare.tla): b = 0 without a statement *)
CmpView(sites) == [j \in DOMAIN sites |-> IF HasStmt(sites[j].call)
                                          THEN [b |-> Stmt(sites[j].call).block, a |-> Stmt(sites[j].call).al]
                                          ELSE [b |-> 0, a |-> sites[j].call.gt]]
(* as haplotag / haplotagphase see it (TagPhaseChain.tla) *)
ChainView(sites) == [j \in DOMAIN sites |-> IF HasStmt(sites[j].call)
                                            THEN TC!Call(TRUE, Stmt(sites[j].call).block, Stmt(sites[j].call).al)
                                            ELSE TC!Call(FALSE, 0, sites[j].call.gt)]

(* the same records (sites, genotypes as multisets): every VCF of one workflow descends from one file *)
SameSites(v, w) == /\ Len(v) = Len(w)
                   /\ \A s \in DOMAIN v : /\ Len(v[s]) = Len(w[s])
                                          /\ \A j \in DOMAIN v[s] : /\ v[s][j].chr = w[s][j].chr /\ v[s][j].pos = w[s][j].pos
                                                                    /\ SameBag(v[s][j].call.gt, w[s][j].call.gt)
SameStatements(v, w) == /\ SameSites(v, w)
                        /\ SameSites(v, w) => \A s \in DOMAIN v : \A j \in DOMAIN v[s] : Stmt(v[s][j].call) = Stmt(w[s][j].call)

-----------------------------------------------------------------------------
(* PART 1 : cross-command invariants *)
Is(fs, i, kind, cmd) == fs[i].kind = kind /\ fs[i].cmd = cmd
Arg(fs, i, n) == fs[i].args[n]
Touches(S, ids) == \E x \in ids : x \in S

RowOf(rows, k) == rows[CHOOSE n \in DOMAIN rows : rows[n].c = k]
HasRow(rows, k) == \E n \in DOMAIN rows : rows[n].c = k
RowChroms(rows) == { rows[n].c : n \in DOMAIN rows }

ZeroErrors(e) == e.sw = 0 /\ e.sfs = 0 /\ e.sff = 0 /\ e.ham = 0 /\ e.dg = 0

(* Every invariant has the form  "for all tuples of files: guard => body".  G..(fs, ..) is the guard (which commands
   wrote the files and how they are related), W..(fs, S) the invariant over the instances that touch S, Live(name, fs)
   says that an instance exists (used to emit workflows that exercise an invariant and to show non-vacuity). *)

(* ---- W1  stats(unphase(f)): nothing phased; heterozygous / variant counts as for f ---- *)
NothingPhased(st) == /\ \A n \in DOMAIN st.rows : /\ st.rows[n].phased = 0 /\ st.rows[n].blocks = 0 /\ st.rows[n].singletons = 0
                                                  /\ st.rows[n].unphased = st.rows[n].het
                     /\ st.blist = << >>
SameCounts(st, su) == /\ RowChroms(st.rows) = RowChroms(su.rows)
                      /\ \A k \in RowChroms(st.rows) :
                            /\ RowOf(st.rows, k).variants = RowOf(su.rows, k).variants
                            /\ RowOf(st.rows, k).het = RowOf(su.rows, k).het
                            /\ RowOf(st.rows, k).hetsnvs = RowOf(su.rows, k).hetsnvs
G1a(fs, r) == Is(fs, r, "stats", "stats") /\ fs[Arg(fs, r, 1)].cmd = "unphase"
W1a(fs, S) == \A r \in DOMAIN fs : (r \in S /\ G1a(fs, r)) => NothingPhased(fs[r].c)
G1b(fs, r, q) == /\ G1a(fs, r) /\ Is(fs, q, "stats", "stats") /\ fs[r].opt.smp = fs[q].opt.smp
                 /\ Arg(fs, Arg(fs, r, 1), 1) = Arg(fs, q, 1)
W1b(fs, S) == \A r, q \in DOMAIN fs : (Touches(S, {r, q}) /\ G1b(fs, r, q)) => SameCounts(fs[r].c, fs[q].c)

(* ---- W2  compare(f, f): no errors; what is compared is what stats(f) calls phased ---- *)
SelfClean(cm) == \A n \in DOMAIN cm.rows : ZeroErrors(cm.rows[n].all) /\ ZeroErrors(cm.rows[n].lg)
BlockSizesOn(st, k) == { st.blist[n][5] : n \in { m \in DOMAIN st.blist : st.blist[m][1] = k /\ st.blist[m][5] >= 2 } }
ComparedIsPhased(cm, st) ==
    /\ RowChroms(cm.rows) = RowChroms(st.rows)
    /\ \A k \in RowChroms(cm.rows) :
          LET a == RowOf(cm.rows, k).all
              r == RowOf(st.rows, k) IN
          /\ a.nblk = r.blocks /\ a.cov = r.phased /\ a.pairs = r.phased - r.blocks
          /\ RowOf(cm.rows, k).lg.pairs = (IF BlockSizesOn(st, k) = {} THEN 0 ELSE MaxSet(BlockSizesOn(st, k)) - 1)
G2a(fs, r) == Is(fs, r, "cmp", "compare") /\ Arg(fs, r, 1) = Arg(fs, r, 2)
W2a(fs, S) == \A r \in DOMAIN fs : (r \in S /\ G2a(fs, r)) => SelfClean(fs[r].c)
G2b(fs, r, q) == G2a(fs, r) /\ Is(fs, q, "stats", "stats") /\ Arg(fs, q, 1) = Arg(fs, r, 1) /\ fs[q].opt.smp = fs[r].opt.smp
W2b(fs, S) == \A r, q \in DOMAIN fs : (Touches(S, {r, q}) /\ G2b(fs, r, q)) => ComparedIsPhased(fs[r].c, fs[q].c)

(* ---- W3  --tag PS and --tag HP describe the same phasing ---- *)
TagPair(fs, p, h) == /\ Is(fs, p, "vcf", "phase") /\ Is(fs, h, "vcf", "phase")
                     /\ fs[p].opt.tag = "PS" /\ fs[h].opt.tag = "HP" /\ Arg(fs, p, 1) = Arg(fs, h, 1)
W3a(fs, S) == \A p, h \in DOMAIN fs : (Touches(S, {p, h}) /\ TagPair(fs, p, h)) => SameStatements(fs[p].c, fs[h].c)
G3b(fs, r) == /\ Is(fs, r, "cmp", "compare")
              /\ (TagPair(fs, Arg(fs, r, 1), Arg(fs, r, 2)) \/ TagPair(fs, Arg(fs, r, 2), Arg(fs, r, 1)))
W3b(fs, S) == \A r \in DOMAIN fs : (r \in S /\ G3b(fs, r)) => SelfClean(fs[r].c)
(* ... with the same intersection blocks: the blocks of either file *)
G3c(fs, r, q) == /\ G3b(fs, r) /\ Is(fs, q, "stats", "stats") /\ fs[q].opt.smp = fs[r].opt.smp
                 /\ Arg(fs, q, 1) \in {Arg(fs, r, 1), Arg(fs, r, 2)}
W3c(fs, S) == \A r, q \in DOMAIN fs : (Touches(S, {r, q}) /\ G3c(fs, r, q)) => ComparedIsPhased(fs[r].c, fs[q].c)
SameReport(st, su) == st.rows = su.rows /\ st.blist = su.blist
G3d(fs, r, q) == /\ Is(fs, r, "stats", "stats") /\ Is(fs, q, "stats", "stats") /\ fs[q].opt.smp = fs[r].opt.smp
                 /\ TagPair(fs, Arg(fs, r, 1), Arg(fs, q, 1))
W3d(fs, S) == \A r, q \in DOMAIN fs : (Touches(S, {r, q}) /\ G3d(fs, r, q)) => SameReport(fs[r].c, fs[q].c)

(* ---- W4  the phase sets named on tagged reads / in the haplotag list are blocks of stats(f),
            and the read (its name group) reaches into the block's extent ---- *)
BlockLine(st, k, p) == st.blist[CHOOSE n \in DOMAIN st.blist : st.blist[n][1] = k /\ st.blist[n][2] = p]
HasBlockLine(st, k, p) == \E n \in DOMAIN st.blist : st.blist[n][1] = k /\ st.blist[n][2] = p
TagsNameBlocks(bam, st, s) ==
    \A n \in DOMAIN bam : (bam[n].smp = s /\ bam[n].hp # Absent) =>
        /\ bam[n].hp \in {1, 2}
        /\ HasBlockLine(st, bam[n].chr, bam[n].ps)
        /\ HasBlockLine(st, bam[n].chr, bam[n].ps) =>
             \E m \in DOMAIN bam : /\ bam[m].name = bam[n].name /\ bam[m].smp = s /\ bam[m].chr = bam[n].chr
                                   /\ bam[m].s < BlockLine(st, bam[n].chr, bam[n].ps)[4]
                                   /\ bam[m].e >= BlockLine(st, bam[n].chr, bam[n].ps)[3]
G4a(fs, b, q) == Is(fs, b, "bam", "haplotag") /\ Is(fs, q, "stats", "stats") /\ Arg(fs, q, 1) = Arg(fs, b, 1)
W4a(fs, S) == \A b, q \in DOMAIN fs : (Touches(S, {b, q}) /\ G4a(fs, b, q)) => TagsNameBlocks(fs[b].c, fs[q].c, fs[q].opt.smp)
(* the list written next to the BAM says what the tags say, row by row (all alignments here are primary) *)
ListOfBam(bam) == [n \in DOMAIN bam |-> [name |-> bam[n].name, hap |-> IF bam[n].hp = Absent THEN 0 ELSE bam[n].hp,
                                          ps |-> IF bam[n].hp = Absent THEN 0 ELSE bam[n].ps, chr |-> bam[n].chr]]
G4b(fs, b, l) == Is(fs, b, "bam", "haplotag") /\ Is(fs, l, "list", "haplotag") /\ fs[b].args = fs[l].args
W4b(fs, S) == \A b, l \in DOMAIN fs : (Touches(S, {b, l}) /\ G4b(fs, b, l)) => fs[l].c = ListOfBam(fs[b].c)

(* ---- W5  split(bam, list): every record goes to the output its list rows name; histogram adds up ---- *)
SplitReads(bam) == [n \in DOMAIN bam |-> [name |-> bam[n].name, len |-> bam[n].len, id |-> n]]
SplitList(list) == [n \in DOMAIN list |-> [name |-> list[n].name, hap |-> list[n].hap, ps |-> list[n].ps, chrom |-> list[n].chr]]
SplitOpt(disc) == [ploidy |-> 2, req |-> <<TRUE, TRUE, TRUE>>, addU |-> FALSE, disc |-> disc, largest |-> FALSE]
(* the rows of one name agree (haplotag writes one row per alignment, mates share their tags) *)
ListConsistent(list) == \A i, j \in DOMAIN list : list[i].name = list[j].name => list[i].hap = list[j].hap
SplitOK(bam, list, disc, sp) ==
    LET reads == SplitReads(bam)
        ls == SplitList(list)
        opt == SplitOpt(disc) IN
    /\ Len(sp.out) = 3
    /\ \A k \in 0..2 : SP!Ids(sp.out[k + 1]) = SP!Ids(SP!Exp(reads, ls, opt, << >>, k))
    /\ SP!Unmodified(reads, opt, sp.out)
    /\ SP!HistTotals(opt, sp.out, sp.rows)
    /\ SP!HistCounts(ls, opt, << >>, sp.out, sp.rows)
G5(fs, r) == Is(fs, r, "split", "split") /\ ListConsistent(fs[Arg(fs, r, 2)].c)
W5(fs, S) == \A r \in DOMAIN fs : (r \in S /\ G5(fs, r)) => SplitOK(fs[Arg(fs, r, 1)].c, fs[Arg(fs, r, 2)].c, fs[r].opt.disc, fs[r].c)
(* per-haplotype record counts = list rows of that haplotype whose read is in the BAM (names unique) *)
NamesUnique(bam) == \A i, j \in DOMAIN bam : bam[i].name = bam[j].name => i = j
SplitCountsOK(bam, list, sp) ==
    \A h \in 0..2 : Len(sp.out[h + 1]) =
        Cardinality({ i \in DOMAIN list : list[i].hap = h /\ \E n \in DOMAIN bam : bam[n].name = list[i].name })
        + (IF h = 0 THEN Cardinality({ n \in DOMAIN bam : \A i \in DOMAIN list : list[i].name # bam[n].name }) ELSE 0)
G5c(fs, r) == /\ Is(fs, r, "split", "split") /\ NamesUnique(fs[Arg(fs, r, 1)].c) /\ NamesUnique(fs[Arg(fs, r, 2)].c)
              /\ Len(fs[r].c.out) = 3
W5c(fs, S) == \A r \in DOMAIN fs : (r \in S /\ G5c(fs, r)) => SplitCountsOK(fs[Arg(fs, r, 1)].c, fs[Arg(fs, r, 2)].c, fs[r].c)

(* ---- W6  phasing never changes which calls are heterozygous ---- *)
StatsIdentity(st) == \A n \in DOMAIN st.rows : st.rows[n].phased + st.rows[n].unphased + st.rows[n].singletons = st.rows[n].het
G6(fs, r, q) == /\ Is(fs, r, "stats", "stats") /\ Is(fs, q, "stats", "stats") /\ fs[r].opt.smp = fs[q].opt.smp
                /\ fs[Arg(fs, r, 1)].cmd \in {"phase", "haplotagphase"} /\ Arg(fs, Arg(fs, r, 1), 1) = Arg(fs, q, 1)
W6(fs, S) == \A r, q \in DOMAIN fs : (Touches(S, {r, q}) /\ G6(fs, r, q)) => SameCounts(fs[r].c, fs[q].c) /\ StatsIdentity(fs[r].c)

(* ---- W7  unphase forgets everything phase added: all unphased descendants of one file are equal ---- *)
G7(fs, u, w) == u # w /\ Is(fs, u, "vcf", "unphase") /\ Is(fs, w, "vcf", "unphase")
W7(fs, S) == \A u, w \in DOMAIN fs : (Touches(S, {u, w}) /\ G7(fs, u, w)) => fs[u].c = fs[w].c
G7n(fs, u) == Is(fs, u, "vcf", "unphase")
W7n(fs, S) == \A u \in DOMAIN fs : (u \in S /\ G7n(fs, u)) => ~AnyStmt(fs[u].c) /\ SameSites(fs[u].c, fs[Arg(fs, u, 1)].c)

(* ---- W8  haplotag needs phase statements; its tags depend on (VCF, reads) only, not on old tags ---- *)
Tags(bam) == [n \in DOMAIN bam |-> <<bam[n].name, bam[n].hp, bam[n].ps>>]
G8a(fs, b) == Is(fs, b, "bam", "haplotag") /\ ~AnyStmt(fs[Arg(fs, b, 1)].c)
W8a(fs, S) == \A b \in DOMAIN fs : (b \in S /\ G8a(fs, b)) => \A n \in DOMAIN fs[b].c : fs[b].c[n].hp = Absent /\ fs[b].c[n].ps = Absent
G8b(fs, b, d) == b # d /\ Is(fs, b, "bam", "haplotag") /\ Is(fs, d, "bam", "haplotag") /\ Arg(fs, b, 1) = Arg(fs, d, 1)
W8b(fs, S) == \A b, d \in DOMAIN fs : (Touches(S, {b, d}) /\ G8b(fs, b, d)) => Tags(fs[b].c) = Tags(fs[d].c)

(* ---- W9  compare is symmetric in its inputs (all reported counts are symmetric ones) ---- *)
G9(fs, r, q) == /\ r # q /\ Is(fs, r, "cmp", "compare") /\ Is(fs, q, "cmp", "compare") /\ fs[r].opt.smp = fs[q].opt.smp
                /\ Arg(fs, r, 1) = Arg(fs, q, 2) /\ Arg(fs, r, 2) = Arg(fs, q, 1)
W9(fs, S) == \A r, q \in DOMAIN fs : (Touches(S, {r, q}) /\ G9(fs, r, q)) => fs[r].c.rows = fs[q].c.rows

(* ---- W10 phase -> haplotag -> unphase -> haplotagphase gives back (a part of) the same phasing
            (C17 as a sanity link; premise: error-free reads, every read used) ---- *)
ChainOf(fs, w, f) == /\ Is(fs, w, "vcf", "haplotagphase") /\ Is(fs, f, "vcf", "phase")
                     /\ Is(fs, Arg(fs, w, 1), "vcf", "unphase") /\ Arg(fs, Arg(fs, w, 1), 1) = f
                     /\ Is(fs, Arg(fs, w, 2), "bam", "haplotag") /\ Arg(fs, Arg(fs, w, 2), 1) = f
G10(fs, r) == /\ Is(fs, r, "cmp", "compare")
              /\ (ChainOf(fs, Arg(fs, r, 1), Arg(fs, r, 2)) \/ ChainOf(fs, Arg(fs, r, 2), Arg(fs, r, 1)))
W10(fs, S, errfree) == \A r \in DOMAIN fs : (errfree /\ r \in S /\ G10(fs, r)) => SelfClean(fs[r].c)

(* ... and its phase sets are phase sets of f, each inside the extent it has in f *)
SubBlocks(sw, sf) == \A n \in DOMAIN sw.blist :
    \E m \in DOMAIN sf.blist : /\ sf.blist[m][1] = sw.blist[n][1] /\ sf.blist[m][2] = sw.blist[n][2]
                                /\ sf.blist[m][3] <= sw.blist[n][3] /\ sw.blist[n][4] <= sf.blist[m][4]
                                /\ sw.blist[n][5] <= sf.blist[m][5]
G10b(fs, r, q) == /\ Is(fs, r, "stats", "stats") /\ Is(fs, q, "stats", "stats") /\ fs[r].opt.smp = fs[q].opt.smp
                  /\ ChainOf(fs, Arg(fs, r, 1), Arg(fs, q, 1))
W10b(fs, S, errfree) == \A r, q \in DOMAIN fs : (errfree /\ Touches(S, {r, q}) /\ G10b(fs, r, q)) => SubBlocks(fs[r].c, fs[q].c)

(* ---- W11 the encoding of the phased VCF is irrelevant for haplotag ---- *)
G11(fs, b, d) == Is(fs, b, "bam", "haplotag") /\ Is(fs, d, "bam", "haplotag") /\ TagPair(fs, Arg(fs, b, 1), Arg(fs, d, 1))
W11(fs, S) == \A b, d \in DOMAIN fs : (Touches(S, {b, d}) /\ G11(fs, b, d)) => Tags(fs[b].c) = Tags(fs[d].c)

(* ---- W12 compare and stats agree on which calls of a file are heterozygous ---- *)
G12(fs, r, q) == Is(fs, r, "cmp", "compare") /\ Is(fs, q, "stats", "stats") /\ fs[q].opt.smp = fs[r].opt.smp /\ Arg(fs, q, 1) = Arg(fs, r, 1)
SameHets(cm, st) == /\ RowChroms(cm.rows) = RowChroms(st.rows)
                    /\ \A k \in RowChroms(cm.rows) : RowOf(cm.rows, k).het0 = RowOf(st.rows, k).het
W12(fs, S) == \A r, q \in DOMAIN fs : (Touches(S, {r, q}) /\ G12(fs, r, q)) => SameHets(fs[r].c, fs[q].c)

ClauseNames == <<"W1a", "W1b", "W2a", "W2b", "W3a", "W3b", "W3c", "W3d", "W4a", "W4b", "W5", "W5c", "W6", "W7", "W7n",
                 "W8a", "W8b", "W9", "W10", "W10b", "W11", "W12">>
Clause(name, fs, S, errfree) ==
    CASE name = "W1a" -> W1a(fs, S) [] name = "W1b" -> W1b(fs, S)
      [] name = "W2a" -> W2a(fs, S) [] name = "W2b" -> W2b(fs, S)
      [] name = "W3a" -> W3a(fs, S) [] name = "W3b" -> W3b(fs, S) [] name = "W3c" -> W3c(fs, S) [] name = "W3d" -> W3d(fs, S)
      [] name = "W4a" -> W4a(fs, S) [] name = "W4b" -> W4b(fs, S)
      [] name = "W5" -> W5(fs, S) [] name = "W5c" -> W5c(fs, S)
      [] name = "W6" -> W6(fs, S)
      [] name = "W7" -> W7(fs, S) [] name = "W7n" -> W7n(fs, S)
      [] name = "W8a" -> W8a(fs, S) [] name = "W8b" -> W8b(fs, S)
      [] name = "W9" -> W9(fs, S)
      [] name = "W10" -> W10(fs, S, errfree)
      [] name = "W10b" -> W10b(fs, S, errfree)
      [] name = "W11" -> W11(fs, S)
      [] name = "W12" -> W12(fs, S)
Live(name, fs) ==
    LET D == DOMAIN fs IN
    CASE name = "W1a" -> \E r \in D : G1a(fs, r)            [] name = "W1b" -> \E r, q \in D : G1b(fs, r, q)
      [] name = "W2a" -> \E r \in D : G2a(fs, r)            [] name = "W2b" -> \E r, q \in D : G2b(fs, r, q)
      [] name = "W3a" -> \E p, h \in D : TagPair(fs, p, h)  [] name = "W3b" -> \E r \in D : G3b(fs, r)
      [] name = "W3c" -> \E r, q \in D : G3c(fs, r, q)      [] name = "W3d" -> \E r, q \in D : G3d(fs, r, q)
      [] name = "W4a" -> \E b, q \in D : G4a(fs, b, q)      [] name = "W4b" -> \E b, l \in D : G4b(fs, b, l)
      [] name = "W5" -> \E r \in D : G5(fs, r)              [] name = "W5c" -> \E r \in D : G5c(fs, r)
      [] name = "W6" -> \E r, q \in D : G6(fs, r, q)
      [] name = "W7" -> \E u, w \in D : G7(fs, u, w)        [] name = "W7n" -> \E u \in D : G7n(fs, u)
      [] name = "W8a" -> \E b \in D : G8a(fs, b)            [] name = "W8b" -> \E b, d \in D : G8b(fs, b, d)
      [] name = "W9" -> \E r, q \in D : G9(fs, r, q)
      [] name = "W10" -> \E r \in D : G10(fs, r)
      [] name = "W10b" -> \E r, q \in D : G10b(fs, r, q)
      [] name = "W11" -> \E b, d \in D : G11(fs, b, d)
      [] name = "W12" -> \E r, q \in D : G12(fs, r, q)

-----------------------------------------------------------------------------
(* PART 2 : the design of the commands *)

(* ---------------- stats ---------------- *)
StatsRowOf(k, V) == [c |-> k, variants |-> ST!Variants(V), het |-> ST!Hets(V), hetsnvs |-> ST!HetSnvs(V), phased |-> ST!Phased(V),
                     unphased |-> ST!Unphased(V), singletons |-> ST!Singletons(V), blocks |-> ST!Blocks(V)]
BlistIds_(k, V, ids) == [n \in DOMAIN ids |-> <<k, ids[n], ST!Lo(V, ids[n]), ST!Hi(V, ids[n]), ST!Size(V, ids[n])>>]
BlistOf(k, V) == BlistIds_(k, V, CP!SortedSeqOf(ST!SetIds(V)))
RECURSIVE CatSeqs(_)
CatSeqs(ss) == IF ss = << >> THEN << >> ELSE Head(ss) \o CatSeqs(Tail(ss))
ChromSeq(v) == CP!SortedSeqOf(ChromsOf(v))
StatsDesign(v, s) ==
    LET ks == ChromSeq(v) IN
    [rows |-> [n \in DOMAIN ks |-> StatsRowOf(ks[n], StatsView(OnChrom(v[s], ks[n])))],
     blist |-> CatSeqs([n \in DOMAIN ks |-> BlistOf(ks[n], StatsView(OnChrom(v[s], ks[n])))])]

(* ---------------- compare ---------------- *)
ErrRow_(t, f) == [nblk |-> t.nblk, cov |-> t.cov, pairs |-> t.pairs, sw |-> t.sw, sfs |-> t.sfmin - f, sff |-> f, ham |-> t.ham, dg |-> t.dg]
ErrRow(t) == ErrRow_(t, CHOOSE f \in t.sfF : TRUE)
LgRow_(rep, f) == [pairs |-> rep.n - 1, sw |-> rep.sw, sfs |-> rep.sfmin - f, sff |-> f, ham |-> rep.ham, dg |-> rep.dg]
LgRow(rep) == LgRow_(rep, CHOOSE f \in rep.sfF : TRUE)
(* the largest block: the first of the longest ones (by leftmost variant) *)
FirstLongest(B) == CHOOSE blk \in CP!LongestOf(B) : \A o \in CP!LongestOf(B) : MinSet(blk) <= MinSet(o)
CmpRowOf_(k, F, B) == [c |-> k, het0 |-> Cardinality({ j \in DOMAIN F[1] : CP!Het(F[1][j].a) /\ \A i \in DOMAIN F[1][j].a : F[1][j].a[i] >= 0 }), all |-> ErrRow(CP!Totals(F, 2)),
                       lg |-> IF B = {} THEN LgRow(CP!EmptyReport) ELSE LgRow(CP!ReportOf(F, FirstLongest(B), 2))]
CmpRowOf(k, F) == CmpRowOf_(k, F, CP!Blocks(F))
CompareDesign(v, w, s) ==
    LET ks == ChromSeq(v) IN
    [rows |-> [n \in DOMAIN ks |-> CmpRowOf(ks[n], << CmpView(OnChrom(v[s], ks[n])), CmpView(OnChrom(w[s], ks[n])) >>)]]

(* ---------------- unphase ---------------- *)
UnphaseDesign(v) == [s \in DOMAIN v |-> [j \in DOMAIN v[s] |-> [v[s][j] EXCEPT !.call = VM!UnphaseCall(@)]]]

(* ---------------- phase ---------------- *)
(* world = [truth : sample -> site -> <<allele on haplotype 1, allele on haplotype 2>>, orient : BOOLEAN].
   Reads are error-free, so the optimum is the truth; which haplotype is listed first is a
   function of the input (orient), phase sets = read-connected components of the heterozygous
   sites, named by their leftmost member *)
HetIdx(sites) == { j \in DOMAIN sites : VM!FullyCalled(sites[j].call) /\ VM!IsHet(sites[j].call) }
TplCov(bam, s, t) == UNION { Rng(bam[n].cov) : n \in { m \in DOMAIN bam : bam[m].smp = s /\ bam[m].tpl = t } }
Tpls(bam, s) == { bam[n].tpl : n \in { m \in DOMAIN bam : bam[m].smp = s } }
RECURSIVE Grow(_, _, _, _)
Grow(bam, s, H, C) ==
    LET D == C \cup { j \in H : \E t \in Tpls(bam, s) : j \in TplCov(bam, s, t) /\ Cardinality(TplCov(bam, s, t) \cap H) >= 2
                                                        /\ TplCov(bam, s, t) \cap C # {} } IN
    IF D = C THEN C ELSE Grow(bam, s, H, D)
CompOf(bam, s, H, j) == Grow(bam, s, H, {j})
PhaseStmt(world, bam, s, sites, j) ==
    LET H == HetIdx(sites)
        C == CompOf(bam, s, H, j) IN
    IF j \notin H \/ Cardinality(C) < 2 THEN VM!NoPhase
    ELSE [block |-> sites[MinSet(C)].pos,
          al |-> IF world.orient THEN world.truth[s][j] ELSE << world.truth[s][j][2], world.truth[s][j][1] >>]
PhaseDesign(world, v, bam, tag) ==
    [s \in DOMAIN v |-> [j \in DOMAIN v[s] |->
        [v[s][j] EXCEPT !.call = VM!Encode(tag, VM!ClearPhase(@), PhaseStmt(world, bam, s, v[s], j))]]]

(* ---------------- haplotag ---------------- *)
(* cov of an alignment = indices into its sample's site sequence; one decision per read (names unique in the design) *)
RECURSIVE TagSeqs(_, _, _)
TagSeqs(v, bam, n) ==
    IF n = 0 THEN { << >> }
    ELSE { Append(f, [bam[n] EXCEPT !.hp = t.hp, !.ps = t.ps]) :
             f \in TagSeqs(v, bam, n - 1), t \in TC!TagChoices(ChainView(v[bam[n].smp]), bam[n]) }
HaplotagDesign(v, bam) == TagSeqs(v, bam, Len(bam))

(* ---------------- split ---------------- *)
SplitOut(bam, list, disc) ==
    [k \in 1..3 |-> SP!Exp(SplitReads(bam), SplitList(list), SplitOpt(disc), << >>, k - 1)]
HistRows_(out, lens) == [n \in DOMAIN lens |-> << lens[n], SP!LenCount(out[1], lens[n]), SP!LenCount(out[2], lens[n]), SP!LenCount(out[3], lens[n]) >>]
HistRows(out) == HistRows_(out, CP!SortedSeqOf(UNION { { out[k][j].len : j \in DOMAIN out[k] } : k \in 1..3 }))
SplitDesign_(out) == [out |-> out, rows |-> HistRows(out)]
SplitDesign(bam, list, disc) == SplitDesign_(SplitOut(bam, list, disc))

(* ---------------- haplotagphase ---------------- *)
RECURSIVE CallSeqs(_, _, _, _)
CallSeqs(sites, bam, s, n) ==
    IF n = 0 THEN { << >> }
    ELSE { Append(f, IF c.ph /\ ~HasStmt(sites[n].call)
                     THEN [sites[n] EXCEPT !.call = VM!EncodePS(VM!ClearPhase(@), [block |-> c.ps, al |-> c.al])]
                     ELSE sites[n]) :
             f \in CallSeqs(sites, bam, s, n - 1), c \in TC!PhaseCallChoices(bam, bam, s, ChainView(sites), n, 70) }
RECURSIVE SampleSeqs(_, _, _)
SampleSeqs(v, bam, s) ==
    IF s = 0 THEN { << >> }
    ELSE { Append(f, w) : f \in SampleSeqs(v, bam, s - 1), w \in CallSeqs(v[s], bam, s, Len(v[s])) }
HaplotagPhaseDesign(v, bam) == SampleSeqs(v, bam, Len(v))
=============================================================================
