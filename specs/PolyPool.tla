------------------------------ MODULE PolyPool ------------------------------
(* Design-level model of the worker pool of `whatshap polyphase --threads k`
   (polyphase/algorithm.py:solve_polyphase_instance): blocks are sorted by
   descending size into a job list, submitted to a pool of k workers, run and
   complete in ANY order, are collected by res.get() in submission order and
   finally re-sorted by block id.  Each job's result depends on its block only.
   TLC explores all interleavings and checks that the aggregate is independent
   of the schedule and equal to the sequential (--threads 1) result; without
   the final re-sort it is not (the negative control Resort = FALSE). *)
EXTENDS Naturals, Sequences, FiniteSets, TLC
CONSTANTS NBlocks, Sizes, K, Resort
VARIABLES size, queue, running, finished, collected, final
vars == <<size, queue, running, finished, collected, final>>

Blocks == 1..NBlocks
F(b) == <<b, size[b]>>            \* the (deterministic) result of phasing block b: depends on the block only

RECURSIVE SortBy(_, _)
(* stable sort of a set of blocks by descending size, ties by block id: the job list *)
SortBy(S, sz) == IF S = {} THEN <<>>
                 ELSE LET m == CHOOSE x \in S : \A y \in S : sz[x] > sz[y] \/ (sz[x] = sz[y] /\ x <= y)
                      IN <<m>> \o SortBy(S \ {m}, sz)
RECURSIVE SortById(_)
SortById(S) == IF S = {} THEN <<>> ELSE LET m == CHOOSE x \in S : \A y \in S : x <= y IN <<F(m)>> \o SortById(S \ {m})

Init == /\ size \in [Blocks -> Sizes]
        /\ queue = SortBy(Blocks, size)
        /\ running = {} /\ finished = {} /\ collected = <<>> /\ final = <<>>
JobList == SortBy(Blocks, size)

Start == /\ queue # <<>> /\ Cardinality(running) < K
         /\ running' = running \cup {Head(queue)} /\ queue' = Tail(queue)
         /\ UNCHANGED <<size, finished, collected, final>>
Finish == \E b \in running :
            /\ running' = running \ {b} /\ finished' = finished \cup {b}
            /\ UNCHANGED <<size, queue, collected, final>>
(* res.get() in submission order: the next job of the job list must have finished *)
Collect == /\ Len(collected) < NBlocks
           /\ JobList[Len(collected) + 1] \in finished
           /\ collected' = Append(collected, F(JobList[Len(collected) + 1]))
           /\ UNCHANGED <<size, queue, running, finished, final>>
Aggregate == /\ Len(collected) = NBlocks /\ final = <<>>
             /\ final' = IF Resort THEN SortById(Blocks) ELSE collected
             /\ UNCHANGED <<size, queue, running, finished, collected>>
Next == Start \/ Finish \/ Collect \/ Aggregate
Spec == Init /\ [][Next]_vars /\ WF_vars(Next)

Sequential == SortById(Blocks)                       \* what --threads 1 produces
ScheduleIndependent == final # <<>> => final = Sequential
AtMostKRunning == Cardinality(running) <= K
CollectedInSubmissionOrder == \A j \in DOMAIN collected : collected[j] = F(JobList[j])
Terminates == <>(final # <<>>)
=============================================================================
