------------------------------- MODULE Split -------------------------------
(* Property-level specification of `whatshap split` (C14).

   Abstract values
     read  [name, len, id]          name interned to an integer; len = read length
                                    (0 = no sequence); id = position in the input
                                    (stands for the content of the whole record)
     line  [name, hap, ps, chrom]   one line of the haplotype list: hap 0 = "none",
                                    h = "Hh"; ps/chrom = phase set and chromosome
                                    (0 in two-column lists and for "none" lines)
     opt   [ploidy, req, addU, disc, largest]
                                    req[k + 1] <=> output k was requested on the
                                    command line (k = 0 untagged, k = h haplotype h);
                                    --add-untagged, --discard-unknown-reads,
                                    --only-largest-block
     out   sequence of ploidy + 1 sequences; out[k + 1] = records [name, id, len] of
           output k in file order; id = 0 for a record whose content is not the
           content of any input record
     rows  the read-length histogram file: rows << len, count-untagged, count-h1, .. >>

   `--only-largest-block`: per chromosome ONE phase set with the maximum number of
   tagged list lines stays tagged, ties are arbitrary.  The choice is a parameter
   `sel` (chromosome -> phase set) ranging over Selections(list); the property is
   the relation "there is a selection under which every clause holds".            *)
EXTENDS Util

Names(s) == [j \in DOMAIN s |-> s[j].name]
Ids(s)   == [j \in DOMAIN s |-> s[j].id]

(* ---- the domain of the statement -------------------------------------------------- *)
WellFormed(reads, list, opt) ==
    /\ \A i \in DOMAIN reads : reads[i].id = i /\ reads[i].len >= 0
    \* the list is a function of the read name; a name may be listed on several lines (one per alignment) with the same entry
    /\ \A i, j \in DOMAIN list : list[i].name = list[j].name =>
            (list[i].hap = list[j].hap /\ list[i].ps = list[j].ps /\ list[i].chrom = list[j].chrom)
    /\ opt.ploidy \in 2..4 /\ Len(opt.req) = opt.ploidy + 1
    /\ \A i \in DOMAIN list : list[i].hap \in 0..opt.ploidy
    /\ \E h \in 1..opt.ploidy : opt.req[h + 1]        \* the CLI needs a haplotype output
    /\ opt.disc => Len(list) > 0                       \* "would discard everything" is refused by the CLI

Requested(opt) == { k \in 0..opt.ploidy : opt.req[k + 1] }
AllRequested(opt) == Requested(opt) = 0..opt.ploidy

(* ---- largest block per chromosome ---------------------------------------------------- *)
Tagged(list) == { i \in DOMAIN list : list[i].hap > 0 }
Chroms(list) == { list[i].chrom : i \in Tagged(list) }
BlocksOn(list, c) == { list[i].ps : i \in { j \in Tagged(list) : list[j].chrom = c } }
BlockSize(list, c, p) == Cardinality({ i \in Tagged(list) : list[i].chrom = c /\ list[i].ps = p })
LargestOn(list, c) == { p \in BlocksOn(list, c) : \A q \in BlocksOn(list, c) : BlockSize(list, c, q) <= BlockSize(list, c, p) }
Selections(list) ==
    { s \in [Chroms(list) -> UNION { BlocksOn(list, c) : c \in Chroms(list) }] :
        \A c \in Chroms(list) : s[c] \in LargestOn(list, c) }

(* ---- Target(read) -------------------------------------------------------------------- *)
Listed(list, n) == \E i \in DOMAIN list : list[i].name = n
Counts(list, opt, sel, i) == list[i].hap > 0 /\ (opt.largest => sel[list[i].chrom] = list[i].ps)
(* the haplotype the list assigns to name n: 0 = untagged (unlisted, "none", or outside the largest block) *)
HapOf(list, opt, sel, n) ==
    IF \E i \in DOMAIN list : list[i].name = n /\ Counts(list, opt, sel, i)
    THEN list[CHOOSE i \in DOMAIN list : list[i].name = n /\ Counts(list, opt, sel, i)].hap
    ELSE 0
Dropped(list, opt, n) == opt.disc /\ ~Listed(list, n)
(* the outputs a read named n has to be written to *)
Targets(list, opt, sel, n) ==
    IF Dropped(list, opt, n) THEN {}
    ELSE LET h == HapOf(list, opt, sel, n) IN
         IF h > 0 THEN {h} ELSE IF opt.addU THEN 0..opt.ploidy ELSE {0}

(* what output k has to contain: the subsequence of the input selected by Targets *)
Exp(reads, list, opt, sel, k) ==
    LET Sel(r) == k \in Targets(list, opt, sel, r.name) IN SelectSeq(reads, Sel)

(* ---- clauses: routing ------------------------------------------------------------------ *)
(* each requested output holds exactly the reads whose target selects it (as a bag of names) *)
Routing(reads, list, opt, sel, out) ==
    \A k \in Requested(opt) : SameBag(Names(out[k + 1]), Names(Exp(reads, list, opt, sel, k)))

(* every record written is an input record *)
Unmodified(reads, opt, out) ==
    \A k \in Requested(opt) : \A j \in DOMAIN out[k + 1] :
        LET r == out[k + 1][j] IN
        r.id \in DOMAIN reads /\ reads[r.id].name = r.name /\ reads[r.id].len = r.len

(* records appear in input order *)
InputOrder(opt, out) ==
    \A k \in Requested(opt) :
        LET Known(x) == x # 0
            ids == SelectSeq(Ids(out[k + 1]), Known) IN
        \A j \in 1..(Len(ids) - 1) : ids[j] < ids[j + 1]

(* the three clauses together say: output k IS the expected subsequence *)
Exact(reads, list, opt, sel, out) ==
    \A k \in Requested(opt) : Ids(out[k + 1]) = Ids(Exp(reads, list, opt, sel, k))

(* all outputs requested, nothing added or discarded: the outputs partition the input *)
Partition(reads, opt, out) ==
    (AllRequested(opt) /\ ~opt.addU /\ ~opt.disc) =>
        LET all == UNION { Rng(Names(out[k + 1])) : k \in 0..opt.ploidy } \cup Rng(Names(reads)) IN
        \A n \in all : SumOver(0..opt.ploidy, [k \in 0..opt.ploidy |-> Count(Names(out[k + 1]), n)])
                         = Count(Names(reads), n)

(* ---- clauses: histogram ---------------------------------------------------------------- *)
(* the records that count for histogram column h: what output h holds, without the
   untagged reads added by --add-untagged (they are counted in column 0); column 0
   is the untagged output, or - if only --add-untagged was given - the untagged
   reads found in a requested haplotype output; an unrequested output holds nothing *)
IsUntagged(list, opt, sel, r) == HapOf(list, opt, sel, r.name) = 0
CountedIn(list, opt, sel, out, h) ==
    LET Own(r) == ~opt.addU \/ ~IsUntagged(list, opt, sel, r)
        Unt(r) == IsUntagged(list, opt, sel, r) IN
    IF h > 0 THEN (IF opt.req[h + 1] THEN SelectSeq(out[h + 1], Own) ELSE <<>>)
    ELSE IF opt.req[1] THEN out[1]
    ELSE IF opt.addU THEN SelectSeq(out[MinSet(Requested(opt)) + 1], Unt)
    ELSE <<>>
LenCount(s, l) == Cardinality({ j \in DOMAIN s : s[j].len = l })

RowsShape(opt, rows) == \A j \in DOMAIN rows : Len(rows[j]) = opt.ploidy + 2

(* every row states, for its length, the number of reads written per class; every written length has a row *)
HistCounts(list, opt, sel, out, rows) ==
    /\ RowsShape(opt, rows)
    /\ \A h \in 0..opt.ploidy :
         LET w == CountedIn(list, opt, sel, out, h) IN
         /\ \A j \in DOMAIN rows : rows[j][h + 2] = LenCount(w, rows[j][1])
         /\ \A i \in DOMAIN w : \E j \in DOMAIN rows : rows[j][1] = w[i].len

ColSum(rows, c) == SumOver(DOMAIN rows, [j \in DOMAIN rows |-> rows[j][c]])
(* the counts of a column add up to the number of reads written to that output *)
HistTotals(opt, out, rows) ==
    /\ RowsShape(opt, rows)
    /\ \A h \in 1..opt.ploidy :
         IF opt.req[h + 1]
         THEN Len(out[h + 1]) = ColSum(rows, h + 2) + (IF opt.addU THEN ColSum(rows, 2) ELSE 0)
         ELSE ColSum(rows, h + 2) = 0
    /\ IF opt.req[1] THEN Len(out[1]) = ColSum(rows, 2)
       ELSE opt.addU \/ ColSum(rows, 2) = 0
=============================================================================
