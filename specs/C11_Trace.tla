------------------------------ MODULE C11_Trace ------------------------------
(* Trace validation for C11.  One trace (tid) = one scenario: the same world of
   phased VCFs compared twice by the real `whatshap compare` (run_compare,
   in-process): run 0 on the files as generated, run 1 on files in which the
   haplotypes of some phase sets are listed in another order.  Each line is
   one reported result, projected to small integers by the driver:

     Pair       run chrom i j p mav F=<<phasing of file i, of file j>> (Compare.tla records)
                V = <<variant kinds of file i, of file j>>: V[f][s] names the variant (REF and ALT strings) that file f
                       carries at the position of site s; different numbers = different variants at the same POS
                row  = [nblk cov pairs sw sfs sff ham dg]   "ALL INTERSECTION BLOCKS" columns of --tsv-pairwise
                lrow = [pairs sw sfs sff ham dg]            "LARGEST INTERSECTION BLOCK" columns
                       (sw sfs sff ham in haplotype units = ploidy x printed value; -1 = not an integer)
                aux (p = 2 only) bed = << <<site, next site>>, ... >> lines of --switch-error-bed for this pair,
                       agree = << <<site, 0/1>>, ... >> lines of --longest-block-tsv for this pair
     Multi      run chrom F=<<all phasings>> V=<<variant kinds per file>> hist = << << <<files not on file 1's side>>, count >>, ... >>  (--tsv-multiway)
     RunFailed  run chrom exc where      run_compare raised
     Crashed    (runner) the worker died / timed out

   mem carries the earlier lines of the same tid and chromosome (run 0 results for the invariance
   clauses, pairwise rows for the multiway consistency clause). *)
EXTENDS Compare, Json, IOUtils
Trace == ndJsonDeserialize(IOEnv.TRACE_FILE)
VARIABLES l, mem
vars == <<l, mem>>

Fail(e, c) == PrintT(<<"VERDICT", e.tid, e.seq, c>>)
Check(e, c, ok) == IF ok THEN TRUE ELSE Fail(e, c)

ErrZero(r) == r.sw = 0 /\ r.sfs = 0 /\ r.sff = 0 /\ r.ham = 0 /\ r.dg = 0
Firsts(s) == [k \in DOMAIN s |-> s[k][1]]
Seconds(s) == [k \in DOMAIN s |-> s[k][2]]
CoreEq(r, q) == r.sw = q.sw /\ r.ham = q.ham /\ r.dg = q.dg /\ r.sfs + r.sff = q.sfs + q.sff

(* The property speaks about the COMMON variants of the compared files.  A variant is a position together with its
   REF and ALT alleles: a site at which the compared files carry different variants (same POS, another ALT base, an
   indel instead of an SNV, ...) is a variant of neither file's partner, so for the comparison it is absent.
   OnCommon(F, V) = the phasings restricted to the sites at which all compared files carry the same variant. *)
Absent == [b |-> 0, a |-> << >>]
SameVariant(V, s) == \A f \in DOMAIN V : V[f][s] = V[1][s]
OnCommon(F, V) == TLCEval([f \in DOMAIN F |->
                      TLCEval([s \in DOMAIN F[f] |-> IF SameVariant(V, s) THEN [b |-> F[f][s].b, a |-> F[f][s].a] ELSE Absent])])

(* mem = the Pair/Multi lines of the current tid and chromosome seen so far (the driver emits both runs
   of one chromosome consecutively); Fresh: e starts a new tid or chromosome *)
Fresh(e) == e.seq = 1 \/ mem = << >> \/ mem[1].chrom # e.chrom
Earlier(e, ev, run) == IF Fresh(e) THEN {}
                       ELSE { k \in DOMAIN mem : mem[k].ev = ev /\ mem[k].run = run /\ mem[k].chrom = e.chrom }
Twin(e) == { k \in Earlier(e, "Pair", 0) : mem[k].i = e.i /\ mem[k].j = e.j }

(* run 1 result e against its run 0 twin o (same chromosome, same pair of files) *)
JudgeTwin_(e, o, P, nLongest) ==
    /\ Check(e, "HarnessOrbit", SameUpToLabels(o.F[1], e.F[1], P) /\ SameUpToLabels(o.F[2], e.F[2], P) /\ o.V = e.V)
    /\ Check(e, "PermutationInvariance",
             /\ e.row.nblk = o.row.nblk /\ e.row.cov = o.row.cov /\ e.row.pairs = o.row.pairs
             /\ CoreEq(e.row, o.row)
             /\ (P = 2 => e.row = o.row)
             /\ (nLongest <= 1 => (e.lrow.pairs = o.lrow.pairs /\ CoreEq(e.lrow, o.lrow) /\ (P = 2 => e.lrow = o.lrow)))
             /\ (e.aux => Rng(e.bed) = Rng(o.bed)))
    /\ Check(e, "PolyDecompositionInvariance",
             P > 2 => (/\ e.row.sfs = o.row.sfs /\ e.row.sff = o.row.sff
                       /\ (nLongest <= 1 => (e.lrow.sfs = o.lrow.sfs /\ e.lrow.sff = o.lrow.sff))))

AgreeOK_(e, X, Y) == Seconds(e.agree) \in { EqVec(X, Y), NeqVec(X, Y) }
JudgeAux_(e, F, L, B) ==
    /\ Check(e, "BedCountIsSwitches", 2 * Len(e.bed) = e.row.sw)
    /\ Check(e, "BedMarksSwitchPositions",
             Rng(e.bed) = SwitchPositionsB_(F, B) /\ Cardinality(Rng(e.bed)) = Len(e.bed))
    /\ Check(e, "LongestBlockAgreementMatchesHamming", 2 * Zeros(Seconds(e.agree)) = e.lrow.ham)
    /\ Check(e, "LongestBlockAgreementIsPositionwise",
             IF L = {} THEN e.agree = << >>
             ELSE \E blk \in L : /\ Firsts(e.agree) = SortedSeqOf(blk)
                                 /\ AgreeOK_(e, Haps(F, 1, blk, 2), Haps(F, 2, blk, 2)))
    /\ Check(e, "ZeroForIdentical", F[1] = F[2] => (e.bed = << >> /\ Zeros(Seconds(e.agree)) = 0))

(* the clauses that compare reported numbers with the definitions of Compare.tla.  Events flagged mav come from
   worlds with multi-allelic variants (alleles 0..2): there only the clauses that need no definition beyond the
   statement itself are judged (blocks, genotype differences, identity, zero for identical, invariance, no crash). *)
JudgeDefs_(e, F, P, B, rep, t, L) ==
    /\ Check(e, "SwitchErrorsAreDefinition", RowSwitchesOK(e.row, t))
    /\ Check(e, "SwitchFlipIsDefinition", RowSFOK(e.row, t))
    /\ Check(e, "HammingIsDefinition", RowHammingOK(e.row, t))
    /\ Check(e, "LargestBlockIsDefinition",
             IF L = {} THEN LargestIs(e.lrow, EmptyReport) ELSE \E blk \in L : LargestIs(e.lrow, rep[blk]))
    /\ (IF e.aux THEN JudgeAux_(e, F, L, B) ELSE TRUE)
JudgePairT_(e, F, P, B, rep, t, L, twin) ==
    /\ Check(e, "IntersectionBlocks", RowBlocksOK(e.row, t))
    /\ Check(e, "GenotypeDiffsAreDefinition", RowDGOK(e.row, t))
    \* (the definitions of Compare.tla compare alleles with #, so they apply to alleles 0..2 as they stand; only the DIPLOID
    \*  multi-allelic path of compare is known to deviate - KNOWN_FINDINGS - and is judged by the definition-free clauses)
    /\ (IF e.mav /\ P = 2 THEN TRUE ELSE JudgeDefs_(e, F, P, B, rep, t, L))
    /\ Check(e, "SwitchFlipIdentity",
             P = 2 => (e.row.sw = e.row.sfs + 2 * e.row.sff /\ e.lrow.sw = e.lrow.sfs + 2 * e.lrow.sff))
    /\ Check(e, "ZeroForIdentical", F[1] = F[2] => (ErrZero(e.row) /\ ErrZero(e.lrow)))
    /\ (IF e.run = 1 /\ twin # {} THEN JudgeTwin_(e, mem[CHOOSE k \in twin : TRUE], P, Cardinality(L)) ELSE TRUE)
JudgePairR_(e, F, P, B, rep) == JudgePairT_(e, F, P, B, rep, Totals_(B, rep), LongestOf(B), Twin(e))
JudgePairB_(e, F, P, B) == JudgePairR_(e, F, P, B, Reports(F, B, P))
JudgePairF_(e, F) == JudgePairB_(e, F, e.p, Blocks(F))
JudgePair(e) == JudgePairF_(e, OnCommon(e.F, e.V))

HistSet(h) == { << Rng(h[k][1]), h[k][2] >> : k \in DOMAIN h }
SeparatingRep(hs, i, j) == SumOver(hs, [x \in hs |-> IF (i \in x[1]) # (j \in x[1]) THEN x[2] ELSE 0])

JudgeMultiTwin_(e, o, hs) ==
    /\ Check(e, "HarnessOrbit", (\A f \in DOMAIN e.F : SameUpToLabels(o.F[f], e.F[f], 2)) /\ o.V = e.V)
    /\ Check(e, "PermutationInvariance", hs = HistSet(o.hist))
JudgeMultiH_(e, F, B, h, hs, MP, twin) ==
    /\ Check(e, "MultiwayIsDefinition", hs = { <<sp, h[sp]>> : sp \in DOMAIN h } /\ Cardinality(hs) = Len(e.hist))
    /\ Check(e, "MultiwaySumsToPairs", SumOver(hs, [x \in hs |-> x[2]]) = Cardinality(MP))
    /\ Check(e, "MultiwayConsistentWithPairwise",
             \A k \in Earlier(e, "Pair", e.run) :
                 Blocks(OnCommon(mem[k].F, mem[k].V)) = B => 2 * SeparatingRep(hs, mem[k].i, mem[k].j) = mem[k].row.sw)
    /\ (IF e.run = 1 /\ twin # {} THEN JudgeMultiTwin_(e, mem[CHOOSE k \in twin : TRUE], hs) ELSE TRUE)
JudgeMultiP_(e, F, B, MP) == JudgeMultiH_(e, F, B, MultiHist_(MP), HistSet(e.hist), MP, Earlier(e, "Multi", 0))
JudgeMultiB_(e, F, B) == JudgeMultiP_(e, F, B, MultiPairs_(F, B))
JudgeMultiF_(e, F) == JudgeMultiB_(e, F, Blocks(F))
JudgeMulti(e) == JudgeMultiF_(e, OnCommon(e.F, e.V))

Judge(e) ==
    CASE e.ev = "Pair"      -> JudgePair(e)
      [] e.ev = "Multi"     -> JudgeMulti(e)
      [] e.ev = "RunFailed" -> Fail(e, "Returns")
      [] e.ev = "Crashed"   -> Fail(e, "Returns")
      [] OTHER              -> Fail(e, "UnknownEvent")

Init == l = 1 /\ mem = << >>
Next == /\ l <= Len(Trace)
        /\ LET e == Trace[l] IN
           /\ Judge(e)
           /\ mem' = IF e.ev \in {"Pair", "Multi"}
                     THEN (IF Fresh(e) THEN <<e>> ELSE Append(mem, e))
                     ELSE (IF e.seq = 1 THEN << >> ELSE mem)
        /\ l' = l + 1
Spec == Init /\ [][Next]_vars
=============================================================================
