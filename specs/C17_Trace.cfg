SPECIFICATION Spec
