------------------------------ MODULE MC_GenoHMM ------------------------------
(* Model-checking wrapper for GenoHMM.
   (1) design-level run: the fixed shapes MCShapes, PrintEdges = FALSE, invariants of
       GenoHMM (cfg written by the driver);
   (2) graph extraction: Shapes <- JsonShapes (the shapes of the scenarios, one
       JSON record per line in IOEnv.SHAPE_FILE), PrintEdges = TRUE: TLC prints every
       edge of the reachable state graph once; the driver substitutes numbers and
       sums over the printed DAG. *)
EXTENDS GenoHMM, IOUtils

Rd(i, cells) == [ind |-> i, cells |-> cells]

MCShapes == <<
    \* single individual, 5 columns, a blank, an uncovered column, nested reads
    [nInd |-> 1, trios |-> <<>>, m |-> 5,
     reads |-> << Rd(1, << <<1, 0>>, <<3, 1>> >>), Rd(1, << <<1, 1>>, <<2, 1>>, <<4, 0>> >>), Rd(1, << <<2, 0>>, <<3, 0>> >>) >>],
    \* two unrelated individuals
    [nInd |-> 2, trios |-> <<>>, m |-> 2,
     reads |-> << Rd(1, << <<1, 0>>, <<2, 1>> >>), Rd(2, << <<1, 1>>, <<2, 1>> >>) >>],
    \* trio, 3 columns, reads of all members, a blank
    [nInd |-> 3, trios |-> << <<1, 2, 3>> >>, m |-> 3,
     reads |-> << Rd(1, << <<1, 0>>, <<2, 0>> >>), Rd(3, << <<1, 1>>, <<3, 0>> >>), Rd(2, << <<2, 1>>, <<3, 1>> >>) >>],
    \* trio given in another order (child first)
    [nInd |-> 3, trios |-> << <<3, 2, 1>> >>, m |-> 2,
     reads |-> << Rd(1, << <<1, 0>>, <<2, 1>> >>), Rd(3, << <<1, 1>>, <<2, 1>> >>) >>],
    \* quartet, 2 columns
    [nInd |-> 4, trios |-> << <<1, 2, 3>>, <<1, 2, 4>> >>, m |-> 2,
     reads |-> << Rd(3, << <<1, 0>>, <<2, 1>> >>), Rd(4, << <<1, 1>>, <<2, 1>> >>) >>]
>>

JsonShapes == ndJsonDeserialize(IOEnv.SHAPE_FILE)
=============================================================================
