------------------------------- MODULE Haplotag -------------------------------
(* Property-level specification of `whatshap haplotag` (C10).

   A world W is one invocation:

     ploidy, tagSupp, linked (BX clouds are honoured), cutoff (--linked-read-distance-cutoff),
     ignoreRG, onlySample,
     rgSample  : read group index -> sample index (0 = the read group's sample is
                 not a selected sample of the VCF),
     sites     : seq of [chrom, pos, len]   every variant record of the VCF
     phase     : sample -> site -> [ph (GT written with |), ps, al (allele tuple)]
     regions   : seq of [chrom, s, e]  (0-based half open; <<>> = whole file)
     aln       : the input alignments in file order
                 [name, unm, sec, sup, rev, mapq, rg (0 = none), chrom (0 = no
                  coordinate), pos, end, bx (0 = none),
                  obs  : seq of <<site, allele, quality>>  alleles the alignment shows,
                  rest : opaque id of every field except the tags HP, PS, PC]

   and its result `out` is the sequence of written alignments [rest, hp, ps, pc]
   (-1 = tag absent).

   "Its read" of the statement is the name group: all usable alignments with the
   same name and sample; with linked reads also the alignments of the same sample and
   chromosome that carry the same barcode and start within `cutoff` bp ("reads with identical BX
   tags belong to different read clouds if their distance is larger than the cutoff").  That
   relation is a partition of the alignments only if the clouds of a barcode are well separated
   (CloudsSeparated); only such inputs are judged - for a chain of reads each within the cutoff
   of the next but not of the first, the command's grouping depends on the visiting order and the
   statement does not fix it.  Usable means what
   whatshap's fixed read filter admits as allele evidence (mapped, primary line,
   MAPQ >= MinMapq; duplicates count). *)
EXTENDS Util

MinMapq == 20
Absent == -1

Placed(a)   == a.chrom # 0
Usable(a)   == ~a.unm /\ ~a.sec /\ ~a.sup /\ a.mapq >= MinMapq /\ Placed(a)
(* an alignment that may carry a tag at all *)
Eligible(W, a) == ~a.unm /\ ~a.sec /\ (a.sup => W.tagSupp)

SmpOf(W, a) == IF W.ignoreRG THEN W.onlySample
               ELSE IF a.rg = 0 THEN 0 ELSE W.rgSample[a.rg]

InRegions(W, c, s, e) ==
    \/ W.regions = <<>>
    \/ \E k \in DOMAIN W.regions :
          W.regions[k].chrom = c /\ s < W.regions[k].e /\ e > W.regions[k].s

NumRegionsHit(W, a) ==
    Cardinality({ k \in DOMAIN W.regions :
                    W.regions[k].chrom = a.chrom /\ a.pos < W.regions[k].e /\ a.end > W.regions[k].s })

(* alignments the run looks at: all of them, or the placed ones overlapping a region *)
Fetched(W, a) == W.regions = <<>> \/ (Placed(a) /\ InRegions(W, a.chrom, a.pos, a.end))

SiteVisible(W, j) ==
    InRegions(W, W.sites[j].chrom, W.sites[j].pos, W.sites[j].pos + W.sites[j].len)

Het(al) == \E x \in DOMAIN al, y \in DOMAIN al : al[x] # al[y]

(* phased heterozygous call of sample s at site j that the run can see *)
Informative(W, s, j) ==
    /\ s # 0
    /\ SiteVisible(W, j)
    /\ W.phase[s][j].ph
    /\ Het(W.phase[s][j].al)

SameCloud(W, a, b) ==
    /\ W.linked /\ a.bx # 0 /\ a.bx = b.bx
    /\ Placed(a) /\ a.chrom = b.chrom
    /\ Abs(a.pos - b.pos) <= W.cutoff
SameRead(W, a, b) == SmpOf(W, a) = SmpOf(W, b) /\ (a.name = b.name \/ SameCloud(W, a, b))

(* premise for barcoded input: on a chromosome, two alignments with one barcode start either within
   half the cutoff (one molecule; hence "within the cutoff" is transitive) or farther apart than
   the cutoff (two clouds), and the alignments of one name lie in one cloud *)
CloudsSeparated(W) ==
    W.linked =>
      \A i \in DOMAIN W.aln, k \in DOMAIN W.aln :
         LET a == W.aln[i]
             b == W.aln[k] IN
         (i < k /\ a.bx # 0 /\ Placed(a) /\ Placed(b) /\ a.chrom = b.chrom) =>
            /\ a.bx = b.bx => (2 * Abs(a.pos - b.pos) <= W.cutoff \/ Abs(a.pos - b.pos) > W.cutoff)
            /\ a.name = b.name => (a.bx = b.bx /\ 2 * Abs(a.pos - b.pos) <= W.cutoff)

(* indices of the alignments whose observed alleles count for alignment i *)
Members(W, i) ==
    { k \in DOMAIN W.aln : /\ SameRead(W, W.aln[i], W.aln[k])
                           /\ Usable(W.aln[k])
                           /\ Fetched(W, W.aln[k]) }

(* observations <<alignment index, observation index>> of the read of alignment i *)
ObsOf(W, i) ==
    LET s == SmpOf(W, W.aln[i]) IN
    UNION { { <<k, n>> : n \in { m \in DOMAIN W.aln[k].obs : Informative(W, s, W.aln[k].obs[m][1]) } }
            : k \in Members(W, i) }

ObsSite(W, x)   == W.aln[x[1]].obs[x[2]][1]
ObsAllele(W, x) == W.aln[x[1]].obs[x[2]][2]
ObsQual(W, x)   == W.aln[x[1]].obs[x[2]][3]

(* phase set = <<chromosome, PS value>> (per sample) *)
SetOfObs(W, s, x) == << W.sites[ObsSite(W, x)].chrom, W.phase[s][ObsSite(W, x)].ps >>

Touched(W, i) ==
    LET s == SmpOf(W, W.aln[i]) IN { SetOfObs(W, s, x) : x \in ObsOf(W, i) }

RECURSIVE SumQ(_, _)
SumQ(W, S) == IF S = {} THEN 0
              ELSE LET x == CHOOSE y \in S : TRUE IN ObsQual(W, x) + SumQ(W, S \ {x})

(* summed quality of the observed alleles that agree with haplotype h of set key *)
Score(W, i, key, h) ==
    LET s == SmpOf(W, W.aln[i]) IN
    SumQ(W, { x \in ObsOf(W, i) : /\ SetOfObs(W, s, x) = key
                                  /\ ObsAllele(W, x) = W.phase[s][ObsSite(W, x)].al[h] })

Scores(W, i, key) == [ h \in 1..W.ploidy |-> Score(W, i, key, h) ]

UniqueBest(sc) == \E h \in DOMAIN sc : \A g \in DOMAIN sc \ {h} : sc[g] < sc[h]
Best(sc)       == CHOOSE h \in DOMAIN sc : \A g \in DOMAIN sc \ {h} : sc[g] < sc[h]

Untagged(o) == o.hp = Absent /\ o.ps = Absent /\ o.pc = Absent

-----------------------------------------------------------------------------
(* Conservation *)
RECURSIVE FetchedIdx(_, _)
FetchedIdx(W, n) == IF n = 0 THEN <<>>
                    ELSE IF Fetched(W, W.aln[n]) THEN Append(FetchedIdx(W, n - 1), n)
                    ELSE FetchedIdx(W, n - 1)

Expected(W) == FetchedIdx(W, Len(W.aln))

(* the regions are listed in ascending genome order (chromosome, start) *)
RegionsAscending(W) ==
    \A k \in DOMAIN W.regions, m \in DOMAIN W.regions :
        k < m => \/ W.regions[k].chrom < W.regions[m].chrom
                 \/ (W.regions[k].chrom = W.regions[m].chrom /\ W.regions[k].s < W.regions[m].s)

RestSeq(W, idx) == [ n \in DOMAIN idx |-> W.aln[idx[n]].rest ]
OutRest(out) == [ n \in DOMAIN out |-> out[n].rest ]

(* every fetched alignment exactly once (an alignment overlapping several regions too); in input
   order when the regions are listed in ascending order - for another order of the region list
   the statement does not fix the output order and only "exactly once" is judged *)
ExactlyOnce(W, out) == SameBag(OutRest(out), RestSeq(W, Expected(W)))
Conservation(W, out) ==
    IF RegionsAscending(W) THEN OutRest(out) = RestSeq(W, Expected(W)) ELSE ExactlyOnce(W, out)

(* input alignments are told apart by their opaque content (the harness gives every record a serial tag) *)
RestUnique(W) == \A i \in DOMAIN W.aln, k \in DOMAIN W.aln : i # k => W.aln[i].rest # W.aln[k].rest
IdxOf(W, r) == CHOOSE i \in DOMAIN W.aln : W.aln[i].rest = r

-----------------------------------------------------------------------------
(* the clauses about one written alignment o that stems from input alignment i *)
TagShape(o) == /\ (o.hp = Absent) <=> (o.ps = Absent)
               /\ (o.hp = Absent) => (o.pc = Absent)

Decision(W, i, o) ==
    o.hp # Absent =>
       LET key == << W.aln[i].chrom, o.ps >>
           sc  == Scores(W, i, key) IN
       /\ key \in Touched(W, i)
       /\ UniqueBest(sc)
       /\ o.hp = Best(sc)                  \* haplotype h (1-based) is written as HP = h

UntaggedWhen(W, i, o) ==
    (\A key \in Touched(W, i) : ~UniqueBest(Scores(W, i, key))) => Untagged(o)

IneligibleUntagged(W, i, o) == ~Eligible(W, W.aln[i]) => Untagged(o)

TaggedWhen(W, i, o) ==
    LET a == W.aln[i]
        T == Touched(W, i) IN
    (/\ Eligible(W, a)
     /\ Cardinality(T) = 1
     /\ \A key \in T : key[1] = a.chrom /\ UniqueBest(Scores(W, i, key)))
       => /\ o.hp # Absent
          /\ \A key \in T : o.ps = key[2]

-----------------------------------------------------------------------------
(* Symmetry: W2 is W1 with the two haplotypes of phase set <<chrom, ps>> of sample s exchanged *)
Reverse2(al) == << al[2], al[1] >>

SwappedPhase(W, s, c, p) ==
    [ t \in DOMAIN W.phase |->
        [ j \in DOMAIN W.phase[t] |->
            IF t = s /\ W.sites[j].chrom = c /\ W.phase[t][j].ph /\ W.phase[t][j].ps = p
                     /\ Len(W.phase[t][j].al) = 2
            THEN [ W.phase[t][j] EXCEPT !.al = Reverse2(@) ]
            ELSE W.phase[t][j] ] ]

IsSwapOf(W1, W2, s, c, p) ==
    /\ W2.phase = SwappedPhase(W1, s, c, p)
    /\ [ W2 EXCEPT !.phase = W1.phase ] = W1

Symmetry(W, out1, out2, s, c, p) ==
    /\ Len(out1) = Len(out2)
    /\ (Len(out1) = Len(out2) /\ ExactlyOnce(W, out1)) =>
         \A n \in DOMAIN out1 :
            LET a == W.aln[IdxOf(W, out1[n].rest)] IN
            /\ out2[n].rest = out1[n].rest
            /\ out2[n].ps = out1[n].ps
            /\ IF out1[n].hp # Absent /\ out1[n].ps = p /\ a.chrom = c /\ SmpOf(W, a) = s
               THEN out2[n].hp = 3 - out1[n].hp
               ELSE out2[n].hp = out1[n].hp
=============================================================================
