SPECIFICATION Spec
