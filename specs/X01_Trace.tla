------------------------------ MODULE X01_Trace ------------------------------
(* Trace validation for X01 (whatshap as a system of commands, Workflow.tla).

   One trace (tid) = one WORKFLOW executed on real files through the CLI entry points
   (run_whatshap, run_unphase, run_stats, run_compare, run_haplotag, run_split,
   run_haplotagphase).  Events:

     World   errfree : the reads are error-free copies of the true haplotypes and every read
                       is used by phase (premise of W10)
             files   : the two files of the world, << [id, kind, cmd = "init", args = <<>>, opt, c] >>
                       "x" the unphased VCF, "b" the BAM (contents as in Workflow.tla)
     Cmd     cmd, exc ("" or the exception type), files : the files the command wrote
             (projected to the abstract contents), each with its provenance (cmd, args, opt)
     Crashed the driver died

   The abstract file system fs is carried along; after every command each cross-command
   invariant W1..W12 is evaluated on all instances in which a file written by that
   command takes part (the commands an invariant relates have then all been observed). *)
EXTENDS Workflow, Json, IOUtils
Trace == ndJsonDeserialize(IOEnv.TRACE_FILE)
VARIABLES l, fs, errfree
vars == <<l, fs, errfree>>

Fail(e, c) == PrintT(<<"VERDICT", e.tid, e.seq, c>>)
Check(e, c, ok) == IF ok THEN TRUE ELSE Fail(e, c)

Empty == [z \in {} |-> 0]
RECURSIVE AddFiles(_, _)
AddFiles(g, files) ==
    IF files = << >> THEN g
    ELSE AddFiles(g @@ (Head(files).id :> File(Head(files).kind, Head(files).cmd, Head(files).args, Head(files).opt, Head(files).c)),
                  Tail(files))
NewIds(files) == { files[n].id : n \in DOMAIN files }
(* provenance is closed and ids are fresh: otherwise the event is malformed (harness error, reported) *)
WellFormed(g, files) ==
    /\ \A n \in DOMAIN files : files[n].id \notin DOMAIN g
    /\ \A n \in DOMAIN files : \A k \in DOMAIN files[n].args : files[n].args[k] \in DOMAIN g

JudgeCmd(e, g) ==
    /\ Check(e, "Returns", e.exc = "")
    /\ e.exc = "" =>
        IF ~WellFormed(g, e.files) THEN Fail(e, "MalformedEvent")
        ELSE \A n \in DOMAIN ClauseNames :
                Check(e, ClauseNames[n], Clause(ClauseNames[n], AddFiles(g, e.files), NewIds(e.files), errfree))

Base(e) == IF e.seq = 1 THEN Empty ELSE fs
Judge(e) ==
    CASE e.ev = "World"   -> Check(e, "MalformedEvent", e.seq = 1)
      [] e.ev = "Cmd"     -> JudgeCmd(e, Base(e))
      [] e.ev = "Crashed" -> Fail(e, "Returns")
      [] OTHER            -> Fail(e, "UnknownEvent")

Apply(e) ==
    CASE e.ev = "World" -> AddFiles(Empty, e.files)
      [] e.ev = "Cmd"   -> IF e.exc = "" /\ WellFormed(Base(e), e.files) THEN AddFiles(Base(e), e.files) ELSE Base(e)
      [] OTHER          -> Base(e)

Init == l = 1 /\ fs = Empty /\ errfree = FALSE
Next == /\ l <= Len(Trace)
        /\ LET e == Trace[l] IN
           /\ Judge(e)
           /\ fs' = Apply(e)
           /\ errfree' = IF e.ev = "World" THEN e.errfree ELSE IF e.seq = 1 THEN FALSE ELSE errfree
        /\ l' = l + 1
Spec == Init /\ [][Next]_vars
=============================================================================
