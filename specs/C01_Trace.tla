------------------------------ MODULE C01_Trace ------------------------------
(* Trace validation for C01: every line is one call of the exact solver
   (PedigreeDPTable) on an instance with everything it returned:
     Solve  inst, cost, part, tv, sr   (sr[i][h][c] in {0, 1, 3}; 3 = tie flag)
   Clauses = the three sentences of the property. *)
EXTENDS PedMEC, Json, IOUtils
Trace == ndJsonDeserialize(IOEnv.TRACE_FILE)
VARIABLE l

Fail(e, c) == PrintT(<<"VERDICT", e.tid, e.seq, c>>)
Check(e, c, ok) == IF ok THEN TRUE ELSE Fail(e, c)

ShapeOK(e) ==
    LET I == e.inst IN
    /\ Len(e.part) = Len(I.reads)
    /\ \A r \in DOMAIN e.part : e.part[r] \in {0, 1}
    /\ Len(e.tv) = I.m
    /\ \A c \in DOMAIN e.tv : e.tv[c] \in TVals(I)
    /\ Len(e.sr) = I.nInd
    /\ \A i \in DOMAIN e.sr : Len(e.sr[i]) = 2 /\ \A h \in 1..2 : Len(e.sr[i][h]) = I.m
                                /\ \A c \in 1..I.m : e.sr[i][h][c] \in {0, 1, 3}

NonTieForced(e) ==
    LET I == e.inst IN
    \A c \in 1..I.m :
        LET opt == OptAssign(I, c, e.part, e.tv[c]) IN
        \A i \in 1..I.nInd, h \in 0..1 :
            e.sr[i][h + 1][c] \in {0, 1} =>
                \A a \in opt : a[PartOf(I, e.tv[c], i, h)] = e.sr[i][h + 1][c]

JudgeSolve(e) ==
    LET I == e.inst IN
    /\ Check(e, "Shape", ShapeOK(e))
    /\ IF ShapeOK(e)
       THEN \* a DEEP instance (column coverage beyond what the set-comprehension optimum can enumerate): the optimum is bounded
            \* by the cost of the planted partition the instance was generated from (0 for error-free reads, so the bound is
            \* exact there); the witness clauses are judged in full
            /\ IF "deep" \in DOMAIN e
               THEN ("planted" \in DOMAIN e) => Check(e, "CostIsOptimal", e.cost <= WitnessCost(I, e.planted, e.tv))
               ELSE Check(e, "CostIsOptimal", e.cost = OptCost(I))
            /\ Check(e, "WitnessAchievesCost", WitnessCost(I, e.part, e.tv) = e.cost)
            /\ Check(e, "NonTieAllelesForced", NonTieForced(e))
       ELSE TRUE

Judge(e) ==
    CASE e.ev = "Solve"   -> JudgeSolve(e)
      [] e.ev = "Crashed" -> Fail(e, "Returns")
      [] OTHER            -> Fail(e, "UnknownEvent")

Init == l = 1
Next == l <= Len(Trace) /\ Judge(Trace[l]) /\ l' = l + 1
Spec == Init /\ [][Next]_l
=============================================================================
