----------------------------- MODULE MC_UFForest -----------------------------
EXTENDS UFForest, Json, Sequences
CONSTANT Depth_
VARIABLE hist
MCInit == Init /\ hist = <<>>
MCNext == \E x, y \in Values :
            \/ FMerge(x, y) /\ hist' = Append(hist, [op |-> "merge", x |-> x, y |-> y])
            \/ FFind(x) /\ hist' = Append(hist, [op |-> "find", x |-> x, y |-> 0])
MCSpec == MCInit /\ [][MCNext]_<<parent, ret, hist>>
Bound == Len(hist) <= Depth_
Emit == IF Len(hist) = Depth_ THEN PrintT(<<"BEHAVIOUR", ToJson(hist)>>) ELSE TRUE
NoView == <<parent, ret>>
=============================================================================
