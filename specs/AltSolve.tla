------------------------------- MODULE AltSolve -------------------------------
(* X02 (growth of the specification, DESIGN.md part B section 8 item 3/4): the
   ALTERNATIVE Solve actions of `whatshap phase` and the optional read-merging
   stage, with the contracts these components really have (weaker than C01's).

   HSolve  PedMecHeuristic (--algorithm heuristic, src/pedmecheuristic.cpp)
   CSolve  HapChatCore     (--algorithm hapchat,   src/hapchat/hapchatcore.cpp)
   Merge   ReadMerger.merge (--merge-reads,        whatshap/merge.py)

   Instances have the shape of PedMEC.tla; `reads` is in READ-SET ORDER (the
   order after ReadSet.sort(), which is the order of the returned partition).

   ---------------------------------------------------------------------------
   HSolve.  The heuristic promises no optimality (header: "rowLimit ... higher
   means more accuracy").  What it returns is a witness: a bipartition, a
   transmission value per column and one super-read pair per sample; de-novo
   mutations are part of ITS objective: a child allele that differs from the
   transmitted parental allele costs
        mutationCost[c] = 3/4 (rc'[c] + rc[c+1])   (c < m),   3/2 rc'[m]   (c = m),
   rc'[1] = 0 (the constructor never copies recombcost[0]), rc'[c] = rc[c]; with
   allow_mutations = FALSE the cost is infinite.  Genotype likelihoods are NOT
   part of its objective (distrust mode = unconstrained alleles).  All costs are
   kept times 4 so that they stay integers.
   Transmission convention of THIS solver: child haplotype 0 is haplotype
   Bit(t, 2k) of trio k's first parent, child haplotype 1 is haplotype
   Bit(t, 2k+1) of the second parent (PedigreeDPTable uses the complement).
   Samples known to the heuristic = individuals that own a read or occur in a
   trio (documented precondition: sample ids zero-based and consecutive). *)
EXTENDS PedMEC, SequencesExt

HSamples(I) == { I.reads[r].ind : r \in DOMAIN I.reads } \cup UNION { Rng(I.trios[k]) : k \in DOMAIN I.trios }
NSamples(I) == Cardinality(HSamples(I))
HDomain(I) == HSamples(I) = 1..NSamples(I)

RC0(I, c) == IF c = 1 THEN 0 ELSE I.rc[c]
Mut4(I, c) == IF c < I.m THEN 3 * (RC0(I, c) + I.rc[c + 1]) ELSE 6 * RC0(I, c)

(* allele of haplotype h (0/1) of sample i: a function on pairs *)
HAssigns(n) == [ (1..n) \X {0, 1} -> {0, 1} ]

HViol(I, t, ha) ==
    SumOver(DOMAIN I.trios, [k \in DOMAIN I.trios |->
        (IF ha[<<I.trios[k][3], 0>>] # ha[<<I.trios[k][1], Bit(t, 2 * (k - 1))>>] THEN 1 ELSE 0)
      + (IF ha[<<I.trios[k][3], 1>>] # ha[<<I.trios[k][2], Bit(t, 2 * (k - 1) + 1)>>] THEN 1 ELSE 0)])

HAllowed(I, c, ha, n) == I.distrust \/ \A i \in 1..n : ha[<<i, 0>>] + ha[<<i, 1>>] = I.gt[i][c]

(* cost (x4) of one column for the haplotype alleles ha; hp[r] = haplotype index of read r *)
HCost4(I, c, cells, hp, t, ha, am) ==
    LET w == [x \in cells |-> LET cell == I.reads[x[1]].cells[x[2]]
                              IN IF cell[2] # ha[<<I.reads[x[1]].ind, hp[x[1]]>>] THEN cell[3] ELSE 0]
        flips == SumOver(cells, w)
        v == HViol(I, t, ha)
    IN IF am THEN 4 * flips + Mut4(I, c) * v
       ELSE IF v = 0 THEN 4 * flips ELSE Inf

HColMin4(I, c, hp, t, am) ==
    LET n == NSamples(I)
        cells == CellsAt(I, c)
        costs == { HCost4(I, c, cells, hp, t, ha, am) : ha \in { a \in HAssigns(n) : HAllowed(I, c, a, n) } }
    IN IF costs = {} THEN Inf ELSE MinSet(costs)

SRAssign(sr, c, n) == [x \in (1..n) \X {0, 1} |-> sr[x[1]][x[2] + 1][c]]

(* the returned super-reads are a cheapest admissible choice of alleles for the
   returned bipartition (labelling hp) and transmission vector, in every column *)
SROptimalUnder(I, hp, tv, sr, am) ==
    LET n == NSamples(I) IN
    \A c \in 1..I.m :
        LET ha == SRAssign(sr, c, n)
            best == HColMin4(I, c, hp, tv[c], am)
        IN /\ HAllowed(I, c, ha, n)
           /\ best < Inf
           /\ HCost4(I, c, CellsAt(I, c), hp, tv[c], ha, am) = best

Direct(part) == part
Inverted(part) == [r \in DOMAIN part |-> 1 - part[r]]

RECURSIVE HWitnessUpTo4(_, _, _, _, _)
HWitnessUpTo4(I, hp, tv, am, c) ==
    IF c = 0 THEN 0
    ELSE Cap(HWitnessUpTo4(I, hp, tv, am, c - 1) + HColMin4(I, c, hp, tv[c], am)
             + (IF c > 1 THEN 4 * Popcount(Xor(tv[c], tv[c - 1])) * I.rc[c] ELSE 0))
HWitnessCost4(I, hp, tv, am) == HWitnessUpTo4(I, hp, tv, am, I.m)

(* <<sample, haplotype, column>> of every child allele that differs from the transmitted one *)
HMutations(I, tv, sr) ==
    UNION { LET ha == SRAssign(sr, c, NSamples(I)) IN
            UNION { (IF ha[<<I.trios[k][3], 0>>] # ha[<<I.trios[k][1], Bit(tv[c], 2 * (k - 1))>>]
                     THEN { <<I.trios[k][3], 0, c>> } ELSE {})
                    \cup
                    (IF ha[<<I.trios[k][3], 1>>] # ha[<<I.trios[k][2], Bit(tv[c], 2 * (k - 1) + 1)>>]
                     THEN { <<I.trios[k][3], 1, c>> } ELSE {}) : k \in DOMAIN I.trios }
            : c \in 1..I.m }

(* ---------------------------------------------------------------------------
   CSolve.  HapCHAT solves the k-constrained all-heterozygous weighted MEC:
   per column at most k(cov) entries may be corrected, k(cov) from the binomial
   tail with alpha = 0.01, error rate 0.05 (computeK); the homozygous option is
   disabled (homo_cost = MAX_COVERAGE + 1).  k is only increased when no
   solution exists.  Hence: reported cost >= optimum of the all-heterozygous MEC,
   and = the k-constrained optimum when that is finite (judged for gapless reads
   forming one block, where the column DP is exact).  The returned haplotypes
   are complementary over ALL positions of the read set and the reported cost is
   the weight of the corrections for some bipartition. *)
Covered(I) == UNION { { I.reads[r].cells[k][1] : k \in DOMAIN I.reads[r].cells } : r \in DOMAIN I.reads }

KTab == <<1, 1, 1, 2, 2, 2, 2, 2, 2, 3, 3, 3, 3, 3, 3, 3>>
KOf(cov) == IF cov = 0 THEN 0 ELSE KTab[cov]

HetInst(I) == [nInd |-> 1, trios |-> <<>>, m |-> I.m, rc |-> I.rc, reads |-> I.reads, distrust |-> FALSE,
               gt |-> << [c \in 1..I.m |-> 1] >>, gl |-> I.gl]
OptHet(I) == OptCost(HetInst(I))

FirstOf(I, r) == I.reads[r].cells[1][1]
LastOf(I, r) == I.reads[r].cells[Len(I.reads[r].cells)][1]
Gapless(I) == \A r \in DOMAIN I.reads : LastOf(I, r) - FirstOf(I, r) + 1 = Len(I.reads[r].cells)
SingleBlock(I) == \A r \in 2..Len(I.reads) : FirstOf(I, r) <= MaxSet({ LastOf(I, q) : q \in 1..(r - 1) })

(* errors of column c when haplotype 0 carries x: <<number, weight>> *)
ColErr(I, cells, P, x) ==
    LET bad == { y \in cells : I.reads[y[1]].cells[y[2]][2] # (IF P[y[1]] = 0 THEN x ELSE 1 - x) }
    IN << Cardinality(bad), SumOver(bad, [y \in bad |-> I.reads[y[1]].cells[y[2]][3]]) >>
KColCost(I, c, P) ==
    LET cells == CellsAt(I, c)
        k == KOf(Cardinality(cells))
        opts == { e[2] : e \in { z \in { ColErr(I, cells, P, x) : x \in {0, 1} } : z[1] <= k } }
    IN IF opts = {} THEN Inf ELSE MinSet(opts)
RECURSIVE KSum(_, _, _)
KSum(I, P, cols) == IF cols = {} THEN 0
                    ELSE LET c == CHOOSE x \in cols : TRUE IN Cap(KColCost(I, c, P) + KSum(I, P, cols \ {c}))
KOpt(I) == MinSet({ KSum(I, P, Covered(I)) : P \in Bipartitions(I) })

(* weight of the corrections read r needs to become haplotype h (a function column -> allele) *)
DistTo(I, r, h) == SumSeq([k \in DOMAIN I.reads[r].cells |->
                        IF I.reads[r].cells[k][2] # h[I.reads[r].cells[k][1]] THEN I.reads[r].cells[k][3] ELSE 0])
RECURSIVE ReachSums(_, _, _, _)
(* all totals  SUM_r dist(r, h_P(r))  over the bipartitions P of reads 1..n *)
ReachSums(I, h0, h1, n) ==
    IF n = 0 THEN {0}
    ELSE LET prev == ReachSums(I, h0, h1, n - 1)
             d0 == DistTo(I, n, h0)
             d1 == DistTo(I, n, h1)
         IN { s + d0 : s \in prev } \cup { s + d1 : s \in prev }

(* ---------------------------------------------------------------------------
   Merge.  Functional model of ReadMerger.merge for a sorted read list
   rs[i] = sequence of <<position, allele, quality>>:
   two reads are linked when, on the positions they SHARE, the numbers of equal
   (match) and different (mismatch) alleles satisfy
        match + mismatch >= thrNeg,  min(match, mismatch) / (match + mismatch) <= maxErr,
        match - mismatch >= thrPos
   with thrPos = 1 + floor(log_b threshold), thrNeg = 1 + floor(log_b negative
   threshold), b = (1 - e) / (e / 3); (the "not blue" graph of the code can never
   get an edge: its condition contradicts the enclosing one).  Every connected
   component of >= 2 reads becomes ONE read, placed where its smallest member
   was: per position allele 0 if weight(0) >= weight(1) else 1, quality
   |weight(1) - weight(0)|; other reads are copied. *)
RECURSIVE FloorLog(_, _)
FloorLog(t, b) == IF t < b THEN 0 ELSE 1 + FloorLog(t \div b, b)
LogBase(ePermille) == (3000 - 3 * ePermille) \div ePermille
ThrOf(threshold, ePermille) == 1 + FloorLog(threshold, LogBase(ePermille))

PosOf(rd) == { rd[k][1] : k \in DOMAIN rd }
AlleleAt(rd, p) == LET k == CHOOSE j \in DOMAIN rd : rd[j][1] = p IN rd[k][2]
Linked(a, b, par) ==
    LET sh == PosOf(a) \cap PosOf(b)
        match == Cardinality({ p \in sh : AlleleAt(a, p) = AlleleAt(b, p) })
        mis == Cardinality(sh) - match
    IN /\ match + mis >= ThrOf(par.neg, par.e)
       /\ Min2(match, mis) * 1000 <= par.maxerr * (match + mis)
       /\ match - mis >= ThrOf(par.pos, par.e)

RECURSIVE Closure(_, _, _)
Closure(S, rs, par) ==
    LET more == { j \in DOMAIN rs : \E i \in S : Linked(rs[i], rs[j], par) } \ S
    IN IF more = {} THEN S ELSE Closure(S \cup more, rs, par)
ModelGroup(rs, par) == [i \in DOMAIN rs |-> MinSet(Closure({i}, rs, par))]

Groupings(n) == { g \in [1..n -> 1..n] : \A i \in 1..n : g[i] <= i /\ g[g[i]] = g[i] }
GroupOf(g, r) == { i \in DOMAIN g : g[i] = r }
WeightAt(rs, G, p, a) ==
    LET cs == UNION { { <<i, k>> : k \in { j \in DOMAIN rs[i] : rs[i][j][1] = p /\ rs[i][j][2] = a } } : i \in G }
    IN SumOver(cs, [x \in cs |-> rs[x[1]][x[2]][3]])
MergedRead(rs, G) ==
    IF Cardinality(G) = 1 THEN rs[CHOOSE i \in G : TRUE]
    ELSE LET ps == SetToSortSeq(UNION { PosOf(rs[i]) : i \in G }, <)
         IN [k \in DOMAIN ps |-> LET z0 == WeightAt(rs, G, ps[k], 0)
                                     z1 == WeightAt(rs, G, ps[k], 1)
                                 IN << ps[k], IF z0 >= z1 THEN 0 ELSE 1, Abs(z1 - z0) >>]
MergedOut(rs, g) ==
    LET reps == SetToSortSeq({ g[i] : i \in DOMAIN g }, <)
    IN [k \in DOMAIN reps |-> MergedRead(rs, GroupOf(g, reps[k]))]

(* a group never takes evidence of both haplotypes for the same position *)
PureGroups(rs, g, hapOf) ==
    \A r \in { g[i] : i \in DOMAIN g } : \A i, j \in GroupOf(g, r) :
        hapOf[i] # hapOf[j] => PosOf(rs[i]) \cap PosOf(rs[j]) = {}
=============================================================================
