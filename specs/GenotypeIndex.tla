--------------------------- MODULE GenotypeIndex ---------------------------
(* C19, first half: the canonical VCF genotype order.

   A genotype of ploidy p is a multiset of p alleles; its canonical form is the
   non-decreasing sequence of its alleles.  The VCF specification orders the
   genotypes of one ploidy by comparing them from the HIGHEST allele downwards
   (0/0, 0/1, 1/1, 0/2, 1/2, 2/2, ...).  Index(g) is DEFINED as the number of
   genotypes preceding g - no formula.  IndexCF is the closed form (combinatorial
   number system) that src/genotype.cpp implements; MC_GenotypeIndex checks that
   the two agree, so the trace spec may use IndexCF where counting is too big. *)
EXTENDS Util, TLC

RECURSIVE SortedSeqs(_, _)
(* all non-decreasing sequences of length p over alleles 0..a-1 *)
SortedSeqs(p, a) ==
    IF p = 0 THEN { <<>> }
    ELSE UNION { { Append(s, x) : s \in SortedSeqs(p - 1, x + 1) } : x \in 0..(a - 1) }

Desc(g) == [i \in 1..Len(g) |-> g[Len(g) + 1 - i]]
Precedes(g, h) == LexLess(Desc(g), Desc(h))
MaxAllele(g) == IF g = <<>> THEN 0 ELSE g[Len(g)]

(* the definition *)
Index(g) == Cardinality({ h \in SortedSeqs(Len(g), MaxAllele(g) + 1) : Precedes(h, g) })

(* Pascal's triangle without multiplication (TLC integers are 32 bit) *)
RECURSIVE BuildRow(_, _, _)
BuildRow(prev, k, acc) ==
    IF k > Len(prev) + 1 THEN acc
    ELSE BuildRow(prev, k + 1,
                  Append(acc, (IF k = 1 THEN 0 ELSE prev[k - 1])
                              + (IF k = Len(prev) + 1 THEN 0 ELSE prev[k])))
RECURSIVE PascalRows(_)
PascalRows(n) == IF n = 0 THEN << <<1>> >>
                 ELSE LET rows == PascalRows(n - 1)
                      IN Append(rows, BuildRow(rows[n], 1, <<>>))
Pascal == PascalRows(31)
Binom(n, k) == IF k < 0 \/ n < 0 \/ k > n THEN 0 ELSE Pascal[n + 1][k + 1]

RECURSIVE IndexCFAcc(_, _)
IndexCFAcc(g, m) == IF m = 0 THEN 0 ELSE Binom(g[m] + m - 1, m) + IndexCFAcc(g, m - 1)
(* closed form: sum over the m-th smallest allele k_m of C(k_m + m - 1, m) *)
IndexCF(g) == IndexCFAcc(g, Len(g))

NumGenotypes(p, a) == Binom(p + a - 1, p)

(* insertion sort, to canonicalise allele lists coming from the implementation *)
RECURSIVE Insert(_, _)
Insert(s, x) == IF s = <<>> THEN <<x>>
                ELSE IF x <= Head(s) THEN <<x>> \o s
                ELSE <<Head(s)>> \o Insert(Tail(s), x)
RECURSIVE Sorted(_)
Sorted(s) == IF s = <<>> THEN <<>> ELSE Insert(Sorted(Tail(s)), Head(s))

(* use the definition where it is affordable, the (model-checked) closed form beyond *)
SmallEnough(g) == Len(g) <= 6 /\ MaxAllele(g) <= 5
IndexOf(alleles) == LET g == Sorted(alleles) IN IF SmallEnough(g) THEN Index(g) ELSE IndexCF(g)
=============================================================================
