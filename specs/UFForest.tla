------------------------------ MODULE UFForest ------------------------------
(* Implementation-shaped model of whatshap/graph.py:ComponentFinder: a parent
   forest where the root with the smaller value becomes the parent (no union by
   rank) and every find compresses the path it walked.  Values are positive
   integers, parent 0 = None. *)
EXTENDS Util, TLC
CONSTANT Values
VARIABLES parent, ret

RECURSIVE Root(_, _)
Root(par, x) == IF par[x] = 0 THEN x ELSE Root(par, par[x])
RECURSIVE Path(_, _)
Path(par, x) == IF par[x] = 0 THEN {} ELSE {x} \cup Path(par, par[x])
(* _find_node: every non-root node on the walked path is re-pointed to the root *)
Compress(par, x) == LET r == Root(par, x) IN [v \in DOMAIN par |-> IF v \in Path(par, x) THEN r ELSE par[v]]

Init == parent = [v \in Values |-> 0] /\ ret = 0
FMerge(x, y) ==
    /\ x # y
    /\ LET p1 == Compress(parent, x)
           xr == Root(parent, x)
           p2 == Compress(p1, y)
           yr == Root(p1, y)
       IN parent' = IF xr = yr THEN p2
                    ELSE IF xr < yr THEN [p2 EXCEPT ![yr] = xr]
                    ELSE [p2 EXCEPT ![xr] = yr]
    /\ ret' = 0
FFind(x) == parent' = Compress(parent, x) /\ ret' = Root(parent, x)
Next == \E x, y \in Values : FMerge(x, y) \/ FFind(x)
Spec == Init /\ [][Next]_<<parent, ret>>

RECURSIVE Depth(_, _)
Depth(par, x) == IF par[x] = 0 THEN 0 ELSE 1 + Depth(par, par[x])
ParentSmaller == \A v \in Values : parent[v] # 0 => parent[v] < v      \* hence acyclic
TreeOf(r) == { v \in Values : Root(parent, v) = r }
RootIsMin == \A v \in Values : Root(parent, v) = MinSet(TreeOf(Root(parent, v)))

AbsPart == { TreeOf(r) : r \in { v \in Values : parent[v] = 0 } }
UF == INSTANCE UnionFind WITH part <- AbsPart
Refines == UF!Spec
FindIsRep == ret # 0 => ret \in Values /\ \E c \in AbsPart : ret = MinSet(c)
=============================================================================
