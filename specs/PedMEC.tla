------------------------------- MODULE PedMEC -------------------------------
(* C01: the weighted (Pedigree) Minimum Error Correction objective, as a
   definition - no algorithm.

   Instance I (a record, also the JSON shape of the trace):
     nInd      number of individuals 1..nInd (order of Pedigree.add_individual)
     trios     sequence of <<father, mother, child>>
     m         number of variant columns 1..m
     rc        rc[c] = recombination cost charged between columns c-1 and c
     reads     sequence of [ind, cells], cells = sequence of <<column, allele, weight>>
               sorted by column; the read set is sorted by first column
     distrust  FALSE: genotypes are constraints; TRUE: phred likelihoods are costs
     gt        gt[i][c] in 0..2 = number of ALT alleles (trusted mode)
     gl        gl[i][c] = <<cost of 0/0, cost of 0/1, cost of 1/1>> (distrust mode)

   A solution is a bipartition part[r] in {0,1} (= index of the haplotype of
   r's individual the read is assigned to), a transmission value per column
   (2 bits per trio: bit 2k = paternal, bit 2k+1 = maternal transmission of
   trio k) and per column an assignment of alleles to the IBD partitions.

   Labelling conventions are those of the implementation (confirmed against it,
   DESIGN.md section 5/C01) because a returned witness can only be costed under
   the labelling it was produced in:  founders own partitions 2j, 2j+1 in
   index order; child haplotype 0 is the father's haplotype 1 - bit(2k), child
   haplotype 1 the mother's haplotype 1 - bit(2k+1). *)
EXTENDS Util, TLC

Inf == 1000000000

NTrios(I) == Len(I.trios)
TVals(I) == 0..((4 ^ NTrios(I)) - 1)
NParts(I) == 2 * (I.nInd - NTrios(I))
Parts(I) == 0..(NParts(I) - 1)

TrioOfChild(I, i) == IF \E k \in DOMAIN I.trios : I.trios[k][3] = i
                     THEN CHOOSE k \in DOMAIN I.trios : I.trios[k][3] = i ELSE 0
Founders(I) == { i \in 1..I.nInd : TrioOfChild(I, i) = 0 }
FounderRank(I, i) == Cardinality({ j \in Founders(I) : j < i })

RECURSIVE PartOf(_, _, _, _)
(* IBD partition of haplotype h (0/1) of individual i under transmission value t *)
PartOf(I, t, i, h) ==
    LET k == TrioOfChild(I, i) IN
    IF k = 0 THEN 2 * FounderRank(I, i) + h
    ELSE IF h = 0 THEN PartOf(I, t, I.trios[k][1], 1 - Bit(t, 2 * (k - 1)))
         ELSE PartOf(I, t, I.trios[k][2], 1 - Bit(t, 2 * (k - 1) + 1))

Assignments(I) == [Parts(I) -> {0, 1}]
GenoOf(I, t, a, i) == a[PartOf(I, t, i, 0)] + a[PartOf(I, t, i, 1)]

Admissible(I, c, t, a) ==
    I.distrust \/ \A i \in 1..I.nInd : GenoOf(I, t, a, i) = I.gt[i][c]

CellsAt(I, c) == { <<r, k>> \in UNION { { <<r, k>> : k \in DOMAIN I.reads[r].cells } : r \in DOMAIN I.reads } :
                      I.reads[r].cells[k][1] = c }

ReadCost(I, c, part, t, a) ==
    LET cs == CellsAt(I, c)
        w == [x \in cs |-> LET cell == I.reads[x[1]].cells[x[2]]
                           IN IF cell[2] # a[PartOf(I, t, I.reads[x[1]].ind, part[x[1]])] THEN cell[3] ELSE 0]
    IN SumOver(cs, w)

GenoCost(I, c, t, a) ==
    IF I.distrust
    THEN SumOver(1..I.nInd, [i \in 1..I.nInd |-> I.gl[i][c][GenoOf(I, t, a, i) + 1]])
    ELSE 0

AssignCost(I, c, part, t, a) == ReadCost(I, c, part, t, a) + GenoCost(I, c, t, a)

AdmSet(I, c, t) == { a \in Assignments(I) : Admissible(I, c, t, a) }

ColCost(I, c, part, t) ==
    LET adm == AdmSet(I, c, t)
    IN IF adm = {} THEN Inf ELSE MinSet({ AssignCost(I, c, part, t, a) : a \in adm })

(* the set of cost-optimal admissible assignments of one column *)
OptAssign(I, c, part, t) ==
    LET adm == AdmSet(I, c, t)
        best == ColCost(I, c, part, t)
    IN { a \in adm : AssignCost(I, c, part, t, a) = best }

Cap(x) == IF x >= Inf THEN Inf ELSE x

(* cost of a complete witness *)
RECURSIVE WitnessCostUpTo(_, _, _, _)
WitnessCostUpTo(I, part, tv, c) ==
    IF c = 0 THEN 0
    ELSE Cap(WitnessCostUpTo(I, part, tv, c - 1)
             + ColCost(I, c, part, tv[c])
             + (IF c > 1 THEN Popcount(Xor(tv[c], tv[c - 1])) * I.rc[c] ELSE 0))
WitnessCost(I, part, tv) == WitnessCostUpTo(I, part, tv, I.m)

(* minimum over transmission vectors for a fixed bipartition: a Viterbi recursion
   so that TLC need not enumerate (4^T)^m vectors; TLCEval forces the row *)
RECURSIVE BestUpTo(_, _, _)
BestUpTo(I, part, c) ==
    IF c = 1 THEN TLCEval([t \in TVals(I) |-> ColCost(I, 1, part, t)])
    ELSE LET prev == BestUpTo(I, part, c - 1)
         IN TLCEval([t \in TVals(I) |->
                Cap(ColCost(I, c, part, t)
                    + MinSet({ prev[j] + Popcount(Xor(t, j)) * I.rc[c] : j \in TVals(I) }))])
BestForPart(I, part) ==
    IF I.m = 0 THEN 0
    ELSE LET last == BestUpTo(I, part, I.m) IN MinSet({ last[t] : t \in TVals(I) })

Bipartitions(I) == [DOMAIN I.reads -> {0, 1}]

(* THE optimum *)
OptCost(I) == MinSet({ BestForPart(I, part) : part \in Bipartitions(I) })

(* well-formedness of an instance (the documented input domain) *)
ReadSorted(r) == \A k \in 1..(Len(r.cells) - 1) : r.cells[k][1] < r.cells[k + 1][1]
InstanceOK(I) ==
    /\ \A r \in DOMAIN I.reads : Len(I.reads[r].cells) >= 1 /\ ReadSorted(I.reads[r])
    /\ \A r \in 1..(Len(I.reads) - 1) : I.reads[r].cells[1][1] <= I.reads[r + 1].cells[1][1]
=============================================================================
