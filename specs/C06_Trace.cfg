SPECIFICATION Spec
