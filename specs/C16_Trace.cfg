SPECIFICATION Spec
