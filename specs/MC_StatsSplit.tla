---------------------------- MODULE MC_StatsSplit ----------------------------
(* Design-level model checking of StatsSplit: every canonical family of at most
   MaxBlocks blocks over NPos positions is an initial state; TLC runs the split
   loop on each and checks the invariants of StatsSplit at every state. *)
EXTENDS StatsSplit
=============================================================================
