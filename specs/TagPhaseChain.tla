---------------------------- MODULE TagPhaseChain ----------------------------
(* C17: the history  V0 --haplotag(reads)--> B,  V0 --unphase--> U,
                     haplotagphase(U, B) --> W
   over a small abstract file system.

   Abstract contents (diploid; sites of all chromosomes in one list):
     VCF  : sample -> site -> call [ph, ps, al, raw]
              ph  the genotype is written with |,  ps its phase set (0 = none),
              al  the allele tuple in written order, raw an opaque id of the
              complete sample column (GT and PS text)
     BAM  : read -> [hp, ps]   (-1 = untagged)
     reads: read -> [smp, tpl (template id: mates, and with linked reads the reads of one barcode molecule, share it), cov (seq of the sites the read fully covers), al (seq of the alleles shown there)]

   Property clauses relate W to V0, U and B.  The abstract commands below are the
   DESIGN of the three subcommands (conventions HP = haplotype index + 1, PS = phase
   set id, vote key = (PS, haplotype xor allele index)); MC_TagPhaseChain checks
   that this design satisfies the clauses on every tiny world. *)
EXTENDS Util

Absent == -1
Het(al) == al[1] # al[2]
CovSet(rd) == Rng(rd.cov)
Shown(rd, j) == rd.al[CHOOSE n \in DOMAIN rd.cov : rd.cov[n] = j]

-----------------------------------------------------------------------------
(* the clauses (one sample s; V0, U, W : site -> call; B : read -> tag) *)
Sites(v) == DOMAIN v

TaggedCover(reads, B, s, j) ==
    { r \in DOMAIN reads : reads[r].smp = s /\ j \in CovSet(reads[r]) /\ B[r].hp # Absent }

(* every site W phases (and U did not) has the ordered alleles it had in V0 *)
OrderRestored(V0, U, W) ==
    \A j \in Sites(W) : (W[j].ph /\ ~U[j].ph /\ V0[j].ph) => W[j].al = V0[j].al

(* ... the genotype it had (multi-allelic records: 1|2 must not come out as 0|1) *)
AllelesKept(V0, U, W) ==
    \A j \in Sites(W) : (W[j].ph /\ ~U[j].ph) => SameBag(W[j].al, V0[j].al)

(* ... and the phase set of the reads covering it *)
SetOfCoveringReads(reads, B, s, U, W) ==
    \A j \in Sites(W) : (W[j].ph /\ ~U[j].ph) =>
        /\ TaggedCover(reads, B, s, j) # {}
        /\ \A r \in TaggedCover(reads, B, s, j) : B[r].ps = W[j].ps

(* calls that were phased in the input of haplotagphase are not altered *)
PrephasedUntouched(U, W) ==
    \A j \in Sites(W) : U[j].ph => W[j].raw = U[j].raw

(* premise of the statement: no read overlaps two phase sets of V0.  Made precise: phase sets are
   separated by gaps no read spans, i.e. the reads (templates: mates share tpl) that cover one
   site touch, all together, at most one phase set *)
(* haplotag reads bi-allelic records only; haplotagphase also votes on multi-allelic ones *)
Biallelic(al) == \A x \in DOMAIN al : al[x] \in {0, 1}
TouchedSets(v, rd) == { v[j].ps : j \in { i \in CovSet(rd) : v[i].ph /\ Het(v[i].al) /\ Biallelic(v[i].al) } }
TemplateSets(reads, V0s, r) ==
    UNION { TouchedSets(V0s[reads[q].smp], reads[q]) : q \in { x \in DOMAIN reads : reads[x].tpl = reads[r].tpl } }
SetsSeparated(reads, V0s) ==
    \A s \in DOMAIN V0s : \A j \in DOMAIN V0s[s] :
        Cardinality(UNION { TemplateSets(reads, V0s, r) :
                            r \in { x \in DOMAIN reads : reads[x].smp = s /\ j \in CovSet(reads[x]) } }) <= 1

-----------------------------------------------------------------------------
(* the design of the commands, on one sample *)
Agree(v, rd, p, h) ==
    Cardinality({ j \in CovSet(rd) : v[j].ph /\ Het(v[j].al) /\ Biallelic(v[j].al) /\ v[j].ps = p /\ Shown(rd, j) = v[j].al[h] })

(* haplotag: any touched set with a maximal top score; tag iff the best haplotype is unique *)
TagChoices(v, rd) ==
    LET T == TouchedSets(v, rd)
        top(p) == Max2(Agree(v, rd, p, 1), Agree(v, rd, p, 2))
        M == { p \in T : \A q \in T : top(q) <= top(p) } IN
    IF T = {} THEN { [hp |-> Absent, ps |-> Absent] }
    ELSE { IF Agree(v, rd, p, 1) = Agree(v, rd, p, 2) THEN [hp |-> Absent, ps |-> Absent]
           ELSE [hp |-> IF Agree(v, rd, p, 1) > Agree(v, rd, p, 2) THEN 1 ELSE 2, ps |-> p] : p \in M }

(* raw id of a call: a function of its visible content *)
RawOf(ph, ps, al) == << ph, ps, al >>
Call(ph, ps, al) == [ph |-> ph, ps |-> ps, al |-> al, raw |-> RawOf(ph, ps, al)]
Sorted2(al) == IF al[1] <= al[2] THEN al ELSE << al[2], al[1] >>

UnphaseCall(c) == Call(FALSE, 0, Sorted2(c.al))
(* unphase everything but the sets in keep (keep = {} is `whatshap unphase`) *)
UnphaseOp(v, keep) == [ j \in DOMAIN v |-> IF v[j].ph /\ v[j].ps \in keep THEN v[j] ELSE UnphaseCall(v[j]) ]

(* haplotagphase: quality-weighted votes per (PS, haplotype xor allele index); the allele index is the position of
   the shown allele in the sorted genotype (0/1, 0/2, 1/2 ...); all qualities equal here *)
AlleleId(al, x) == IF x = Sorted2(al)[1] THEN 0 ELSE 1
Votes(reads, B, s, u, j, p, a0) ==
    Cardinality({ r \in DOMAIN reads : /\ r \in TaggedCover(reads, B, s, j)
                                       /\ B[r].ps = p
                                       /\ ((B[r].hp - 1) + AlleleId(u[j].al, Shown(reads[r], j))) % 2 = a0 })
VoteKeys(reads, B, s, j) == { B[r].ps : r \in TaggedCover(reads, B, s, j) } \X {0, 1}
TotalVotes(reads, B, s, j) ==
    Cardinality(TaggedCover(reads, B, s, j))

PhaseCallChoices(reads, B, s, u, j, threshold) ==
    IF u[j].ph \/ ~Het(u[j].al) \/ TaggedCover(reads, B, s, j) = {} THEN { u[j] }
    ELSE LET K == VoteKeys(reads, B, s, j)
             best == { k \in K : \A q \in K : Votes(reads, B, s, u, j, q[1], q[2]) <= Votes(reads, B, s, u, j, k[1], k[2]) } IN
         { IF 100 * Votes(reads, B, s, u, j, k[1], k[2]) < threshold * TotalVotes(reads, B, s, j)
           THEN u[j]
           ELSE Call(TRUE, k[1], << Sorted2(u[j].al)[k[2] + 1], Sorted2(u[j].al)[2 - k[2]] >>) : k \in best }
=============================================================================
