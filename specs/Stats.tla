------------------------------- MODULE Stats -------------------------------
(* Property-level specification of `whatshap stats` (C12).

   Abstract input: the VCF as decoded for ONE sample.  A file is a sequence of
   chromosomes [name, sites]; a site (one biallelic record, positions distinct
   and increasing within a chromosome) is

       [pos |-> POS (1-based),
        snv |-> REF and ALT are single bases,
        gt  |-> the alleles of the call, -1 for a missing allele ('.'),
        ps  |-> the id of the phase set the call is tagged with, -1 if it
                carries no phase information
                (PS encoding: all separators '|' and an integer PS value;
                 HP encoding: an HP value "id-1,id-2,...")]

   Every number `whatshap stats` reports for a chromosome is DEFINED here as a
   count over this view; the trace spec C12_Trace compares the numbers parsed
   from the --tsv / --block-list / --gtf / text outputs with these definitions.

   A call is heterozygous iff it is fully called and not all alleles are equal.
   In particular a call with a missing allele ('./.', '0/.', '.|1') is neither
   heterozygous nor member of a phase set: nothing is known about its zygosity. *)
EXTENDS Integers, Sequences, FiniteSets, Util

Called(s) == \A i \in DOMAIN s.gt : s.gt[i] >= 0
Het(s)    == Called(s) /\ \E i \in DOMAIN s.gt : s.gt[i] # s.gt[1]
InSet(s)  == Het(s) /\ s.ps >= 0          \* phased: member of phase set s.ps
Unph(s)   == Het(s) /\ s.ps < 0

(* the records `stats` looks at: all, or only the SNVs with --only-snvs *)
Considered(sites, onlySnvs) == SelectSeq(sites, LAMBDA s : onlySnvs => s.snv)

Idx(V, P(_)) == { i \in DOMAIN V : P(V[i]) }
NumIf(V, P(_)) == Cardinality(Idx(V, P))

(* ---- phase sets of one chromosome view V ---- *)
SetIds(V)       == { V[i].ps : i \in Idx(V, InSet) }
Members(V, id)  == { V[i].pos : i \in { j \in Idx(V, InSet) : V[j].ps = id } }
MemberIdx(V, id) == { j \in Idx(V, InSet) : V[j].ps = id }
Size(V, id)     == Cardinality(MemberIdx(V, id))
Lo(V, id)       == MinSet(Members(V, id))
Hi(V, id)       == MaxSet(Members(V, id))
BlockIds(V)     == { id \in SetIds(V) : Size(V, id) >= 2 }      \* "blocks": phase sets with >= 2 variants
SingletonIds(V) == { id \in SetIds(V) : Size(V, id) = 1 }

(* ---- the reported numbers ---- *)
Variants(V)   == Len(V)
Hets(V)       == NumIf(V, Het)
HetSnvs(V)    == NumIf(V, LAMBDA s : Het(s) /\ s.snv)
Unphased(V)   == NumIf(V, Unph)
Singletons(V) == Cardinality(SingletonIds(V))
Blocks(V)     == Cardinality(BlockIds(V))
Phased(V)     == SumOver(BlockIds(V), [id \in BlockIds(V) |-> Size(V, id)])
PhasedSnvs(V) == SumOver(BlockIds(V), [id \in BlockIds(V) |->
                     Cardinality({ j \in MemberIdx(V, id) : V[j].snv })])

(* identities between the numbers (theorems of the definitions; Gen_C12 lets TLC
   confirm them on every enumerated pattern) *)
Identities(V) ==
    /\ Phased(V) + Unphased(V) + Singletons(V) = Hets(V)
    /\ Phased(V) >= 2 * Blocks(V)
    /\ HetSnvs(V) <= Hets(V) /\ Hets(V) <= Variants(V)
    /\ PhasedSnvs(V) <= Phased(V) /\ PhasedSnvs(V) <= HetSnvs(V)

(* ---- block list: one line per phase set (singletons included) ---- *)
BlockLines(V) == { <<id, Lo(V, id), Hi(V, id), Size(V, id)>> : id \in SetIds(V) }

(* ---- block lengths ---- *)
(* the span covered by the blocks: measure of the union of their hulls [Lo, Hi],
   counted in unit segments [p, p+1] *)
CoveredSpan(V) ==
    IF BlockIds(V) = {} THEN 0
    ELSE LET lo == MinSet({ Lo(V, id) : id \in BlockIds(V) })
             hi == MaxSet({ Hi(V, id) : id \in BlockIds(V) })
         IN Cardinality({ p \in lo..(hi - 1) : \E id \in BlockIds(V) : Lo(V, id) <= p /\ p < Hi(V, id) })
HullsDisjoint(V) == \A a, b \in BlockIds(V) : a # b => (Hi(V, a) < Lo(V, b) \/ Hi(V, b) < Lo(V, a))
SpanSum(V) == SumOver(BlockIds(V), [id \in BlockIds(V) |-> Hi(V, id) - Lo(V, id)])
(* lengths are taken on non-overlapping pieces of the blocks, so their sum is at
   most the covered span; when no two blocks overlap the pieces are the blocks *)
BpSumOK(V, bpsum) == /\ bpsum <= CoveredSpan(V)
                     /\ bpsum >= 0
BpSumExact(V, bpsum) == HullsDisjoint(V) => bpsum = SpanSum(V)

(* ---- families of blocks given directly as sets of positions (replay of
        StatsSplit families into the real PhasingStats) ---- *)
FLo(b) == MinSet(b)
FHi(b) == MaxSet(b)
FamBig(fam) == { i \in DOMAIN fam : Cardinality(fam[i]) >= 2 }
FamCovered(fam) ==
    IF FamBig(fam) = {} THEN 0
    ELSE LET lo == MinSet({ FLo(fam[i]) : i \in FamBig(fam) })
             hi == MaxSet({ FHi(fam[i]) : i \in FamBig(fam) })
         IN Cardinality({ p \in lo..(hi - 1) : \E i \in FamBig(fam) : FLo(fam[i]) <= p /\ p < FHi(fam[i]) })
(* canonical families: label sequences over 0..mb (0 = position in no block) in
   which label k+1 first occurs after label k (blocks numbered by their leftmost
   position); FamOf turns a labelling into the sequence of blocks *)
RECURSIVE MaxLab(_)
MaxLab(s) == IF s = <<>> THEN 0 ELSE Max2(s[Len(s)], MaxLab(SubSeq(s, 1, Len(s) - 1)))
NextLabels(s, mb) == 0..Min2(MaxLab(s) + 1, mb)
RECURSIVE Labellings(_, _)
Labellings(n, mb) == IF n = 0 THEN { <<>> }
                     ELSE UNION { { Append(s, k) : k \in NextLabels(s, mb) } : s \in Labellings(n - 1, mb) }
FamOf(lb) == [k \in 1..MaxLab(lb) |-> { p \in DOMAIN lb : lb[p] = k }]
(* the blocks are cut only where another block overlaps: two variants u < v of a
   block with no other block's hull meeting [u, v] stay in one piece (pieces =
   a set of sets of positions).  Special case: a block that overlaps no other
   block is itself a piece. *)
KeptTogether(fam, pieces) ==
    \A i \in FamBig(fam) : \A u, v \in fam[i] :
        (u < v /\ \A j \in FamBig(fam) \ {i} : (FHi(fam[j]) < u \/ v < FLo(fam[j])))
        => \E o \in pieces : u \in o /\ v \in o
FamFree(fam, i) == \A j \in FamBig(fam) : j # i => (FHi(fam[i]) < FLo(fam[j]) \/ FHi(fam[j]) < FLo(fam[i]))
=============================================================================
