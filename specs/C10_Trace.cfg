SPECIFICATION Spec
