----------------------------- MODULE PedPipeline -----------------------------
(* Design-level composition for C05: a trio on one chromosome, trusted
   genotypes.  Stages as contracts:

     Filter   sites with a missing genotype or a Mendelian conflict are removed (find_phaseable_variants)
     Solve    ANY optimal solution of the PedMEC instance over the retained sites (C01's contract, PedMEC.tla),
              super-read alleles = an optimal assignment where all optimal assignments agree, tie flag otherwise
     Write    a call is phased iff its site was retained, its alleles are no tie and the call is heterozygous;
              GT = hap0 | hap1

   TLC explores every genotype combination of the trio over NSites sites, an optional read per individual, every
   optimal solution, and checks the sentences of C05 on what is written: paternal|maternal order, consistency with the
   reported transmission, conflict/missing sites unphased, child-heterozygous sites with a homozygous parent phased
   even without reads.  This shows the C05 clauses are CONSEQUENCES of the solver contract plus the IBD labelling. *)
EXTENDS Util, TLC, FiniteSets
CONSTANTS NSites, WithReads
VARIABLES gt, reads, pc, tv, part, sr, out
vars == <<gt, reads, pc, tv, part, sr, out>>
MEC == INSTANCE PedMEC

Sites == 1..NSites
F == 1  M == 2  C == 3
Genos == {0, 1, 2, 9}                 \* number of ALT alleles; 9 = missing
AllelesOf(g) == IF g = 0 THEN {0} ELSE IF g = 2 THEN {1} ELSE {0, 1}
Conflict(f, m, c) == ~\E x \in AllelesOf(f), y \in AllelesOf(m) : x + y = c
Bad(s) == gt[F][s] = 9 \/ gt[M][s] = 9 \/ gt[C][s] = 9 \/ Conflict(gt[F][s], gt[M][s], gt[C][s])
Kept == { s \in Sites : ~Bad(s) /\ \E i \in 1..3 : gt[i][s] = 1 }
KeptSeq == LET RECURSIVE B(_, _)
               B(T, acc) == IF T = {} THEN acc ELSE B(T \ {MinSet(T)}, Append(acc, MinSet(T)))
           IN B(Kept, <<>>)
Col(s) == CHOOSE k \in DOMAIN KeptSeq : KeptSeq[k] = s

ReadOpts == { <<>> } \cup (IF WithReads THEN { << [ind |-> i, al |-> a] >> : i \in 1..3, a \in [Sites -> {0, 1}] } ELSE {})
Init == /\ gt \in [1..3 -> [Sites -> Genos]]
        /\ reads \in ReadOpts
        /\ pc = "solve" /\ tv = <<>> /\ part = <<>> /\ sr = <<>> /\ out = <<>>

Inst == [nInd |-> 3, trios |-> << <<F, M, C>> >>, m |-> Len(KeptSeq), rc |-> [c \in DOMAIN KeptSeq |-> 1],
         reads |-> IF reads = <<>> \/ Cardinality(Kept) < 2 THEN <<>>
                   ELSE << [ind |-> reads[1].ind, cells |-> [k \in DOMAIN KeptSeq |-> <<k, reads[1].al[KeptSeq[k]], 1>>]] >>,
         distrust |-> FALSE,
         gt |-> [i \in 1..3 |-> [k \in DOMAIN KeptSeq |-> gt[i][KeptSeq[k]]]],
         gl |-> [i \in 1..3 |-> [k \in DOMAIN KeptSeq |-> <<0, 0, 0>>]]]
TIE == 3
TVs == [DOMAIN KeptSeq -> MEC!TVals(Inst)]
Solve ==
    /\ pc = "solve"
    /\ \E p \in MEC!Bipartitions(Inst) : \E t \in TVs :
          /\ MEC!WitnessCost(Inst, p, t) = MEC!OptCost(Inst)
          /\ part' = p /\ tv' = t
          \* the solver reports an allele exactly where all optimal assignments of the column agree, a tie flag otherwise
          /\ sr' = [k \in DOMAIN KeptSeq |-> [i \in 1..3 |-> [hh \in 1..2 |->
                      LET opt == MEC!OptAssign(Inst, k, p, t[k])
                          vals == { a[MEC!PartOf(Inst, t[k], i, hh - 1)] : a \in opt }
                      IN IF Cardinality(vals) = 1 THEN CHOOSE v \in vals : TRUE ELSE TIE]]]
    /\ pc' = "write"
    /\ UNCHANGED <<gt, reads, out>>
Write ==
    /\ pc = "write"
    /\ out' = [i \in 1..3 |-> [s \in Sites |->
                 IF s \in Kept /\ sr[Col(s)][i][1] # TIE /\ sr[Col(s)][i][2] # TIE /\ gt[i][s] = 1
                 THEN [ph |-> TRUE, a |-> sr[Col(s)][i][1], b |-> sr[Col(s)][i][2]]
                 ELSE [ph |-> FALSE, a |-> 0, b |-> 0]]]
    /\ pc' = "done"
    /\ UNCHANGED <<gt, reads, tv, part, sr>>
Next == Solve \/ Write
Spec == Init /\ [][Next]_vars

Done == pc = "done"
PaternalMaternal ==
    Done => \A s \in Sites : out[C][s].ph => (out[C][s].a \in AllelesOf(gt[F][s]) /\ out[C][s].b \in AllelesOf(gt[M][s]))
TransmissionConsistent ==
    Done => \A s \in Kept :
        LET t == tv[Col(s)] fb == Bit(t, 0) mb == Bit(t, 1) IN
        out[C][s].ph =>
            /\ out[F][s].ph => out[C][s].a = (IF fb = 1 THEN out[F][s].a ELSE out[F][s].b)
            /\ out[M][s].ph => out[C][s].b = (IF mb = 1 THEN out[M][s].a ELSE out[M][s].b)
ConflictOrMissingUnphased == Done => \A s \in Sites : Bad(s) => \A i \in 1..3 : ~out[i][s].ph
GeneticHaplotyping ==
    Done => \A s \in Sites : (~Bad(s) /\ gt[C][s] = 1 /\ (gt[F][s] \in {0, 2} \/ gt[M][s] \in {0, 2})) => out[C][s].ph
GenotypeKept == Done => \A i \in 1..3 : \A s \in Sites : out[i][s].ph => out[i][s].a + out[i][s].b = gt[i][s]
=============================================================================
