------------------------------ MODULE PolyCuts ------------------------------
(* Implementation-shaped model of how `whatshap polyphase` turns the breakpoints of
   the reordering stage into phase sets:

     whatshap/polyphase/algorithm.py: compute_cut_positions   (actions Step, EndLoop)
     whatshap/cli/polyphase.py: phase_single_individual       (action Translate)

   n read-covered heterozygous variants with indices 0..n-1 and positions acc[0..n-1]
   (strictly increasing; neighbours may be adjacent bases: the code also writes the key
   position+1).  Breakpoints come sorted by index, the first one is the block start at
   index 0 with confidence 0 (aggregate_results).  A breakpoint is [pos, haps, lc]:
   lc = 1 stands for confidence 0.0 ("always cut"), lc <= 0 for log(confidence) in
   integer units; the thresholds log(0.5), log(0.99) are -2 and -1 in these units and
   -inf is NegInf.

   Checked: the components produced satisfy Polyphase!IntervalsOK for EVERY subset of
   phased variants (a variant is left unphased when a haplotype slot is undetermined),
   in both formulations of the clause.                                                  *)
EXTENDS Polyphase, TLC
CONSTANTS MaxVars, Ploidy, Sensitivities, LogConfs, AccChoices
VARIABLES pcc, n, sens, acc, bps, k, cuts, rem, comp
cvars == <<pcc, n, sens, acc, bps, k, cuts, rem, comp>>

NegInf == -1000
Haps == 0..(Ploidy - 1)
Min3(p) == IF p < 3 THEN p ELSE 3
Threshold(s)    == CASE s = 0 -> NegInf [] s = 1 -> NegInf [] s = 2 -> -2 [] s = 3 -> -2 [] s = 4 -> -1 [] s = 5 -> 0
ThresholdNum(s) == CASE s = 0 -> Ploidy [] s = 1 -> Ploidy [] s = 2 -> Min3(Ploidy) [] s = 3 -> 2 [] s = 4 -> 2 [] s = 5 -> 0

HapSets == { H \in SUBSET Haps : Cardinality(H) >= 2 }
None == [pos |-> -1]
BpAt(i) == { [pos |-> i, haps |-> H, lc |-> c] : H \in HapSets, c \in LogConfs \cup {1} }
(* breakpoint lists: at most one per index (duplicates are joined by integrate_sub_results) *)
RECURSIVE BpLists(_, _)
BpLists(i, m) == IF i >= m THEN { <<>> }
                 ELSE { <<b>> \o t : b \in BpAt(i), t \in BpLists(i + 1, m) } \cup BpLists(i + 1, m)
First == [pos |-> 0, haps |-> Haps, lc |-> 1]

Init == /\ pcc = "loop"
        /\ n \in 1..MaxVars
        /\ sens \in Sensitivities
        /\ acc \in { a \in AccChoices : Len(a) = n }
        /\ bps \in { <<First>> \o t : t \in BpLists(1, n) }
        /\ k = 1
        /\ cuts = <<>>
        /\ rem = [h \in Haps |-> 0]
        /\ comp = << >>

Last(s) == s[Len(s)]
Zero == [h \in Haps |-> 0]

(* one iteration of `for b in breakpoints` *)
Step ==
    /\ pcc = "loop"
    /\ k <= Len(bps)
    /\ LET b == bps[k] IN
       IF cuts # <<>> /\ Last(cuts) = b.pos                      \* avoid duplicate cut positions
       THEN k' = k + 1 /\ UNCHANGED <<cuts, rem, pcc>>
       ELSE IF cuts # <<>> /\ sens = 0                           \* only the first cut for sensitivity 0: break
       THEN pcc' = "translate" /\ UNCHANGED <<cuts, rem, k>>
       ELSE IF b.lc = 1                                          \* zero confidence: always cut
       THEN cuts' = Append(cuts, b.pos) /\ rem' = Zero /\ k' = k + 1 /\ UNCHANGED pcc
       ELSE LET r == [h \in Haps |-> IF h \in b.haps THEN rem[h] + b.lc ELSE rem[h]] IN
            IF Cardinality({ h \in Haps : r[h] <= Threshold(sens) }) >= ThresholdNum(sens)
            THEN cuts' = Append(cuts, b.pos) /\ rem' = Zero /\ k' = k + 1 /\ UNCHANGED pcc
            ELSE rem' = r /\ k' = k + 1 /\ UNCHANGED <<cuts, pcc>>
    /\ UNCHANGED <<n, sens, acc, bps, comp>>

EndLoop == /\ pcc = "loop" /\ k > Len(bps)
           /\ pcc' = "translate"
           /\ UNCHANGED <<n, sens, acc, bps, k, cuts, rem, comp>>

(* phase_single_individual: cuts = cuts + [num_vars]; for i: for pos in range(cuts[i], cuts[i+1]):
   components[accessible_pos[pos]] = accessible_pos[cuts[i]]; components[accessible_pos[pos] + 1] = the same.
   The dictionary is modelled by the sequence of writes; the last write of a key wins. *)
Acc(j) == acc[j + 1]                              \* 0-based index into the 1-based sequence
CutsE == cuts \o <<n>>
RECURSIVE WritesOf(_, _)
WritesOf(i, j) ==      \* writes of interval i from index j on
    IF i > Len(cuts) THEN <<>>
    ELSE IF j >= CutsE[i + 1] THEN (IF i + 1 > Len(cuts) THEN <<>> ELSE WritesOf(i + 1, CutsE[i + 1]))
    ELSE << <<Acc(j), Acc(cuts[i])>>, <<Acc(j) + 1, Acc(cuts[i])>> >> \o WritesOf(i, j + 1)
Writes == IF cuts = <<>> THEN <<>> ELSE WritesOf(1, cuts[1])
DictOf(w) == [ key \in { w[i][1] : i \in DOMAIN w } |->
                 w[MaxSet({ i \in DOMAIN w : w[i][1] = key })][2] ]

Translate == /\ pcc = "translate"
             /\ comp' = DictOf(Writes)
             /\ pcc' = "done"
             /\ UNCHANGED <<n, sens, acc, bps, k, cuts, rem>>

Next == Step \/ EndLoop \/ Translate
Spec == Init /\ [][Next]_cvars

(* ---- invariants ---- *)
CutsIncreasing == /\ \A i \in DOMAIN cuts : cuts[i] \in 0..(n - 1)
                  /\ \A i \in 1..(Len(cuts) - 1) : cuts[i] < cuts[i + 1]
FirstCutAtStart == pcc \in {"translate", "done"} => (cuts # <<>> /\ cuts[1] = 0)
AllNamed == pcc = "done" => \A j \in 0..(n - 1) : Acc(j) \in DOMAIN comp
Sites(P) == { [key |-> Acc(j), ps |-> comp[Acc(j)]] : j \in P }
IntervalsHold == pcc = "done" => \A P \in SUBSET (0..(n - 1)) : IntervalsOK(Rng(acc), Sites(P))
PartitionHolds == pcc = "done" => \A P \in SUBSET (0..(n - 1)) : IntervalsByPartition(Rng(acc), Sites(P))
(* the blocks are exactly the runs between cuts, each named by its first variant *)
NamedByRunStart == pcc = "done" => \A j \in 0..(n - 1) :
                      comp[Acc(j)] = Acc(MaxSet({ c \in Rng(cuts) : c <= j }))

(* the pairwise and the partition formulation of the clause agree on every labelling of
   up to 4 keys (0 = site not phased) *)
Labelings == [1..4 -> 0..4]
SitesOf(f) == { [key |-> x, ps |-> f[x]] : x \in { y \in 1..4 : f[y] # 0 } }
ASSUME \A A \in SUBSET (1..4) : \A f \in Labelings :
          IntervalsOK(A, SitesOf(f)) <=> IntervalsByPartition(A, SitesOf(f))
=============================================================================
