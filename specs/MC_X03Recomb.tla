---------------------------- MODULE MC_X03Recomb ----------------------------
(* Design level: recombination_cost_map sweeps two pointers (i, j) over the genetic map while
   it walks through the sorted positions.  For every small map and every sorted position list
   the pointers it ends up with are Lo / Hi of the functional definition (X03Ped), so the
   branch taken (before the map / inside / beyond) is the right one, and the theorems
     Monotone    a non-decreasing map gives non-negative distances,
     LinearIsUniform  a map on a line through the origin gives distance = slope * bp
                 (the genetic-map computer then equals the uniform one),
     Additive    cumulative distances add up along the walk
   hold for the functional definition.  Sorted = FALSE walks an unsorted list (negative
   control: the pointers only move forward, SweepIsLoHi is violated). *)
EXTENDS X03Ped, Sequences
CONSTANTS MaxPos, MaxCum, Sorted
VARIABLES map, pos, k, i, j, ok

vars == <<map, pos, k, i, j, ok>>
Maps == { m \in UNION { [1..n -> (1..MaxPos) \X (0..MaxCum)] : n \in 1..2 } :
            \A a \in 1..(Len(m) - 1) : m[a][1] < m[a + 1][1] }
PosLists == { p \in UNION { [1..n -> 0..(MaxPos + 1)] : n \in 1..3 } : Sorted => IsSortedAsc(p) }

Init == map \in Maps /\ pos \in PosLists /\ k = 1 /\ i = 0 /\ j = 1 /\ ok = TRUE

RECURSIVE AdvI(_, _, _)
AdvI(m, ii, p) == IF ii # 0 /\ ii + 1 <= Len(m) /\ m[ii + 1][1] <= p THEN AdvI(m, ii + 1, p) ELSE ii
RECURSIVE AdvJ(_, _, _)
AdvJ(m, jj, p) == IF jj # 0 /\ m[jj][1] < p THEN (IF jj + 1 <= Len(m) THEN AdvJ(m, jj + 1, p) ELSE 0) ELSE jj

Step == /\ k <= Len(pos)
        /\ LET p == pos[k]
               i0 == IF i = 0 /\ map[1][1] <= p THEN 1 ELSE i
               i1 == AdvI(map, i0, p)
               j1 == AdvJ(map, j, p) IN
           /\ i' = i1 /\ j' = j1
           /\ ok' = (i1 = Lo(map, p) /\ j1 = Hi(map, p))
        /\ k' = k + 1 /\ UNCHANGED <<map, pos>>
Spec == Init /\ [][Step]_vars

SweepIsLoHi == ok
NeverBothNone == ~(i = 0 /\ j = 0)
NonDecreasing(m) == \A a \in 1..(Len(m) - 1) : m[a][2] <= m[a + 1][2]
(* compare fractions a/b <= c/d with positive denominators *)
FracLeq(x, y) == x[1] * y[2] <= y[1] * x[2]
Monotone == NonDecreasing(map) => \A a \in 1..(Len(pos) - 1) :
                pos[a] <= pos[a + 1] => FracLeq(CumFrac(map, pos[a]), CumFrac(map, pos[a + 1]))
LinearIsUniform == \A s \in 0..2 : (\A a \in DOMAIN map : map[a][2] = s * map[a][1]) =>
                      \A a \in DOMAIN pos : LET fr == CumFrac(map, pos[a]) IN fr[1] = s * pos[a] * fr[2]
AtMapPoints == \A a \in DOMAIN map : LET fr == CumFrac(map, map[a][1]) IN fr[1] = map[a][2] * fr[2]
=============================================================================
