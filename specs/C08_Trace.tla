------------------------------ MODULE C08_Trace ------------------------------
(* Trace validation for C08.  One ndjson line per event; every clause is
   evaluated on every line, a failing clause prints a VERDICT and validation
   continues.

   events
     Posterior  one numeric instance of one HMM shape run through the real
                GenotypeDPTable.  The reference values come from a plain sum-product
                over the state graph TLC generated from GenoHMM for that shape (exact
                60-digit arithmetic in the driver).  entries: one record per
                (individual i, column c, genotype g) with err = relative deviation of
                the code's likelihood in units of 10^-12 (capped at 2*10^9; for a
                reference of exactly 0 the absolute value) and ok = (err <= tol).
                nInd, m, nedges (size of TLC's graph), tol; maxcov = largest number of
                reads active in one column (the shapes reach 12: the column's Gray code
                then runs through 4096 bipartitions), deepblank = some column with >= 9
                active reads has a BLANK entry (a read spanning the column without
                covering it) in front of a covering read at index >= 8.
     Determine  one direct call determine_genotype(<<x,y,z>>/G, thr/G) on a pair
                enumerated by TLC (Gen_C08): gt = ALT count or -1.
     Run        one in-process run of `whatshap genotype` on a materialised world:
                exc, and the projection of input and output VCF (record identity
                columns and sample names interned to integers; whole lines of the
                chromosomes that were not selected).
     Call       one genotyped call (record x sample of a selected chromosome and
                sample, biallelic record) of an output VCF of that run: q = the
                --gt-qual-threshold, L = 10^GL in ppm, gt = ALT count | -1 no call |
                -2 anything else, gq (-1 absent), mp = milli-phred (-10000 log10) of the
                summed 10^GL of the other two genotypes - taken in the log domain from the
                written GL values, never as 1 - max -, [mp_lo, mp_hi] = the same for the
                ends of the rounding interval of the written GLs (6 significant digits of
                a 32-bit float), masszero (both other GLs are the -1000 floor).
                file = main | prior | writer (writer: GenotypeVcfWriter.write_genotypes
                called directly on a table holding TLC-independent extreme triples). *)
EXTENDS GenoCall, Json, IOUtils, TLC
Trace == ndJsonDeserialize(IOEnv.TRACE_FILE)
VARIABLES l
vars == <<l>>

Fail(e, c) == PrintT(<<"VERDICT", e.tid, e.seq, c>>)
Check(e, c, ok) == IF ok THEN TRUE ELSE Fail(e, c)

GLTol == 100     \* ppm: GL is a 32-bit float printed with 6 significant digits
CallEps == 3     \* ppm: what 6 significant digits of log10 can hide (MC: CallWithinIsBoxImage)

JudgePosterior(e) ==
    /\ Check(e, "PosteriorMatchesHMM",
             /\ Len(e.entries) = 3 * e.nInd * e.m
             /\ \A i \in 1..e.nInd, c \in 1..e.m, g \in Genos :
                   \E x \in DOMAIN e.entries : e.entries[x].i = i /\ e.entries[x].c = c /\ e.entries[x].g = g
             /\ \A x \in DOMAIN e.entries : e.entries[x].ok /\ e.entries[x].err >= 0 /\ e.entries[x].err <= e.tol
             /\ e.tol = 1000 /\ e.nedges > 0
             /\ e.maxcov \in 0..e.nreads /\ (e.deepblank => e.maxcov >= 9))

JudgeDetermine(e) ==
    LET u == Scale \div e.G
    IN Check(e, "GTisUniqueMaxAboveThreshold", e.gt = Call(<<e.x * u, e.y * u, e.z * u>>, e.thr * u))

JudgeRun(e) ==
    /\ Check(e, "Returns", e.exc = "")
    /\ Check(e, "UntouchedOtherwise",
             e.exc = "" => /\ e.out_records = e.in_records
                           /\ e.out_samples = e.in_samples
                           /\ e.out_unselected = e.in_unselected)

JudgeCall(e) ==
    /\ Check(e, "GLisDistribution", Len(e.L) = 3 /\ IsDistribution(e.L, GLTol))
    /\ Check(e, "GTisUniqueMaxAboveThreshold",
             Len(e.L) = 3 /\ e.q \in DOMAIN ErrPpm /\ CallWithin(e.L, ThrPpm(e.q), CallEps, e.gt))
    /\ Check(e, "GQisOtherMass",
             IF e.gt = NoCall THEN e.gq = -1
             ELSE IF e.gt \notin Genos THEN FALSE
             ELSE IF e.masszero THEN e.gq = GQCap
             ELSE /\ e.mp_lo <= e.mp /\ e.mp <= e.mp_hi
                  /\ e.mp_hi - e.mp_lo <= 2 * MpTol(e.mp)      \* the driver cannot widen the interval at will
                  /\ e.gq \in GQBetween(e.mp_lo, e.mp_hi))

Judge(e) ==
    CASE e.ev = "Posterior" -> JudgePosterior(e)
      [] e.ev = "Determine" -> JudgeDetermine(e)
      [] e.ev = "Run"       -> JudgeRun(e)
      [] e.ev = "Call"      -> JudgeCall(e)
      \* a variant that is not part of the HMM (no read links it to another variant) does not influence the calls of the others:
      \* the run with and the run without that record report the same GT / GQ / GL for the remaining variants
      [] e.ev = "Gap"       -> /\ Check(e, "Returns", e.exc = "")
                               /\ e.exc = "" => Check(e, "OutsideVariantIsIrrelevant", e.a = e.b)
      [] e.ev = "Crashed"   -> Fail(e, "Returns")
      [] OTHER              -> Fail(e, "UnknownEvent")

Init == l = 1
Next == /\ l <= Len(Trace)
        /\ Judge(Trace[l])
        /\ l' = l + 1
Spec == Init /\ [][Next]_vars
=============================================================================
