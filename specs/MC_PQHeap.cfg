SPECIFICATION MCSpec
CONSTANTS Items = {1, 2, 3, 4}
          Scores <- S5
          Depth = 1000
          MaxLen = 4
          PopWeight = 1
VIEW NoView
CONSTRAINT Bound
INVARIANT HeapOrder
INVARIANT PosSync
INVARIANT NoDupItem
PROPERTY Refines
