--------------------------- MODULE MC_ReadSelectAlg ---------------------------
EXTENDS ReadSelectAlg, SequencesExt
CONSTANTS NIdxMax, NReadsMax, KMax
Shapes == { SetToSortSeq(S, <) : S \in { T \in SUBSET (1..NIdxMax) : Cardinality(T) >= 2 } }
RECURSIVE ReadSeqs(_)
ReadSeqs(n) == IF n = 0 THEN { <<>> } ELSE LET sh == ReadSeqs(n - 1) IN
               sh \cup { Append(s, r) : s \in { u \in sh : Len(u) = n - 1 }, r \in Shapes }
(* read sets as sequences in non-decreasing lexicographic order (multisets) *)
Ordered(s) == \A i \in 1..(Len(s) - 1) : s[i] = s[i + 1] \/ LexLess(s[i], s[i + 1])
MCInit == \E rs \in { s \in ReadSeqs(NReadsMax) : Ordered(s) } : \E kk \in 1..KMax : \E pf \in SUBSET (DOMAIN rs) :
             InitWith(rs, kk, pf)
Spec == MCInit /\ [][Next]_vars /\ Fair
=============================================================================
