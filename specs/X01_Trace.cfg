SPECIFICATION Spec
