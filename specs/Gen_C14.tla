------------------------------- MODULE Gen_C14 -------------------------------
(* Scenario generation by TLC for C14 (spec -> code).

   Tiny     the COMPLETE product  read-name sequences (<= 3 reads over 2 names)
            x lists over 2 names (absent / none / H1,H2 in one of two phase sets)
            x option records of ploidy 2 that pass the CLI's validation;
            every TinySample-th element of TLC's enumeration order is written
            (TinySample = 1: all of them)
   Lattice  LatticeN points of the large space (<= 6 reads over 5 names with
            lengths 0..2, lists with <= 5 lines over three blocks on two
            chromosomes, ploidy 2..4, every option): every component of point k
            is decoded arithmetically from (k * a + b) mod prime, so the components
            are mutually decorrelated; the space itself (> 10^13 points) is never
            materialised

   Each scenario carries `mat`, the choices that only concern how the abstract
   input is written to files: reads format, 2/4 list columns, header line,
   gzipped list, line order, --output-h1/-h2 versus -o, length pattern.       *)
EXTENDS SplitSpace, Json, IOUtils, SequencesExt
CONSTANTS TinySample, LatticeN

RECURSIVE Pow(_, _)
Pow(b, e) == IF e = 0 THEN 1 ELSE b * Pow(b, e - 1)
Digit(c, b, j) == (c \div Pow(b, j)) % b

AllH(o) == \A h \in 1..o.ploidy : o.req[h + 1]
(* materialisation choices decoded from c; --only-largest-block needs the 4-column list *)
Mat(c, o, L) == [fmt     |-> c % 3,                        \* 0 fastq, 1 fastq.gz, 2 bam
              header  |-> Len(L) = 0 \/ ((c \div 3) % 2) = 1,   \* an empty file is refused by the CLI
              cols    |-> IF o.largest \/ ((c \div 6) % 2) = 1 THEN 4 ELSE 2,
              listgz  |-> ((c \div 12) % 4) = 3,
              ord     |-> (c \div 48) % 3,              \* line order: ascending, descending, rotated
              dasho   |-> o.ploidy > 2 \/ (AllH(o) /\ ((c \div 144) % 2) = 1),
              lenmode |-> (c \div 288) % 3,             \* Tiny only: lengths 1,2,3.. | 0,1,2.. | all 1
              histo   |-> ((c \div 864) % 4) # 0]
MatSize == 3456

Valid(L, o) == o.disc => Len(L) > 0

(* ---- Tiny: complete product ----------------------------------------------------------------- *)
RECURSIVE NameSeqs(_, _)
NameSeqs(N, n) == IF n = 0 THEN { <<>> }
                  ELSE LET s == NameSeqs(N, n - 1) IN
                       s \cup { Append(u, x) : u \in { v \in s : Len(v) = n - 1 }, x \in 1..N }
TinyLen(mode, j) == IF mode = 0 THEN j ELSE IF mode = 1 THEN j - 1 ELSE 1
TinySpace == { [names |-> r, list |-> L, opt |-> o] : r \in NameSeqs(2, 3), L \in Lists(2, 2, 2), o \in Opts(2) }
TinySeq == SetToSeq({ x \in TinySpace : Valid(x.list, x.opt) })
TinyOut ==
    [i \in 1..(Len(TinySeq) \div TinySample) |->
        LET x == TinySeq[i * TinySample]
            m == Mat((i * 37) % MatSize, x.opt, x.list) IN
        [src |-> "tiny", list |-> x.list, opt |-> x.opt, mat |-> m,
         reads |-> [j \in DOMAIN x.names |-> [name |-> x.names[j], len |-> TinyLen(m.lenmode, j)]]]]

(* ---- Lattice: decoded points of the large space ------------------------------------------------ *)
LatNames == 5
LatLens == 3
LatSym == LatNames * LatLens
LatReads(k) ==
    LET n == <<0, 1, 2, 3, 3, 4, 4, 5, 5, 5, 6, 6, 6>>[(((k * 5 + 1) % 8191) % 13) + 1]
        c == (k * 7919 + 13) % 11390593 IN
    [j \in 1..n |-> LET d == Digit(c, LatSym, j - 1) IN [name |-> (d % LatNames) + 1, len |-> d \div LatNames]]
LatBlocks == << <<1, 1>>, <<1, 2>>, <<2, 1>> >>
(* digit d of a name: 0..2 not in the list, 3..4 "none", then Hh in block b *)
LatEntry(d, p) == IF d < 3 THEN [hap |-> -1, ps |-> 0, chrom |-> 0]
                  ELSE IF d < 5 THEN [hap |-> 0, ps |-> 0, chrom |-> 0]
                  ELSE LET b == LatBlocks[((d - 5) % 3) + 1] IN [hap |-> ((d - 5) \div 3) + 1, ps |-> b[2], chrom |-> b[1]]
LatList(k, p) ==
    LET E == 5 + 3 * p
        c == ((k * 6151 + 7) % 1419839) % Pow(E, LatNames)
        f == [n \in 1..LatNames |-> LatEntry(Digit(c, E, n - 1), p)] IN
    LinesOf(f, 1, LatNames)
LatOpt(k, p) ==
    LET c == ((k * 3571 + 5) % 65521) % 256
        bit(j) == ((c \div Pow(2, j)) % 2) = 1
        t == (c \div 64) % 4 IN
    [ploidy |-> p, addU |-> bit(1), disc |-> bit(2), largest |-> bit(3),
     req |-> [q \in 1..(p + 1) |-> IF q = 1 THEN bit(0)
                                    ELSE IF p > 2 \/ t >= 2 THEN TRUE
                                    ELSE (q = 2) = (t = 0)]]        \* t = 0: only --output-h1, t = 1: only --output-h2
LatPoint(k) ==
    LET p == 2 + (k % 3)
        o == LatOpt(k, p)
        L == LatList(k, p) IN
    [src |-> "lattice", reads |-> LatReads(k), list |-> L, opt |-> o,
     mat |-> Mat(((k * 4099 + 1) % 65537) % MatSize, o, L)]
LatOut == SelectSeq([k \in 1..LatticeN |-> LatPoint(k)], LAMBDA x : Valid(x.list, x.opt))

ASSUME PrintT(<<"sizes", Cardinality(TinySpace), Len(TinySeq), Len(TinyOut), Len(LatOut)>>)
ASSUME ndJsonSerialize(IOEnv.OUT_FILE, TinyOut \o LatOut)
=============================================================================
