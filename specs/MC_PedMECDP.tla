----------------------------- MODULE MC_PedMECDP -----------------------------
(* All tiny instances (PedMECSpace, every Sample-th) as initial states of the
   column DP; TLC checks the projection invariant after every column and the
   optimality of cost and witness at the end. *)
EXTENDS PedMECDP, PedMECSpace
CONSTANT Sample
Pick(S) == LET s == SetToSeq(S) IN { s[i * Sample] : i \in 1..(Len(s) \div Sample) }
Space == Pick(SingleTrusted2) \cup Pick(SingleTrusted3) \cup Pick(SingleHet3) \cup Pick(SingleDistrust) \cup Pick(Trio)
MCInit == /\ inst \in Space
          /\ c = 0 /\ proj = << >> /\ bt = <<>> /\ result = << >>
Spec == MCInit /\ [][Next]_vars
=============================================================================
