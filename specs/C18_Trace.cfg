SPECIFICATION Spec
