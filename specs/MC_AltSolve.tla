----------------------------- MODULE MC_AltSolve -----------------------------
(* Design-level model for X02: the row-limited beam of PedMecHeuristic as a
   small state machine (single individual; the pruning rule of
   PedMecHeuristic::filterSolutions and the duplicate merging of solve() are
   transcribed, the score is the exact incremental cost of the reads placed so
   far - the real code's score double-counts, which is why the real code is NOT
   judged for optimality).  One action places the next read of the sorted read
   list:  (1) solutions that agree on the reads still active are merged, the
   cheaper one survives (updateSolution); (2) every solution is extended by
   read -> side 0 and read -> side 1 (the very first read only to side 0);
   (3) if more than L solutions exist, only those cheaper than the (L+1)-th
   smallest score, or as cheap as the best, survive (filterSolutions).
   Checked for every tiny instance of PedMECSpace (every Sample-th) and
   L in {1, 2, 3, 64}:
     Bookkeeping   the score of a solution is the cost of its partial bipartition
     NeverEmpty    pruning never removes the last solution
     WidthBound    more than L solutions survive only if they tie for the best
     FinalSound    the result is a witness whose PedMEC cost is the score, >= OptCost
     ExactIfWide   with L >= 2^reads the result costs exactly OptCost
     ObjectivesAgree  without trios and with trusted genotypes the heuristic's objective
                   of AltSolve.tla (x4) is the PedMEC objective (consistency of the two specs) *)
EXTENDS AltSolve, PedMECSpace, TLC
CONSTANT Sample
VARIABLES inst, L, nxt, beam
vars == <<inst, L, nxt, beam>>

Pick(S) == LET s == SetToSeq(S) IN { s[i * Sample] : i \in 1..(Len(s) \div Sample) }
(* four reads on three heterozygous columns: the smallest shape on which a beam of width 1 goes wrong *)
Rd(cl) == [ind |-> 1, cells |-> cl]
Hard4 == { Single(3, << Rd(<< <<1, 1, 2>>, <<3, 0, 1>> >>), Rd(<< <<1, 0, 1>>, <<2, 1, 1>>, <<3, 1, 1>> >>),
                        Rd(<< <<1, 0, w>>, <<2, 0, 1>>, <<3, 0, 1>> >>), Rd(<< <<1, a, 1>>, <<3, b, 1>> >>) >>,
                  <<1, 1, 1>>, FALSE, ZeroGL(1, 3)[1]) : a \in {0, 1}, b \in {0, 1}, w \in {1, 2} }
Space == Pick(SingleTrusted2) \cup Pick(SingleTrusted3) \cup Pick(SingleHet3) \cup Pick(SingleDistrust) \cup Hard4

N(I) == Len(I.reads)
First(I, r) == I.reads[r].cells[1][1]
LastC(I, r) == I.reads[r].cells[Len(I.reads[r].cells)][1]
Prefix(I, k) == [I EXCEPT !.reads = SubSeq(I.reads, 1, k)]
Zero(I) == [c \in 1..I.m |-> 0]
(* exact cost of the bipartition f restricted to reads 1..k *)
Score(I, f, k) == LET J == Prefix(I, k) IN WitnessCost(J, [r \in 1..k |-> f[r]], Zero(I))

Key(I, f, r) == [q \in { q \in 1..(r - 1) : LastC(I, q) >= First(I, r) } |-> f[q]]
Dedup(I, B, r) ==
    LET keys == { Key(I, s.full, r) : s \in B }
    IN { LET grp == { s \in B : Key(I, s.full, r) = k }
             best == MinSet({ s.cost : s \in grp })
         IN CHOOSE s \in grp : s.cost = best : k \in keys }
Extend(I, B, r) ==
    { [full |-> [s.full EXCEPT ![r] = side], cost |-> Score(I, [s.full EXCEPT ![r] = side], r)]
        : s \in B, side \in (IF r = 1 THEN {0} ELSE {0, 1}) }
Filter(B, lim) ==
    IF Cardinality(B) <= lim THEN B
    ELSE LET scores == { s.cost : s \in B }
             tooHigh == MinSet({ v \in scores : Cardinality({ s \in B : s.cost <= v }) >= lim + 1 })
             best == MinSet(scores)
         IN { s \in B : s.cost < tooHigh \/ s.cost = best }

Init == /\ inst \in Space
        /\ L \in {1, 2, 3, 64}
        /\ nxt = 1
        /\ beam = { [full |-> [r \in 1..N(inst) |-> 0], cost |-> Score(inst, <<>>, 0)] }
Place == /\ nxt <= N(inst)
         /\ beam' = Filter(Extend(inst, Dedup(inst, beam, nxt), nxt), L)
         /\ nxt' = nxt + 1
         /\ UNCHANGED <<inst, L>>
Next == Place
Spec == Init /\ [][Next]_vars

Done == nxt = N(inst) + 1
Best == CHOOSE s \in beam : \A u \in beam : s.cost <= u.cost

Bookkeeping == \A s \in beam : s.cost = Score(inst, s.full, nxt - 1)
NeverEmpty == beam # {}
WidthBound == Cardinality(beam) <= L \/ \A s, u \in beam : s.cost = u.cost
FinalSound == Done => /\ WitnessCost(inst, Best.full, Zero(inst)) = Best.cost
                      /\ Best.cost >= OptCost(inst)
ExactIfWide == (Done /\ L >= 2 ^ N(inst)) => Best.cost = OptCost(inst)
ObjectivesAgree == (Done /\ ~inst.distrust /\ N(inst) > 0) =>
    \A s \in beam : HWitnessCost4(inst, s.full, Zero(inst), TRUE) = 4 * s.cost
(* negative control (must be violated): a narrow beam is NOT always optimal *)
NarrowIsExact == Done => Best.cost = OptCost(inst)

=============================================================================
