------------------------------ MODULE MC_Split ------------------------------
(* Model-checking wrapper for SplitAlg: every list over N names, every valid
   option record for the ploidies in Ploidies, every largest-block choice as
   initial states; every read sequence of at most MaxReads reads over
   Names x Lens as paths (duplicate names, zero length).  The cfg names the
   invariants; ExitRule / RowRule select the design alternative.             *)
EXTENDS SplitAlg, SplitSpace
CONSTANTS N, Lens, Ploidies, NB, UniqueOnly

MCAlphabet == { [name |-> n, len |-> l] : n \in 1..N, l \in Lens }
MCInit == /\ \E p \in Ploidies : list \in Lists(N, p, NB) /\ opt \in Opts(p)
          /\ (opt.disc => Len(list) > 0)
          /\ sel \in Selections(list)
          /\ InitAlg
MCSpec == MCInit /\ [][Next]_vars
(* restrict the paths to inputs with unique read names (for the "count is safe then" run) *)
Unique == UniqueOnly => UniqueNames
=============================================================================
