------------------------------ MODULE C19_Trace ------------------------------
(* Trace validation for C19.  Each line of the ndjson trace is one call (or a
   small group of calls on one object) made to the real whatshap.core.Genotype
   or whatshap.align.edit_distance with its observed results.  Every clause is
   evaluated on every line; a failing clause prints a VERDICT and validation
   continues (total verdicts).

   events
     Geno    alleles (as given), idx, vec, ploidy, back (alleles after
             __getstate__/__setstate__), hom, none
     FromIdx p, idx, alleles (genotype restored from state (idx, p)), reidx
     Cmp     a, b, eq, ne, lt, gt_rev (b < a), hasheq
     EndSpace p, a   closes a trace that visited a whole space SortedSeqs(p, a)
     Edit    s, t, unb (unbanded result), banded (results for band 0..K), kind *)
EXTENDS GenotypeIndex, EditDistance, Json, IOUtils, TLC
Trace == ndJsonDeserialize(IOEnv.TRACE_FILE)
VARIABLES l, seen
vars == <<l, seen>>

Fail(e, c) == PrintT(<<"VERDICT", e.tid, e.seq, c>>)
Check(e, c, ok) == IF ok THEN TRUE ELSE Fail(e, c)

AllSame(s) == \A i \in DOMAIN s : s[i] = s[1]

JudgeGeno(e) ==
    LET g == Sorted(e.alleles) IN
    /\ Check(e, "IndexIsOrderRank", e.idx = IndexOf(e.alleles))
    /\ Check(e, "RoundTrip", SameBag(e.back, e.alleles))
    \* the restored object reports the restored genotype's index, state and hash (not what the carrier object held before)
    /\ Check(e, "RestoredIndexAgrees", e.bidx = e.idx /\ e.bstate = <<e.idx, e.ploidy>> /\ e.bhash)
    /\ Check(e, "VectorIsBag", SameBag(e.vec, e.alleles))
    /\ Check(e, "Ploidy", e.ploidy = Len(e.alleles))
    /\ Check(e, "Homozygous", e.hom <=> (Len(g) > 0 /\ AllSame(g)))
    /\ Check(e, "IsNone", e.none <=> (Len(g) = 0))

JudgeFromIdx(e) ==
    /\ Check(e, "InverseShape", Len(e.alleles) = e.p)
    /\ Check(e, "InverseOfIndex", Len(e.alleles) = e.p => IndexOf(e.alleles) = e.idx)
    /\ Check(e, "ReIndex", e.reidx = e.idx)

JudgeCmp(e) ==
    LET ia == IndexOf(e.a)
        ib == IndexOf(e.b)
        same == SameBag(e.a, e.b) IN
    /\ Check(e, "EqIsSameBag", e.eq <=> same)
    /\ Check(e, "NeIsNotEq", e.ne <=> ~same)
    /\ Check(e, "LtIsIndexOrder", Len(e.a) = Len(e.b) => (e.lt <=> ia < ib))
    /\ Check(e, "GtIsIndexOrder", Len(e.a) = Len(e.b) => (e.gt_rev <=> ib < ia))
    /\ Check(e, "HashAgrees", same => e.hasheq)
    \* every ordering operator the class offers (-1 = not offered) agrees with the index order, on ties too
    /\ Check(e, "OrderOperatorsAgree",
             Len(e.a) = Len(e.b) => /\ (e.gt # -1 => ((e.gt = 1) <=> ib < ia))
                                    /\ (e.le # -1 => ((e.le = 1) <=> ia <= ib))
                                    /\ (e.ge # -1 => ((e.ge = 1) <=> ib <= ia)))
    /\ Check(e, "Irreflexive", e.selfgt # 1 /\ e.selflt # 1)

JudgeEndSpace(e) ==
    Check(e, "Gapless", seen = 0..(NumGenotypes(e.p, e.a) - 1))

JudgeEdit(e) ==
    /\ Check(e, "Levenshtein", e.unb = LevDP(e.s, e.t))
    /\ \A b \in DOMAIN e.banded :
          Check(e, "Banded", BandedOK(e.s, e.t, b - 1, e.banded[b]))

(* Calls issued from several threads at once on LONG strings (the row DP above is far too slow for them in TLC).
   The pair is planted: s avoids letter 3 and t is s with some positions replaced by letter 3.  Every 3 in t needs
   an edit operation of its own and the substitutions suffice, so Lev(s, t) = number of 3s in t.
   res = the distinct results of all concurrent calls on the pair. *)
Planted(e) == /\ Len(e.s) = Len(e.t)
              /\ \A i \in DOMAIN e.s : e.s[i] # 3 /\ (e.t[i] = e.s[i] \/ e.t[i] = 3)
JudgeEditPar(e) ==
    /\ Check(e, "ScenarioInDomain", Planted(e))
    /\ Check(e, "LevenshteinUnderConcurrency", e.res = << Cardinality({i \in DOMAIN e.t : e.t[i] = 3}) >>)

Judge(e) ==
    CASE e.ev = "Geno"     -> JudgeGeno(e)
      [] e.ev = "FromIdx"  -> JudgeFromIdx(e)
      [] e.ev = "Cmp"      -> JudgeCmp(e)
      [] e.ev = "EndSpace" -> JudgeEndSpace(e)
      [] e.ev = "Edit"     -> JudgeEdit(e)
      [] e.ev = "EditPar"  -> JudgeEditPar(e)
      [] OTHER             -> Fail(e, "UnknownEvent")

Init == l = 1 /\ seen = {}
Next == /\ l <= Len(Trace)
        /\ LET e == Trace[l] IN
           /\ Judge(e)
           /\ seen' = IF e.ev = "EndSpace" THEN {}
                      ELSE IF e.ev = "Geno" /\ e.space THEN seen \cup {e.idx}
                      ELSE seen
        /\ l' = l + 1
Spec == Init /\ [][Next]_vars
=============================================================================
