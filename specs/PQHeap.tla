------------------------------- MODULE PQHeap -------------------------------
(* Implementation-shaped model of whatshap/priorityqueue.pyx: a binary max-heap
   in an array plus an item -> heap index map kept in sync by _swap.  One
   action per public method; sift_up / sift_down transcribed recursively
   (1-based indices here, 0-based in the code).  Used (a) to model-check that
   the heap refines the abstract PQueue and keeps its structural invariants,
   (b) to steer exploration of the real code over heap layouts.  It never
   judges the implementation. *)
EXTENDS Util, TLC
CONSTANTS Items, Scores
VARIABLES heap, pos      \* heap: Seq of [score, item]; pos: item -> index

Lower(a, b) == LexLess(a, b)

Swap(st, a, b) ==
    LET h == st[1] p == st[2] IN
    << [h EXCEPT ![a] = h[b], ![b] = h[a]],
       [p EXCEPT ![h[a].item] = b, ![h[b].item] = a] >>

RECURSIVE SiftUp(_, _)
SiftUp(st, i) ==
    IF i = 1 THEN st
    ELSE LET par == i \div 2 IN
         IF Lower(st[1][par].score, st[1][i].score) THEN SiftUp(Swap(st, par, i), par) ELSE st

RECURSIVE SiftDown(_, _)
SiftDown(st, i) ==
    LET h == st[1] n == Len(h) lc == 2 * i rc == 2 * i + 1 IN
    IF rc <= n THEN
        IF Lower(h[lc].score, h[rc].score)
        THEN IF Lower(h[i].score, h[rc].score) THEN SiftDown(Swap(st, rc, i), rc) ELSE st
        ELSE IF Lower(h[i].score, h[lc].score) THEN SiftDown(Swap(st, lc, i), lc) ELSE st
    ELSE IF lc <= n THEN
        IF Lower(h[i].score, h[lc].score) THEN SiftDown(Swap(st, lc, i), lc) ELSE st
    ELSE st

Init == heap = <<>> /\ pos = << >>

HPush(i, s) ==
    /\ i \notin DOMAIN pos
    /\ LET st == SiftUp(<< Append(heap, [score |-> s, item |-> i]), (i :> Len(heap) + 1) @@ pos >>, Len(heap) + 1)
       IN heap' = st[1] /\ pos' = st[2]

HPop ==
    /\ heap # <<>>
    /\ LET n == Len(heap) first == heap[1] last == heap[n] IN
       IF n = 1 THEN heap' = <<>> /\ pos' = << >>
       ELSE LET h0 == [k \in 1..(n - 1) |-> IF k = 1 THEN last ELSE heap[k]]
                p0 == [j \in DOMAIN pos \ {first.item} |-> IF j = last.item THEN 1 ELSE pos[j]]
                st == SiftDown(<<h0, p0>>, 1)
            IN heap' = st[1] /\ pos' = st[2]
HPopEmpty == heap = <<>> /\ UNCHANGED <<heap, pos>>

HChange(i, s) ==
    /\ i \in DOMAIN pos
    /\ LET k == pos[i]
           old == heap[k].score
           h0 == [heap EXCEPT ![k].score = s]
           st == IF Lower(old, s) THEN SiftUp(<<h0, pos>>, k) ELSE SiftDown(<<h0, pos>>, k)
       IN heap' = st[1] /\ pos' = st[2]

Next == \/ \E i \in Items, s \in Scores : HPush(i, s) \/ HChange(i, s)
        \/ HPop \/ HPopEmpty
Spec == Init /\ [][Next]_<<heap, pos>>

(* structural invariants of the implementation *)
HeapOrder == \A k \in 2..Len(heap) : ~Lower(heap[k \div 2].score, heap[k].score)
PosSync   == /\ DOMAIN pos = { heap[k].item : k \in DOMAIN heap }
             /\ \A k \in DOMAIN heap : pos[heap[k].item] = k
NoDupItem == \A a, b \in DOMAIN heap : heap[a].item = heap[b].item => a = b

(* refinement: the heap implements the abstract queue *)
AbsQ == [i \in DOMAIN pos |-> heap[pos[i]].score]
PQ == INSTANCE PQueue WITH q <- AbsQ
Refines == PQ!Spec
=============================================================================
