"""Running TLC: design-level model checking, constant evaluation, batch trace validation."""
import json
import os
import re
import shutil
import subprocess
import tempfile
import time
from concurrent.futures import ThreadPoolExecutor

SPECS = "/verif/specs"
CP = "/opt/veriftools/tla/tla2tools.jar:/opt/veriftools/tla/CommunityModules-deps.jar"
SCRATCH = os.path.join(os.environ.get("WV_SCRATCH", "/var/tmp/whverif"), "tlc")


class TlcError(Exception):
    pass


def _java(args, env_extra=None, timeout=None, xmx="3g", serial=False, cwd=SPECS, props=()):
    gc = "-XX:+UseSerialGC" if serial else "-XX:+UseParallelGC"
    cmd = ["java", gc, f"-Xmx{xmx}", "-Xss16m", *props, "-cp", CP, "tlc2.TLC", *args]
    env = dict(os.environ)
    env.pop("JAVA_TOOL_OPTIONS", None)
    if env_extra:
        env.update(env_extra)
    t0 = time.time()
    try:
        p = subprocess.run(cmd, cwd=cwd, env=env, stdout=subprocess.PIPE, stderr=subprocess.STDOUT,
                           text=True, timeout=timeout)
    except subprocess.TimeoutExpired as e:
        out = e.stdout if isinstance(e.stdout, str) else (e.stdout or b"").decode(errors="replace")
        raise TlcError(f"TLC timeout after {timeout}s: {' '.join(args)}\n{out[-3000:]}")
    return p.returncode, p.stdout, time.time() - t0


_RE_STATES = re.compile(r"^(\d+) states generated, (\d+) distinct states found", re.M)
_RE_DIAM = re.compile(r"The depth of the complete state graph search is (\d+)")
_RE_INIT = re.compile(r"Finished computing initial states: (\d+) distinct state")


def parse_stats(out):
    st = {}
    m = None
    for m in _RE_STATES.finditer(out):
        pass
    if m:
        st["generated"] = int(m.group(1))
        st["distinct"] = int(m.group(2))
    m = _RE_DIAM.search(out)
    if m:
        st["diameter"] = int(m.group(1))
    m = _RE_INIT.search(out)
    if m:
        st["init"] = int(m.group(1))
    return st


def _metadir():
    os.makedirs(SCRATCH, exist_ok=True)
    return tempfile.mkdtemp(prefix="meta", dir=SCRATCH)


def model_check(module, cfg=None, workers=16, timeout=1800, extra=(), env=None, xmx="8g", coverage=False,
                simulate=None, depth=None, seed=None):
    """Exhaustive (or -simulate) TLC run of a design-level spec.  Returns dict with
    ok, states (distinct), transitions (generated), diameter, out, wall_s.  A property
    violation or evaluation error of a *design-level* spec is a machinery failure
    (my spec is wrong), signalled by ok=False."""
    md = _metadir()
    args = ["-config", cfg or module + ".cfg", "-workers", str(workers), "-metadir", md,
            "-noGenerateSpecTE", "-deadlock"]
    if coverage:
        args += ["-coverage", "1"]
    if simulate:
        args += ["-simulate", simulate]
    if depth:
        args += ["-depth", str(depth)]
    if seed is not None:
        args += ["-seed", str(seed)]
    args += list(extra) + [module + ".tla"]
    try:
        rc, out, wall = _java(args, env_extra=env, timeout=timeout, xmx=xmx)
    finally:
        shutil.rmtree(md, ignore_errors=True)
    st = parse_stats(out)
    ok = rc == 0 and ("Model checking completed. No error has been found." in out or simulate is not None and "Error:" not in out)
    return {"ok": ok, "rc": rc, "states": st.get("distinct", 0), "transitions": st.get("generated", 0),
            "diameter": st.get("diameter"), "init": st.get("init"), "out": out, "wall_s": wall}


def require_mc(res, what):
    if not res["ok"]:
        raise TlcError(f"design-level model checking failed ({what}); this is a spec/machinery failure:\n" + res["out"][-4000:])
    return res


_RE_VERDICT = re.compile(r'<<"VERDICT", (.*)>>\s*$', re.M)


def _parse_tla_scalar(tok):
    tok = tok.strip()
    if tok.startswith('"'):
        return tok[1:-1]
    if tok in ("TRUE", "FALSE"):
        return tok == "TRUE"
    try:
        return int(tok)
    except ValueError:
        return tok


def parse_verdicts(out):
    """Lines printed by a trace spec: <<"VERDICT", tid, seq, "Clause">> (scalars only)."""
    res = []
    for m in _RE_VERDICT.finditer(out):
        parts = [p for p in re.split(r',\s*(?=(?:[^"]*"[^"]*")*[^"]*$)', m.group(1))]
        res.append(tuple(_parse_tla_scalar(p) for p in parts))
    return res


def validate_trace_file(module, trace_file, cfg=None, timeout=3600, xmx="3g", env=None):
    """Run the trace spec `module` over one ndjson file (single worker: the trace spec is a
    deterministic chain).  Returns dict: consumed (lines consumed), n (lines), fails
    (list of verdict tuples), error (None or TLC error text)."""
    with open(trace_file) as fh:
        n = sum(1 for line in fh if line.strip())
    md = _metadir()
    e = {"TRACE_FILE": trace_file}
    if env:
        e.update(env)
    args = ["-config", cfg or module + ".cfg", "-workers", "1", "-metadir", md, "-noGenerateSpecTE",
            "-deadlock", module + ".tla"]
    try:
        rc, out, wall = _java(args, env_extra=e, timeout=timeout, xmx=xmx, serial=True)
    finally:
        shutil.rmtree(md, ignore_errors=True)
    st = parse_stats(out)
    fails = parse_verdicts(out)
    consumed = max(0, st.get("distinct", 0) - 1)
    error = None
    if rc != 0 or "Model checking completed. No error has been found." not in out or consumed != n:
        error = out[-3000:]
    return {"n": n, "consumed": consumed, "fails": fails, "error": error, "wall_s": wall, "out": out}


def validate_events(module, events, workdir, shards=16, cfg=None, timeout=3600, group_key="tid", env=None, xmx="3g"):
    """Shard events (list of dicts; all events of one `tid` stay together and in order),
    write ndjson files, run one single-worker TLC per shard in parallel.
    Returns dict: n, consumed, fails, errors (list of (shard_file, text)), wall_s."""
    os.makedirs(workdir, exist_ok=True)
    t0 = time.time()
    tids = []
    by = {}
    for ev in events:
        k = ev[group_key]
        if k not in by:
            by[k] = []
            tids.append(k)
        by[k].append(ev)
    shards = max(1, min(shards, len(tids)))
    files = []
    # balance by number of events, round-robin on tid order
    buckets = [[] for _ in range(shards)]
    for i, k in enumerate(tids):
        buckets[i % shards].extend(by[k])
    for i, b in enumerate(buckets):
        if not b:
            continue
        f = os.path.join(workdir, f"{module}.{i:02d}.ndjson")
        with open(f, "w") as fh:
            for ev in b:
                fh.write(json.dumps(ev, separators=(",", ":")) + "\n")
        files.append(f)
    res = {"n": 0, "consumed": 0, "fails": [], "errors": [], "files": files}
    with ThreadPoolExecutor(max_workers=16) as ex:
        futs = [ex.submit(validate_trace_file, module, f, cfg, timeout, xmx, env) for f in files]
        for f, fut in zip(files, futs):
            r = fut.result()
            res["n"] += r["n"]
            res["consumed"] += r["consumed"]
            res["fails"].extend(r["fails"])
            if r["error"]:
                res["errors"].append((f, r["error"]))
    res["wall_s"] = time.time() - t0
    return res


def evaluate(module, timeout=600, env=None, xmx="4g"):
    """Evaluate a spec that only has ASSUMEs / constant definitions (used to let TLC
    enumerate scenario spaces and write them with ndJsonSerialize)."""
    md = _metadir()
    args = ["-config", module + ".cfg", "-workers", "1", "-metadir", md, "-noGenerateSpecTE", module + ".tla"]
    try:
        rc, out, wall = _java(args, env_extra=env, timeout=timeout, xmx=xmx, serial=True)
    finally:
        shutil.rmtree(md, ignore_errors=True)
    if rc != 0:
        raise TlcError("TLC evaluation failed:\n" + out[-3000:])
    return out


def write_cfg(path, spec=None, consts=None, invariants=(), properties=(), constraint=None, view=None, subst=None):
    """Write a TLC cfg file.  consts: name -> literal; subst: name -> definition name (<-)."""
    with open(path, "w") as fh:
        if spec:
            fh.write(f"SPECIFICATION {spec}\n")
        if consts or subst:
            fh.write("CONSTANTS\n")
            for k, v in (consts or {}).items():
                fh.write(f"  {k} = {v}\n")
            for k, v in (subst or {}).items():
                fh.write(f"  {k} <- {v}\n")
        if view:
            fh.write(f"VIEW {view}\n")
        if constraint:
            fh.write(f"CONSTRAINT {constraint}\n")
        for i in invariants:
            fh.write(f"INVARIANT {i}\n")
        for i in properties:
            fh.write(f"PROPERTY {i}\n")
    return path


_RE_BEH = re.compile(r'^<<"BEHAVIOUR", "(.*)">>\s*$', re.M)


def behaviours(module, cfg, simulate=None, depth=None, seed=None, timeout=1800, xmx="6g"):
    """Run a spec whose invariant Emit prints <<"BEHAVIOUR", ToJson(hist)>> and return
    (list of parsed histories, model_check result).  Single worker so lines do not interleave."""
    r = model_check(module, cfg=cfg, workers=1, timeout=timeout, xmx=xmx, simulate=simulate, depth=depth, seed=seed)
    if r["rc"] != 0 or "Error:" in r["out"]:
        raise TlcError(f"behaviour generation failed for {module}:\n" + r["out"][-3000:])
    hs = []
    for m in _RE_BEH.finditer(r["out"]):
        txt = m.group(1).replace('\\"', '"').replace("\\\\", "\\")
        hs.append(json.loads(txt))
    return hs, r


def generate(module, consts, timeout=3000, xmx="6g"):
    """Let TLC evaluate a Gen_* module (ASSUME ndJsonSerialize(IOEnv.OUT_FILE, ...)) and return the
    parsed lines.  Results are cached in the scratch area keyed by the content of all specs and
    the constants, so repeated checks do not re-enumerate an unchanged space."""
    import glob
    import hashlib
    h = hashlib.sha256()
    for f in sorted(glob.glob(os.path.join(SPECS, "*.tla"))):
        with open(f, "rb") as fh:
            h.update(fh.read())
    h.update(json.dumps([module, consts], sort_keys=True).encode())
    cdir = os.path.join(os.path.dirname(SCRATCH), "gen-cache")
    os.makedirs(cdir, exist_ok=True)
    out = os.path.join(cdir, f"{module}-{h.hexdigest()[:20]}.ndjson")
    if not os.path.exists(out):
        for old in glob.glob(os.path.join(cdir, f"{module}-*.ndjson")):
            if time.time() - os.path.getmtime(old) > 6 * 3600:
                os.remove(old)
        os.makedirs(SCRATCH, exist_ok=True)
        cfg = os.path.join(SCRATCH, f"{module}-{os.getpid()}.cfg")
        write_cfg(cfg, consts=consts)
        md = _metadir()
        tmp = out + f".{os.getpid()}.tmp"
        try:
            rc, txt, _ = _java(["-config", cfg, "-workers", "1", "-metadir", md, "-noGenerateSpecTE", module + ".tla"],
                               env_extra={"OUT_FILE": tmp}, timeout=timeout, serial=True, xmx=xmx)
        finally:
            shutil.rmtree(md, ignore_errors=True)
            os.remove(cfg)
        if rc != 0:
            raise TlcError(f"{module} enumeration failed:\n" + txt[-2500:])
        os.replace(tmp, out)
    with open(out) as fh:
        return [json.loads(x) for x in fh if x.strip()]
