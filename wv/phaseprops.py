"""Shared pieces of the whole-pipeline checks C02, C03, C05, C20 (one spec: PhaseRun.tla / Phase_Trace.tla)."""
import os

from . import tlc
from . import phaseworld as PW

TRACE_MODULE = "Phase_Trace"
TASK_TIMEOUT = 180


def drive(sc):
    return [PW.phase_run_event(sc["world"])]


def own_clause_for(prop):
    def own(clause):
        return clause.startswith(prop + "_") or clause in ("Returns", "UnknownEvent")
    return own


def design_mc_pipeline(ctx, what_extra=""):
    q = ctx.quick
    cfg = tlc.write_cfg(os.path.join(ctx.workdir, "pipe.cfg"), spec="Spec",
                        consts={"NSites": 3, "MaxReads": 2 if q else 3, "Caps": "{1}" if q else "{1, 2}"},
                        invariants=["TypeOK", "TruthUpToFlipInv", "ComponentsInv", "CapInv", "ZeroCost"])
    r = tlc.model_check("MC_PhasePipeline", cfg=cfg, timeout=3000)
    r["what"] = "PhasePipeline: stage contracts (Select any maximal capped subset, Solve any zero-cost/optimal bipartition, Components = read-connectivity, Write) imply the end-to-end invariants" + what_extra
    return [r]


def signature(sc, events, clause):
    w = sc["world"]
    o = w.get("opts", {})
    return (f"samples={len(w['samples'])} chroms={len(w['chroms'])} ped={'yes' if o.get('ped') else 'no'} "
            f"distrust={bool(o.get('distrust'))} tag={o.get('tag', 'PS')}")


def selftest_flip_one(events):
    """corrupt: exchange the alleles of ONE phased call inside a phase set with >= 2 members"""
    for e in events:
        if e.get("ev") != "PhaseRun":
            continue
        for s in e["out"]:
            for c in s:
                ph = [x for x in c if x["ph"] and x["a"] != x["b"]]
                for x in ph:
                    if sum(1 for y in ph if y["ps"] == x["ps"]) >= 2:
                        x["a"], x["b"] = x["b"], x["a"]
                        return events
    return events
