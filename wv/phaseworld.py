"""Abstract phasing worlds: generation, materialisation into real files, running `whatshap phase`
in-process with the H1 hook on, projection of everything observable back to small integers.

A world (JSON-able dict):
  seed        int, drives reference bases / variant bases / read margins
  chroms      [{"name": str, "sites": [{"kind": "snv"|"ins"|"del"|"mnp", "len": n}]}]   site i sits at 0-based ref position SP*(i+1)
  samples     [name, ...]                 (VCF column order)
  truth       {sample: [[ [a0,a1] per site ] per chrom]}      the true haplotype alleles
  vcf_gt      optional {sample: [[ "0/1"|"./."|... per site ] per chrom]}; default: unphased genotype of the truth
  pl_weak     optional bool: write weak PL values (for --distrust-genotypes)
  reads       [{"sample", "chrom": idx, "hap": 0|1, "first": i, "last": j, "gap": [a,b]|None, "copies": n}]
              error-free copies of haplotype `hap` fully covering sites first..last (mates first..a and b..last when gap)
  ped         [[father, mother, child], ...]   (names) or []
  extra       optional list of extra VCF records (C04 decorations), each {"chrom": idx, "pos": 1-based, "ref", "alt", "calls": [...strings per sample], "fmt": [...], ...}
  opts        tag, only_snvs, samples (list or None), chromosomes (list or None), max_coverage, distrust, genetic_haplotyping,
              ped (bool), lists {"read","gt","recomb"}, reference (bool), use_ped_samples
"""
import io
import json
import os
import random
import shutil
import tempfile

from . import world as W

SP = 40  # spacing of sites
KIND_CODE = {"snv": 1, "ins": 2, "del": 3, "mnp": 4}


# ----------------------------------------------------------------------------------------------
def build_sequences(wd):
    """reference per chromosome and Variant objects per site (deterministic from wd['seed'])"""
    rng = random.Random(wd["seed"])
    out = []
    for ch in wd["chroms"]:
        n = len(ch["sites"])
        while True:
            ref = W.random_reference(rng, SP * (n + 2))
            ok = True
            vs = []
            for i, s in enumerate(ch["sites"]):
                pos = SP * (i + 1)
                if i == 0 and wd.get("first_at_zero") and s["kind"] == "snv":
                    pos = 0                 # a variant on the very first base of the contig (VCF POS 1)
                k, ln = s["kind"], s.get("len", 1)
                if s.get("rep") and k in ("ins", "del"):
                    ref, v_ = repeat_site(ref, pos, k, s["rep"])     # optional key: indel of one unit of a tandem repeat
                    vs.append(v_)
                    continue
                if k == "del" and not W.deletion_unshiftable(ref, pos, ln):
                    ok = False
                    break
                vs.append(W.make_variant(rng, ref, pos, k, ln))
            if ok:
                break
        out.append((ref, vs))
    return out


def repeat_site(ref, pos, kind, rep):
    """rep = {"unit": primitive string, "n": copies}: the reference gets unit*n directly behind the anchor base at pos (anchor not
    in the unit, base behind the run != first unit base, so the run has exactly n copies) and the site is the insertion / deletion
    of ONE unit, left-aligned (the normalised representation: CIGARs of the error-free reads carry it at the same place)."""
    unit, n = rep["unit"], rep["n"]
    end = pos + 1 + len(unit) * n
    assert end + 1 < len(ref) and len(unit) * n <= SP // 2
    anchor = ([b for b in W.BASES if b not in unit and (pos == 0 or b != ref[pos - 1])] + [b for b in W.BASES if b not in unit])[0]
    after = ([b for b in W.BASES if b != unit[0] and b != unit[-1] and b != ref[end + 1]] + [b for b in W.BASES if b not in unit])[0]
    ref = ref[:pos] + anchor + unit * n + after + ref[end + 1:]
    if kind == "ins":
        return ref, W.Variant(pos, anchor, anchor + unit)
    return ref, W.Variant(pos, anchor + unit, anchor)


def rep_end(site, pos):
    """first reference position behind the tandem repeat of a site (or None)"""
    rp = site.get("rep") if site.get("kind") in ("ins", "del") else None
    return pos + 1 + len(rp["unit"]) * rp["n"] if rp else None


def materialise(wd, d):
    """write ref.fa, in.vcf, reads.bam (+ ped) into directory d; return dict of paths and the Variant objects"""
    seqs = build_sequences(wd)
    rng = random.Random(wd["seed"] + 17)
    names = [c["name"] for c in wd["chroms"]]
    W.write_fasta(os.path.join(d, "ref.fa"), {n: s[0] for n, s in zip(names, seqs)})
    samples = wd["samples"]
    # ---- VCF ----
    recs = []
    for ci, (ref, vs) in enumerate(seqs):
        for si, v in enumerate(vs):
            calls = []
            for s in samples:
                if wd.get("vcf_gt") and s in wd["vcf_gt"]:
                    gt = wd["vcf_gt"][s][ci][si]
                else:
                    a, b = wd["truth"][s][ci][si]
                    gt = f"{min(a, b)}/{max(a, b)}"
                if wd.get("gt_desc") and "/" in gt and rng.random() < 0.5:
                    a_, b_ = gt.split("/")
                    if a_ != b_ and "." not in gt:
                        gt = f"{b_}/{a_}"            # unphased allele order is meaningless: 1/0 is legal
                sp = wd.get("stale_phase")
                stale_val = "."
                if sp and "/" in gt and "." not in gt and rng.random() < 0.5:
                    # the input already carries (unrelated, possibly wrong) phase information from an earlier run / another tool
                    if sp == "PS":
                        a_, b_ = gt.split("/")
                        gt = rng.choice([f"{a_}|{b_}", f"{b_}|{a_}"])
                        stale_val = str(rng.choice([7, 7, v.pos + 1, 31]))
                    elif gt.split("/")[0] != gt.split("/")[1]:
                        stale_val = rng.choice(["7-1,7-2", "7-2,7-1"])
                call = [gt]
                if sp:
                    call.append(stale_val)
                if wd.get("pl_weak"):
                    # weak phred-scaled likelihoods favouring the written genotype by 10
                    als = [x for x in gt.replace("|", "/").split("/")]
                    g = sum(int(x) for x in als) if all(x.isdigit() for x in als) else 1
                    call.append(",".join("0" if k == g else "10" for k in range(3)))
                calls.append(call)
            recs.append({"chrom": names[ci], "pos": v.pos + 1, "ref": v.ref, "alt": v.alt,
                         "fmt": ["GT"] + ([wd["stale_phase"]] if wd.get("stale_phase") else []) + (["PL"] if wd.get("pl_weak") else []),
                         "calls": calls, "_k": (ci, v.pos, 0)})
    for ci_, si_ in wd.get("multi_before", []):
        # an (ignored) multi-ALT record listed directly in front of the site's record at the SAME position
        if ci_ < len(seqs) and si_ < len(seqs[ci_][1]):
            v_ = seqs[ci_][1][si_]
            others = [b_ for b_ in "ACGT" if b_ != v_.ref[0] and b_ != v_.alt[0]]
            recs.append({"chrom": names[ci_], "pos": v_.pos + 1, "ref": v_.ref[0], "alt": ",".join(others[:2]),
                         "fmt": ["GT"], "calls": [[rng.choice(["0/0", "1/2", "0/2"])] for _ in samples], "_k": (ci_, v_.pos, -1)})
    for x in wd.get("extra", []):
        r = dict(x)
        r["chrom"] = names[x["chrom"]]
        r["_k"] = (x["chrom"], x["pos"] - 1, 1 + x.get("order", 0))
        recs.append(r)
    recs.sort(key=lambda r: r["_k"])
    vcf = W.write_vcf(os.path.join(d, "in.vcf"), samples, [(n, len(s[0])) for n, s in zip(names, seqs)], recs,
                      fmt_keys=tuple(wd.get("fmt_keys", ("GT", "GQ", "DP", "PL", "XX"))) + ((wd["stale_phase"],) if wd.get("stale_phase") else ()),
                      extra_header=wd.get("extra_header", ()))
    # ---- BAM ----
    haps = {}
    for s in samples:
        for ci, (ref, vs) in enumerate(seqs):
            for h in (0, 1):
                haps[(s, ci, h)] = W.Haplotype(ref, vs, [wd["truth"][s][ci][si][h] for si in range(len(vs))])
    reads = []
    n = 0
    mapq_thr = wd.get("opts", {}).get("mapping_quality", 20)
    for r in list(wd["reads"]) + list(wd.get("decoys", [])):
        ref, vs = seqs[r["chrom"]]
        hp = haps[(r["sample"], r["chrom"], r["hap"])]
        hp_alleles = [wd["truth"][r["sample"]][r["chrom"]][si][r["hap"]] for si in range(len(vs))]
        if r.get("alleles"):
            # a read that is NOT an error-free copy: explicit alleles at the sites first..last (conflicts / chimeras)
            al = [wd["truth"][r["sample"]][r["chrom"]][si][r["hap"]] for si in range(len(vs))]
            for k, a in enumerate(r["alleles"]):
                al[r["first"] + k] = a
            hp = W.Haplotype(ref, vs, al)

        def seg(i, j):
            m1, m2 = rng.randint(12, 18), rng.randint(12, 18)
            s = max(0, vs[i].pos - m1)
            e = min(len(ref), vs[j].pos + len(vs[j].ref) + m2)
            re_ = rep_end(wd["chroms"][r["chrom"]]["sites"][j], vs[j].pos)
            if re_ is not None:
                # a read that stopped inside the repeat would be a copy of BOTH haplotypes: it reads through the run
                e = min(len(ref), max(e, re_ + m2))
            if r.get("cut") and vs[j].kind == "del" and hp_alleles[j] == 0:
                # the read carries the REF allele of the deletion and ENDS inside the deleted stretch (still an error-free copy)
                e = vs[j].pos + 1 + min(r["cut"], len(vs[j].ref) - 2)
            return hp.read(hp.ref_to_hap(s), hp.ref_to_hap(e))
        for _ in range(r.get("copies", 1)):
            n += 1
            name = f"rd{n:05d}"
            if r.get("tight") is not None:
                # overlapping mates: mate 1 ends EXACTLY on the anchor base of the (insertion) site x, mate 2 covers x completely.
                # Mate 1 alone cannot see the insertion (boundary read); the pair as a whole is an error-free copy.
                x = r["tight"]
                m1 = rng.randint(12, 18)
                s_ = max(0, vs[r["first"]].pos - m1)
                h1 = hp.read(hp.ref_to_hap(s_), hp.ref_to_hap(vs[x].pos) + 1)
                p1, c1, s1 = h1
                p2, c2, s2 = seg(x, r["last"])
                reads.append({"name": name, "flag": 1 | 2 | 64 | 32, "ref": r["chrom"], "pos": p1, "cigar": W.cigar_str(c1), "seq": s1,
                              "rg": "rg_" + r["sample"], "mate": {"ref": r["chrom"], "pos": p2}})
                reads.append({"name": name, "flag": 1 | 2 | 128 | 16, "ref": r["chrom"], "pos": p2, "cigar": W.cigar_str(c2), "seq": s2,
                              "rg": "rg_" + r["sample"], "mate": {"ref": r["chrom"], "pos": p1}})
            elif r.get("sites"):
                # ONE alignment covering exactly the listed sites (any subset of first..last, "first"/"last" must be its ends):
                # maximal runs of neighbouring sites are aligned stretches, everything between two runs lies in a reference skip (N)
                idx = sorted(set(r["sites"]))
                runs = [[idx[0], idx[0]]]
                for i_ in idx[1:]:
                    if i_ == runs[-1][1] + 1:
                        runs[-1][1] = i_
                    else:
                        runs.append([i_, i_])
                p0, cg, sq = seg(runs[0][0], runs[0][1])
                cg = list(cg)
                end = p0 + W.cigar_reflen(cg)
                for a_, b_ in runs[1:]:
                    p_, c_, s_ = seg(a_, b_)
                    assert p_ > end
                    cg += [("N", p_ - end)] + list(c_)
                    sq += s_
                    end = p_ + W.cigar_reflen(c_)
                reads.append({"name": name, "flag": 0, "ref": r["chrom"], "pos": p0, "cigar": W.cigar_str(cg), "seq": sq,
                              "rg": "rg_" + r["sample"]})
            elif r.get("gap"):
                a, b = r["gap"]
                p1, c1, s1 = seg(r["first"], a)
                p2, c2, s2 = seg(b, r["last"])
                skip = p2 - (p1 + W.cigar_reflen(c1))
                if r.get("splice") and skip > 0:
                    # ONE spliced alignment (cDNA-like): the sites between a and b lie inside its reference skip (N)
                    reads.append({"name": name, "flag": 0, "ref": r["chrom"], "pos": p1, "cigar": W.cigar_str(list(c1) + [("N", skip)] + list(c2)),
                                  "seq": s1 + s2, "rg": "rg_" + r["sample"]})
                    continue
                reads.append({"name": name, "flag": 1 | 2 | 64 | 32, "ref": r["chrom"], "pos": p1, "cigar": W.cigar_str(c1), "seq": s1,
                              "rg": "rg_" + r["sample"], "mate": {"ref": r["chrom"], "pos": p2}})
                reads.append({"name": name, "flag": 1 | 2 | 128 | 16, "ref": r["chrom"], "pos": p2, "cigar": W.cigar_str(c2), "seq": s2,
                              "rg": "rg_" + r["sample"], "mate": {"ref": r["chrom"], "pos": p1}})
            else:
                p, c, s = seg(r["first"], r["last"])
                reads.append({"name": name, "flag": 0, "ref": r["chrom"], "pos": p, "cigar": W.cigar_str(c), "seq": s,
                              "rg": "rg_" + r["sample"]})
                # DECOYS: alignments the reader must not use (their alleles are arbitrary): below the mapping quality
                # threshold, secondary, duplicate, supplementary
                dk = r.get("decoy")
                if dk == "lowmapq":
                    reads[-1]["mapq"] = rng.randint(0, mapq_thr - 1)
                elif dk == "foreignrg":
                    reads[-1]["rg"] = "rg_ctrl"         # a read group WITHOUT an SM field: belongs to no sample
                elif dk:
                    reads[-1]["flag"] = {"secondary": 256, "duplicate": 1024, "supplementary": 2048}[dk]
    if mapq_thr != 20:
        for x in reads:
            x.setdefault("mapq", rng.choice([mapq_thr, mapq_thr, mapq_thr + 1, 60]))
    rgs = [{"ID": "rg_" + s, "SM": s} for s in samples]
    if any(r_.get("decoy") == "foreignrg" for r_ in wd.get("decoys", [])):
        rgs.append({"ID": "rg_ctrl", "LB": "spike_in"})
    if wd.get("opts", {}).get("ignore_rg"):
        # --ignore-read-groups (one sample): read groups are absent or name somebody else
        rgs = [{"ID": "rg_other", "SM": "somebody_else"}]
        for x in reads:
            if rng.random() < 0.5:
                x["rg"] = "rg_other"
            else:
                x.pop("rg", None)
    # one read that covers no variant at all (left margin of the first chromosome), so that the BAM is
    # never empty: whatshap refuses a BAM without reads, "no read support" must still be expressible
    ref0 = seqs[0][0]
    reads.append({"name": "dummy0", "flag": 0, "ref": 0, "pos": 2, "cigar": "20M", "seq": ref0[2:22], "rg": "rg_" + samples[0]})
    bam2 = None
    if wd.get("two_bams"):
        # the reads are spread over two alignment files whose read-name spaces COLLIDE (a name identifies a fragment
        # only within its file): every read of the second file takes over the name of a read of the first file
        rng2 = random.Random(wd["seed"] + 5)
        names1 = [r["name"] for r in reads if r["name"] != "dummy0"]
        # a FRAGMENT (both mates) goes to one file: a lone mate ending on an insertion anchor is not an error-free copy
        to2 = {nm for nm in sorted(set(names1)) if rng2.random() < 0.45}
        second = [r for r in reads if r["name"] in to2]
        ids2 = {id(r) for r in second}
        reads = [r for r in reads if id(r) not in ids2]
        orig2 = {r["name"] for r in second}
        free = sorted({r["name"] for r in reads if r["name"] != "dummy0"} - orig2)
        ren = {}
        for r in second:                      # distinct fragments keep distinct names WITHIN the second file
            if r["name"] not in ren:
                ren[r["name"]] = free.pop() if free else r["name"]
        for r in second:
            r["name"] = ren[r["name"]]
        if second:
            bam2 = W.write_bam(os.path.join(d, "reads2.bam"), [(n_, len(s[0])) for n_, s in zip(names, seqs)], second, rgs)
    bam = W.write_bam(os.path.join(d, "reads.bam"), [(n_, len(s[0])) for n_, s in zip(names, seqs)], reads, rgs)
    ped = None
    if wd.get("ped"):
        ped = W.write_ped(os.path.join(d, "fam.ped"), wd["ped"])
    pvcf = None
    if wd.get("phase_vcf"):
        # a PHASED VCF as an additional phase input ("preferred" pseudo reads): blocks of 2-4 consecutive sites, each
        # carrying the TRUE haplotypes of the sample (either orientation), so it is an error-free source as well
        rng3 = random.Random(wd["seed"] + 23)
        precs = []
        for ci, (ref, vs) in enumerate(seqs):
            blocks, i = [], 0
            while i < len(vs):
                ln = rng3.randint(2, 4)
                blocks.append(list(range(i, min(len(vs), i + ln))))
                i += ln
            per_s = {}
            for s in samples:
                per_s[s] = {}
                for blk in blocks:
                    if len(blk) < 2 or rng3.random() < 0.3:
                        continue
                    fl = rng3.randint(0, 1)
                    for si in blk:
                        a, b = wd["truth"][s][ci][si]
                        if a != b:
                            per_s[s][si] = (f"{b}|{a}" if fl else f"{a}|{b}", vs[blk[0]].pos + 1)
            for si, v in enumerate(vs):
                calls = []
                for s in samples:
                    if si in per_s[s]:
                        calls.append([per_s[s][si][0], str(per_s[s][si][1])])
                    else:
                        a, b = wd["truth"][s][ci][si]
                        calls.append([f"{min(a, b)}/{max(a, b)}", "."])
                precs.append({"chrom": names[ci], "pos": v.pos + 1, "ref": v.ref, "alt": v.alt, "fmt": ["GT", "PS"], "calls": calls})
        pvcf = W.write_vcf(os.path.join(d, "phaseinput.vcf"), samples, [(n_, len(s[0])) for n_, s in zip(names, seqs)], precs,
                           fmt_keys=("GT", "PS"))
        if wd["phase_vcf"] == 2:        # a second phased VCF with the same statements (another source id for the same blocks)
            import shutil as _sh
            _sh.copy(pvcf, os.path.join(d, "phaseinput2.vcf"))
    return {"vcf": vcf, "bam": bam, "bam2": bam2, "pvcf": pvcf, "ref": os.path.join(d, "ref.fa"), "ped": ped, "seqs": seqs, "names": names}


def run_phase(wd, d, paths, vcf_in=None, out_name="out.vcf", phase_inputs=None, tag=None):
    """Run whatshap phase in-process with the hook on.  Returns (exc_name or "", h1 events, list paths)."""
    from whatshap.cli.phase import run_whatshap
    o = wd.get("opts", {})
    trace = os.path.join(d, out_name + ".h1.ndjson")
    if os.path.exists(trace):
        os.remove(trace)
    lists = o.get("lists", {})
    lp = {k: os.path.join(d, f"{out_name}.{k}.tsv") for k in ("read", "gt", "recomb") if lists.get(k)}
    if wd.get("stale_lists"):
        # HISTORY: the list paths already hold the lists of an earlier run in the same directory; this run must replace them
        smp, chrom = wd["samples"][0], wd["chroms"][0]["name"]
        stale = {"read": f"#readname\tsource_id\tsample\tphaseset\thaplotype\tcovered_variants\tfirst_variant_pos\tlast_variant_pos\n"
                         f"rd99999\t0\t{smp}\t3\t0\t2\t3\t9\n",
                 "gt": f"#sample\tchromosome\tposition\tREF\tALT\told_gt\tnew_gt\n{smp}\t{chrom}\t7\tA\tC\t0/1\t1/1\n",
                 "recomb": f"#child_id\tchromosome\tposition1\tposition2\ttransmitted_hap_father1\ttransmitted_hap_father2\t"
                           f"transmitted_hap_mother1\ttransmitted_hap_mother2\trecombination_cost\n{smp}\t{chrom}\t3\t9\t0\t1\t0\t0\t5\n"}
        for k, pth in lp.items():
            with open(pth, "w") as fh:
                fh.write(stale[k])
    os.environ["WHATSHAP_VERIF_TRACE"] = trace
    import logging
    logging.disable(logging.ERROR)
    exc = ""
    saved_fd = None
    out_arg = os.path.join(d, out_name)
    if o.get("to_stdout"):
        # the phased VCF goes to STANDARD OUTPUT (the documented default without -o): file descriptor 1 is pointed at the
        # output file for the duration of the run, so everything the run prints there ends up in the "VCF"
        import sys
        sys.stdout.flush()
        saved_fd = os.dup(1)
        fd = os.open(out_arg, os.O_WRONLY | os.O_CREAT | os.O_TRUNC, 0o644)
        os.dup2(fd, 1)
        os.close(fd)
        out_arg = sys.stdout
    try:
        run_whatshap(
            phase_input_files=phase_inputs or (([] if o.get("vcf_only") and paths.get("pvcf") else
                                                [paths["bam"]] + ([paths["bam2"]] if paths.get("bam2") else []))
                                               + ([paths["pvcf"]] if paths.get("pvcf") else [])
                                               + ([os.path.join(d, "phaseinput2.vcf")] if wd.get("phase_vcf") == 2 else [])),
            variant_file=vcf_in or paths["vcf"],
            reference=paths["ref"] if o.get("reference", True) else False,
            output=out_arg,
            samples=o.get("samples"),
            chromosomes=o.get("chromosomes"),
            only_snvs=o.get("only_snvs", False),
            mapping_quality=o.get("mapping_quality", 20),
            ignore_read_groups=o.get("ignore_rg", False),
            max_coverage=o.get("max_coverage", 15),
            distrust_genotypes=o.get("distrust", False),
            include_homozygous=o.get("include_homozygous", False),
            ped=paths["ped"] if o.get("ped") else None,
            genetic_haplotyping=o.get("genetic_haplotyping", True),
            recombination_list_filename=lp.get("recomb"),
            tag=tag or o.get("tag", "PS"),
            read_list_filename=lp.get("read"),
            gtchange_list_filename=lp.get("gt"),
            use_ped_samples=o.get("use_ped_samples", False),
            write_command_line_header=False,
        )
    except Exception as e:  # CommandLineError and friends are observable behaviour
        exc = type(e).__name__ + ":" + str(e)[:200]
    finally:
        os.environ.pop("WHATSHAP_VERIF_TRACE", None)
        if saved_fd is not None:
            import sys
            sys.stdout.flush()
            os.dup2(saved_fd, 1)
            os.close(saved_fd)
    h1 = []
    if os.path.exists(trace):
        with open(trace) as fh:
            h1 = [json.loads(x) for x in fh if x.strip()]
    return exc, h1, lp


# ----------------------------------------------------------------------------------------------
def parse_gt(gt):
    """'0|1' -> (0, 1, True); './.' -> (-1, -1, False); haploid/polyploid -> alleles list"""
    phased = "|" in gt
    als = [(-1 if x in (".", "") else int(x)) for x in gt.replace("|", "/").split("/")]
    return als, phased


def decode_call(call, tag_pref=None):
    """Project one VCF call (dict key->raw string) to [alleles..., phased(0/1), ps].  Phase is decoded from
    GT separator + PS, or from HP (HP = 'ps-1,ps-2': allele order follows the haplotype numbers)."""
    gt = call.get("GT", ".")
    als, phased = parse_gt(gt)
    ps = -1
    if phased:
        v = call.get("PS", ".")
        ps = int(v) if v not in (".", "") else 0
    hp = call.get("HP", ".")
    hp_dec = None
    if hp not in (".", ""):
        parts = hp.split(",")
        try:
            ids = [p.rsplit("-", 1) for p in parts]
            order = [int(x[1]) for x in ids]
            hps = int(ids[0][0])
            hp_dec = (hps, order)
        except Exception:
            hp_dec = (-2, [])
    return als, phased, ps, hp_dec


def project_vcf(path, samples_order, names):
    """{chrom idx: [ {pos0, ref, alt, calls: {sample: (als, phased, ps, hp_dec)}, raw...} ]}"""
    header, samples, recs = W.read_vcf_text(path)
    out = []
    for r in recs:
        out.append({"chrom": names.index(r["chrom"]) if r["chrom"] in names else -1, "pos": r["pos"] - 1, "ref": r["ref"], "alt": r["alt"],
                    "calls": {s: decode_call(c) for s, c in zip(samples, r["calls"])}, "raw": r})
    return header, samples, out


def effective_phase(als, phased, ps, hp_dec):
    """The phase statement a call makes, whichever encoding: (set id, ordered alleles) or None.
    HP: GT lists alleles in file order; HP 'S-1,S-2' says first listed allele is on haplotype 1 etc."""
    if phased and len(als) == 2:
        return ps, (als[0], als[1])
    if hp_dec and len(als) == 2 and len(hp_dec[1]) == 2 and sorted(hp_dec[1]) == [1, 2]:
        a = [None, None]
        a[hp_dec[1][0] - 1] = als[0]
        a[hp_dec[1][1] - 1] = als[1]
        return hp_dec[0], (a[0], a[1])
    return None


def read_tsv(path):
    rows = []
    if path and os.path.exists(path):
        with open(path) as fh:
            for line in fh:
                if line.startswith("#") or not line.strip():
                    continue
                rows.append(line.rstrip("\n").split("\t"))
    return rows


def workdir():
    base = os.path.join(os.environ.get("WV_SCRATCH", "/var/tmp/whverif"), "work")
    os.makedirs(base, exist_ok=True)
    return tempfile.mkdtemp(prefix="pw", dir=base)


# ----------------------------------------------------------------------------------------------
# random world generation (seeded)
def rand_world(rng, nsamples=1, nchroms=1, ped=None, kinds=("snv", "snv", "snv", "ins", "del", "mnp"), max_sites=7,
               het_prob=0.8, depth=(1, 3), gap_prob=0.25, read_none_prob=0.0):
    chroms = []
    for c in range(nchroms):
        n = rng.randint(2, max_sites)
        chroms.append({"name": f"chr{c+1}", "sites": [{"kind": rng.choice(kinds), "len": rng.randint(1, 3)} for _ in range(n)]})
        for s in chroms[-1]["sites"]:
            if s["kind"] == "snv":
                s["len"] = 1
            if s["kind"] == "mnp":
                s["len"] = max(2, s["len"])
    samples = [f"s{i+1}" for i in range(nsamples)]
    truth = {}
    trios = ped or []
    children = {t[2]: t for t in trios}
    order = [s for s in samples if s not in children] + [s for s in samples if s in children]
    for s in order:
        truth[s] = []
        for ci, ch in enumerate(chroms):
            row = []
            if s in children:
                f, m, _ = children[s]
                tf, tm = rng.randint(0, 1), rng.randint(0, 1)
                for si in range(len(ch["sites"])):
                    if rng.random() < 0.1:
                        tf = 1 - tf
                    if rng.random() < 0.1:
                        tm = 1 - tm
                    row.append([truth[f][ci][si][tf], truth[m][ci][si][tm]])
            else:
                for si in range(len(ch["sites"])):
                    if rng.random() < het_prob:
                        row.append(rng.choice([[0, 1], [1, 0]]))
                    else:
                        row.append(rng.choice([[0, 0], [1, 1]]))
            truth[s].append(row)
    reads = []
    for s in samples:
        if rng.random() < read_none_prob:
            continue
        for ci, ch in enumerate(chroms):
            n = len(ch["sites"])
            for _ in range(rng.randint(1, 2 * n)):
                first = rng.randint(0, n - 1)
                last = min(n - 1, first + rng.choice([0, 1, 1, 2, 3, 6]))
                gap = None
                if last - first >= 2 and rng.random() < gap_prob:
                    a = rng.randint(first, last - 2)
                    b = rng.randint(a + 2, last)
                    gap = [a, b]
                reads.append({"sample": s, "chrom": ci, "hap": rng.randint(0, 1), "first": first, "last": last, "gap": gap,
                              "copies": rng.randint(*depth)})
    return {"seed": rng.randrange(10 ** 6), "chroms": chroms, "samples": samples, "truth": truth, "reads": reads,
            "ped": [list(t) for t in trios], "opts": {}}


# ----------------------------------------------------------------------------------------------
# one run -> one "PhaseRun" event (everything as small integers)
def shuffle_roles(rng, ped, samples):
    """the same pedigree shape with the roles dealt to other sample names (children may sort before parents, VCF column
    order independent of the roles) and the PED lines in another order"""
    perm = dict(zip(samples, rng.sample(list(samples), len(samples))))
    out = [[perm[x] for x in t] for t in ped]
    rng.shuffle(out)
    return out


def add_decoys(rng, w, p_each=0.5):
    """Alignments the reader must ignore, with arbitrary alleles; optionally a non-default --mapping-quality.  The truth
    of the world is unaffected: the statement's reads are the usable alignments."""
    o = w.setdefault("opts", {})
    if rng.random() < 0.5:
        o["mapping_quality"] = rng.choice([1, 5, 30, 50])
    dec = []
    for r in w["reads"]:
        if r.get("tight") is None and not r.get("gap") and rng.random() < p_each:
            n = r["last"] - r["first"] + 1
            dec.append({"sample": r["sample"], "chrom": r["chrom"], "hap": r["hap"], "first": r["first"], "last": r["last"], "gap": None,
                        "alleles": [rng.randint(0, 1) for _ in range(n)], "copies": rng.randint(1, 2),
                        "decoy": rng.choice(["lowmapq", "secondary", "duplicate", "supplementary"] +
                                            (["foreignrg", "foreignrg"] if len(w["samples"]) == 1 and not o.get("ignore_rg") else []))})
    w["decoys"] = dec
    return w


def _gtpair(gt):
    als, _ = parse_gt(gt)
    if len(als) != 2:
        return [-1, -1]
    return als if -1 in als else sorted(als)


def _name_id(name):
    if name.startswith("rd") and name[2:].isdigit():
        return int(name[2:])
    return 100000 + (sum(ord(ch) * (i + 1) for i, ch in enumerate(name)) % 100000)


def phase_run_event(wd, d=None, paths=None, keep=False):
    own = d is None
    if own:
        d = workdir()
    try:
        if paths is None:
            paths = materialise(wd, d)
        exc, h1, lp = run_phase(wd, d, paths)
        return project_run(wd, d, paths, exc, h1, lp)
    finally:
        if own and not keep:
            shutil.rmtree(d, ignore_errors=True)


def project_run(wd, d, paths, exc, h1, lp, out_name="out.vcf"):
    o = wd.get("opts", {})
    samples = wd["samples"]
    names = paths["names"]
    sidx = {s: i + 1 for i, s in enumerate(samples)}
    seqs = paths["seqs"]
    ev = {"ev": "PhaseRun", "exc": exc, "nS": len(samples), "nC": len(names),
          "sites": [[{"pos": v.pos, "kind": KIND_CODE[v.kind]} for v in vs] for _, vs in seqs],
          "truth": [[[list(x) for x in wd["truth"][s][ci]] for ci in range(len(names))] for s in samples],
          "errfree": bool(wd.get("errfree", True)),
          "targets": [sidx[s] for s in (o.get("samples") or samples)],
          "csel": [names.index(c) + 1 for c in (o.get("chromosomes") or names)],
          "ped": [[sidx[x] for x in t] for t in wd.get("ped", [])] if o.get("ped") else [],
          "k": o.get("max_coverage", 15), "distrust": bool(o.get("distrust", False)),
          "genhap": bool(o.get("genetic_haplotyping", True)), "onlysnv": bool(o.get("only_snvs", False)),
          "tag": 2 if o.get("tag") == "HP" else 1}
    if o.get("ped") and o.get("use_ped_samples"):
        ev["targets"] = sorted({sidx[x] for t in wd.get("ped", []) for x in t})
    # genotypes as written in the input VCF
    hin, sin, rin = W.read_vcf_text(paths["vcf"])
    inrec = {(r["chrom"], r["pos"], r["ref"], r["alt"]): r for r in rin}
    vgt = []
    for s in samples:
        per_c = []
        for ci, (ref, vs) in enumerate(seqs):
            row = []
            for v in vs:
                r = inrec[(names[ci], v.pos + 1, v.ref, v.alt)]
                row.append(_gtpair(r["calls"][sin.index(s)]["GT"]))
            per_c.append(row)
        vgt.append(per_c)
    ev["vgt"] = vgt
    # solver instances
    hs = []
    for h in h1:
        acc = h["accessible_positions"]
        fam = [sidx[x] for x in h["family"]]
        sr = []
        for x in h["family"]:
            pair = []
            for hap in h["superreads"][x]:
                dd = {p: a for p, a, q in hap}
                pair.append([int(dd.get(p, 9)) for p in acc])
            sr.append(pair)
        hs.append({"c": names.index(h["chromosome"]) + 1, "fam": fam,
                   "trios": [[sidx[a] for a in t] for t in h["trios"]],
                   "reads": [{"s": sidx.get(r["sample"], 0), "src": r["source"], "name": _name_id(r["name"]),
                              "vars": [[int(p), int(a), int(q)] for p, a, q in r["vars"]]} for r in h["reads"]],
                   "acc": acc, "hom": h["homozygous_positions"], "rc": h["recombination_costs"], "cost": h["cost"],
                   "part": h["partition"], "tv": h["transmission_vector"] or [], "sr": sr, "comps": h["components"],
                   "gts": [[sum(g) if len(g) == 2 else -1 for g in h["genotypes"][x]] for x in h["family"]],
                   "gls": [[[int(round(v)) for v in (g or [0, 0, 0])] for g in h["likelihoods"].get(x, [])] for x in h["family"]],
                   "alg": h["algorithm"], "kfam": h["max_coverage"]})
    ev["h1"] = hs
    # output projection
    outp = os.path.join(d, out_name)
    out = []
    indiff = []
    if exc == "" and os.path.exists(outp):
        hout, sout, rout = W.read_vcf_text(outp)
        outrec = {}
        for r in rout:
            outrec.setdefault((r["chrom"], r["pos"], r["ref"], r["alt"]), []).append(r)
        for s in samples:
            per_c = []
            for ci, (ref, vs) in enumerate(seqs):
                row = []
                for v in vs:
                    rr = outrec.get((names[ci], v.pos + 1, v.ref, v.alt), [])
                    if len(rr) != 1 or s not in sout:
                        row.append({"pos": v.pos, "a": -2, "b": -2, "ph": False, "ps": -1})
                        continue
                    als, phased, ps, hp = decode_call(rr[0]["calls"][sout.index(s)])
                    ep = effective_phase(als, phased, ps, hp)
                    if ep is not None and None not in ep[1]:
                        row.append({"pos": v.pos, "a": ep[1][0], "b": ep[1][1], "ph": True, "ps": ep[0]})
                    else:
                        g = als if len(als) == 2 else [-2, -2]
                        g = g if -1 in g else sorted(g)
                        row.append({"pos": v.pos, "a": g[0], "b": g[1], "ph": False, "ps": -1})
                per_c.append(row)
            out.append(per_c)
        # genotype differences between input and output over ALL records (multiset of alleles per call)
        if len(rin) == len(rout):
            for a, b in zip(rin, rout):
                for s in sin:
                    if s in sout:
                        ga, _ = parse_gt(a["calls"][sin.index(s)].get("GT", "."))
                        gb, _ = parse_gt(b["calls"][sout.index(s)].get("GT", "."))
                        if sorted(ga) != sorted(gb) and a["chrom"] in names:
                            indiff.append({"s": sidx.get(s, 0), "c": names.index(a["chrom"]) + 1, "pos": a["pos"] - 1,
                                           "old": sorted(ga), "new": sorted(gb)})
    ev["out"] = out
    ev["indiff"] = indiff
    # lists
    lists = {"readreq": "read" in lp, "gtreq": "gt" in lp, "recreq": "recomb" in lp, "read": [], "gt": [], "rec": []}
    for row in read_tsv(lp.get("read")):
        lists["read"].append({"name": _name_id(row[0]), "s": sidx.get(row[2], 0), "ps": int(row[3]), "hap": int(row[4]) if row[4].lstrip("-").isdigit() else -1,
                              "n": int(row[5]), "first": int(row[6]), "last": int(row[7])})
    for row in read_tsv(lp.get("gt")):
        c = names.index(row[1]) + 1 if row[1] in names else 0
        p = int(row[2])
        # the list prints the variant's position; identify the record it refers to by REF/ALT
        cand = [r for r in rin if r["chrom"] == row[1] and r["ref"] == row[3] and r["alt"] == row[4] and r["pos"] - 1 in (p, p - 1)]
        pos0 = cand[0]["pos"] - 1 if cand else p
        lists["gt"].append({"s": sidx.get(row[0], 0), "c": c, "pos": pos0, "old": _gtlist(row[5]), "new": _gtlist(row[6])})
    for row in read_tsv(lp.get("recomb")):
        row = row[0].split() if len(row) == 1 else row
        lists["rec"].append({"child": sidx.get(row[0], 0), "c": names.index(row[1]) + 1 if row[1] in names else 0,
                             "p1": int(row[2]) - 1, "p2": int(row[3]) - 1, "f1": int(row[4]), "f2": int(row[5]),
                             "m1": int(row[6]), "m2": int(row[7]), "cost": int(row[8])})
    ev["lists"] = lists
    return ev


def _gtlist(txt):
    als, _ = parse_gt(txt.strip())
    return sorted(als)
