"""Crash-isolating process pool.

whatshap's extensions are built with C++ asserts enabled: a failed assert aborts
the process.  Every driver call therefore runs in a worker process; a worker that
dies or exceeds the per-task timeout is replaced, and the task's result is the
marker {"crashed": True, ...} instead of an exception in the harness.
"""
import importlib
import multiprocessing as mp
import os
import signal
import sys
import time
import traceback
from multiprocessing.connection import wait


def _worker(conn, modname, funcname, init_path):
    if init_path and init_path not in sys.path:
        sys.path.insert(0, init_path)
    try:
        mod = importlib.import_module(modname)
        fn = getattr(mod, funcname)
    except Exception:
        conn.send(("fatal", traceback.format_exc()))
        return
    conn.send(("ready", None))
    while True:
        try:
            msg = conn.recv()
        except EOFError:
            return
        if msg is None:
            return
        idx, arg = msg
        try:
            res = fn(arg)
            conn.send(("ok", idx, res))
        except BaseException as e:  # noqa
            conn.send(("exc", idx, {"type": type(e).__name__, "msg": str(e)[:500], "tb": traceback.format_exc()[-3000:]}))


class _W:
    def __init__(self, ctx, modname, funcname, init_path):
        self.parent, child = ctx.Pipe()
        self.proc = ctx.Process(target=_worker, args=(child, modname, funcname, init_path), daemon=True)
        self.proc.start()
        child.close()
        self.task = None
        self.started = None
        self.ready = False


def run_tasks(modname, funcname, args, nproc=16, timeout=120, init_path=None, progress=None, max_timeouts=6):
    """Run fn(arg) for every arg; returns list of results in order.  A result is either the
    function's return value, or {"crashed": True, "where": "abort"|"timeout", ...} or
    {"exception": {...}} for a Python exception escaping the driver."""
    ctx = mp.get_context("fork")
    n = len(args)
    results = [None] * n
    nxt = 0
    done = 0
    nproc = max(1, min(nproc, n))
    workers = [_W(ctx, modname, funcname, init_path) for _ in range(nproc)]
    t_last = time.time()

    ntimeouts = 0

    def feed(w):
        nonlocal nxt, done
        if ntimeouts >= max_timeouts:
            # circuit breaker: the code under test hangs; the timed-out tasks already are
            # violations (clause Returns), do not spend hours on the rest
            while nxt < n:
                results[nxt] = {"skipped": True}
                nxt += 1
                done += 1
            w.task = None
            return
        if nxt < n:
            w.task = nxt
            w.started = time.time()
            w.parent.send((nxt, args[nxt]))
            nxt += 1
        else:
            w.task = None

    try:
        while done < n:
            conns = [w.parent for w in workers if w.proc is not None]
            ready = wait(conns, timeout=1.0)
            now = time.time()
            for w in workers:
                if w.parent in ready:
                    try:
                        msg = w.parent.recv()
                    except (EOFError, ConnectionResetError):
                        msg = ("dead",)
                    if msg[0] == "ready":
                        w.ready = True
                        feed(w)
                    elif msg[0] == "fatal":
                        raise RuntimeError("driver import failed in worker:\n" + msg[1])
                    elif msg[0] == "ok":
                        results[msg[1]] = msg[2]
                        done += 1
                        feed(w)
                    elif msg[0] == "exc":
                        results[msg[1]] = {"exception": msg[2]}
                        done += 1
                        feed(w)
                    elif msg[0] == "dead":
                        w.proc.join(timeout=5)
                        code = w.proc.exitcode
                        if w.task is not None:
                            results[w.task] = {"crashed": True, "where": "abort", "exitcode": code}
                            done += 1
                        i = workers.index(w)
                        workers[i] = _W(ctx, modname, funcname, init_path)
                elif w.task is not None and w.started and now - w.started > timeout:
                    try:
                        os.kill(w.proc.pid, signal.SIGKILL)
                    except ProcessLookupError:
                        pass
                    w.proc.join(timeout=5)
                    results[w.task] = {"crashed": True, "where": "timeout", "timeout_s": timeout}
                    done += 1
                    ntimeouts += 1
                    i = workers.index(w)
                    workers[i] = _W(ctx, modname, funcname, init_path)
            if progress and now - t_last > 15:
                t_last = now
                progress(done, n)
    finally:
        for w in workers:
            try:
                w.parent.send(None)
            except Exception:
                pass
        for w in workers:
            w.proc.join(timeout=2)
            if w.proc.is_alive():
                w.proc.kill()
    return results
