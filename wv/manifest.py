"""Generate /verif/MANIFEST.json from the property modules that exist (python -m wv.manifest)."""
import importlib
import json
import os

ALL = [f"C{n:02d}" for n in range(1, 21)]
HOOK_COMMITS_FILE = "/verif/HOOK_COMMITS.txt"


def main():
    checks, na = [], []
    ready = [l.strip() for l in open("/verif/wv/ready.txt") if l.strip() and not l.startswith("#")]
    for pid in ALL:
        if pid not in ready:
            na.append({"property_id": pid, "reason": "check not finished yet in this round (planned, see DESIGN.md section 5); no claim is made"})
            continue
        try:
            mod = importlib.import_module(f"wv.props.{pid.lower()}")
        except ModuleNotFoundError:
            na.append({"property_id": pid, "reason": "check not built yet in this round (planned, see DESIGN.md section 5); no claim is made"})
            continue
        if getattr(mod, "NOT_CLAIMED", None):
            na.append({"property_id": pid, "reason": mod.NOT_CLAIMED})
            continue
        m = mod.MANIFEST
        checks.append({
            "property_id": pid,
            "quick_cmd": f"./check {pid} --tier quick",
            "thorough_cmd": f"./check {pid} --tier thorough",
            "evidence_file": f"/verif/evidence/{pid}.json",
            "replay_cmd_template": f"./check {pid} --replay {{path}}",
            "engine": "tlc-trace-validation",
            "level_claimed": {"category": "model_checking", "text": m["text"], "design_ref": f"DESIGN.md section 5, {pid}"},
            "level_note": m["note"],
            "technique": m["technique"],
        })
    commits = []
    if os.path.exists(HOOK_COMMITS_FILE):
        commits = [l.split()[0] for l in open(HOOK_COMMITS_FILE) if l.strip() and not l.startswith("#")]
    man = {
        "version": 1,
        "setup_cmd": "cd /verif && /venv/bin/python -m wv.build",
        "hooks": {
            "guard": "WHATSHAP_VERIF_TRACE (hook H1, whatshap phase instances) and WHATSHAP_VERIF_DPTRACE (hook H2, column store of the DP tables); both are environment variables naming an output file",
            "enable": "checks rsync /repo's working tree to /var/tmp/whverif/build, rebuild the changed extensions there and run the "
                      "drivers with that directory first on PYTHONPATH; hooks are inert unless the environment variable "
                      "WHATSHAP_VERIF_TRACE=<ndjson file> (H1) or WHATSHAP_VERIF_DPTRACE=<text file> (H2, read once per process by the C++ code) is set (the drivers set them)",
            "baseline_off_cmd": "cd /repo && env -u WHATSHAP_VERIF_TRACE -u WHATSHAP_VERIF_DPTRACE -u WHATSHAP_VERIF_OPTS /venv/bin/python -m pytest -ra -q -p no:cacheprovider --timeout=900 --continue-on-collection-errors",
            "source_commits": commits,
            "add_only": True,
        },
        "engines": [{
            "name": "tlc-trace-validation",
            "path": "/verif/wv",
            "serves_properties": [c["property_id"] for c in checks],
            "kind_free_text": "explicit TLA+ specifications in /verif/specs, model-checked by TLC (design level) and bound to the "
                              "implementation by trace validation: TLC-enumerated and seeded scenarios are driven through the real "
                              "code built from /repo's working tree, every recorded execution is judged by TLC against the trace spec",
        }],
        "checks": checks,
        "not_applicable": na,
        "notes": "exit 0 = held on everything explored (KNOWN-FINDING lines for listed findings), exit 1 + VIOLATION line, exit 2 = machinery failure. "
                 "VERIF_SEED / VERIF_TIER are honoured. See DESIGN.md.",
    }
    with open("/verif/MANIFEST.json", "w") as fh:
        json.dump(man, fh, indent=1)
    print(f"MANIFEST.json: {len(checks)} checks, {len(na)} not_applicable")


if __name__ == "__main__":
    main()
