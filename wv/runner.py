"""Generic check runner: build -> design-level TLC -> scenarios -> drive real code ->
TLC trace validation -> known findings -> evidence -> verdict.

A property module (wv/props/cNN.py) provides

  PROP            property id, e.g. "C19"
  TRACE_MODULE    name of the trace spec in /verif/specs
  design_mc(ctx)  -> list of tlc.model_check results (design-level, exhaustive)
  scenarios(ctx)  -> list of JSON-able scenario dicts (TLC-enumerated + seeded random)
  drive(sc)       -> list of event dicts (runs in a worker; imports whatshap from the build)
  nontrivial(sc, events) -> bool                (evidence: distinct_nontrivial rule)
  RULE            text of that rule
  signature(sc, events, clause) -> str          (specific description of a failing case,
                                                 matched against KNOWN_FINDINGS.json)
  ASSUMPTIONS     list of str
  optional: CFG (trace cfg), SHARDS, TASK_TIMEOUT, post(ctx, scenarios, results) for
            cross-scenario events, selftest_corrupt(events) -> events (binding demo)
"""
import hashlib
import importlib
import json
import os
import random
import shutil
import sys
import time

from . import build, pool, tlc

VERIF = "/verif"
OUT = os.environ.get("WV_OUT", VERIF)  # evidence/replays root (redirected by the mutation tool only)
SCRATCH = os.environ.get("WV_SCRATCH", "/var/tmp/whverif")


class Ctx:
    def __init__(self, prop, tier, seed):
        self.prop = prop
        self.tier = tier
        self.seed = seed
        self.rng = random.Random(seed * 1000003 + sum(map(ord, prop)))
        self.workdir = os.path.join(SCRATCH, "work", f"{prop}-{os.getpid()}")
        self.t0 = time.time()
        self.notes = {}

    @property
    def quick(self):
        return self.tier == "quick"


def load_findings():
    out = []
    # KNOWN_FINDINGS.json: the listed properties; KNOWN_FINDINGS_EXTRA.json: extra checks X.. (spec growth beyond the list)
    for name in ("KNOWN_FINDINGS.json", "KNOWN_FINDINGS_EXTRA.json"):
        p = os.path.join(VERIF, name)
        if os.path.exists(p):
            with open(p) as fh:
                out += json.load(fh)["findings"]
    return out


def _sc_hash(sc):
    return hashlib.sha1(json.dumps(sc, sort_keys=True).encode()).hexdigest()


def write_evidence(prop, tier, seed, level, coverage, assumptions, wall, violations):
    evdir = "evidence" if prop.startswith("C") else "evidence_extra"    # extra checks do not claim a listed property
    os.makedirs(os.path.join(OUT, evdir), exist_ok=True)
    ev = {
        "property_id": prop, "tier": tier, "seed": seed, "level": level,
        "coverage": coverage, "assumptions": assumptions, "wall_s": round(wall, 2),
        "violations": violations,
    }
    path = os.path.join(OUT, evdir, f"{prop}.json")
    tmp = path + ".tmp"
    with open(tmp, "w") as fh:
        json.dump(ev, fh, indent=1, sort_keys=True)
    os.replace(tmp, path)
    return path


def crashed_events(sc, res):
    """Turn a pool failure into the event the trace specs reject under clause Returns."""
    if "crashed" in res:
        return [{"ev": "Crashed", "where": res["where"], "detail": json.dumps(res)[:300]}]
    ex = res["exception"]
    return [{"ev": "Crashed", "where": "exception:" + ex["type"], "detail": ex["msg"][:300], "tb": ex.get("tb", "")}]


def run_property(mod, tier, seed, replay=None, selftest=False):
    prop = mod.PROP
    ctx = Ctx(prop, tier, seed)
    shutil.rmtree(ctx.workdir, ignore_errors=True)
    os.makedirs(ctx.workdir, exist_ok=True)
    try:
        return _run(mod, ctx, replay, selftest)
    finally:
        if not os.environ.get("WV_KEEP"):
            shutil.rmtree(ctx.workdir, ignore_errors=True)


def _run(mod, ctx, replay, selftest):
    prop = ctx.prop
    builddir = build.activate()
    ctx.builddir = builddir
    # ---- 1. design-level model checking (spec failure = machinery failure) -------------
    mcs = []
    if not replay:
        for r in mod.design_mc(ctx):
            tlc.require_mc(r, r.get("what", prop))
            mcs.append(r)
            print(f"[{prop}] design MC {r.get('what','')}: {r['states']} distinct states, "
                  f"{r['transitions']} generated, {r['wall_s']:.1f}s", flush=True)
    # ---- 2. scenarios -------------------------------------------------------------------
    if replay:
        with open(replay) as fh:
            rp = json.load(fh)
        scs = rp["scenarios"]
    else:
        scs = mod.scenarios(ctx)
    print(f"[{prop}] {len(scs)} scenarios", flush=True)
    # ---- 3. drive the real code -----------------------------------------------------------
    t1 = time.time()
    results = pool.run_tasks(mod.__name__, "drive", scs, nproc=getattr(mod, "NPROC", 16),
                             timeout=getattr(mod, "TASK_TIMEOUT", 120), init_path=builddir,
                             progress=lambda d, n: print(f"[{prop}] driven {d}/{n}", flush=True))
    events = []
    per_tid = {}
    nskipped = sum(1 for r in results if isinstance(r, dict) and r.get("skipped"))
    if nskipped:
        print(f"[{prop}] circuit breaker: {nskipped} scenarios skipped after repeated timeouts (the timeouts are reported)", flush=True)
    for tid, (sc, res) in enumerate(zip(scs, results), start=1):
        if isinstance(res, dict) and res.get("skipped"):
            per_tid[tid] = []
            continue
        evs = res if isinstance(res, list) else crashed_events(sc, res)
        for seq, e in enumerate(evs, start=1):
            e["tid"] = tid
            e["seq"] = seq
        per_tid[tid] = evs
        events.extend(evs)
    if hasattr(mod, "post"):
        extra = mod.post(ctx, scs, per_tid)
        for e in extra:
            per_tid.setdefault(e["tid"], []).append(e)
        events.extend(extra)
    print(f"[{prop}] drove real code: {len(events)} events in {time.time()-t1:.1f}s", flush=True)
    if selftest:
        events = mod.selftest_corrupt(events)
    # ---- 4. TLC judges every recorded execution ----------------------------------------------
    val = tlc.validate_events(mod.TRACE_MODULE, events, os.path.join(ctx.workdir, "traces"),
                              shards=getattr(mod, "SHARDS", 16), cfg=getattr(mod, "CFG", None),
                              timeout=getattr(mod, "TLC_TIMEOUT", 3600))
    print(f"[{prop}] TLC validated {val['consumed']}/{val['n']} events in {val['wall_s']:.1f}s, "
          f"{len(val['fails'])} failing clause evaluations", flush=True)
    if val["errors"]:
        for f, txt in val["errors"][:2]:
            keep = os.path.join(SCRATCH, "failed-" + os.path.basename(f))
            shutil.copy(f, keep)
            print(f"[{prop}] MACHINERY FAILURE: TLC could not validate {keep}:\n{txt}", flush=True)
        return 2
    # ---- 5. verdicts ------------------------------------------------------------------------------
    failing = {}
    own = getattr(mod, "own_clause", None)
    for v in val["fails"]:
        tid, seq, clause = v[0], v[1], v[2]
        if own and not own(clause):
            continue        # clause of another property evaluated by a shared trace spec: reported by that property's check
        failing.setdefault(tid, []).append((seq, clause))
    findings = load_findings()
    known_hits = {}
    violations = []
    for tid, fl in sorted(failing.items()):
        sc = scs[tid - 1]
        for clause in sorted({c for _, c in fl}):
            sig = mod.signature(sc, per_tid[tid], clause)
            k = next((f for f in findings if f["property"] == prop and f.get("status") == "known"
                      and f["clause"] == clause and f["signature"] == sig), None)
            if k:
                known_hits.setdefault((clause, sig), []).append(tid)
            else:
                violations.append((tid, clause, sig))
    for (clause, sig), tids in sorted(known_hits.items()):
        print(f"KNOWN-FINDING: property={prop} clause={clause} {sig} ({len(tids)} cases this run)")
    rc = 0
    if violations:
        rdir = os.path.join(OUT, "replays", prop)
        os.makedirs(rdir, exist_ok=True)
        seen_sig = set()
        for tid, clause, sig in violations:
            if (clause, sig) in seen_sig:
                continue
            seen_sig.add((clause, sig))
            path = os.path.join(rdir, f"{ctx.tier}-{ctx.seed}-t{tid}-{clause}.json")
            with open(path, "w") as fh:
                json.dump({"property": prop, "clause": clause, "signature": sig,
                           "scenarios": [scs[tid - 1]], "events": per_tid[tid]}, fh, indent=1)
            print(f"VIOLATION property={prop} replay={path}")
            print(f"  clause={clause} signature={sig}")
            if len(seen_sig) >= 10:
                break
        rc = 1
    if selftest:
        ok = bool(violations)
        print(f"[{prop}] selftest: corrupted trace {'REJECTED (binding works)' if ok else 'ACCEPTED (binding is vacuous!)'}")
        return 0 if ok else 2
    if replay:
        if not violations:
            print(f"[{prop}] replay: all clauses hold")
        return rc
    # ---- 6. evidence ----------------------------------------------------------------------------------
    distinct = {}
    for tid, sc in enumerate(scs, start=1):
        h = _sc_hash(sc)
        if h not in distinct:
            distinct[h] = bool(per_tid[tid]) and mod.nontrivial(sc, per_tid[tid])
    samples = []
    nt = [tid for tid, sc in enumerate(scs, start=1) if distinct.get(_sc_hash(sc))] or list(range(1, len(scs) + 1))
    step = max(1, len(nt) // 3)
    for tid in nt[::step][:3]:
        samples.append({"scenario": scs[tid - 1], "trace": [
            {k: v for k, v in e.items() if k != "tb"} for e in per_tid[tid][:6]]})
    coverage = {
        "states": sum(r["states"] for r in mcs),
        "transitions": sum(r["transitions"] for r in mcs),
        "traces_validated_against_impl": len(scs) - len(failing),
        "trace_events_validated": val["consumed"],
        "evaluations": len(scs),
        "distinct_nontrivial": sum(1 for v in distinct.values() if v),
        "rule": mod.RULE,
        "samples": samples,
        "exhaustive": bool(getattr(mod, "EXHAUSTIVE", False)),
        "design_mc": [{"what": r.get("what"), "states": r["states"], "transitions": r["transitions"],
                       "diameter": r.get("diameter"), "wall_s": round(r["wall_s"], 1)} for r in mcs],
        "known_findings_hit": [{"clause": c, "signature": s, "cases": len(t)} for (c, s), t in sorted(known_hits.items())],
        "failing_traces": len(failing),
    }
    coverage.update(ctx.notes)
    write_evidence(prop, ctx.tier, ctx.seed, "model_checking", coverage, mod.ASSUMPTIONS,
                   time.time() - ctx.t0, len(violations))
    print(f"[{prop}] {'FAIL' if rc else 'PASS'} tier={ctx.tier} seed={ctx.seed} "
          f"scenarios={len(scs)} nontrivial={coverage['distinct_nontrivial']} wall={time.time()-ctx.t0:.1f}s", flush=True)
    return rc


def main(argv=None):
    import argparse
    ap = argparse.ArgumentParser(prog="check")
    ap.add_argument("prop")
    ap.add_argument("--tier", default=os.environ.get("VERIF_TIER", "quick"), choices=["quick", "thorough"])
    ap.add_argument("--seed", type=int, default=int(os.environ.get("VERIF_SEED", "0") or 0))
    ap.add_argument("--replay")
    ap.add_argument("--selftest", action="store_true")
    a = ap.parse_args(argv)
    try:
        mod = importlib.import_module(f"wv.props.{a.prop.lower()}")
    except ModuleNotFoundError as e:
        print(f"no check for {a.prop}: {e}")
        return 2
    try:
        return run_property(mod, a.tier, a.seed, a.replay, a.selftest)
    except build.BuildError as e:
        print(f"[{a.prop}] MACHINERY FAILURE (build): {e}")
        return 2
    except tlc.TlcError as e:
        print(f"[{a.prop}] MACHINERY FAILURE (TLC): {e}")
        return 2


if __name__ == "__main__":
    sys.exit(main())
