"""Materialiser: abstract worlds -> real files (FASTA+.fai, VCF(.gz+.tbi), BAM+.bai, PED, lists).

Only pysam and the standard library.  Every function asserts its own output where cheap
(read bases are the haplotype substring they claim to copy, CIGAR lengths match).
"""
import os
import random

import pysam

# ----------------------------------------------------------------------------------------------
# sequences, variants, haplotypes, reads
BASES = "ACGT"


def random_reference(rng, n, no_homopolymer=True):
    """Random sequence; with no_homopolymer no two adjacent bases are equal (so every
    single-sequence indel built from a *different* base is unshiftable)."""
    s = []
    for _ in range(n):
        c = rng.choice(BASES)
        while no_homopolymer and s and c == s[-1]:
            c = rng.choice(BASES)
        s.append(c)
    return "".join(s)


class Variant:
    """VCF-style variant: 0-based pos of the first REF base, ref and alt strings."""

    def __init__(self, pos, ref, alt):
        self.pos, self.ref, self.alt = pos, ref, alt

    @property
    def kind(self):
        if len(self.ref) == len(self.alt) == 1:
            return "snv"
        if len(self.ref) == len(self.alt):
            return "mnp"
        if len(self.ref) == 1 and self.alt.startswith(self.ref):
            return "ins"
        if len(self.alt) == 1 and self.ref.startswith(self.alt):
            return "del"
        return "complex"

    def __repr__(self):
        return f"Variant({self.pos},{self.ref}>{self.alt})"


def make_variant(rng, ref, pos, kind, length=1):
    """A variant of the given kind at 0-based pos whose indel sequence cannot be shifted:
    inserted/deleted sequence differs from its neighbours at both ends."""
    if kind == "snv":
        alt = rng.choice([b for b in BASES if b != ref[pos]])
        return Variant(pos, ref[pos], alt)
    if kind == "mnp":
        alt = "".join(rng.choice([b for b in BASES if b != ref[pos + i]]) for i in range(length))
        return Variant(pos, ref[pos:pos + length], alt)
    if kind == "ins":
        # inserted after the anchor base ref[pos]; unshiftable: first inserted base != next ref base
        # and last inserted base != anchor base
        while True:
            ins = "".join(rng.choice(BASES) for _ in range(length))
            nxt = ref[pos + 1] if pos + 1 < len(ref) else "N"
            if ins[0] != nxt and ins[-1] != ref[pos]:
                return Variant(pos, ref[pos], ref[pos] + ins)
    if kind == "del":
        dele = ref[pos + 1:pos + 1 + length]
        return Variant(pos, ref[pos] + dele, ref[pos])
    raise ValueError(kind)


def deletion_unshiftable(ref, pos, length):
    """deleting ref[pos+1 : pos+1+length] cannot be shifted left or right"""
    d = ref[pos + 1:pos + 1 + length]
    after = ref[pos + 1 + length] if pos + 1 + length < len(ref) else "N"
    return len(d) == length and d[-1] != ref[pos] and d[0] != after


class Haplotype:
    """Reference with a set of variants applied; knows how to cut error-free reads."""

    def __init__(self, ref, variants, alleles):
        """variants sorted by pos, non-overlapping; alleles[i] in {0,1}"""
        self.ref = ref
        segs = []  # (op, ref_start, ref_len, seq) op in M/I/D
        cur = 0
        for v, a in zip(variants, alleles):
            assert v.pos >= cur, "variants must be sorted and non-overlapping"
            if a == 0:
                continue
            if v.pos > cur:
                segs.append(("M", cur, v.pos - cur, ref[cur:v.pos]))
            k = v.kind
            if k in ("snv", "mnp"):
                segs.append(("M", v.pos, len(v.ref), v.alt))
            elif k == "ins":
                segs.append(("M", v.pos, 1, v.ref))
                segs.append(("I", v.pos + 1, 0, v.alt[1:]))
            elif k == "del":
                segs.append(("M", v.pos, 1, v.alt))
                segs.append(("D", v.pos + 1, len(v.ref) - 1, ""))
            else:
                raise ValueError("complex variant")
            cur = v.pos + len(v.ref)
        if cur < len(ref):
            segs.append(("M", cur, len(ref) - cur, ref[cur:]))
        self.segs = segs
        self.seq = "".join(s[3] for s in segs)

    def ref_to_hap(self, rpos):
        """haplotype coordinate of the first base aligned at or after reference position rpos"""
        h = 0
        for op, rs, rl, seq in self.segs:
            if op == "M":
                if rs <= rpos < rs + rl:
                    return h + (rpos - rs)
                h += rl
            elif op == "I":
                h += len(seq)
            elif op == "D":
                if rs <= rpos < rs + rl:
                    return h
        return h

    def read(self, hs, he):
        """Error-free read = hap[hs:he]; returns (ref_pos0, cigar list[(op,len)], seq).
        Canonical CIGAR: indels directly after their anchor base; a read that starts/ends
        inside an insertion gets those bases soft-clipped; leading/trailing deletions vanish."""
        assert 0 <= hs < he <= len(self.seq)
        ops = []
        h = 0
        pos0 = None
        for op, rs, rl, seq in self.segs:
            ln = len(seq)
            if op == "D":
                if ops and hs < h < he and pos0 is not None:
                    ops.append(["D", rl])
                continue
            a, b = max(hs, h), min(he, h + ln)
            if a < b:
                if op == "M":
                    if pos0 is None:
                        pos0 = rs + (a - h)
                    ops.append(["M", b - a])
                else:
                    ops.append(["I", b - a])
            h += ln
        # leading/trailing I -> S, leading/trailing D dropped
        while ops and ops[0][0] == "D":
            ops.pop(0)
        while ops and ops[-1][0] == "D":
            ops.pop()
        if ops and ops[0][0] == "I":
            ops[0][0] = "S"
        if ops and ops[-1][0] == "I":
            ops[-1][0] = "S"
        if pos0 is None:  # read entirely inside an insertion
            return None
        # merge neighbours
        merged = []
        for o, n in ops:
            if merged and merged[-1][0] == o:
                merged[-1][1] += n
            else:
                merged.append([o, n])
        seq = self.seq[hs:he]
        qlen = sum(n for o, n in merged if o in "MIS")
        assert qlen == len(seq), (merged, len(seq))
        return pos0, [(o, n) for o, n in merged], seq


def cigar_str(ops):
    return "".join(f"{n}{o}" for o, n in ops)


def cigar_reflen(ops):
    return sum(n for o, n in ops if o in "MDN=X")


# ----------------------------------------------------------------------------------------------
# files
def write_fasta(path, seqs):
    with open(path, "w") as fh:
        for name, s in seqs.items():
            fh.write(f">{name}\n")
            for i in range(0, len(s), 60):
                fh.write(s[i:i + 60] + "\n")
    pysam.faidx(path)
    return path


VCF_FORMAT_DEFS = {
    "GT": '##FORMAT=<ID=GT,Number=1,Type=String,Description="Genotype">',
    "PS": '##FORMAT=<ID=PS,Number=1,Type=Integer,Description="Phase set">',
    "HP": '##FORMAT=<ID=HP,Number=.,Type=String,Description="Phasing haplotype identifier">',
    "PQ": '##FORMAT=<ID=PQ,Number=1,Type=Integer,Description="Phasing quality">',
    "GQ": '##FORMAT=<ID=GQ,Number=1,Type=Integer,Description="Genotype quality">',
    "DP": '##FORMAT=<ID=DP,Number=1,Type=Integer,Description="Depth">',
    "GL": '##FORMAT=<ID=GL,Number=G,Type=Float,Description="Genotype likelihoods">',
    "PL": '##FORMAT=<ID=PL,Number=G,Type=Integer,Description="Phred-scaled genotype likelihoods">',
    "XX": '##FORMAT=<ID=XX,Number=1,Type=String,Description="Opaque extra field">',
}
VCF_INFO_DEFS = {
    "AC": '##INFO=<ID=AC,Number=A,Type=Integer,Description="Allele count">',
    "NOTE": '##INFO=<ID=NOTE,Number=1,Type=String,Description="Opaque note">',
    "FLAGGED": '##INFO=<ID=FLAGGED,Number=0,Type=Flag,Description="A flag">',
}


def write_vcf(path, samples, contigs, records, fmt_keys=("GT", "PS", "HP", "PQ", "GQ", "DP", "GL", "PL", "XX"),
              info_keys=("AC", "NOTE", "FLAGGED"), filters=("LowQual",), extra_header=(), compress=False):
    """records: dicts chrom, pos (1-based), id, ref, alt (str, comma separated), qual, filter, info,
    fmt (list of keys), calls (list per sample of list of value strings aligned with fmt).
    contigs: list of (name, length).  Returns the path written (.gz if compress)."""
    with open(path, "w") as fh:
        fh.write("##fileformat=VCFv4.2\n")
        for f in filters:
            fh.write(f'##FILTER=<ID={f},Description="filter {f}">\n')
        for k in info_keys:
            fh.write(VCF_INFO_DEFS[k] + "\n")
        for k in fmt_keys:
            fh.write(VCF_FORMAT_DEFS[k] + "\n")
        for name, ln in contigs:
            fh.write(f"##contig=<ID={name},length={ln}>\n")
        for l in extra_header:
            fh.write(l + "\n")
        fh.write("#CHROM\tPOS\tID\tREF\tALT\tQUAL\tFILTER\tINFO" + ("\tFORMAT\t" + "\t".join(samples) if samples else "") + "\n")
        for r in records:
            cols = [r["chrom"], str(r["pos"]), r.get("id", "."), r["ref"], r["alt"], str(r.get("qual", ".")),
                    r.get("filter", "."), r.get("info", ".")]
            if samples:
                cols.append(":".join(r["fmt"]))
                for call in r["calls"]:
                    cols.append(":".join(call))
            fh.write("\t".join(cols) + "\n")
    if compress:
        gz = pysam.tabix_index(path, preset="vcf", force=True)
        return gz
    return path


def read_vcf_text(path):
    """Raw text view: (header_lines, samples, records) with records as dicts of raw strings
    (calls = list per sample of dict key -> raw value string)."""
    import gzip
    op = gzip.open if str(path).endswith(".gz") else open
    header, samples, recs = [], [], []
    with op(path, "rt") as fh:
        for line in fh:
            line = line.rstrip("\n")
            if line.startswith("##"):
                header.append(line)
            elif line.startswith("#"):
                cols = line.split("\t")
                samples = cols[9:]
            elif line:
                c = line.split("\t")
                r = {"chrom": c[0], "pos": int(c[1]), "id": c[2], "ref": c[3], "alt": c[4], "qual": c[5],
                     "filter": c[6], "info": c[7], "fmt": c[8].split(":") if len(c) > 8 else [], "calls": []}
                for s in c[9:]:
                    vals = s.split(":")
                    r["calls"].append({k: (vals[i] if i < len(vals) else ".") for i, k in enumerate(r["fmt"])})
                recs.append(r)
    return header, samples, recs


def write_bam(path, refs, reads, read_groups=(), sort=True, index=True, fmt="bam", reference=None):
    """refs: [(name, length)]; read_groups: [{"ID":..., "SM":...}];
    reads: dicts name, flag, ref (index or -1), pos (0-based), mapq, cigar (str or None), seq, qual (str or None),
    tags [(tag, value)], rg, mate: optional dict(ref,pos), tlen."""
    header = {"HD": {"VN": "1.6", "SO": "unsorted"},
              "SQ": [{"SN": n, "LN": l} for n, l in refs]}
    if read_groups:
        header["RG"] = [dict(rg) for rg in read_groups]
    tmp = path + ".unsorted.bam"
    with pysam.AlignmentFile(tmp, "wb", header=header) as out:
        for r in reads:
            a = pysam.AlignedSegment(out.header)
            a.query_name = r["name"]
            a.flag = r.get("flag", 0)
            a.reference_id = r.get("ref", 0)
            a.reference_start = r.get("pos", 0)
            a.mapping_quality = r.get("mapq", 60)
            a.query_sequence = r.get("seq")
            if r.get("cigar"):
                a.cigarstring = r["cigar"]
            if r.get("seq") is not None:
                q = r.get("qual")
                a.query_qualities = pysam.qualitystring_to_array(q) if q else pysam.qualitystring_to_array("I" * len(r["seq"]))
            if "mate" in r:
                a.next_reference_id = r["mate"]["ref"]
                a.next_reference_start = r["mate"]["pos"]
                a.template_length = r.get("tlen", 0)
            else:
                a.next_reference_id = -1
                a.next_reference_start = -1
            tags = list(r.get("tags", []))
            if r.get("rg"):
                tags.append(("RG", r["rg"]))
            if tags:
                a.set_tags(tags)
            out.write(a)
    if sort:
        pysam.sort("-o", path, tmp)
        os.remove(tmp)
    else:
        os.replace(tmp, path)
    if index and sort:
        pysam.index(path)
    return path


def read_bam_records(path):
    """List of dicts with every field of every alignment (tags as sorted list), in file order."""
    out = []
    with pysam.AlignmentFile(path, check_sq=False) as f:
        for a in f.fetch(until_eof=True):
            out.append({
                "name": a.query_name, "flag": a.flag, "ref": a.reference_id, "pos": a.reference_start, "mapq": a.mapping_quality,
                "cigar": a.cigarstring, "seq": a.query_sequence,
                "qual": pysam.qualities_to_qualitystring(a.query_qualities) if a.query_qualities is not None else None,
                "mref": a.next_reference_id, "mpos": a.next_reference_start, "tlen": a.template_length,
                "tags": sorted((t, v if not isinstance(v, float) else round(v, 4)) for t, v in a.get_tags()),
            })
    return out


def write_ped(path, trios):
    """trios: list of (father, mother, child) sample names"""
    with open(path, "w") as fh:
        for i, (f, m, c) in enumerate(trios):
            fh.write(f"fam{i}\t{c}\t{f}\t{m}\t0\t0\n")
    return path
