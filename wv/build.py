"""Scratch build of /repo's *current working tree* (never writes to /repo).

The working tree (without .git, tests, docs, compiled artefacts) is rsynced to
BUILD_DIR, the Cython/C++ extensions whose sources changed (content hash per
extension group) are rebuilt in place there, and BUILD_DIR is what drivers put
first on sys.path / PYTHONPATH.  A file lock serialises concurrent checks.
"""
import fcntl
import glob
import hashlib
import json
import os
import subprocess
import sys
import time

REPO = os.environ.get("WV_REPO", "/repo")
ROOT = os.environ.get("WV_SCRATCH", "/var/tmp/whverif")
PY = "/venv/bin/python"

# extension -> (globs of files whose content decides a rebuild, artefact prefixes to delete)
GROUPS = {
    "core": (
        ["setup.py", "src/*.cpp", "src/*.h", "src/hapchat/*", "whatshap/core.pyx", "whatshap/*.pxd"],
        ["whatshap/core"],
    ),
    "solver": (
        ["setup.py", "src/polyphase/*", "src/*.h", "whatshap/polyphase/solver.pyx",
         "whatshap/polyphase/*.pxd", "whatshap/*.pxd"],
        ["whatshap/polyphase/solver"],
    ),
    "readselect": (["setup.py", "whatshap/readselect.pyx", "whatshap/*.pxd", "src/*.h"], ["whatshap/readselect"]),
    "priorityqueue": (["setup.py", "whatshap/priorityqueue.pyx", "whatshap/*.pxd"], ["whatshap/priorityqueue"]),
    "align": (["setup.py", "whatshap/align.pyx", "whatshap/*.pxd"], ["whatshap/align"]),
    "_variants": (["setup.py", "whatshap/_variants.pyx", "whatshap/*.pxd"], ["whatshap/_variants"]),
}


def _hash_group(base, globs):
    h = hashlib.sha256()
    files = []
    for g in globs:
        files.extend(glob.glob(os.path.join(base, g)))
    for f in sorted(set(files)):
        if os.path.isfile(f):
            h.update(os.path.relpath(f, base).encode())
            with open(f, "rb") as fh:
                h.update(fh.read())
    return h.hexdigest()


def _tree_hash():
    """Content hash of everything that is synced (sources of the working tree)."""
    out = subprocess.run(
        ["rsync", "-an", "--out-format=%n", "--exclude=.git", "--exclude=/tests", "--exclude=/doc", "--exclude=/logo",
         "--exclude=/misc", "--exclude=/build", "--exclude=*.so", "--exclude=__pycache__", "--exclude=*.egg-info",
         "--exclude=/whatshap/*.cpp", "--exclude=/whatshap/polyphase/solver.cpp", "--exclude=.pytest_cache",
         "--exclude=*.pyc", REPO + "/", "/nonexistent-dst/"],
        stdout=subprocess.PIPE, text=True, check=True).stdout.split("\n")
    h = hashlib.sha256()
    for rel in sorted(x for x in out if x and not x.endswith("/")):
        f = os.path.join(REPO, rel)
        if os.path.isfile(f):
            h.update(rel.encode())
            with open(f, "rb") as fh:
                h.update(fh.read())
    return h.hexdigest()[:16]


def _gc(keep):
    """Remove scratch builds that have not been used for 3 hours (never the one in use), keep at most 5."""
    now = time.time()
    ds = []
    for d in glob.glob(os.path.join(ROOT, "build-*")):
        if d == keep:
            continue
        try:
            age = now - os.path.getmtime(os.path.join(d, ".wvused"))
        except OSError:
            age = 1e9
        ds.append((age, d))
    ds.sort()
    for i, (age, d) in enumerate(ds):
        if age > 3 * 3600 or i >= 4:
            subprocess.run(["rm", "-rf", d])


def ensure_build(verbose=True):
    """Build REPO's working tree in a scratch directory keyed by the content hash of its
    sources (so concurrent checks of different trees never disturb each other); return it."""
    os.makedirs(ROOT, exist_ok=True)
    t0 = time.time()
    with open(os.path.join(ROOT, ".lock"), "w") as lock:
        fcntl.flock(lock, fcntl.LOCK_EX)
        th = _tree_hash()
        bdir = os.path.join(ROOT, "build-" + th)
        used = os.path.join(bdir, ".wvused")
        if os.path.exists(os.path.join(bdir, ".wvcomplete")):
            with open(used, "w"):
                pass
            if verbose:
                print(f"[build] {bdir} up to date ({time.time() - t0:.1f}s)", flush=True)
            return bdir
        # seed from the most recently used other build so that only stale extensions are rebuilt
        if not os.path.isdir(bdir):
            others = sorted(glob.glob(os.path.join(ROOT, "build-*/.wvcomplete")), key=os.path.getmtime)
            if others:
                subprocess.run(["cp", "-a", os.path.dirname(others[-1]), bdir], check=True)
                os.remove(os.path.join(bdir, ".wvcomplete"))
            else:
                os.makedirs(bdir)
        cmd = [
            "rsync", "-a", "--delete",
            "--exclude=.git", "--exclude=/tests", "--exclude=/doc", "--exclude=/logo", "--exclude=/misc",
            "--exclude=/build", "--exclude=*.so", "--exclude=__pycache__", "--exclude=*.egg-info",
            "--exclude=/whatshap/*.cpp", "--exclude=/whatshap/polyphase/solver.cpp",
            "--exclude=/.wv*", "--exclude=.pytest_cache",
            REPO + "/", bdir + "/",
        ]
        subprocess.run(cmd, check=True)
        stamp_file = os.path.join(bdir, ".wvstamp.json")
        try:
            with open(stamp_file) as fh:
                stamp = json.load(fh)
        except Exception:
            stamp = {}
        new = {k: _hash_group(bdir, g[0]) for k, g in GROUPS.items()}
        stale = []
        for k, (_, arts) in GROUPS.items():
            have_so = any(glob.glob(os.path.join(bdir, a + ".cpython-*.so")) for a in arts)
            if stamp.get(k) != new[k] or not have_so:
                stale.append(k)
                for a in arts:
                    for f in glob.glob(os.path.join(bdir, a + ".cpython-*.so")) + [os.path.join(bdir, a + ".cpp")]:
                        if os.path.exists(f):
                            os.remove(f)
        if stale:
            if verbose:
                print(f"[build] rebuilding extensions {stale} from {REPO} working tree", flush=True)
            env = dict(os.environ)
            env["SETUPTOOLS_SCM_PRETEND_VERSION"] = "0.0.verif"
            env.pop("PYTHONPATH", None)
            p = subprocess.run(
                [PY, "setup.py", "-q", "build_ext", "--inplace", "-j", "16"],
                cwd=bdir, env=env, stdout=subprocess.PIPE, stderr=subprocess.STDOUT, text=True,
            )
            if p.returncode != 0:
                sys.stdout.write(p.stdout[-6000:])
                raise BuildError("extension build failed")
            subprocess.run(["rm", "-rf", os.path.join(bdir, "build")])
            with open(stamp_file, "w") as fh:
                json.dump(new, fh)
        for f in (os.path.join(bdir, ".wvcomplete"), used):
            with open(f, "w"):
                pass
        _gc(bdir)
        if verbose:
            print(f"[build] {bdir} built ({time.time() - t0:.1f}s, rebuilt={stale})", flush=True)
    return bdir


class BuildError(Exception):
    pass


def activate():
    """Build and make this process (and its children) import whatshap from the build."""
    d = ensure_build()
    if d not in sys.path:
        sys.path.insert(0, d)
    os.environ["PYTHONPATH"] = d + os.pathsep + "/verif" + (
        os.pathsep + os.environ["PYTHONPATH"] if os.environ.get("PYTHONPATH") else "")
    for m in list(sys.modules):
        if m == "whatshap" or m.startswith("whatshap."):
            raise RuntimeError("whatshap imported before build.activate()")
    import whatshap  # noqa

    assert whatshap.__file__.startswith(d), whatshap.__file__
    return d


if __name__ == "__main__":
    print(ensure_build())
