"""Scratch build of /repo's *current working tree* (never writes to /repo).

The working tree (without .git, tests, docs, compiled artefacts) is rsynced to
BUILD_DIR, the Cython/C++ extensions whose sources changed (content hash per
extension group) are rebuilt in place there, and BUILD_DIR is what drivers put
first on sys.path / PYTHONPATH.  A file lock serialises concurrent checks.
"""
import fcntl
import glob
import hashlib
import json
import os
import subprocess
import sys
import time

REPO = os.environ.get("WV_REPO", "/repo")
ROOT = os.environ.get("WV_SCRATCH", "/var/tmp/whverif")
BUILD_DIR = os.path.join(ROOT, "build")
PY = "/venv/bin/python"

# extension -> (globs of files whose content decides a rebuild, artefact prefixes to delete)
GROUPS = {
    "core": (
        ["setup.py", "src/*.cpp", "src/*.h", "src/hapchat/*", "whatshap/core.pyx", "whatshap/*.pxd"],
        ["whatshap/core"],
    ),
    "solver": (
        ["setup.py", "src/polyphase/*", "src/*.h", "whatshap/polyphase/solver.pyx",
         "whatshap/polyphase/*.pxd", "whatshap/*.pxd"],
        ["whatshap/polyphase/solver"],
    ),
    "readselect": (["setup.py", "whatshap/readselect.pyx", "whatshap/*.pxd", "src/*.h"], ["whatshap/readselect"]),
    "priorityqueue": (["setup.py", "whatshap/priorityqueue.pyx", "whatshap/*.pxd"], ["whatshap/priorityqueue"]),
    "align": (["setup.py", "whatshap/align.pyx", "whatshap/*.pxd"], ["whatshap/align"]),
    "_variants": (["setup.py", "whatshap/_variants.pyx", "whatshap/*.pxd"], ["whatshap/_variants"]),
}


def _hash_group(base, globs):
    h = hashlib.sha256()
    files = []
    for g in globs:
        files.extend(glob.glob(os.path.join(base, g)))
    for f in sorted(set(files)):
        if os.path.isfile(f):
            h.update(os.path.relpath(f, base).encode())
            with open(f, "rb") as fh:
                h.update(fh.read())
    return h.hexdigest()


def ensure_build(verbose=True):
    """Bring BUILD_DIR up to date with REPO's working tree; return BUILD_DIR."""
    os.makedirs(ROOT, exist_ok=True)
    t0 = time.time()
    with open(os.path.join(ROOT, ".lock"), "w") as lock:
        fcntl.flock(lock, fcntl.LOCK_EX)
        os.makedirs(BUILD_DIR, exist_ok=True)
        # 1. sync sources (python files are always fresh; compiled artefacts are kept)
        cmd = [
            "rsync", "-a", "--delete",
            "--exclude=.git", "--exclude=/tests", "--exclude=/doc", "--exclude=/logo", "--exclude=/misc",
            "--exclude=/build", "--exclude=*.so", "--exclude=__pycache__", "--exclude=*.egg-info",
            "--exclude=/whatshap/*.cpp", "--exclude=/whatshap/polyphase/solver.cpp",
            "--exclude=/.wvstamp.json", "--exclude=.pytest_cache",
            REPO + "/", BUILD_DIR + "/",
        ]
        subprocess.run(cmd, check=True)
        # 2. decide which extensions are stale
        stamp_file = os.path.join(BUILD_DIR, ".wvstamp.json")
        try:
            with open(stamp_file) as fh:
                stamp = json.load(fh)
        except Exception:
            stamp = {}
        new = {k: _hash_group(BUILD_DIR, g[0]) for k, g in GROUPS.items()}
        stale = []
        for k, (_, arts) in GROUPS.items():
            have_so = any(glob.glob(os.path.join(BUILD_DIR, a + ".cpython-*.so")) for a in arts)
            if stamp.get(k) != new[k] or not have_so:
                stale.append(k)
                for a in arts:
                    for f in glob.glob(os.path.join(BUILD_DIR, a + ".cpython-*.so")) + [os.path.join(BUILD_DIR, a + ".cpp")]:
                        if os.path.exists(f):
                            os.remove(f)
        if stale:
            if verbose:
                print(f"[build] rebuilding extensions {stale} from {REPO} working tree", flush=True)
            env = dict(os.environ)
            env["SETUPTOOLS_SCM_PRETEND_VERSION"] = "0.0.verif"
            env.pop("PYTHONPATH", None)
            p = subprocess.run(
                [PY, "setup.py", "-q", "build_ext", "--inplace", "-j", "16"],
                cwd=BUILD_DIR, env=env, stdout=subprocess.PIPE, stderr=subprocess.STDOUT, text=True,
            )
            if p.returncode != 0:
                sys.stdout.write(p.stdout[-6000:])
                raise BuildError("extension build failed")
            # temporary objects are not needed any more
            subprocess.run(["rm", "-rf", os.path.join(BUILD_DIR, "build")])
            with open(stamp_file, "w") as fh:
                json.dump(new, fh)
        if verbose:
            print(f"[build] {BUILD_DIR} up to date ({time.time() - t0:.1f}s, rebuilt={stale})", flush=True)
    return BUILD_DIR


class BuildError(Exception):
    pass


def activate():
    """Build and make this process (and its children) import whatshap from the build."""
    d = ensure_build()
    if d not in sys.path:
        sys.path.insert(0, d)
    os.environ["PYTHONPATH"] = d + os.pathsep + "/verif" + (
        os.pathsep + os.environ["PYTHONPATH"] if os.environ.get("PYTHONPATH") else "")
    for m in list(sys.modules):
        if m == "whatshap" or m.startswith("whatshap."):
            raise RuntimeError("whatshap imported before build.activate()")
    import whatshap  # noqa

    assert whatshap.__file__.startswith(d), whatshap.__file__
    return d


if __name__ == "__main__":
    print(ensure_build())
