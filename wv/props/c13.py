"""C13 - `whatshap unphase` accepts every VCF, removes all phase information and nothing else.

Also home of the helpers shared with C09 (abstract-VCF projection of VCF text, in-process
runners for `whatshap unphase` / `whatshap phase`, history emission from MC_VcfHistory).
"""
import json
import os
import random
import re
import shutil
import tempfile
import zlib

from .. import tlc

PROP = "C13"
TRACE_MODULE = "C13_Trace"
EXHAUSTIVE = True
NPROC = 8
SHARDS = 8
TASK_TIMEOUT = 120
RULE = ("a scenario is one VCF file plus a history of commands run on it for real (run_unphase / run_whatshap in-process, "
        "each on the previous output). Files: (a) every call shape enumerated by TLC (Gen_C13: GT of ploidy 1-4 with '.', "
        "both separators, every presence pattern of PS/HP/PQ; pairs of samples; records without GT), history unphase;unphase; "
        "(b) seeded random multi-record / multi-sample files mixing those shapes, records without GT, files without samples, "
        "string-typed PS; (b') the same random files with non-ASCII text in ##source, a header Description, the ID column, INFO and "
        "FORMAT string values and sample names, stored as UTF-8 (VCFv4.3 or older) or as ISO-8859-1 (bytes that are not valid "
        "UTF-8), unphase writing to a path or, through the subcommand's main(), to a standard output whose encoding is "
        "latin-1 / ascii / cp1252 / utf-8 / utf-16; (c) diploid files that `whatshap phase` accepts (unsorted, missing and partially missing GTs, "
        "pre-existing PS/HP/PQ) under every command history up to length 3-4 over {unphase, phase --tag PS, phase --tag HP} x "
        "target-sample subsets emitted by TLC from VcfHistory (a side `unphase` of the source precedes every phase so that "
        "U(f) is on record). Non-trivial = the input carries phase information (a '|' or a PS/HP/PQ value) next to another "
        "FORMAT field or a second sample, and at least one unphase run returned")
ASSUMPTIONS = [
    "TLC; VcfModel.tla is the reading of the statement: 'phase information' = '|' separators and PS/HP/PQ values; 'nothing else' = "
    "fixed columns, other FORMAT fields (keys, order, raw values), allele multiset per call, record order, other header definitions",
    "the statement demands no PS/HP/PQ *value*; whether the three header definitions disappear is recorded but not judged",
    "'unchanged' is judged on bytes: the driver escapes every byte >= 0x80 before projecting, so fixed columns, other FORMAT values, "
    "the '#CHROM' line and the other header lines must come out byte for byte whatever the file's character encoding is "
    "(htslib treats VCF text as bytes; VCF <= 4.2 prescribes no encoding, 4.3 prescribes UTF-8); '##phasing' is dropped by design",
    "the driver's text projection (40 lines, independent of pysam) is trusted; field values are chosen so that htslib re-serialises them verbatim",
    "`whatshap phase` steps use a phased VCF of the same sites as the only phase input; phase itself is judged by C04/C09, not here",
]

WORK = lambda: os.path.join(os.environ.get("WV_SCRATCH", "/var/tmp/whverif"), "work")  # noqa: E731
PHASE_TAGS = ("PS", "HP", "PQ")


# ==============================================================================================
# shared helpers (also used by c09.py)
def mktemp(prefix):
    os.makedirs(WORK(), exist_ok=True)
    return tempfile.mkdtemp(prefix=prefix, dir=WORK())


def quiet():
    import logging
    import pysam
    logging.disable(logging.CRITICAL)
    try:
        pysam.set_verbosity(0)
    except Exception:
        pass


def _num(v):
    """PS / PQ raw value -> int; -1 = no value (absent key, '.', empty)."""
    if v is None or v in ("", "."):
        return -1
    if re.fullmatch(r"\d{1,9}", v):
        return int(v)
    return 1000000 + zlib.crc32(v.encode()) % 1000  # a value that is not a plain number (string-typed PS, float PQ)


def _hp(v):
    if v is None or v in ("", "."):
        return []
    out = []
    for ent in v.split(","):
        m = re.fullmatch(r"(\d{1,9})-(\d{1,3})", ent)
        out.append([int(m.group(1)), int(m.group(2))] if m else [0, 0])
    return out


def project_call(fmt, d):
    hasgt = "GT" in fmt
    gt, ph = [], False
    if hasgt:
        s = d.get("GT", ".")
        ph = "|" in s
        gt = [-1 if a == "." else int(a) for a in re.split(r"[/|]", s)]
    return {"hasgt": hasgt, "gt": gt, "ph": ph, "ps": _num(d.get("PS")), "pq": _num(d.get("PQ")), "hp": _hp(d.get("HP")),
            "rest": [f"{k}={d.get(k, '.')}" for k in fmt if k != "GT" and k not in PHASE_TAGS]}


def ascii_view(path):
    """Byte-transparent ASCII copy of a text file: every byte >= 0x80 becomes the escape \\xNN (Latin-1 decoding is a
    bijection between bytes and code points), so equality of strings read from the view is equality of the raw bytes,
    whatever the encoding of the file (UTF-8, ISO-8859-1, ...) and whatever the locale of this process is."""
    with open(path, "rb") as fh:
        data = fh.read()
    view = path + ".view"
    with open(view, "wb") as fh:
        fh.write(data.decode("latin-1").encode("ascii", "backslashreplace"))
    return view


def raw_header(path):
    """(meta, cols): the '##' lines of the file except the FORMAT definitions of HP/PS/PQ and '##phasing', and the
    '#CHROM' line (sample names), both as escaped byte strings (see ascii_view)."""
    meta, cols = [], ""
    with open(path, "rb") as fh:
        for raw in fh:
            line = raw.rstrip(b"\r\n").decode("latin-1").encode("ascii", "backslashreplace").decode("ascii")
            if line.startswith("##"):
                if not re.match(r"##FORMAT=<ID=(HP|PS|PQ)[,>]", line) and not line.startswith("##phasing="):
                    meta.append(line)
            elif line.startswith("#"):
                cols = line
            else:
                break
    return meta, cols


def project_vcf(path, raw=False):
    """VCF text -> abstract file of VcfModel.tla (plus 'phasedefs': which of the HP/PS/PQ header definitions exist).
    raw=True: project the byte-transparent ASCII view of the file (strings compare equal iff the bytes are equal)."""
    from wv import world
    header, samples, recs = world.read_vcf_text(ascii_view(path) if raw else path)
    hdr, defs = [], []
    for h in header:
        m = re.match(r"##(FORMAT|INFO|FILTER|contig)=<ID=([^,>]+)", h)
        if not m:
            continue
        key = f"{m.group(1)}/{m.group(2)}"
        if m.group(1) == "FORMAT" and m.group(2) in PHASE_TAGS:
            defs.append(m.group(2))
        elif key != "FILTER/PASS":
            hdr.append(key)
    out = []
    for r in recs:
        fixed = "\t".join([r["chrom"], str(r["pos"]), r["id"], r["ref"], r["alt"], r["qual"], r["filter"], r["info"]])
        out.append({"fixed": fixed, "calls": [project_call(r["fmt"], d) for d in r["calls"]]})
    return {"hdr": sorted(hdr), "recs": out}, sorted(defs), samples


def run_unphase_file(src, dst, stdout_encoding=None):
    """-> exception name or '' ; stdout VCF of `whatshap unphase` goes to dst.
    stdout_encoding: run the subcommand's main() with sys.stdout = a text stream of that encoding on top of dst (what
    `PYTHONIOENCODING=<enc> whatshap unphase f > dst` resp. a non-UTF-8 locale gives), instead of run_unphase(src, dst)."""
    from whatshap.cli import unphase as mod
    if stdout_encoding is None:
        try:
            mod.run_unphase(src, dst)
            return ""
        except Exception as e:  # expected behaviour is "never"; the trace spec judges
            return type(e).__name__
    import argparse
    import io
    import sys
    old, exc = sys.stdout, ""
    rawfh = open(dst, "wb")
    sys.stdout = io.TextIOWrapper(rawfh, encoding=stdout_encoding)
    try:
        mod.main(argparse.Namespace(vcf=src))
    except Exception as e:
        exc = type(e).__name__
    finally:
        mine, sys.stdout = sys.stdout, old
        try:
            mine.flush()
        except Exception as e:
            exc = exc or type(e).__name__
        try:
            rawfh.close()
        except Exception:
            pass
    return exc


def run_phase_file(src, dst, tag, samples, phase_inputs, reference=False, writer_hook=None, **kw):
    """In-process `whatshap phase`; -> exception name or ''.  writer_hook(chromosome, superreads, components)
    is called with the arguments of every PhasedVcfWriter.write call (observation only)."""
    import whatshap.cli.phase as ph
    orig = ph.PhasedVcfWriter
    if writer_hook is not None:
        class Recording(orig):
            def write(self, chromosome, sample_superreads, sample_components, *a, **k):
                writer_hook(chromosome, sample_superreads, sample_components)
                return super().write(chromosome, sample_superreads, sample_components, *a, **k)
        ph.PhasedVcfWriter = Recording
    try:
        ph.run_whatshap(phase_input_files=list(phase_inputs), variant_file=src, output=dst, tag=tag,
                        samples=list(samples) if samples else None, reference=reference,
                        write_command_line_header=False, **kw)
        return ""
    except Exception as e:
        return type(e).__name__
    finally:
        ph.PhasedVcfWriter = orig


def write_scenario_vcf(path, sc):
    from wv import world
    fmt_keys = [k for k in ("GT", "PS", "HP", "PQ", "GQ", "DP", "GL", "PL", "XX") if k not in sc.get("nodef", [])]
    recs, extra = sc["recs"], list(sc.get("extra_header", []))
    if sc.get("info_clash"):
        # INFO and FORMAT ids are separate namespaces: site-level INFO fields that merely share the names HP / PS / PQ
        # (homopolymer run length, population size, site quality) are not phase information
        extra += ['##INFO=<ID=HP,Number=1,Type=Integer,Description="Homopolymer run length">',
                  '##INFO=<ID=PS,Number=1,Type=Integer,Description="Population size">',
                  '##INFO=<ID=PQ,Number=1,Type=Float,Description="Site quality">']
        recs = []
        for k, r in enumerate(sc["recs"]):
            add = ["HP=%d" % (1 + k % 7), "PS=%d" % (2 + k), "PQ=%d.5" % (30 + k)][: 1 + k % 3]
            info = r.get("info", ".")
            recs.append(dict(r, info=";".join(([] if info in (".", "") else [info]) + add)))
    return world.write_vcf(path, sc["samples"], [("chr1", 100000), ("chr2", 100000)], recs, fmt_keys=fmt_keys,
                           extra_header=extra)


def hist_consts(ns, faithful="TRUE", clear_all="TRUE", depth=0, indel="{}", never="{}", snvs="{FALSE, TRUE}"):
    return {"NS": ns, "Faithful": faithful, "ClearAll": clear_all, "Depth": depth, "IndelSites": indel, "NeverSites": never,
            "SnvsOpts": snvs}


def emit_histories(ctx, ns, depth, inits="One", snvs="{FALSE}"):
    """Command histories (op sequences) as behaviours of MC_VcfHistory, every length 1..depth.
    snvs: the values of --only-snvs the Phase action may take."""
    tagname = "s2" if "TRUE" in snvs else "s1"
    cfg = tlc.write_cfg(os.path.join(ctx.workdir, f"emit{ns}_{depth}_{tagname}.cfg"), spec="EmitSpec",
                        consts=hist_consts(ns, depth=depth, snvs=snvs), subst={"Inits": inits}, invariants=["Emit"])
    hs, r = tlc.behaviours("MC_VcfHistory", cfg)
    seen, out = set(), []
    for h in hs:
        k = json.dumps(h, sort_keys=True)
        if k not in seen:
            seen.add(k)
            out.append(h)
    return out


# ==============================================================================================
# design-level model checking
HIST_INVS = ["RoundTrip", "NoStalePhase", "DecodesCleanly", "SampleClean", "TagEquivalence",
             "UnphaseOK", "Idempotent", "UnphaseIsConstant", "CommutesWithPhase"]


def design_mc(ctx):
    out = []
    fast = bool(os.environ.get("WV_FAST_MC"))  # development aid for mutation runs: only the cheap configuration
    for key, ns, inits, indel, never, snvs, what in [
            ("skips", 2, "Skips", "{2}", "{3}", "{FALSE, TRUE}",
             "2 samples x 3 records (SNV, indel, multi-ALT record phased by another tool in PS resp. HP), with and without --only-snvs"),
            ("small", 2, "Small", "{}", "{}", "{FALSE}",
             "2 samples x 2 records (unsorted GT, homozygous site, foreign PS+PQ / HP phase)"),
            ("one", 1, "One", "{2}", "{}", "{FALSE, TRUE}",
             "1 sample x 3 heterozygous records, the middle one an indel (interleaved and split blocks, --only-snvs)")]:
        if fast and ns == 2:
            continue
        cfg = tlc.write_cfg(os.path.join(ctx.workdir, f"hist_{key}.cfg"), spec="Spec",
                            consts=hist_consts(ns, indel=indel, never=never, snvs=snvs), subst={"Inits": inits},
                            view="NoHist", invariants=HIST_INVS)
        r = tlc.model_check("MC_VcfHistory", cfg=cfg, workers=8, timeout=2400)
        r["what"] = (f"VcfHistory, {what}: all histories of unphase / phase(tag, targets, options, any phasing); unphase relation, "
                     "idempotence, U(Phase(f)) = U(f), encoder/decoder laws of C09 at every record")
        out.append(r)
    return out


# ==============================================================================================
# scenarios
class _Alts(dict):
    """ALT column for a record whose highest allele index is k (k >= 3: an STR-like site with many length alleles)"""
    def __missing__(self, k):
        return ",".join(["C", "G"] + ["A" + "T" * j for j in range(1, k - 1)])


ALTS = _Alts({0: "C", 1: "C", 2: "C,G"})


def _gt_text(shape):
    sep = "|" if shape["ph"] else "/"
    return sep.join("." if a < 0 else str(a) for a in shape["gt"])


def _tagval(key, state, pos, ploidy, k):
    """state 0 absent (not called), 1 '.', 2 value"""
    if state == 1:
        return "."
    if key == "PS":
        return str(pos if k == 0 else pos + 7)
    if key == "PQ":
        return str(23 + k)
    return ",".join(f"{pos}-{i + 1}" for i in range(max(1, ploidy)))


def record_from_shape(o, pos, idx, chrom="chr1"):
    """Gen_C13 shape -> one VCF text record (dict for world.write_vcf)."""
    pat = o["pat"]
    hasgt = o["k"] != "nogt"
    order = (["GT"] if hasgt else []) + ["GQ"] + (["PS"] if pat["ps"] else []) + ["XX"] + (["HP"] if pat["hp"] else []) \
        + ["DP"] + (["PQ"] if pat["pq"] else [])
    maxa = max([a for c in o["calls"] for a in c["gt"]] + [0])
    calls = []
    for k, c in enumerate(o["calls"]):
        vals = []
        for key in order:
            if key == "GT":
                vals.append(_gt_text(c))
            elif key in PHASE_TAGS:
                st = pat[key.lower()]
                if k % 2 == 1:  # second sample: value <-> missing, so that a record mixes both
                    st = {1: 2, 2: 1}[st]
                vals.append(_tagval(key, st, pos, len(c["gt"]) or 2, k))
            elif key == "GQ":
                vals.append(str(30 + k))
            elif key == "XX":
                vals.append("ab" + "cd"[k % 2])
            else:
                vals.append(str(11 + k) if idx % 3 == 0 else ".")
        if idx % 2 == 1:  # well-formed VCF may drop trailing missing fields
            while len(vals) > 1 and vals[-1] == ".":
                vals.pop()
        calls.append(vals)
    return {"chrom": chrom, "pos": pos, "id": f"rs{idx % 97}" if idx % 4 == 0 else ".", "ref": "A", "alt": ALTS[maxa],
            "qual": "." if idx % 5 == 0 else 30 + idx % 7, "filter": ["PASS", ".", "LowQual"][idx % 3],
            "info": [".", "AC=1", "NOTE=x;FLAGGED", "AC=1;NOTE=yz"][idx % 4] if maxa < 2 else "AC=1,1",
            "fmt": order, "calls": calls}


def _rand_shape(rng):
    r = rng.random()
    if r < 0.12:
        return None  # record without GT
    p = rng.choice([1, 2, 2, 2, 2, 3, 4])
    if r > 0.95:
        # beyond the capacity of whatshap's packed Genotype class (allele index >= 16, ploidy >= 15): still well-formed VCF
        if rng.random() < 0.6:
            return {"gt": [rng.choice([0, 3, 16, 17, 21]) for _ in range(2)], "ph": rng.random() < 0.6}
        return {"gt": [rng.choice([0, 1]) for _ in range(rng.choice([15, 16]))], "ph": rng.random() < 0.5}
    return {"gt": [rng.choice([-1, 0, 0, 1, 1, 2]) for _ in range(p)], "ph": p > 1 and rng.random() < 0.5}


def random_file(rng, i):
    ns = rng.choice([0, 1, 1, 2, 3])
    nrec = rng.randint(1, 5)
    recs = []
    pos = 0
    # GT-only phasing (Beagle/SHAPEIT style): pipe genotypes under a header that declares NONE of HP/PS/PQ
    gtonly = ns > 0 and rng.random() < 0.2
    for j in range(nrec):
        pos += rng.randint(1, 40)
        if ns == 0:
            recs.append({"chrom": "chr1" if j < 3 else "chr2", "pos": pos, "id": ".", "ref": "AT", "alt": "A", "qual": 9,
                         "filter": "PASS", "info": "NOTE=n", "fmt": [], "calls": []})
            continue
        shapes = [_rand_shape(rng) for _ in range(ns)]
        nogt = any(s is None for s in shapes)
        o = {"k": "nogt" if nogt else "multi",
             "calls": [{"gt": [], "ph": False} if nogt else s for s in shapes],
             "pat": {"ps": 0, "hp": 0, "pq": 0} if gtonly else
                    {"ps": rng.randint(0, 2), "hp": rng.randint(0, 2), "pq": rng.randint(0, 2)}}
        recs.append(record_from_shape(o, pos, rng.randrange(1000), chrom="chr1" if j < 3 else "chr2"))
    sc = {"kind": "random", "samples": [f"s{k}" for k in range(ns)], "recs": recs, "hist": [{"op": "U"}, {"op": "U"}]}
    if ns and rng.random() < 0.35:
        sc["hist"] = [{"op": "U"}, {"op": "S", "seed": rng.randrange(10 ** 6)}, {"op": "U"}]
    if rng.random() < 0.2:
        sc["info_clash"] = True
    if gtonly:
        sc["nodef"] = ["PS", "HP", "PQ"]
    elif ns and rng.random() < 0.15:  # PS declared with type String (seen in the wild, cf. tests/data/string_typed_ps_tag.vcf)
        sc["nodef"] = ["PS"]
        sc["extra_header"] = ['##FORMAT=<ID=PS,Number=1,Type=String,Description="Phase set (string typed)">']
    if rng.random() < 0.2:
        sc.setdefault("extra_header", []).append("##phasing=none")
    return sc


LATIN1_WORDS = ["caf\u00e9", "M\u00fcller", "na\u00efve", "se\u00f1al", "Gr\u00f6\u00dfe", "\u00b5mol", "\u00e5\u00e6\u00f8", "d\u00e9j\u00e0_vu"]
WIDE_WORDS = ["\u03a9mega", "\u53d8\u5f02", "\u0416\u0443\u043a", "na\u00efve\u2013x", "\U0001f9ec"]  # not in Latin-1: UTF-8 files only


def decorate_encoding(rng, sc):
    """Non-ASCII text wherever VCF allows free text (##source, header Description, ID column, INFO and FORMAT string values,
    sample names), the file stored as UTF-8 (VCFv4.3 text) or as ISO-8859-1 (bytes that are not valid UTF-8; VCF <= 4.2
    prescribes no encoding), unphase writing to a path or to a standard output of some other encoding."""
    codec = rng.choice(["utf-8", "latin-1"])
    words = LATIN1_WORDS + (WIDE_WORDS if codec == "utf-8" else [])
    w = lambda: rng.choice(words)  # noqa: E731
    where = set(rng.sample(["source", "desc", "id", "info", "fmt", "sample"], rng.randint(1, 6)))
    sc = dict(sc, kind="encoding")
    sc["enc"] = {"codec": codec, "version": "4.3" if codec == "utf-8" and rng.random() < 0.5 else rng.choice(["4.1", "4.2"]),
                 "stdout": rng.choice([None, "latin-1", "ascii", "cp1252", "utf-8", "utf-16"])}
    extra = list(sc.get("extra_header", []))
    if "source" in where:
        extra.append("##source=" + w())
    extra.append('##INFO=<ID=ANN,Number=1,Type=String,Description="%s">' % ((w() + " annotation") if "desc" in where else "ann"))
    sc["extra_header"] = extra
    if "sample" in where and sc["samples"]:
        sc["samples"] = [n + "_" + w() if rng.random() < 0.7 else n for n in sc["samples"]]
    recs = []
    for r in sc["recs"]:
        r = dict(r)
        if "id" in where and rng.random() < 0.7:
            r["id"] = "rs" + w()
        if "info" in where and rng.random() < 0.7:
            r["info"] = ";".join(([] if r.get("info", ".") in (".", "") else [r["info"]]) + ["ANN=" + w()])
        if "fmt" in where and "XX" in r["fmt"]:
            k = r["fmt"].index("XX")
            r["calls"] = [[(w() if j == k and rng.random() < 0.7 else v) for j, v in enumerate(c)] for c in r["calls"]]
        recs.append(r)
    sc["recs"] = recs
    return sc


def phaseable_file(rng, ns, pre):
    """Diploid biallelic SNV file `whatshap phase` accepts; pre in none/PS/HP/mixed = pre-existing phase information.
    Returns (records, truth) with truth[s][r] = [block_pos, 'a|b'] or None: the phasing offered as phase input."""
    nrec = rng.randint(3, 5)
    poss = sorted(rng.sample(range(10, 400), nrec))
    gts = [[rng.choice(["0/1", "0/1", "1/0", "0/1", "1/1", "0/0", "./.", ".", "0/."]) for _ in range(nrec)] for _ in range(ns)]
    for s in range(ns):  # at least two heterozygous calls per sample
        for r in rng.sample(range(nrec), 2):
            gts[s][r] = rng.choice(["0/1", "1/0"])
    truth = []
    for s in range(ns):
        hets = [r for r in range(nrec) if gts[s][r] in ("0/1", "1/0")]
        cut = rng.choice([None] + hets[2:-1]) if len(hets) >= 4 else None
        t = [None] * nrec
        for r in hets:
            blk = [h for h in hets if (cut is None or (h < cut) == (r < cut))]
            if len(blk) >= 2:
                t[r] = [poss[blk[0]], rng.choice(["0|1", "1|0"])]
        truth.append(t)
    recs = []
    for r in range(nrec):
        fmt = ["GT", "GQ"]
        kinds = [pre if pre != "mixed" else ("PS" if s % 2 == 0 else "HP") for s in range(ns)]
        if "PS" in kinds:
            fmt += ["PS", "PQ"]
        fmt += ["XX"]
        if "HP" in kinds:
            fmt += ["HP"]
        calls = []
        for s in range(ns):
            g = gts[s][r]
            d = {"GT": g, "GQ": str(20 + r), "XX": f"x{s}{r}", "PS": ".", "PQ": ".", "HP": "."}
            if g in ("0/1", "1/0") and rng.random() < 0.8:
                if kinds[s] == "PS":   # phased earlier by some tool: old block name, old order
                    d.update(GT=rng.choice(["0|1", "1|0"]), PS=str(poss[0] + 1), PQ=str(40 + r))
                elif kinds[s] == "HP":
                    a, b = rng.choice([(1, 2), (2, 1)])
                    d.update(HP=f"{poss[0] + 1}-{a},{poss[0] + 1}-{b}")
            calls.append([d[k] for k in fmt])
        recs.append({"chrom": "chr1", "pos": poss[r], "id": ".", "ref": "A", "alt": "C", "qual": 50, "filter": "PASS",
                     "info": "AC=1" if r % 2 else ".", "fmt": fmt, "calls": calls})
    return recs, truth


def truth_vcf_records(recs, truth):
    """The phase-input VCF: same sites, heterozygous calls phased as `truth` says (GT:PS only)."""
    out = []
    for r, rec in enumerate(recs):
        calls = []
        for s in range(len(truth)):
            t = truth[s][r]
            g = rec["calls"][s][0].replace("|", "/")
            calls.append([t[1], str(t[0])] if t else [g, "."])
        out.append(dict(rec, fmt=["GT", "PS"], calls=calls, info="."))
    return out


def scenarios(ctx):
    q, rng = ctx.quick, ctx.rng
    scs = []
    # ---- (a) TLC-enumerated call shapes (spec -> code) ----
    gen = os.path.join(ctx.workdir, "gen13.ndjson")
    cfg = tlc.write_cfg(os.path.join(ctx.workdir, "gen13.cfg"), consts={"Sample": 6 if q else 1})
    rc, out, _ = tlc._java(["-config", cfg, "-workers", "1", "-metadir", tlc._metadir(), "-noGenerateSpecTE", "Gen_C13.tla"],
                           env_extra={"OUT_FILE": gen}, timeout=1200, serial=True)
    if rc != 0:
        raise tlc.TlcError("Gen_C13 failed:\n" + out[-2000:])
    with open(gen) as fh:
        shapes = [json.loads(x) for x in fh if x.strip()]
    ctx.notes["tlc_enumerated_call_shapes"] = len(shapes)
    for i, o in enumerate(shapes):
        scs.append({"kind": o["k"], "samples": [f"s{k}" for k in range(len(o["calls"]))],
                    "recs": [record_from_shape(o, 100 + 10 * (i % 50), i)], "hist": [{"op": "U"}, {"op": "U"}]})
    # ---- (b) seeded random multi-record files ----
    n = 300 if q else 12000
    scs += [random_file(rng, i) for i in range(n)]
    ctx.notes["random_files"] = n
    # ---- (b') the same files with non-ASCII text, stored as UTF-8 / ISO-8859-1, output to a path or a non-UTF-8 stdout ----
    n = 120 if q else 3000
    scs += [decorate_encoding(rng, random_file(rng, i)) for i in range(n)]
    ctx.notes["encoding_files"] = n
    # ---- (c) command histories from the VcfHistory state machine on phase-able files ----
    hs = [h for h in emit_histories(ctx, 2, 3 if q else 4, inits="Small") if any(o["op"] == "U" for o in h)]
    ctx.notes["tlc_emitted_histories_with_unphase"] = len(hs)
    reps = 1 if q else 4
    for i, h in enumerate(hs):
        for rep in range(reps):
            pre = ["none", "PS", "HP", "mixed"][(i + rep) % 4]
            recs, truth = phaseable_file(rng, 2, pre)
            scs.append({"kind": "hist", "pre": pre, "samples": ["s0", "s1"], "recs": recs, "truth": truth, "hist": h})
    return scs


# ==============================================================================================
# driving the real commands
def _synthetic_phaser(src, dst, rng):
    # Latin-1 on both sides = byte-transparent whatever the encoding of the file is
    with open(src, encoding="latin-1", newline="\n") as fi, open(dst, "w", encoding="latin-1", newline="\n") as fo:
        for line in fi:
            if line.startswith("#") or not line.strip():
                fo.write(line)
                continue
            f = line.rstrip("\n").split("\t")
            if len(f) > 9 and f[8].split(":")[0] == "GT":
                keys = f[8].split(":")
                for k in range(9, len(f)):
                    vals = f[k].split(":")
                    als = vals[0].replace("|", "/").split("/")
                    if len(als) >= 2 and "." not in als:
                        rng.shuffle(als)
                        vals[0] = "|".join(als)
                        if "PS" in keys:
                            while len(vals) <= keys.index("PS"):
                                vals.append(".")
                            vals[keys.index("PS")] = f[1]
                        f[k] = ":".join(vals)
            fo.write("\t".join(f) + "\n")


def drive(sc):
    quiet()
    tmp = mktemp("c13-")
    try:
        return _drive(sc, tmp)
    finally:
        shutil.rmtree(tmp, ignore_errors=True)


def _drive(sc, tmp):
    from wv import world
    paths = {0: os.path.join(tmp, "f0.vcf")}
    enc = sc.get("enc")
    if enc:
        # the same text, stored in the scenario's character encoding (VCF <= 4.2 prescribes none; htslib handles bytes)
        write_scenario_vcf(paths[0] + ".txt", sc)
        with open(paths[0] + ".txt") as fi, open(paths[0], "wb") as fo:
            fo.write(fi.read().replace("##fileformat=VCFv4.2", "##fileformat=VCFv" + enc.get("version", "4.2"), 1)
                     .encode(enc["codec"]))
    else:
        write_scenario_vcf(paths[0], sc)
    f0, defs, samples = project_vcf(paths[0], raw=True)
    assert len(samples) == len(sc["samples"]) and len(f0["recs"]) == len(sc["recs"])
    assert enc or samples == sc["samples"]
    stdout_encoding = enc.get("stdout") if enc else None
    evs = [{"ev": "Load", "id": 0, "file": f0, "phasedefs": defs}]
    truth_path = None
    if sc.get("truth"):
        truth_path = os.path.join(tmp, "truth.vcf")
        world.write_vcf(truth_path, sc["samples"], [("chr1", 100000), ("chr2", 100000)], truth_vcf_records(sc["recs"], sc["truth"]),
                        fmt_keys=("GT", "PS"))
    cur, nxt, has_u = 0, 1, set()

    def unphase(src):
        nonlocal nxt
        dst = nxt
        nxt += 1
        paths[dst] = os.path.join(tmp, f"f{dst}.vcf")
        exc = run_unphase_file(paths[src], paths[dst], stdout_encoding)
        e = {"ev": "Unphase", "src": src, "dst": dst, "exc": exc, "out": {"hdr": [], "recs": []}, "phasedefs": [],
             "srcmeta": [], "meta": [], "srccols": "", "cols": ""}
        if not exc:
            try:
                e["out"], e["phasedefs"], _ = project_vcf(paths[dst], raw=True)
            except (IndexError, ValueError, KeyError):
                exc = e["exc"] = "OutputIsNotVcfText"   # e.g. the records re-encoded as UTF-16: judged like a failure
        if not exc:
            e["srcmeta"], e["srccols"] = raw_header(paths[src])
            e["meta"], e["cols"] = raw_header(paths[dst])
            has_u.add(src)
        evs.append(e)
        return dst if not exc else None

    for op in sc["hist"]:
        if op["op"] == "U":
            cur = unphase(cur)
        elif op["op"] == "S":
            # a phaser in the manner of `whatshap polyphase` (any ploidy): fully called genotypes come back as a permutation of
            # their alleles joined by '|' (with PS where the record has the key); U of that file must equal U of its source
            if cur not in has_u and unphase(cur) is None:
                break
            dst = nxt
            nxt += 1
            paths[dst] = os.path.join(tmp, f"f{dst}.vcf")
            _synthetic_phaser(paths[cur], paths[dst], random.Random(op.get("seed", 1)))
            e = {"ev": "Phase", "src": cur, "dst": dst, "tag": "PS", "targets": list(range(1, len(sc["samples"]) + 1)), "exc": "",
                 "out": {"hdr": [], "recs": []}}
            e["out"], _, _ = project_vcf(paths[dst], raw=True)
            evs.append(e)
            cur = dst
        else:
            if cur not in has_u and unphase(cur) is None:
                break
            dst = nxt
            nxt += 1
            paths[dst] = os.path.join(tmp, f"f{dst}.vcf")
            names = [sc["samples"][t - 1] for t in op["T"]]
            exc = run_phase_file(paths[cur], paths[dst], op["tag"], names, [truth_path])
            e = {"ev": "Phase", "src": cur, "dst": dst, "tag": op["tag"], "targets": op["T"], "exc": exc,
                 "out": {"hdr": [], "recs": []}}
            if not exc:
                e["out"], _, _ = project_vcf(paths[dst], raw=True)
            evs.append(e)
            cur = dst if not exc else None
        if cur is None:
            break
    return evs


# ==============================================================================================
def _files_of(events):
    files = {}
    for e in events:
        if e.get("ev") == "Load":
            files[e["id"]] = e["file"]
        elif e.get("ev") in ("Unphase", "Phase") and not e["exc"]:
            files[e["dst"]] = e["out"]
    return files


def _has_phase_info(f):
    return any(c["ph"] or c["ps"] >= 0 or c["pq"] >= 0 or c["hp"] for r in f["recs"] for c in r["calls"])


def nontrivial(sc, events):
    if not events or events[0].get("ev") != "Load":
        return False
    f = events[0]["file"]
    rich = any(len(r["calls"]) >= 2 or any(c["rest"] for c in r["calls"]) for r in f["recs"])
    return _has_phase_info(f) and rich and any(e.get("ev") == "Unphase" and not e["exc"] for e in events)


def call_class(c):
    if not c["hasgt"]:
        return "record without GT"
    g = c["gt"]
    n = len(g)
    if all(a < 0 for a in g):
        return f"GT ploidy {n} all missing"
    if all(a >= 0 for a in g):
        return f"GT ploidy {n}"
    if n >= 3 and g[0] >= 0 and g[1] >= 0:
        return f"GT ploidy {n} with '.' after two called alleles"
    return f"GT ploidy {n} partially missing"


def _crashy(c):
    k = call_class(c)
    return k == "record without GT" or k == "GT ploidy 1" or "after two called" in k


def signature(sc, events, clause):
    files = _files_of(events)
    if clause in ("Succeeds", "Returns"):
        for e in events:
            if e.get("ev") == "Unphase" and e["exc"]:
                src = files.get(e["src"], {"recs": []})
                first = next((call_class(c) for r in src["recs"] for c in r["calls"] if _crashy(c)), "no suspicious call")
                return f"unphase: {first} -> {e['exc']}"
        return "crash outside unphase: " + str(events[-1].get("where", ""))
    for e in events:
        if e.get("ev") == "Unphase" and not e["exc"]:
            src = files.get(e["src"])
            classes = sorted({call_class(c) for r in src["recs"] for c in r["calls"]}) if src else []
            return f"unphase output: {clause} on file with {', '.join(classes[:3])}"
    return sc["kind"]


def selftest_corrupt(events):
    n = 0
    for e in events:
        if e.get("ev") == "Unphase" and not e["exc"] and e["out"]["recs"] and e["out"]["recs"][0]["calls"]:
            c = e["out"]["recs"][0]["calls"][0]
            if n == 0:
                c["ps"] = 7                      # a PS value survived
                n += 1
            elif n == 1 and c["rest"]:
                c["rest"] = c["rest"][:-1]       # another FORMAT field vanished
                n += 1
            elif n == 2 and len(c["gt"]) >= 2 and c["gt"][0] != c["gt"][1]:
                c["gt"] = [c["gt"][0]] * len(c["gt"])   # allele multiset changed
                n += 1
    return events


MANIFEST = {
    "text": "VcfModel.tla defines the abstract VCF (records = fixed columns + per-sample calls: allele tuple with '.', phased flag, "
            "PS/HP/PQ values, other FORMAT fields) and the relation an unphase output must satisfy (no phased GT and no PS/HP/PQ value; "
            "records, order, other fields and allele multisets unchanged). VcfHistory.tla is a state machine of whole commands "
            "(unphase; phase with either tag, any target subset, any phasing) whose invariants TLC checks over all histories of a "
            "2-sample file: the unphase relation, idempotence, U(Phase(f)) = U(f) and the C09 encoder/decoder laws. TLC enumerates the "
            "space of call shapes (ploidy 1-4, '.', './.', '0/.', '.|1', both separators x presence patterns of PS/HP/PQ, sample pairs, "
            "records without GT) and all command histories up to length 3-4; the driver writes each as VCF text, runs the real "
            "run_unphase / run_whatshap from the working tree along the history, projects every output with its own text parser, and "
            "TLC judges each step: Succeeds, NoPhaseLeft, NothingElse, HeaderVerbatim, Idempotent, CommutesWithPhase. All strings are "
            "byte-transparent (bytes >= 0x80 escaped), and a family of files carries non-ASCII text as UTF-8 or ISO-8859-1 with the "
            "output going to a path or to a standard output of another encoding.",
    "note": "trusted: TLC, VcfModel.tla as the reading of the statement, the text projection in wv/props/c13.py; beyond the enumerated "
            "one-record shapes multi-record files are seeded samples; header definitions of HP/PS/PQ are not judged (statement says 'value')",
    "technique": "TLA+ relation + state machine of commands model-checked with TLC; TLC-enumerated inputs and histories replayed on the real CLI functions; TLC trace validation",
}
