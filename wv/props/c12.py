"""C12 - `whatshap stats` counts add up and describe the phase sets present in the file."""
import json
import os

from .. import tlc

PROP = "C12"
TRACE_MODULE = "C12_Trace"
EXHAUSTIVE = True
TASK_TIMEOUT = 90
NPROC = 8
SHARDS = 8
RULE = ("a file scenario is one VCF (1-3 chromosomes, optional second decoy sample) written from an abstract per-sample view and run "
        "through run_stats 2-4 times (plain, --only-snvs, --chromosome on the plain and on the bgzip+tabix file); selection files have 3-4 "
        "chromosomes and are run with every non-empty subset as --chromosome (comma list and repeated option, plain and indexed file, "
        "file order and reversed); non-contiguous files are un-indexed VCFs with 2-4 chromosomes in 3-7 runs of records in which "
        "at least one chromosome comes back after records of another one (chrA.., chrB.., chrA..; runs of one name in disjoint "
        "position ranges, in file order or not, with different set ids; PS/HP, ploidy 2-4, optional decoy sample), run plain and "
        "with --only-snvs, and judged per chromosome NAME: the sum of its rows = the count over all its records; the per-chromosome "
        "call patterns are every sequence of call kinds {0/0, 1/1, 0/1, ./., 0/., partially-missing+phase-tag, non-SNV 0/1, non-SNV 1/1, "
        "het in set 1..3 (SNV or non-SNV)} that TLC enumerates in Gen_C12 up to the length bounds (all kinds for short patterns, the "
        "phase-structure kinds for long ones, interleaved and nested sets included), PS and HP encodings alternating, arbitrary set "
        "ids and positions; plus seeded random files (8-25 sites per chromosome, ploidy 2-4, up to 6 sets, stale PS on unphased calls, "
        "phase-tagged homozygous calls); a split scenario is a batch of block families (every canonical family TLC enumerates for "
        "StatsSplit) put into a real PhasingStats. Non-trivial = a file with a block of >= 2 variants and at least one considered "
        "record outside every block, or a batch containing two overlapping blocks")
ASSUMPTIONS = [
    "TLC; Stats.tla as the reading of the statement: heterozygous = fully called and not all alleles equal, so a call with a missing "
    "allele is neither heterozygous nor member of a phase set; a phase set is identified by (chromosome, id); blocks = sets with >= 2 variants",
    "domain: biallelic records with distinct increasing positions per chromosome, one ploidy per file, one encoding (PS or HP) per file, "
    "every phase-tagged call carries an integer id (the class `nops` with PS='.' is only required not to crash and to keep the identities)",
    "a chromosome is all records with its name: where the tool prints several rows for one name (one per contiguous run of records "
    "in an un-indexed file) the columns of these rows are summed before they are compared with the count over the file, and the "
    "number of rows of a name is at most the number of its runs; in the generated non-contiguous files the runs of one name use "
    "different phase set ids (whether equal ids in two runs are one phase set is not decided here) and disjoint position ranges; "
    "such files are not run with --chromosome (un-indexed, the tool stops reading after the first run of the last requested name: "
    "reported as a finding, not generated) and cannot be tabix-indexed",
    "bp_per_block_sum is judged by the bound (<= span covered by the blocks) and, when no two blocks overlap, by equality with the "
    "sum of the block extents (the pieces are then the blocks); median/avg/N50/min/max columns are not judged",
    "split_blocks of a real PhasingStats are judged as pieces: pairwise disjoint, each made of >= 2 variants of one block, span = "
    "max - min, and blocks are cut only where another block overlaps (two variants of a block with no other block's hull between or "
    "around them stay in one piece); which of two overlapping blocks keeps the contested region is not prescribed",
    "the GTF is judged relationally: every feature names a phase set and starts/ends at members of it, every phased variant lies "
    "in a feature of its set",
    "the driver's VCF text writer is trusted after its output is re-parsed by an independent text decoder and compared with the abstract view",
]

# call kinds of Gen_C12
K_HOMREF, K_HOMALT, K_HET, K_MISS, K_HALF, K_TAGMISS, K_HET_N, K_HOMALT_N = range(8)
COLS = ["variants", "het", "hetsnvs", "phased", "phsnvs", "unphased", "singletons", "blocks", "vsum", "bpsum"]
TSV = {"variants": "variants", "het": "heterozygous_variants", "hetsnvs": "heterozygous_snvs", "phased": "phased",
       "phsnvs": "phased_snvs", "unphased": "unphased", "singletons": "singletons", "blocks": "blocks",
       "vsum": "variant_per_block_sum", "bpsum": "bp_per_block_sum"}
BAD = -999


# ================================================================================================
# design-level model checking
def design_mc(ctx):
    q = ctx.quick
    cfg = tlc.write_cfg(os.path.join(ctx.workdir, "mcsplit.cfg"), spec="Spec",
                        consts={"NPos": 8 if q else 9, "MaxBlocks": 3 if q else 4},
                        invariants=["TodoSorted", "PiecesOfBlock", "OutDisjoint", "OutLeftOfTodo", "SumBound", "NonEmptyOut",
                                    "WholeWhenFree", "CutOnlyWhereOverlapping"],
                        properties=["Decreases"])
    r = tlc.model_check("MC_StatsSplit", cfg=cfg, workers=8, timeout=3000)
    r["what"] = ("MC_StatsSplit (get_nonoverlapping_blocks as a state machine: pieces pairwise disjoint, inside their block, "
                 "sum of lengths <= covered span, cut only where another block overlaps, loop terminates) over all families of <= %d blocks on %d positions"
                 % ((3, 8) if q else (4, 9)))
    return [r]


# ================================================================================================
# scenario construction (everything random is resolved here, with ctx.rng)
def _gen(ctx, name, consts):
    out = os.path.join(ctx.workdir, name + ".ndjson")
    cfg = tlc.write_cfg(os.path.join(ctx.workdir, name + ".cfg"), consts=consts)
    rc, txt, _ = tlc._java(["-config", cfg, "-workers", "1", "-metadir", tlc._metadir(), "-noGenerateSpecTE", "Gen_C12.tla"],
                           env_extra={"OUT_FILE": out}, timeout=3000, serial=True, xmx="6g")
    if rc != 0 or "Error" in txt:
        raise tlc.TlcError("Gen_C12 failed:\n" + txt[-3000:])
    with open(out) as fh:
        return [json.loads(x) for x in fh if x.strip()]


def _tla_set(xs):
    return "{" + ",".join(str(x) for x in xs) + "}"


BASES = "ACGT"


def _alleles(rng, snv):
    r = rng.choice(BASES)
    if snv:
        return r, rng.choice([b for b in BASES if b != r])
    t = rng.randrange(3)
    x = "".join(rng.choice(BASES) for _ in range(rng.randint(1, 2)))
    if t == 0:
        return r + x, r                      # deletion
    if t == 1:
        return r, r + x                      # insertion
    return r + "A", rng.choice([b for b in BASES if b != r]) + "C"   # MNP


def _positions(rng, n):
    pos, p = [], rng.choice([0, 0, 5, 90])
    for _ in range(n):
        p += rng.choice([1, 1, 2, 3, 7, 20, 50])
        pos.append(p)
    return pos


def _ids(rng, k, reuse=None):
    """k distinct phase set ids (arbitrary order, 0 allowed)"""
    pool = list(range(0, 40)) + [100, 999, 1234]
    if reuse and rng.random() < 0.5:
        pool = list(reuse) + pool
        ids = []
        for x in pool:
            if x not in ids:
                ids.append(x)
            if len(ids) == k:
                break
        rng.shuffle(ids)
        return ids
    return rng.sample(pool, k)


def _site(rng, pos, snv, gt, ps, ploidy):
    ref, alt = _alleles(rng, snv)
    s = {"pos": pos, "snv": snv, "gt": gt, "ps": ps, "ref": ref, "alt": alt}
    if ps >= 0:
        s["hp"] = rng.sample(range(1, ploidy + 1), ploidy)
    return s


def chrom_from_pattern(rng, name, pat, ids):
    """pattern of Gen_C12 kinds -> abstract chromosome (diploid)"""
    pos = _positions(rng, len(pat))
    sites = []
    for p, x in zip(pos, pat):
        lab = x - 20 if x >= 20 else x - 10 if x >= 10 else 0
        snv = not (x in (K_HET_N, K_HOMALT_N) or x >= 20)
        if x == K_HOMREF:
            gt, ps = [0, 0], -1
        elif x in (K_HOMALT, K_HOMALT_N):
            gt, ps = [1, 1], -1
        elif x == K_MISS:
            gt, ps = [-1, -1], -1
        elif x == K_HALF:
            gt, ps = rng.choice([[0, -1], [-1, 0], [1, -1]]), -1
        elif x == K_TAGMISS:
            gt, ps = rng.choice([[-1, 1], [0, -1], [-1, 0]]), ids[0]
        elif x in (K_HET, K_HET_N):
            gt, ps = rng.choice([[0, 1], [1, 0]]), -1
        else:
            gt, ps = rng.choice([[0, 1], [1, 0]]), ids[lab - 1]
        sites.append(_site(rng, p, snv, gt, ps, 2))
    return {"name": name, "sites": sites}


def random_chrom(rng, name, ploidy, nsets, n, ids):
    pos = _positions(rng, n)
    sites = []
    # sets get contiguous, interleaved or nested membership by drawing labels with locality
    cur = 0
    for p in pos:
        r = rng.random()
        snv = rng.random() < 0.75
        het = [0] * ploidy
        for i in rng.sample(range(ploidy), rng.randint(1, ploidy - 1)):
            het[i] = 1
        if r < 0.45 and nsets:
            if rng.random() < 0.35:
                cur = rng.randrange(nsets)
            gt, ps = het, ids[cur]
        elif r < 0.60:
            gt, ps = het, -1
        elif r < 0.70:
            gt, ps = [rng.choice([0, 1])] * ploidy, (ids[rng.randrange(nsets)] if nsets and rng.random() < 0.4 else -1)
        elif r < 0.80:
            gt, ps = [-1] * ploidy, -1
        elif r < 0.90:
            gt = list(het)
            gt[rng.randrange(ploidy)] = -1
            ps = ids[rng.randrange(nsets)] if nsets and rng.random() < 0.5 else -1
        else:
            gt, ps = het, -1
        s = _site(rng, p, snv, gt, ps, ploidy)
        if ps < 0 and rng.random() < 0.2 and nsets:
            s["stale"] = ids[rng.randrange(nsets)]       # PS value on a call with '/' separators: no phase information
        sites.append(s)
    return {"name": name, "sites": sites}


def _run_order(rng, names, nruns):
    """file order of the runs: every name at least once, neighbours differ, at least one name comes back after another
    chromosome's records (at most 4 runs per name)"""
    seq = list(names)
    rng.shuffle(seq)
    tries = 0
    while len(seq) < max(nruns, len(names) + 1) and tries < 1000:
        tries += 1
        nm = rng.choice(names)
        at = rng.randrange(len(seq) + 1)
        if seq.count(nm) >= 4 or (at > 0 and seq[at - 1] == nm) or (at < len(seq) and seq[at] == nm):
            continue
        seq.insert(at, nm)
    return seq


RUN_SLOT = 600        # runs of one chromosome occupy disjoint position ranges [slot * RUN_SLOT, (slot + 1) * RUN_SLOT)


def noncontiguous_chroms(rng, names, nruns, ploidy, pats):
    """runs of records for an un-indexed file in which a chromosome's records are not one contiguous run.  The runs of one
    name carry different phase set ids and lie in disjoint position ranges (in file order or not)."""
    seq = _run_order(rng, names, nruns)
    slots, ids, prev = {}, {}, None
    for nm in names:
        cnt = seq.count(nm)
        sl = list(range(cnt))
        if rng.random() < 0.5:
            rng.shuffle(sl)              # a later run may lie in front of an earlier one
        slots[nm] = sl
        ids[nm] = _ids(rng, 3 * cnt, reuse=prev)
        prev = ids[nm]
    seen = {nm: 0 for nm in names}
    chroms = []
    for nm in seq:
        t = seen[nm]
        seen[nm] += 1
        my = ids[nm][3 * t:3 * t + 3]
        if ploidy == 2 and rng.random() < 0.6:
            c = chrom_from_pattern(rng, nm, rng.choice(pats), my)
        else:
            c = random_chrom(rng, nm, ploidy, rng.randint(0, 3), rng.randint(1, 9), my)
        for s in c["sites"]:
            s["pos"] += slots[nm][t] * RUN_SLOT
        chroms.append(c)
    return chroms


def _add_decoy(rng, chroms, ploidy):
    """second sample: the calls of the chromosome rotated by one site (same encoding and ploidy)"""
    for c in chroms:
        ss = c["sites"]
        for i, s in enumerate(ss):
            o = ss[(i + 1) % len(ss)]
            s["dgt"], s["dps"] = list(o["gt"]), o["ps"]
            if o["ps"] >= 0:
                s["dhp"] = rng.sample(range(1, ploidy + 1), ploidy)


def _runs(rng, chroms, k, ncontigs):
    names = [c["name"] for c in chroms]
    runs = [{"only": False, "sel": [], "gz": False}]
    if any(not s["snv"] for c in chroms for s in c["sites"]):
        runs.append({"only": True, "sel": [], "gz": False})
    if len(names) >= 2:
        m = k % 4
        if m == 0:
            runs.append({"only": False, "sel": [names[0]], "gz": False})
        elif m == 1:
            runs.append({"only": rng.random() < 0.3, "sel": [names[-1]], "gz": False, "multi": True})
        elif m == 2:
            runs.append({"only": False, "sel": list(reversed(names)), "gz": True})
        else:
            extra = [x for x in range(1, ncontigs + 1) if x not in names]
            runs.append({"only": rng.random() < 0.3, "sel": [names[-1]] + extra[:1], "gz": True, "multi": True})
    return runs


def make_file(rng, k, src, chroms, enc, ploidy, decoy):
    ncontigs = max([c["name"] for c in chroms] + [1]) + (1 if k % 3 == 0 else 0)
    sc = {"kind": "file", "src": src, "enc": enc, "ploidy": ploidy, "ncontigs": ncontigs, "chroms": chroms,
          "decoy": decoy, "which": 0, "runs": _runs(rng, chroms, k, ncontigs)}
    if decoy:
        _add_decoy(rng, chroms, ploidy)
        sc["which"] = k % 2          # 0: first sample reported by default; 1: --sample second
        sc["sample_arg"] = sc["which"] == 1 or rng.random() < 0.5
    return sc


def scenarios(ctx):
    q = ctx.quick
    rng = ctx.rng
    # ---- TLC enumerates call patterns and block families (spec -> code) ----
    full = _tla_set(range(8))
    gens = [("full", dict(Fixed=full, NonSnvSets="TRUE", MaxSets=3, MinLen=0, MaxLen=3 if q else 4, FamPos=0, FamBlocks=0)),
            ("struct", dict(Fixed=_tla_set([K_HOMALT, K_HET, K_MISS]), NonSnvSets="FALSE", MaxSets=3, MinLen=4 if q else 5,
                            MaxLen=5 if q else 6, FamPos=0, FamBlocks=0)),
            ("sets", dict(Fixed=_tla_set([K_HET]), NonSnvSets="FALSE", MaxSets=3, MinLen=6 if q else 7, MaxLen=6 if q else 7,
                          FamPos=7 if q else 9, FamBlocks=3 if q else 4))]
    pats, fams = [], []
    for name, consts in gens:
        lines = _gen(ctx, "gen_" + name, consts)
        ps = [o["s"] for o in lines if o["k"] == "pat"]
        fams += [o["lab"] for o in lines if o["k"] == "fam"]
        ctx.notes["tlc_enumerated_patterns_" + name] = len(ps)
        pats += ps
    ctx.notes["tlc_enumerated_families"] = len(fams)
    scs = []
    # ---- phased heterozygous calls whose PS value is '.', next to integer PS (only: no crash, identities) ----
    for j in range(6 if q else 30):
        n = rng.randint(3, 8)
        pos = _positions(rng, n)
        sites = []
        for t, p in enumerate(pos):
            s = _site(rng, p, True, rng.choice([[0, 1], [1, 0]]), rng.choice([7, 7, 3]), 2)
            if t == 1 or rng.random() < 0.3:
                s["nops"] = True
            sites.append(s)
        scs.append({"kind": "file", "src": "nops", "enc": "PS", "ploidy": 2, "ncontigs": 1, "chroms": [{"name": 1, "sites": sites}],
                    "decoy": False, "which": 0, "runs": [{"only": False, "sel": [], "gz": False}]})
    # two patterns per file: pattern i on the first chromosome, a partner on the second (every pattern is used once as
    # first and possibly again as partner); every 5th file has a single chromosome
    order = list(range(len(pats)))
    rng.shuffle(order)
    k = 0
    i = 0
    while i < len(order):
        k += 1
        enc = "PS" if k % 2 else "HP"
        if k % 5 == 0 or i + 1 >= len(order):
            chosen = [pats[order[i]]]
            i += 1
        else:
            chosen = [pats[order[i]], pats[order[i + 1]]]
            i += 2
        names = [1, 2] if k % 7 else [2, 1]        # file order of contigs need not be the header order
        chroms = []
        ids = None
        for nm, p in zip(names, chosen):
            ids = _ids(rng, 3, reuse=ids)
            chroms.append(chrom_from_pattern(rng, nm, p, ids))
        chroms = [c for c in chroms if c["sites"]]        # the empty pattern: a chromosome (or file) without records
        scs.append(make_file(rng, k, "enum", chroms, enc, 2, decoy=(k % 3 == 1)))
    # ---- chromosome selection: 3-4 chromosomes, every non-empty subset as --chromosome, given as comma list and as repeated
    #      option, on the plain and on the indexed file, in file order and reversed ----
    import itertools
    longer = [p for p in pats if len(p) >= 3] or pats
    nselfiles = 0
    for j in range(16 if q else 160):
        k += 1
        nch = 3 + (j % 2)
        names = rng.sample([1, 2, 3, 4, 5][:nch + (j % 3 == 0)], nch)      # file order is not the header order
        chroms, ids = [], None
        for nm in names:
            ids = _ids(rng, 3, reuse=ids)
            if j % 4 == 3:
                chroms.append(random_chrom(rng, nm, 2, 3, rng.randint(4, 9), ids))
            else:
                chroms.append(chrom_from_pattern(rng, nm, rng.choice(longer), ids))
        sc = make_file(rng, k, "sel", chroms, "PS" if j % 2 else "HP", 2, decoy=(j % 5 == 0))
        runs = [{"only": False, "sel": [], "gz": False}]
        for r in range(1, nch + 1):
            for sub in itertools.combinations(names, r):
                orders = [list(sub)] + ([list(reversed(sub))] if r >= 2 else [])
                for sel in orders:
                    for gz in (False, True):
                        for multi in (False, True):
                            if r == 1 and multi:
                                continue          # one name: both spellings are the same call
                            runs.append({"only": rng.random() < 0.1, "sel": sel, "gz": gz, "multi": multi})
        sc["runs"] = runs
        sc["ncontigs"] = max(max(names), sc["ncontigs"])
        scs.append(sc)
        nselfiles += 1
    ctx.notes["selection_files_all_subsets"] = nselfiles
    # ---- un-indexed files in which the records of a chromosome are NOT one contiguous run (chrA.., chrB.., chrA..): every
    #      record of the file has to be counted, however the tool spreads a chromosome over rows.  Run plain and with
    #      --only-snvs only (such a file cannot be tabix-indexed; --chromosome on it: see ASSUMPTIONS) ----
    nonempty = [p for p in pats if 1 <= len(p) <= 7]
    nrunfiles = 0
    for j in range(60 if q else 600):
        k += 1
        ploidy = rng.choice([2, 2, 2, 3, 4])
        nn = rng.choice([2, 2, 3, 3, 4])
        names = rng.sample([1, 2, 3, 4, 5], nn)
        chroms = noncontiguous_chroms(rng, names, nn + rng.randint(1, 3), ploidy, nonempty)
        sc = make_file(rng, k, "runs", chroms, "PS" if j % 2 else "HP", ploidy, decoy=(j % 4 == 0))
        sc["runs"] = [r for r in sc["runs"] if not r["sel"] and not r["gz"]]
        scs.append(sc)
        nrunfiles += 1
    ctx.notes["noncontiguous_files"] = nrunfiles
    # ---- seeded random files beyond the enumeration bound ----
    for j in range(300 if q else 4000):
        k += 1
        ploidy = rng.choice([2, 2, 2, 3, 4])
        nch = rng.choice([1, 2, 2, 3])
        chroms = []
        ids = None
        for nm in rng.sample([1, 2, 3], nch):
            nsets = rng.randint(0, 6)
            ids = _ids(rng, max(nsets, 1), reuse=ids)
            chroms.append(random_chrom(rng, nm, ploidy, nsets, rng.randint(8, 25), ids))
        scs.append(make_file(rng, k, "rand", chroms, rng.choice(["PS", "HP"]), ploidy, decoy=rng.random() < 0.3))
        if ploidy == 2 and rng.random() < 0.3:
            scs[-1]["shadow"] = True
    # ---- block families replayed into the real PhasingStats ----
    batch = []
    for n, lab in enumerate(fams):
        nb = max(lab) if lab else 0
        pos = _positions(rng, len(lab))
        two = n % 6 == 5                      # some families are spread over two chromosomes
        blocks = []
        for b in range(1, nb + 1):
            vs = [pos[t] for t, x in enumerate(lab) if x == b]
            rng.shuffle(vs)
            blocks.append({"c": 1 + (b % 2 if two else 0), "vs": vs})
        rng.shuffle(blocks)
        batch.append({"blocks": blocks})
        if len(batch) == 100:
            scs.append({"kind": "split", "fams": batch})
            batch = []
    if batch:
        scs.append({"kind": "split", "fams": batch})
    ctx.notes["files"] = sum(1 for s in scs if s["kind"] == "file")
    ctx.notes["run_stats_calls"] = sum(len(s["runs"]) for s in scs if s["kind"] == "file")
    return scs


# ================================================================================================
# materialisation and parsing (worker side)
def _cname(i):
    return "chr%s" % "?ABCDEFG"[i]


def _gt_str(gt, sep):
    return sep.join("." if a < 0 else str(a) for a in gt)


def _call(enc, gt, ps, hp, stale=None, nops=False):
    if enc == "PS":
        if ps >= 0:
            return [_gt_str(gt, "|"), "." if nops else str(ps)]
        return [_gt_str(gt, "/"), "." if stale is None else str(stale)]
    if ps >= 0:
        return [_gt_str(gt, "/"), ",".join(f"{ps}-{h}" for h in hp)]
    return [_gt_str(gt, "/"), "."]


def write_world(sc, d):
    from .. import world
    enc = sc["enc"]
    samples = ["first", "second"] if sc["decoy"] else ["only"]
    recs = []
    for c in sc["chroms"]:
        for s in c["sites"]:
            main = _call(enc, s["gt"], s["ps"], s.get("hp"), s.get("stale"), s.get("nops", False))
            calls = [main]
            if sc["decoy"]:
                dec = _call(enc, s["dgt"], s["dps"], s.get("dhp"))
                calls = [main, dec] if sc["which"] == 0 else [dec, main]
            if sc.get("shadow") and (s["pos"] * 7 + c["name"]) % 3 == 0:
                # an (ignored) multi-ALT record listed directly in front of this record at the SAME position
                recs.append({"chrom": _cname(c["name"]), "pos": s["pos"], "ref": s["ref"][0], "alt": s["ref"][0] + "TT," + s["ref"][0] + "T",
                             "fmt": ["GT", enc], "calls": [["1/2", "."] for _ in calls]})
            recs.append({"chrom": _cname(c["name"]), "pos": s["pos"], "ref": s["ref"], "alt": s["alt"], "fmt": ["GT", enc],
                         "calls": calls})
    contigs = [(_cname(i), 5000) for i in range(1, sc["ncontigs"] + 1)]
    plain = world.write_vcf(os.path.join(d, "in.vcf"), samples, contigs, recs, fmt_keys=("GT", enc), info_keys=(), filters=())
    gz = None
    if any(r.get("gz") for r in sc["runs"]):
        gz = world.write_vcf(os.path.join(d, "inz.vcf"), samples, contigs, recs, fmt_keys=("GT", enc), info_keys=(), filters=(),
                             compress=True)
    return plain, gz, samples[sc["which"]] if sc["decoy"] else samples[0]


def decode_text(path, sample_idx, enc):
    """independent reading of the written file: the abstract view of one sample from the raw text"""
    from .. import world
    _, _, recs = world.read_vcf_text(path)
    chroms = []
    for r in recs:
        if "," in r["alt"]:
            continue            # multi-ALT records are not variants for stats (the reader ignores them)
        nm = "?ABCDEFG".index(r["chrom"][3:])
        if not chroms or chroms[-1]["name"] != nm:
            chroms.append({"name": nm, "sites": []})
        call = r["calls"][sample_idx]
        g = call["GT"]
        seps = [ch for ch in g if ch in "/|"]
        gt = [-1 if a == "." else int(a) for a in g.replace("|", "/").split("/")]
        if enc == "PS":
            ps = int(call["PS"]) if seps and all(x == "|" for x in seps) and call["PS"] != "." else -1
        else:
            ps = int(call["HP"].split(",")[0].split("-")[0]) if call["HP"] != "." else -1
        chroms[-1]["sites"].append({"pos": r["pos"], "snv": len(r["ref"]) == 1 and len(r["alt"]) == 1, "gt": gt, "ps": ps})
    return chroms


def abstract_view(sc):
    return [{"name": c["name"], "sites": [{"pos": s["pos"], "snv": s["snv"], "gt": s["gt"], "ps": s["ps"]} for s in c["sites"]]}
            for c in sc["chroms"]]


def _int(x):
    try:
        return int(x)
    except (TypeError, ValueError):
        return BAD


def _cidx(name):
    if name == "ALL":
        return 0
    if name.startswith("chr") and len(name) == 4 and name[3] in "ABCDEFG":
        return "?ABCDEFG".index(name[3])
    return BAD


def parse_tsv(path, sample):
    rows, allrow, ok = [], [], True
    with open(path) as fh:
        lines = [ln.rstrip("\n").split("\t") for ln in fh if ln.strip()]
    head = [h.lstrip("#") for h in lines[0]]
    for f in lines[1:]:
        d = dict(zip(head, f))
        ok = ok and d.get("sample") == sample and len(f) == len(head)
        row = {"c": _cidx(d.get("chromosome", ""))}
        for k in COLS:
            row[k] = _int(d.get(TSV[k]))
        (allrow if row["c"] == 0 else rows).append(row)
    return rows, allrow, ok


def parse_text(txt):
    import re
    rows, allrow = [], []
    cur = None
    pats = [("variants", None, r"Variants in VCF:\s*(-?\d+)"), ("het", "hetsnvs", r"Heterozygous:\s*(-?\d+)\s*\(\s*(-?\d+)\s*SNVs\)"),
            ("phased", "phsnvs", r"Phased:\s*(-?\d+)\s*\(\s*(-?\d+)\s*SNVs\)"), ("unphased", None, r"Unphased:\s*(-?\d+)"),
            ("singletons", None, r"Singletons:\s*(-?\d+)"), ("blocks", None, r"Blocks:\s*(-?\d+)"),
            ("vsum", None, r"Sum of sizes:\s*(-?\d+)"), ("bpsum", None, r"Sum of lengths:\s*(-?\d+)")]
    for ln in txt.splitlines():
        m = re.match(r"-+ Chromosome (\S+) -+$", ln)
        if m:
            cur = {"c": _cidx(m.group(1))}
            cur.update({k: BAD for k in COLS})
            rows.append(cur)
            continue
        if re.match(r"-+ ALL chromosomes \(aggregated\) -+$", ln):
            cur = {"c": 0}
            cur.update({k: BAD for k in COLS})
            allrow.append(cur)
            continue
        if cur is None:
            continue
        s = ln.strip()
        for a, b, rx in pats:
            m = re.match(rx, s)
            if m:
                cur[a] = int(m.group(1))
                if b:
                    cur[b] = int(m.group(2))
    return rows, allrow


def parse_blocklist(path, sample):
    out, ok = [], True
    with open(path) as fh:
        for ln in fh:
            if ln.startswith("#") or not ln.strip():
                continue
            f = ln.rstrip("\n").split("\t")
            ok = ok and f[0] == sample
            out.append([_cidx(f[1]), _int(f[2]), _int(f[3]), _int(f[4]), _int(f[5])])
    return out, ok


def parse_gtf(path):
    import re
    out = []
    with open(path) as fh:
        for ln in fh:
            if not ln.strip():
                continue
            f = ln.rstrip("\n").split("\t")
            m = re.match(r'gene_id "([^"]*)"; transcript_id "([^"]*)\.1";$', f[8]) if len(f) > 8 else None
            gid = _int(m.group(1)) if m and m.group(1) == m.group(2) else BAD
            out.append([_cidx(f[0]), _int(f[3]), _int(f[4]), gid])
    return out


def _drive_file(sc):
    import contextlib
    import io
    import shutil
    import tempfile
    from whatshap.cli.stats import run_stats
    base = os.path.join(os.environ.get("WV_SCRATCH", "/var/tmp/whverif"), "work")
    os.makedirs(base, exist_ok=True)
    d = tempfile.mkdtemp(prefix="c12-", dir=base)
    evs = []
    try:
        plain, gz, sample = write_world(sc, d)
        view = abstract_view(sc)
        sidx = sc["which"] if sc["decoy"] else 0
        if sc["src"] != "nops":
            got = decode_text(plain, sidx, sc["enc"])
            assert got == view, ("materialiser self-check failed", got, view)
        for n, run in enumerate(sc["runs"]):
            tsv, bl, gtf = (os.path.join(d, f"o{n}.{x}") for x in ("tsv", "bl", "gtf"))
            kw = {}
            if run["sel"]:
                names = [_cname(x) for x in run["sel"]]
                kw["chromosomes"] = names if run.get("multi") else [",".join(names)]
            if sc["decoy"] and sc.get("sample_arg"):
                kw["sample"] = sample
            buf = io.StringIO()
            e = {"ev": "Stats" if sc["src"] != "nops" else "StatsLoose", "chroms": view, "only": bool(run["only"]),
                 "sel": list(run["sel"]), "gz": bool(run["gz"]), "exc": "", "rows": [], "all": [], "trows": [], "tall": [],
                 "blist": [], "gtf": [], "names": True}
            try:
                with contextlib.redirect_stdout(buf):
                    run_stats(vcf=gz if run["gz"] else plain, tsv=tsv, block_list=bl, gtf=gtf, only_snvs=run["only"], **kw)
            except Exception as ex:  # no exception is expected behaviour inside the domain: judged under Returns
                e["exc"] = type(ex).__name__
                e["detail"] = str(ex)[:200]
                evs.append(e)
                continue
            e["rows"], e["all"], ok1 = parse_tsv(tsv, sample)
            e["trows"], e["tall"] = parse_text(buf.getvalue())
            e["blist"], ok2 = parse_blocklist(bl, sample)
            e["gtf"] = parse_gtf(gtf)
            e["names"] = bool(ok1 and ok2)
            evs.append(e)
    finally:
        shutil.rmtree(d, ignore_errors=True)
    return evs


def _drive_split(sc):
    from whatshap.cli.stats import PhasingStats, PhasedBlock
    from whatshap.vcf import BiallelicVcfVariant, VariantCallPhase
    evs = []
    for fam in sc["fams"]:
        st = PhasingStats()
        blocks = []
        for n, b in enumerate(fam["blocks"]):
            pb = PhasedBlock(chromosome=_cname(b["c"]))
            for p in b["vs"]:
                pb.add(BiallelicVcfVariant(p, "A", "C"), VariantCallPhase(block_id=n, phase=(0, 1), quality=None))
            blocks.append(pb)
        st.add_blocks(blocks)
        det = st.get_detailed_stats()
        evs.append({"ev": "Split", "fam": [{"c": b["c"], "vs": sorted(b["vs"])} for b in fam["blocks"]],
                    "pieces": [{"c": _cidx(x.chromosome), "vs": sorted(v.position for v in x.phases), "span": int(x.span())}
                               for x in st.split_blocks],
                    "det": {"phased": int(det.phased), "singletons": int(det.singletons), "blocks": int(det.blocks),
                            "vsum": int(det.variant_per_block_sum), "bpsum": int(det.bp_per_block_sum)}})
    return evs


def drive(sc):
    return _drive_file(sc) if sc["kind"] == "file" else _drive_split(sc)


# ================================================================================================
# evidence helpers
def _called(s):
    return all(a >= 0 for a in s["gt"])


def _het(s, missing_is_het=False):
    if not _called(s):
        return missing_is_het
    return any(a != s["gt"][0] for a in s["gt"])


def expected(sites, only, missing_is_het=False):
    """Python mirror of Stats.tla, used ONLY to label failures (signature) and for nontrivial(); with missing_is_het
    it computes the numbers under the hypothesis 'a call with a missing allele is treated as heterozygous'."""
    V = [s for s in sites if s["snv"] or not only]
    sets = {}
    for s in V:
        if _het(s, missing_is_het) and s["ps"] >= 0:
            sets.setdefault(s["ps"], []).append(s)
    big = {k: v for k, v in sets.items() if len(v) >= 2}
    row = {"variants": len(V), "het": sum(_het(s, missing_is_het) for s in V),
           "hetsnvs": sum(_het(s, missing_is_het) and s["snv"] for s in V),
           "phased": sum(len(v) for v in big.values()), "phsnvs": sum(sum(s["snv"] for s in v) for v in big.values()),
           "unphased": sum(_het(s, missing_is_het) and s["ps"] < 0 for s in V),
           "singletons": sum(1 for v in sets.values() if len(v) == 1), "blocks": len(big)}
    row["vsum"] = row["phased"]
    lines = sorted([k, min(s["pos"] for s in v), max(s["pos"] for s in v), len(v)] for k, v in sets.items())
    return row, lines


def nontrivial(sc, events):
    if sc["kind"] == "split":
        for fam in sc["fams"]:
            hulls = [(b["c"], min(b["vs"]), max(b["vs"])) for b in fam["blocks"] if len(b["vs"]) >= 2]
            for i, a in enumerate(hulls):
                for b in hulls[i + 1:]:
                    if a[0] == b[0] and not (a[2] < b[1] or b[2] < a[1]):
                        return True
        return False
    for c in sc["chroms"]:
        row, _ = expected(c["sites"], False)
        if row["blocks"] >= 1 and row["variants"] > row["phased"]:
            return True
    return False


def signature(sc, events, clause):
    if sc["kind"] == "split":
        return "split: block family replayed into PhasingStats"
    if sc["src"] == "nops":
        excs = sorted({e.get("exc", "") or e.get("where", "") for e in events if e.get("exc") or e["ev"] == "Crashed"})
        return "phased het calls with PS='.' next to integer PS, --block-list: " + ",".join(excs)
    stats = [e for e in events if e["ev"] == "Stats"]
    if len(stats) != len(events) or any(e["exc"] for e in stats):
        excs = sorted({e.get("exc", "") or e.get("where", "") for e in events if e.get("exc") or e["ev"] == "Crashed"})
        return f"src={sc['src']} enc={sc['enc']} ploidy={sc['ploidy']} exception/crash: " + ",".join(excs)
    # hypothesis: every reported number equals the count in which a call with a missing allele is heterozygous
    sites = {}
    for c in sc["chroms"]:                 # a chromosome = all runs of records with its name
        sites.setdefault(c["name"], []).extend(c["sites"])
    explained, differs = True, False
    for e in stats:
        for name in sorted({r["c"] for r in e["rows"]}):
            ss = sites.get(name, [])
            good, glines = expected(ss, e["only"], False)
            bug, blines = expected(ss, e["only"], True)
            got = {k: sum(r[k] for r in e["rows"] if r["c"] == name) for k in good}
            lines = sorted(b[1:] for b in e["blist"] if b[0] == name)
            if got != good or lines != glines:
                differs = True
                if got != bug or lines != blines:
                    explained = False
    if differs and explained:
        return ("calls with a missing allele (./., 0/., .|1) are counted as heterozygous (as unphased, or as member of the "
                "phase set whose PS/HP they carry)")
    opts = sorted({("only-snvs" if e["only"] else "") + ("+sel" if e["sel"] else "") + ("+gz" if e["gz"] else "") for e in stats})
    names = [c["name"] for c in sc["chroms"]]
    runs = " chromosomes-not-contiguous" if len(set(names)) < len(names) else ""
    return f"src={sc['src']} enc={sc['enc']} ploidy={sc['ploidy']} decoy={int(sc['decoy'])} opts={'/'.join(o or 'plain' for o in opts)}{runs}"


def selftest_corrupt(events):
    """Binding demonstration: corrupt one recorded number of a Stats event without missing calls and one piece of a Split event."""
    done = set()
    for e in events:
        if e["ev"] == "Stats" and "stats" not in done and not e["exc"] and e["rows"] and e["rows"][0]["blocks"] >= 1 \
                and all(a >= 0 for c in e["chroms"] for s in c["sites"] for a in s["gt"]):
            e["rows"][0]["unphased"] += 1
            e["rows"][0]["het"] += 1
            done.add("stats")
        if e["ev"] == "Split" and "split" not in done and len(e["pieces"]) >= 2:
            e["pieces"][0]["vs"] = e["pieces"][0]["vs"] + [e["pieces"][1]["vs"][0]]
            done.add("split")
    return events


MANIFEST = {
    "text": "Stats.tla defines every number of `whatshap stats` (variants, heterozygous, het SNVs, phased, unphased, singletons, "
            "blocks, block list lines, covered span) as a count over an abstract per-sample view of the VCF; StatsSplit.tla transcribes "
            "PhasingStats.get_nonoverlapping_blocks as a state machine and TLC proves for every family of <= 4 blocks over <= 9 positions "
            "that the pieces are pairwise disjoint intervals inside their blocks (so the sum of block lengths is bounded by the covered "
            "span) and that the loop terminates. TLC enumerates all call patterns per chromosome within the bounds (Gen_C12) and all "
            "block families; the driver writes each VCF (PS or HP encoding, arbitrary ids/positions, optional decoy sample), runs "
            "run_stats in-process with --tsv/--block-list/--gtf, with and without --only-snvs and --chromosome (plain and tabix-indexed; "
            "also un-indexed files whose chromosomes are not contiguous runs of records, where every record must be counted), "
            "parses TSV, text report, block list and GTF, and TLC judges every run against the definitions (counts, the two identities, "
            "block list = one line per phase set with true extent and size, length-sum bound, ALL row = sum of rows, text = TSV, GTF "
            "features describe the sets); every enumerated family is also put into a real PhasingStats and its split_blocks are judged.",
    "note": "trusted: TLC, Stats.tla as the reading of the statement, the VCF text writer (re-parsed by an independent decoder) and "
            "the output parsers; beyond the enumeration bounds the evidence is seeded sampling; non-additive columns are not judged",
    "technique": "TLA+ spec + TLC model checking of an implementation-shaped model + TLC-enumerated scenarios + TLC trace validation",
}
