"""C09 - PS and HP encodings are equivalent, round-trip, and never mix old and new phase."""
import json
import os
import shutil

from .. import tlc
from . import c13 as H   # shared helpers: projection of VCF text, in-process runners, history emission

PROP = "C09"
TRACE_MODULE = "C09_Trace"
EXHAUSTIVE = True
NPROC = 8
SHARDS = 8
TASK_TIMEOUT = 180
RULE = ("a scenario is a tiny world (1-3 samples, 3-8 biallelic sites: SNVs, insertions, deletions; true haplotypes, error-free single "
        "and paired reads in a BAM with read groups, reference FASTA, a variant file with sorted/unsorted/homozygous/missing GTs and "
        "optionally foreign PS(+PQ)/HP phase, optionally decorated with records no run supports - multi-ALT heterozygous records and "
        "second records at a used position, phased by another tool for every sample -, a phased VCF of the same records with "
        "arbitrary, also interleaved, phase sets in PS or HP encoding) plus a history of real commands, each run on the previous "
        "output: phase --tag PS/HP [--only-snvs] for a target-sample subset with the BAM or with the phased VCF as only phase input, "
        "unphase; every phase step is run a second time with the other tag on the same input. Histories: all op sequences over "
        "{unphase, phase x tag x targets x only-snvs} emitted by TLC from VcfHistory (2 samples up to length 2-3, 1 sample up to "
        "length 3-4), plus seeded random longer ones, plus single steps with 1-7 interleaved phase sets in the phase-input VCF. "
        "Every phase step with a phased VCF as phase input is run once more on a three-contig variant file (contig names and order "
        "drawn from a pool, every contig a shifted copy of the current file) with one phase-input file or one per sample, each with "
        "its own contig layout: a non-empty subset of the contigs in the same or another order, optionally with a contig the "
        "variant file lacks in between. "
        "Non-trivial = some phase step wrote >= 2 heterozygous variants into one phase set for a sample that already carried phase "
        "information (possibly at a record the step skips) or whose GT was unsorted, or reproduced a phase-input VCF with >= 2 sets")
ASSUMPTIONS = [
    "TLC; VcfModel.tla's decoders are the conventions (GT order = haplotype order with PS naming the set; k-th HP entry names the "
    "haplotype of the k-th GT allele), which are also what whatshap's own reader implements",
    "P, 'the phase that was written', is observed at the API boundary: the arguments of PhasedVcfWriter.write (super-reads and "
    "components) recorded by a wrapper class in the driver; a statement exists where the site is in a component and the two "
    "super-read alleles are 0/1 and differ; set name = component + 1",
    "DecodesCleanly is not demanded when a non-target sample brought the other encoding along (mixture inherited from the input)",
    "VcfReproduces is demanded for sets with >= 2 heterozygous variants shared by both files at records the run supports and at most 7 overlapping sets (14 pseudo reads)",
    "VcfReproducesAnyContigLayout demands the same per contig of a multi-contig variant file for every sample whose phase-input file has "
    "records for that contig; which contigs a phase-input file covers is known from the construction of the layout",
    "which records a run does not support (multi-ALT, second record at a position, indel under --only-snvs) is known from the construction "
    "of the world; P has no statement there and NoStalePhase demands that the output has none either for target samples",
]


# ==============================================================================================
def design_mc(ctx):
    out = H.design_mc(ctx)
    # negative controls: (a) the transcription of the writer before commit d882ab3 (Faithful = FALSE), (b) a writer that
    # removes old statements only at the records the run supports (ClearAll = FALSE) must violate the invariants
    for name, kw, invs in [("old_writer", {"faithful": "FALSE"}, ["RoundTrip", "NoStalePhase", "DecodesCleanly", "TagEquivalence"]),
                           ("clear_only_supported_records", {"clear_all": "FALSE"}, ["NoStalePhase"])]:
        cfg = tlc.write_cfg(os.path.join(ctx.workdir, f"neg_{name}.cfg"), spec="Spec",
                            consts=H.hist_consts(2, indel="{2}", never="{3}", **kw), subst={"Inits": "Skips"},
                            view="NoHist", invariants=invs)
        r = tlc.model_check("MC_VcfHistory", cfg=cfg, workers=4, timeout=600)
        rejected = (not r["ok"]) and "is violated" in r["out"]
        ctx.notes[f"negative_control_{name}_rejected_by_tlc"] = rejected
        if not rejected:
            raise tlc.TlcError(f"negative control {name} was not rejected: VcfHistory's invariants are vacuous\n" + r["out"][-1500:])
    return out


# ==============================================================================================
# worlds
def make_world(rng, ns, nvar, pre="none", paired=0.0, sets=None, indels=0.0, decoys=False, indel_front=False):
    """JSON-able tiny world.  Positions are 0-based; VCF POS = pos + 1.
    indels: probability that a site is an insertion / deletion instead of an SNV.
    decoys: add records no phase run supports - a multi-ALT heterozygous record and a second record at an already used
    position - which arrive phased (by another tool) for every sample."""
    from wv import world
    gap = 70
    ref = world.random_reference(rng, gap * nvar + 140)
    vpos = [60 + gap * i for i in range(nvar)]
    at_zero = rng.random() < 0.2
    if at_zero:
        vpos[0] = 0              # the first variant sits on the FIRST base of the contig (POS 1; phase-set id 0 internally)
    variants = []
    for p in vpos:
        kind = "snv"
        if rng.random() < indels and not (at_zero and p == 0):
            kind = rng.choice(["ins", "del"])
        if kind == "del":
            ln = next((n for n in (rng.choice([1, 2, 3]), 1) if world.deletion_unshiftable(ref, p, n)), None)
            v = world.make_variant(rng, ref, p, "del", ln) if ln else world.make_variant(rng, ref, p, "snv")
        elif kind == "ins":
            v = world.make_variant(rng, ref, p, "ins", rng.choice([1, 2, 3]))
        else:
            v = world.make_variant(rng, ref, p, "snv")
        variants.append([v.pos, v.ref, v.alt])
    samples = [f"s{k}" for k in range(ns)]
    haps, gts, reads = [], [], []
    for s in range(ns):
        h0, h1, gt = [], [], []
        het_idx = set(rng.sample(range(nvar), min(nvar, max(2, int(nvar * 0.75)))))
        for i in range(nvar):
            if i in het_idx:
                a = rng.randint(0, 1)
                h0.append(a)
                h1.append(1 - a)
                gt.append("0/1" if rng.random() < 0.6 else "1/0")
            else:
                a = rng.randint(0, 1)
                h0.append(a)
                h1.append(a)
                gt.append(f"{a}/{a}" if rng.random() < 0.85 else "./.")
        haps.append([h0, h1])
        gts.append(gt)
        # reads (reference coordinates of their ends): single reads spanning 2-3 neighbouring sites, paired reads joining
        # i and i+2 around i+1
        n = 0
        forced = rng.randrange(nvar - 1)   # an empty BAM is a usage error of `whatshap phase`, not a scenario
        for i in range(nvar - 1):
            r = rng.random()
            if r < 0.28 and i != forced:
                continue
            j = min(nvar - 1, i + (2 if rng.random() < 0.25 else 1))
            for h in (0, 1):
                for _ in range(2):
                    reads.append({"s": s, "h": h, "name": f"r{s}_{n}", "segs": [[vpos[i] - rng.randint(6, 25), vpos[j] + rng.randint(8, 25)]]})
                    n += 1
        for i in range(nvar - 2):
            if rng.random() < paired:
                for h in (0, 1):
                    reads.append({"s": s, "h": h, "name": f"p{s}_{n}", "segs": [[vpos[i] - 20, vpos[i] + 15], [vpos[i + 2] - 15, vpos[i + 2] + 20]]})
                    n += 1
    # variant file; role of every record: var = index of the site, skip = why no run supports it ('' otherwise)
    kinds = [pre if pre != "mixed" else ("PS" if s % 2 == 0 else "HP") for s in range(ns)]
    dkinds = [k if k in ("PS", "HP") else rng.choice(["PS", "HP"]) for k in kinds]   # encoding of the decoys' foreign phase
    foreign = vpos[0] + 1

    def fmt_for(ks):
        return ["GT", "GQ"] + (["PS", "PQ"] if "PS" in ks else []) + (["HP"] if "HP" in ks else [])

    def foreign_call(gt2, kind, i):
        """a heterozygous call phased by another tool; gt2 = (a, b) alleles"""
        a, b = gt2
        d = {"GT": f"{a}/{b}", "GQ": str(20 + i), "PS": ".", "PQ": ".", "HP": "."}
        if kind == "PS":
            d.update(GT=f"{a}|{b}", PS=str(foreign), PQ=str(40 + i))
        elif kind == "HP":
            x, y = rng.choice([(1, 2), (2, 1)])
            d.update(HP=f"{foreign}-{x},{foreign}-{y}")
        return d

    recs, roles = [], []
    for i in range(nvar):
        if indel_front and len(variants[i][1]) == 1 and len(variants[i][2]) == 1 and rng.random() < 0.6:
            # an insertion record listed IN FRONT of the SNV at the same position: under --only-snvs (the only mode such a
            # world is used in) the reader must drop it first and keep the SNV as the record of that position
            fmt = fmt_for(dkinds)
            ins_alt = variants[i][1] + rng.choice("ACGT")
            calls = [[foreign_call((0, 1), rng.choice([dkinds[s], "none"]), i)[k] for k in fmt] for s in range(ns)]
            recs.append({"chrom": "chr1", "pos": variants[i][0] + 1, "id": "insfront", "ref": variants[i][1], "alt": ins_alt, "qual": 50,
                         "filter": "PASS", "info": ".", "fmt": fmt, "calls": calls})
            roles.append({"var": -1, "skip": "", "indel": True})
        fmt = fmt_for(kinds)
        calls = []
        for s in range(ns):
            g = gts[s][i]
            d = {"GT": g, "GQ": str(20 + i), "PS": ".", "PQ": ".", "HP": "."}
            if g in ("0/1", "1/0") and rng.random() < 0.8 and kinds[s] in ("PS", "HP"):
                d = foreign_call(rng.choice([(0, 1), (1, 0)]), kinds[s], i)
            calls.append([d[k] for k in fmt])
        recs.append({"chrom": "chr1", "pos": variants[i][0] + 1, "id": ".", "ref": variants[i][1], "alt": variants[i][2], "qual": 50,
                     "filter": "PASS", "info": ".", "fmt": fmt, "calls": calls})
        roles.append({"var": i, "skip": "", "indel": len(variants[i][1]) != 1 or len(variants[i][2]) != 1})
        # a second record at the same position, phased by another tool (only behind SNVs: behind an indel it would become
        # the record that --only-snvs runs keep)
        if decoys and not roles[-1]["indel"] and rng.random() < 0.4:
            fmt = fmt_for(dkinds)
            alt2 = rng.choice([b for b in "ACGT" if b not in (variants[i][1][0], variants[i][2][0])])
            calls = [[foreign_call(rng.choice([(0, 1), (1, 0)]), dkinds[s], i)[k] for k in fmt] for s in range(ns)]
            recs.append({"chrom": "chr1", "pos": variants[i][0] + 1, "id": "dup", "ref": variants[i][1][0], "alt": alt2, "qual": 50,
                         "filter": "PASS", "info": ".", "fmt": fmt, "calls": calls})
            roles.append({"var": -1, "skip": "duplicate position", "indel": False})
        if decoys and i < nvar - 1 and rng.random() < 0.5:   # a multi-ALT heterozygous record between two sites
            p = vpos[i] + 35
            fmt = fmt_for(dkinds)
            alts = rng.sample([b for b in "ACGT" if b != ref[p]], 2)
            calls = [[foreign_call(rng.choice([(1, 2), (2, 1), (0, 2)]), dkinds[s], i)[k] for k in fmt] for s in range(ns)]
            recs.append({"chrom": "chr1", "pos": p + 1, "id": "multi", "ref": ref[p], "alt": ",".join(alts), "qual": 50,
                         "filter": "PASS", "info": ".", "fmt": fmt, "calls": calls})
            roles.append({"var": -1, "skip": "multi-ALT", "indel": False})
    # the phased VCF offered as phase input: a partition of each sample's heterozygous sites into sets
    truth = []
    for s in range(ns):
        hets = [i for i in range(nvar) if gts[s][i] in ("0/1", "1/0")]
        k = sets if sets else rng.randint(1, max(1, len(hets) // 2))
        lab = {}
        if sets:   # k interleaved sets: site j of the heterozygous list goes to set j mod k
            for j, i in enumerate(hets):
                lab[i] = j % k
        else:
            for i in hets:
                lab[i] = rng.randrange(k) if rng.random() < 0.5 else (min(k - 1, hets.index(i) * k // max(1, len(hets))))
        flips = [rng.randint(0, 1) for _ in range(k)]
        t = [None] * nvar
        for i in hets:
            if rng.random() < 0.1 and not sets:
                continue   # left unphased in g
            members = [m for m in hets if lab[m] == lab[i]]
            a, b = haps[s][0][i], haps[s][1][i]
            if flips[lab[i]]:
                a, b = b, a
            t[i] = [vpos[members[0]] + 1, [a, b]]
        truth.append(t)
    return {"ref": ref, "vpos": vpos, "variants": variants, "samples": samples, "haps": haps, "reads": reads, "recs": recs,
            "roles": roles, "truth": truth}


def truth_records(w, enc):
    """records of the phase-input VCF g (same record list as the variant file); enc = PS or HP encoding of the statements"""
    out = []
    for rec, role in zip(w["recs"], w["roles"]):
        calls = []
        for s in range(len(w["samples"])):
            t = w["truth"][s][role["var"]] if role["var"] >= 0 else None
            g = rec["calls"][s][0].replace("|", "/")
            if t is None:
                calls.append([g, "."])
            elif enc == "PS":
                calls.append([f"{t[1][0]}|{t[1][1]}", str(t[0])])
            else:   # GT sorted 0/1; entry k = haplotype (1-based) carrying allele k
                hp = [t[1].index(a) + 1 for a in (0, 1)]
                calls.append(["0/1", f"{t[0]}-{hp[0]},{t[0]}-{hp[1]}"])
        out.append(dict(rec, fmt=["GT", enc], calls=calls))
    return out


def materialise(w, tmp):
    from wv import world
    L = len(w["ref"])
    fasta = world.write_fasta(os.path.join(tmp, "ref.fa"), {"chr1": w["ref"]})
    variants = [world.Variant(p, r, a) for p, r, a in w["variants"]]
    hap = {(s, h): world.Haplotype(w["ref"], variants, w["haps"][s][h]) for s in range(len(w["samples"])) for h in (0, 1)}
    brecs = []
    for r in w["reads"]:
        hp = hap[(r["s"], r["h"])]
        segs = []
        for a, b in r["segs"]:
            a, b = max(0, a), min(L, b)
            hs, he = hp.ref_to_hap(a), hp.ref_to_hap(b)
            pos0, cig, seq = hp.read(hs, he)
            assert seq == hp.seq[hs:he] and pos0 == a and world.cigar_reflen(cig) == b - a, (a, b, pos0, cig)
            segs.append((pos0, world.cigar_str(cig), seq))
        if len(segs) == 1:
            brecs.append({"name": r["name"], "flag": 0, "ref": 0, "pos": segs[0][0], "cigar": segs[0][1], "seq": segs[0][2],
                          "rg": f"rg{r['s']}"})
        else:
            (p1, c1, q1), (p2, c2, q2) = segs
            tl = p2 + len(q2) - p1
            brecs.append({"name": r["name"], "flag": 99, "ref": 0, "pos": p1, "cigar": c1, "seq": q1, "rg": f"rg{r['s']}",
                          "mate": {"ref": 0, "pos": p2}, "tlen": tl})
            brecs.append({"name": r["name"], "flag": 147, "ref": 0, "pos": p2, "cigar": c2, "seq": q2, "rg": f"rg{r['s']}",
                          "mate": {"ref": 0, "pos": p1}, "tlen": -tl})
    bam = world.write_bam(os.path.join(tmp, "reads.bam"), [("chr1", L)], brecs,
                          read_groups=[{"ID": f"rg{s}", "SM": n} for s, n in enumerate(w["samples"])])
    vcf = world.write_vcf(os.path.join(tmp, "f0.vcf"), w["samples"], [("chr1", L)], w["recs"], fmt_keys=("GT", "GQ", "PS", "PQ", "HP"),
                          info_keys=(), filters=())
    g = {}
    for enc in ("PS", "HP"):
        trecs = truth_records(w, enc)
        g[enc] = world.write_vcf(os.path.join(tmp, f"g{enc}.vcf"), w["samples"], [("chr1", L)], trecs,
                                 fmt_keys=("GT", "PS", "HP"), info_keys=(), filters=())
        # the same phase information as one file PER SAMPLE (each file phases one sample and leaves the others unphased)
        for k in range(len(w["samples"])):
            recs_k = []
            for r in trecs:
                calls = [list(c) if j == k else [c[0].replace("|", "/") if "|" not in c[0] else "/".join(sorted(c[0].split("|"))), "."]
                         for j, c in enumerate(r["calls"])]
                recs_k.append(dict(r, calls=calls))
            g[f"{enc}:{k}"] = world.write_vcf(os.path.join(tmp, f"g{enc}_{k}.vcf"), w["samples"], [("chr1", L)], recs_k,
                                              fmt_keys=("GT", "PS", "HP"), info_keys=(), filters=())
    return fasta, bam, vcf, g


# ==============================================================================================
# scenarios
def _with_inputs(rng, hist, vcf_prob=0.35):
    out = []
    for o in hist:
        o = dict(o)
        if o["op"] == "P":
            r = rng.random()
            o["inp"] = "bam" if r > vcf_prob else ("vcf:PS" if r > vcf_prob / 2 else "vcf:HP")
            o.setdefault("snvs", False)
        out.append(o)
    return out


def scenarios(ctx):
    q, rng = ctx.quick, ctx.rng
    scs = []
    # ---- all command histories (TLC, VcfHistory; Phase action with targets, tag and --only-snvs) on seeded worlds with
    #      indels and records no run supports: 2 samples up to length 2 / 3, 1 sample up to length 3 / 4 ----
    hs = []
    for ns, depth in ((2, 2 if q else 3), (1, 3 if q else 4)):
        hs += [(ns, h) for h in H.emit_histories(ctx, ns, depth, inits="Small" if ns == 2 else "One", snvs="{FALSE, TRUE}")
               if any(o["op"] == "P" for o in h)]
    ctx.notes["tlc_emitted_histories_with_phase"] = len(hs)
    ctx.notes["tlc_emitted_histories_with_only_snvs_step"] = sum(1 for _, h in hs if any(o.get("snvs") for o in h))
    for i, (ns, h) in enumerate(hs):
        pre = ["none", "PS", "HP", "mixed"][i % 4]
        w = make_world(rng, ns, rng.randint(3, 5), pre=pre, paired=0.3 if i % 3 == 0 else 0.0, indels=0.4, decoys=i % 5 != 0)
        scs.append({"kind": "hist", "pre": pre, "world": w, "hist": _with_inputs(rng, h)})
    # ---- phased VCF as the only phase input: 1..7 interleaved sets, both encodings of g, both tags ----
    n = 0
    for k in range(1, 8):
        for rep in range(2 if q else 20):
            pre = ["none", "PS", "HP"][rep % 3]
            w = make_world(rng, 1, 2 * k + rng.randint(0, 2), pre=pre, sets=k, indels=0.2 if rep % 4 == 3 else 0.0, decoys=rep % 4 == 1)
            for enc in ("PS", "HP"):
                scs.append({"kind": f"interleaved{k}", "pre": pre, "world": w,
                            "hist": [{"op": "P", "tag": "PS" if rep % 2 else "HP", "T": [1], "inp": "vcf:" + enc,
                                      "snvs": rep % 8 == 7}]})
                n += 1
    ctx.notes["interleaved_set_scenarios"] = n
    # ---- seeded random: more samples, more sites, longer histories ----
    nr = 150 if q else 8000
    for i in range(nr):
        ns = rng.choice([1, 2, 2, 3])
        w = make_world(rng, ns, rng.randint(3, 8), pre=rng.choice(["none", "PS", "HP", "mixed"]), paired=rng.choice([0, 0, 0.4]),
                       indels=rng.choice([0, 0.3, 0.6]), decoys=rng.random() < 0.6)
        hist = []
        for _ in range(rng.randint(1, 5)):
            if rng.random() < 0.2:
                hist.append({"op": "U", "tag": "", "T": []})
            else:
                T = sorted(rng.sample(range(1, ns + 1), rng.randint(1, ns)))
                hist.append({"op": "P", "tag": rng.choice(["PS", "HP"]), "T": T, "snvs": rng.random() < 0.3})
        scs.append({"kind": "random", "pre": "", "world": w, "hist": _with_inputs(rng, hist)})
    ctx.notes["random_histories"] = nr
    # ---- histories in which EVERY phase run uses --only-snvs, on worlds with an insertion record in front of SNVs at the same
    #      position (what `phase --only-snvs` on a mixed call set leaves behind); phased VCFs as phase input in half of the steps ----
    ns_ = 80 if q else 2500
    for i in range(ns_):
        ns = rng.choice([1, 2])
        w = make_world(rng, ns, rng.randint(3, 6), pre=rng.choice(["none", "PS", "HP"]), indels=rng.choice([0, 0.3]),
                       decoys=False, indel_front=True)
        hist = []
        for _ in range(rng.randint(1, 3)):
            T = sorted(rng.sample(range(1, ns + 1), rng.randint(1, ns)))
            hist.append({"op": "P", "tag": rng.choice(["PS", "HP"]), "T": T, "snvs": True})
        scs.append({"kind": "onlysnvs", "pre": "", "world": w, "hist": _with_inputs(rng, hist, vcf_prob=0.6), "only_snvs_world": True})
    ctx.notes["only_snvs_histories"] = ns_
    # ---- twin runs under --distrust-genotypes --include-homozygous (genotypes change, homozygous calls become heterozygous) ----
    nt = 80 if q else 2500
    for i in range(nt):
        ns = rng.choice([1, 1, 2])
        w = make_world(rng, ns, rng.randint(3, 6), pre="none", paired=0.0, indels=0.0, decoys=False)
        for rec, role in zip(w["recs"], w["roles"]):
            if role["var"] >= 0:
                for c in rec["calls"]:
                    if rng.random() < 0.35:
                        c[0] = rng.choice(["0/0", "1/1", "0/1"])       # a wrong call the reads will overrule
        scs.append({"kind": "twin", "pre": "", "world": w, "hist": []})
    ctx.notes["distrust_twin_runs"] = nt
    # ---- every phase step that uses a phased VCF as phase input is ALSO run on a three-contig variant file with phase-input
    #      files whose contig layout is drawn independently (drawn here, after everything else, from the seeded generator) ----
    nl = 0
    for sc in scs:
        for o in sc["hist"]:
            if o.get("op") == "P" and o.get("inp", "bam") != "bam":
                o["lay"] = rng.getrandbits(30)
                nl += 1
    ctx.notes["phase_steps_with_contig_layout_run"] = nl
    return scs


# ==============================================================================================
# driving the real commands
def decode_real(path, samples, primary, only_snvs=False):
    """What whatshap's own reader decodes: per sample, per record a statement or [].
    primary: 0-based position -> index of the record the reader keeps for it (first biallelic record at that position)."""
    from whatshap.vcf import VcfReader
    nrec = primary["n"]
    try:
        ph = [[[] for _ in range(nrec)] for _ in samples]
        with VcfReader(path, phases=True, only_snvs=only_snvs) as r:
            for table in r:
                for s, name in enumerate(samples):
                    for v, p in zip(table.variants, table.phases_of(name)):
                        if p is not None and v.position in primary:
                            ph[s][primary[v.position]] = {"block": -1 if p.block_id is None else int(p.block_id),
                                                          "al": [-1 if a is None else int(a) for a in p.phase]}
        return {"exc": "", "ph": ph}
    except Exception as e:
        return {"exc": type(e).__name__, "ph": []}


def _concat_as_contigs(p1, p2, dst, shift=0):
    """records of p1 on their contig, records of p2 renamed to contig chr2; header of p1 plus the definitions only p2 has"""
    with open(p1) as fh:
        l1 = fh.read().splitlines()
    with open(p2) as fh:
        l2 = fh.read().splitlines()
    h1 = [x for x in l1 if x.startswith("##")]
    extra = [x for x in l2 if x.startswith("##") and x not in h1 and x.startswith(("##FORMAT", "##INFO", "##FILTER"))]
    clen = next((x for x in h1 if x.startswith("##contig=<ID=chr1")), "##contig=<ID=chr1,length=100000>")
    with open(dst, "w") as fo:
        fo.write("\n".join(h1 + extra + [clen.replace("ID=chr1", "ID=chr2")]) + "\n")
        fo.write(next(x for x in l1 if x.startswith("#CHROM")) + "\n")
        for x in l1:
            if x and not x.startswith("#"):
                fo.write(x + "\n")
        for x in l2:
            if x and not x.startswith("#"):
                f = x.split("\t")
                f[0] = "chr2"
                f[1] = str(int(f[1]) + shift)
                if shift:      # PS / HP values name positions: keep them consistent with the shifted coordinates
                    keys = f[8].split(":")
                    for k in range(9, len(f)):
                        vals = f[k].split(":")
                        for kk, key in enumerate(keys):
                            if kk < len(vals) and vals[kk] not in (".", ""):
                                if key == "PS" and vals[kk].isdigit():
                                    vals[kk] = str(int(vals[kk]) + shift)
                                elif key == "HP":
                                    vals[kk] = ",".join(f"{int(e.split('-')[0]) + shift}-{e.split('-')[1]}" if "-" in e else e for e in vals[kk].split(","))
                        f[k] = ":".join(vals)
                fo.write("\t".join(f) + "\n")


def decode_two_contigs(path, samples, primary, only_snvs=False, shift=0):
    from whatshap.vcf import VcfReader
    nrec = primary["n"]
    try:
        out = {"chr1": [[[] for _ in range(nrec)] for _ in samples], "chr2": [[[] for _ in range(nrec)] for _ in samples]}
        with VcfReader(path, phases=True, only_snvs=only_snvs) as r:
            for table in r:
                ph = out[table.chromosome]
                sh = shift if table.chromosome == "chr2" else 0
                for s, name in enumerate(samples):
                    for v, p in zip(table.variants, table.phases_of(name)):
                        if p is not None and v.position - sh in primary:
                            ph[s][primary[v.position - sh]] = {"block": -1 if p.block_id is None else int(p.block_id) - sh,
                                                               "al": [-1 if a is None else int(a) for a in p.phase]}
        return {"exc": "", "ph1": out["chr1"], "ph2": out["chr2"]}
    except Exception as e:
        return {"exc": type(e).__name__, "ph1": [], "ph2": []}


CONTIG_NAMES = ["chr2", "chr5", "chr10", "chr1", "chrX", "10", "2", "MT", "scaffold_7", "chr1_alt"]


def _shifted(f, shift):
    """fields of a record line moved by shift (POS and the PS / HP values, which name positions)"""
    f = list(f)
    f[1] = str(int(f[1]) + shift)
    if shift:
        keys = f[8].split(":")
        for k in range(9, len(f)):
            vals = f[k].split(":")
            for kk, key in enumerate(keys):
                if kk < len(vals) and vals[kk] not in (".", ""):
                    if key == "PS" and vals[kk].isdigit():
                        vals[kk] = str(int(vals[kk]) + shift)
                    elif key == "HP":
                        vals[kk] = ",".join(f"{int(e.split('-')[0]) + shift}-{e.split('-')[1]}" if "-" in e else e
                                            for e in vals[kk].split(","))
            f[k] = ":".join(vals)
    return f


def _write_contig_layout(src, dst, layout):
    """the records of the single-contig file src once per entry (contig name, shift) of layout, in that order; the header
    defines exactly these contigs in that order"""
    with open(src) as fh:
        lines = fh.read().splitlines()
    meta = [x for x in lines if x.startswith("##") and not x.startswith("##contig")]
    clen = next((x for x in lines if x.startswith("##contig=<ID=chr1,")), "##contig=<ID=chr1,length=100000>")
    recs = [x.split("\t") for x in lines if x and not x.startswith("#")]
    with open(dst, "w") as fo:
        fo.write("\n".join(meta + [clen.replace("ID=chr1,", f"ID={name},") for name, _ in layout]) + "\n")
        fo.write(next(x for x in lines if x.startswith("#CHROM")) + "\n")
        for name, shift in layout:
            for f in recs:
                g = _shifted(f, shift)
                g[0] = name
                fo.write("\t".join(g) + "\n")


def draw_layouts(seed, nfiles):
    """contigs of the variant file (three names in an arbitrary order, each with its own coordinate shift) and, per phase-input
    file, its contig layout: a non-empty subset of these contigs, in the same or in another order, possibly with a contig
    the variant file does not have somewhere in between"""
    import random
    rng = random.Random(seed)
    names = rng.sample(CONTIG_NAMES, 4)
    V = [(n, 5 * k) for k, n in enumerate(names[:3])]
    files = []
    for _ in range(nfiles):
        lay = [c for c in V if rng.random() < 0.75] or [rng.choice(V)]
        if rng.random() < 0.6:
            rng.shuffle(lay)
        if rng.random() < 0.3:
            lay.insert(rng.randrange(len(lay) + 1), (names[3], 11))
        files.append(lay)
    return V, files


def _layout_class(V, files):
    order = [n for n, _ in V]
    kinds = set()
    for lay in files:
        mine = [n for n, _ in lay if n in order]
        if mine != [n for n in order if n in mine]:
            kinds.add("contigs in another order than in the variant file")
        elif any(n not in mine and any(order.index(m) > order.index(n) for m in mine) for n in order):
            kinds.add("no records for a contig that lies before a covered one")
        else:
            kinds.add("same order")
    return "; ".join(sorted(kinds))


def drive(sc):
    H.quiet()
    tmp = H.mktemp("c09-")
    try:
        return _drive(sc, tmp)
    finally:
        shutil.rmtree(tmp, ignore_errors=True)


def _drive(sc, tmp):
    w = sc["world"]
    samples, roles = w["samples"], w["roles"]
    nrec = len(w["recs"])
    primary = {"n": nrec}
    for i, (rec, role) in enumerate(zip(w["recs"], roles)):
        if role["var"] >= 0:
            primary[rec["pos"] - 1] = i
    fasta, bam, f0, gpaths = materialise(w, tmp)
    if sc.get("kind") == "twin":
        # the SAME run with --distrust-genotypes --include-homozygous under both tags: what the two outputs say about every
        # call (genotype and decoded phase) must be identical - also where the run changed a genotype
        outs = {}
        for tag in ("PS", "HP"):
            dst = os.path.join(tmp, f"twin{tag}.vcf")
            exc = H.run_phase_file(f0, dst, tag, list(samples), [bam], reference=fasta, distrust_genotypes=True, include_homozygous=True)
            if exc:
                return [{"ev": "Twin", "exc": exc, "a": [], "b": [], "ga": [], "gb": []}]
            proj = H.project_vcf(dst)[0]
            outs[tag] = (decode_real(dst, samples, primary)["ph"],
                         [[sorted(c["gt"]) for c in r["calls"]] for r in proj["recs"]])
        return [{"ev": "Twin", "exc": "", "a": outs["PS"][0], "b": outs["HP"][0], "ga": outs["PS"][1], "gb": outs["HP"][1]}]
    osw = bool(sc.get("only_snvs_world"))      # the reader that decodes the written files runs in the mode the world is made for
    paths = {0: f0}
    proj0, _, names = H.project_vcf(f0)
    assert names == samples and len(proj0["recs"]) == nrec
    evs = [{"ev": "Load", "id": 0, "file": proj0, "dec": decode_real(f0, samples, primary, osw)}]
    gproj = {enc: H.project_vcf(p)[0] for enc, p in gpaths.items() if ":" not in enc}
    cur, nxt = 0, 1

    def new():
        nonlocal nxt
        d = nxt
        nxt += 1
        paths[d] = os.path.join(tmp, f"f{d}.vcf")
        return d

    def phase(src, tag, T, inp, snvs):
        dst = new()
        P = {}

        def hook(chrom, superreads, components):
            for name, sr in superreads.items():
                comps = components[name]
                d = {}
                rows = list(sr)
                for v0, v1 in zip(*rows):
                    a = (int(v0.allele), int(v1.allele))
                    if v0.position in comps and a in ((0, 1), (1, 0)):
                        d[v0.position] = {"block": int(comps[v0.position]) + 1, "al": list(a)}
                P[name] = d
        tnames = [samples[t - 1] for t in T]
        if inp == "bam":
            exc = H.run_phase_file(paths[src], paths[dst], tag, tnames, [bam], reference=fasta, writer_hook=hook, only_snvs=snvs)
        else:
            ginputs = [gpaths[inp[4:]]]
            if len(samples) > 1 and (src + len(T)) % 2 == 0:
                # per-sample phase-input files covering the same chromosome, in either command-line order
                ginputs = [gpaths[f"{inp[4:]}:{k}"] for k in range(len(samples))]
                if src % 2:
                    ginputs.reverse()
            exc = H.run_phase_file(paths[src], paths[dst], tag, tnames, ginputs, reference=False, writer_hook=hook,
                                   only_snvs=snvs)
        # records this run does not support (by construction of the world, not by asking whatshap)
        skip = [bool(r["skip"]) or (snvs and r["indel"]) for r in roles]
        e = {"ev": "Phase", "src": src, "dst": dst, "tag": tag, "targets": list(T), "inp": inp[:3],
             "key": inp + ("+only-snvs" if snvs else ""), "snvs": bool(snvs), "skip": skip, "exc": exc,
             "P": [], "out": {"hdr": [], "recs": []}, "dec": {"exc": "", "ph": []}, "g": {"hdr": [], "recs": []}}
        if not exc:
            rows = []
            for k, n in enumerate(samples):
                row = [[] for _ in range(nrec)]
                if (k + 1) in T:
                    for p0, st in P.get(n, {}).items():
                        if p0 in primary:
                            row[primary[p0]] = st
                rows.append(row)
            e["P"] = rows
            e["out"] = H.project_vcf(paths[dst])[0]
            e["dec"] = decode_real(paths[dst], samples, primary, osw)
            if inp != "bam":
                e["g"] = gproj[inp[4:]]
        evs.append(e)
        return None if exc else dst

    def layout_run(src, d, op):
        """the phase step op on a THREE-CONTIG variant file (every contig a shifted copy of file src) with phase-input files whose
        contig layouts are drawn independently of the variant file's: which phase sets must come back on a contig for a sample
        depends only on whether the file that phases the sample has records for that contig"""
        enc = op["inp"][4:]
        per_sample = len(samples) > 1 and op["lay"] % 2 == 1
        V, lays = draw_layouts(op["lay"], len(samples) if per_sample else 1)
        vin, vout = os.path.join(tmp, f"lay_in{d}.vcf"), os.path.join(tmp, f"lay_out{d}.vcf")
        _write_contig_layout(paths[src], vin, V)
        ginputs = []
        for k, lay in enumerate(lays):
            gp = os.path.join(tmp, f"lay_g{d}_{k}.vcf")
            _write_contig_layout(gpaths[f"{enc}:{k}"] if per_sample else gpaths[enc], gp, lay)
            ginputs.append(gp)
        snvs = bool(op.get("snvs"))
        exc = H.run_phase_file(vin, vout, op["tag"], [samples[t - 1] for t in op["T"]], ginputs, reference=False, only_snvs=snvs)
        e = {"ev": "PhaseLayout", "src": src, "tag": op["tag"], "targets": list(op["T"]), "exc": exc, "snvs": snvs,
             "skip": [bool(r["skip"]) or (snvs and r["indel"]) for r in roles], "g": gproj[enc], "contigs": [],
             "layout": _layout_class(V, lays), "nfiles": len(lays)}
        if not exc:
            by = {}
            for r in H.project_vcf(vout)[0]["recs"]:
                by.setdefault(r["fixed"].split("\t")[0], []).append({"calls": r["calls"]})
            for name, _ in V:
                cov = [any(n == name for n, _ in lays[k if per_sample else 0]) for k in range(len(samples))]
                e["contigs"].append({"cov": cov, "out": {"recs": by.get(name, [])}})
        return e

    for op in sc["hist"]:
        if op["op"] == "U":
            dst = new()
            exc = H.run_unphase_file(paths[cur], paths[dst])
            e = {"ev": "Unphase", "src": cur, "dst": dst, "exc": exc, "out": {"hdr": [], "recs": []}, "dec": {"exc": "", "ph": []}}
            if not exc:
                e["out"] = H.project_vcf(paths[dst])[0]
                e["dec"] = decode_real(paths[dst], samples, primary, osw)
            evs.append(e)
            cur = None if exc else dst
        else:
            other = "HP" if op["tag"] == "PS" else "PS"
            d1 = phase(cur, op["tag"], op["T"], op["inp"], bool(op.get("snvs")))
            ea = evs[-1]
            d2 = phase(cur, other, op["T"], op["inp"], bool(op.get("snvs")))  # the twin run with the other tag on the same input
            eb = evs[-1]
            if d1 is not None and op["inp"] != "bam" and ea["dec"]["exc"] == "" and len(samples) * 0 == 0:
                # the same run on a TWO-CONTIG file: contig 2 is a copy of contig 1 shifted so that its first phased variant has the
                # coordinate of contig 1's last one (nothing may carry over from one contig to the next)
                phased_pos = sorted({w["recs"][i]["pos"] for row in ea["dec"]["ph"] for i, st in enumerate(row) if st})
                if len(phased_pos) >= 2:
                    shift = phased_pos[-1] - phased_pos[0]
                    in2, g2, out2 = (os.path.join(tmp, f"{x}{d1}.vcf") for x in ("two_in", "two_g", "two_out"))
                    _concat_as_contigs(paths[cur], paths[cur], in2, shift)
                    gsrc = gpaths[op["inp"][4:]]
                    _concat_as_contigs(gsrc, gsrc, g2, shift)
                    exc2 = H.run_phase_file(in2, out2, op["tag"], [samples[t - 1] for t in op["T"]], [g2], reference=False,
                                            only_snvs=bool(op.get("snvs")))
                    ab = decode_two_contigs(out2, samples, primary, osw, shift) if not exc2 else {"exc": exc2, "ph1": [], "ph2": []}

                    def canon(ph):
                        """orientation of a phase set is arbitrary per run and contig: list every set with allele 0 first at its first site"""
                        out_ = []
                        for row in ph:
                            first = {}
                            for st in row:
                                if st and st["block"] not in first:
                                    first[st["block"]] = st["al"][0] > st["al"][1]
                            out_.append([dict(st, al=st["al"][::-1]) if st and first[st["block"]] else st for st in row])
                        return out_
                    a_c = {"exc": "", "ph": canon(ea["dec"]["ph"])}
                    evs.append({"ev": "Concat", "a": a_c, "b": a_c,
                                "ab": dict(ab, ph1=canon(ab["ph1"]), ph2=canon(ab["ph2"])) if not ab["exc"] else ab})
            if d1 is not None and op["inp"] != "bam" and "lay" in op:
                evs.append(layout_run(cur, d1, op))
            if d1 is not None and d2 is not None:
                cat = os.path.join(tmp, f"cat{d1}.vcf")
                _concat_as_contigs(paths[d1], paths[d2], cat)
                evs.append({"ev": "Concat", "a": ea["dec"], "b": eb["dec"], "ab": decode_two_contigs(cat, samples, primary, osw)})
            cur = d1
        if cur is None:
            break
    return evs


# ==============================================================================================
def _files_of(events):
    files = {}
    for e in events:
        if e.get("ev") == "Load":
            files[e["id"]] = e["file"]
        elif e.get("ev") in ("Unphase", "Phase") and not e["exc"]:
            files[e["dst"]] = e["out"]
    return files


def _stmt_count(P):
    return max((sum(1 for st in row if st) for row in P), default=0)


def nontrivial(sc, events):
    if sc.get("kind") == "twin":
        return any(e.get("ev") == "Twin" and not e["exc"] and any(st for row in e["a"] for st in row) for e in events)
    files = _files_of(events)
    for e in events:
        if e.get("ev") != "Phase" or e["exc"]:
            continue
        src = files.get(e["src"])
        if not src:
            continue
        for s in e["targets"]:
            blocks = {}
            for st in e["P"][s - 1]:
                if st:
                    blocks[st["block"]] = blocks.get(st["block"], 0) + 1
            if not any(v >= 2 for v in blocks.values()):
                continue
            calls = [r["calls"][s - 1] for r in src["recs"]]
            if any(k and (_dec("PS", c) or _dec("HP", c)) for k, c in zip(e.get("skip", []), calls)):
                return True    # an old statement sat at a record this run skips
            if any(c["ph"] or c["hp"] or (len(c["gt"]) == 2 and c["gt"][0] > c["gt"][1] >= 0) for c in calls):
                return True
            if e["inp"] == "vcf" and len(blocks) >= 2:
                return True
    return False


def _dec(tag, c):
    """VcfModel!DecPS / DecHP in Python - used only to word signatures, never to judge."""
    g = c["gt"]
    if tag == "PS":
        if c["hasgt"] and c["ph"] and g and any(a != g[0] for a in g):
            return {"block": c["ps"], "al": list(g)}
        return []
    if not c["hp"]:
        return []
    hp = c["hp"]
    if len(hp) != len(g) or any(x[0] != hp[0][0] for x in hp) or sorted(x[1] for x in hp) != list(range(1, len(hp) + 1)):
        return {"block": -2, "al": []}
    return {"block": hp[0][0], "al": [g[[x[1] for x in hp].index(h)] for h in range(1, len(hp) + 1)]}


def _cause(e, src, s, i):
    """why the HP statement of target sample s at record i cannot decode to P: the shape of the source call"""
    c = src["recs"][i]["calls"][s - 1]
    if e["tag"] == "HP" and c["ph"] and len(c["gt"]) == 2 and c["gt"][0] > c["gt"][1]:
        return "HP entries written next to a phased GT 1|0 that is left in place"
    if e["tag"] == "HP" and not c["ph"] and len(c["gt"]) == 2 and c["gt"][0] > c["gt"][1] >= 0:
        return "HP entries written next to an unsorted unphased GT 1/0"
    return f"tag {e['tag']}, source call {'|' if c['ph'] else '/'}.join({c['gt']})"


def _layout_lost(e, files):
    """a set of g with >= 2 usable members on a covered contig that the output lacks (wording of signatures only; TLC judged)"""
    src = files.get(e["src"])
    for s in e["targets"]:
        sets = {}
        for i, gr in enumerate(e["g"]["recs"]):
            st = _dec("PS", gr["calls"][s - 1]) or _dec("HP", gr["calls"][s - 1])
            gt = src["recs"][i]["calls"][s - 1]["gt"] if src and i < len(src["recs"]) else []
            if st and not e["skip"][i] and sorted(gt) == [0, 1]:
                sets.setdefault(st["block"], []).append(i)
        for c in e["contigs"]:
            if c["cov"][s - 1] and any(len(B) >= 2 and not _dec(e["tag"], c["out"]["recs"][i]["calls"][s - 1])
                                       for B in sets.values() for i in B if i < len(c["out"]["recs"])):
                return True
    return False


def signature(sc, events, clause):
    files = _files_of(events)
    if clause == "Returns":
        for e in events:
            if e.get("exc"):
                return f"{e['ev'].lower()} {e.get('tag', '')} raised {e['exc']}"
        return "crash: " + str(events[-1].get("where", ""))
    if clause == "VcfReproducesAnyContigLayout":
        lay = [e for e in events if e.get("ev") == "PhaseLayout" and not e["exc"]]
        for e in sorted(lay, key=lambda e: not _layout_lost(e, files)):
            return f"phase-input VCF ({e['nfiles']} file(s)) with {e['layout']}"
    phases = [e for e in events if e.get("ev") == "Phase" and not e["exc"] and e["src"] in files]
    for e in phases:
        src, out = files[e["src"]], e["out"]
        other = "HP" if e["tag"] == "PS" else "PS"
        n = len(out["recs"])
        if clause == "DecodesCleanly" and e["dec"]["exc"]:
            inherited = any(_dec(other, r["calls"][s]) for r in src["recs"] for s in range(len(r["calls"])) if s + 1 not in e["targets"])
            if inherited:
                continue
            stale = any(_dec(other, r["calls"][s - 1]) for r in out["recs"] for s in e["targets"])
            why = f"target sample still carries {other} statements" if stale else \
                ("empty HP value before a phased sample column" if e["dec"]["exc"] == "AttributeError" else "other")
            return f"read-back of phase --tag {e['tag']} output raises {e['dec']['exc']}: {why}"
        if clause == "NoStalePhase":
            for s in e["targets"]:
                for i in range(n):
                    c, p = out["recs"][i]["calls"][s - 1], e["P"][s - 1][i]
                    skipped = " at a record the run skips (multi-ALT / duplicate position / non-SNV under --only-snvs)" \
                        if e.get("skip") and e["skip"][i] else ""
                    if _dec(other, c) and _dec(other, c) != p:
                        return f"phase --tag {e['tag']} leaves the {other} statement of a target sample in place" + skipped
                    if not p and _dec(e["tag"], c) and skipped:
                        return f"phase --tag {e['tag']} keeps an old {e['tag']} statement of a target sample" + skipped
                    if not p and _dec(e["tag"], c):
                        anyp = any(e["P"][t - 1][i] for t in e["targets"])
                        return (f"phase --tag {e['tag']} keeps an old {e['tag']} statement of a target sample at a record where "
                                + ("another sample is phased" if anyp else "the run phases no sample"))
        if clause in ("RoundTrip", "TagEquivalence", "VcfReproduces"):
            for s in e["targets"]:
                for i in range(n):
                    p = e["P"][s - 1][i]
                    if p and _dec(e["tag"], out["recs"][i]["calls"][s - 1]) != p:
                        pre = "" if clause != "VcfReproduces" else "phase-input VCF: "
                        return pre + _cause(e, src, s, i)
    if clause == "TagEquivalence":   # the statements of P agree; the outputs differ where the run made no statement
        for e in phases:
            for s in e["targets"]:
                for i in range(len(e["out"]["recs"])):
                    c = e["out"]["recs"][i]["calls"][s - 1]
                    if not e["P"][s - 1][i] and (_dec("PS", c) or _dec("HP", c)):
                        return f"the --tag {e['tag']} output keeps an old {'PS' if _dec('PS', c) else 'HP'} statement where the run made none"
    return f"{sc['kind']} pre={sc.get('pre')}"


def selftest_corrupt(events):
    n = 0
    for e in events:
        if e.get("ev") == "Phase" and not e["exc"]:
            for s in e["targets"]:
                row = e["P"][s - 1]
                k = next((i for i, st in enumerate(row) if st), None)
                if k is None:
                    continue
                if n == 0:      # the run claims another allele order than the file carries
                    row[k] = {"block": row[k]["block"], "al": row[k]["al"][::-1]}
                    n += 1
                elif n == 1:    # another set name
                    row[k] = {"block": row[k]["block"] + 1, "al": row[k]["al"]}
                    n += 1
                break
        if n >= 2:
            break
    return events


MANIFEST = {
    "text": "VcfModel.tla defines the two encodings of a phase statement (GT order + PS; HP entries per GT allele), their decoders and "
            "the encoders the conventions prescribe; VcfHistory.tla is the state machine of commands phase(tag, targets, any phasing) / "
            "unphase whose invariants RoundTrip, NoStalePhase, DecodesCleanly, TagEquivalence TLC checks over all histories of a small "
            "file (and which TLC refutes for a transcription of the pinned writer: negative control). TLC emits every command history "
            "(Phase action parameterised by tag, targets and --only-snvs; records a run skips - indels under --only-snvs, multi-ALT, "
            "duplicate positions - are part of the model); the driver replays each on a real tiny world (BAM with error-free "
            "single/paired reads over SNVs and indels, FASTA, variant file with unsorted/missing GTs, foreign PS/HP/PQ phase and phased "
            "multi-ALT / duplicate-position records, phased VCF with interleaved sets as alternative phase input), "
            "running every phase step with both tags through run_whatshap, recording the phasing handed to PhasedVcfWriter.write, the "
            "raw GT/PS/HP text of the output and what VcfReader(phases=True) decodes. TLC judges every step: RoundTrip, TagEquivalence, "
            "NoStalePhase, DecodesCleanly, VcfReproduces; and VcfReproducesAnyContigLayout for the repetition of every phased-VCF step "
            "on a three-contig variant file with phase-input files whose contigs are reordered, partly missing or supplemented.",
    "note": "trusted: TLC, VcfModel.tla decoders as the reading of the conventions, the driver's text projection and the wrapper that "
            "records PhasedVcfWriter.write's arguments; diploid single-individual phasing only (no pedigree), <= 3 samples x 16 sites",
    "technique": "TLA+ state machine of commands model-checked with TLC (incl. negative control); TLC-emitted histories replayed on real files through the real CLI functions; TLC trace validation",
}
