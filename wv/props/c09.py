"""C09 - PS and HP encodings are equivalent, round-trip, and never mix old and new phase."""
import json
import os
import shutil

from .. import tlc
from . import c13 as H   # shared helpers: projection of VCF text, in-process runners, history emission

PROP = "C09"
TRACE_MODULE = "C09_Trace"
EXHAUSTIVE = True
NPROC = 8
SHARDS = 8
TASK_TIMEOUT = 180
RULE = ("a scenario is a tiny world (1-3 samples, 3-8 biallelic SNVs, true haplotypes, error-free single and paired reads in a BAM "
        "with read groups, reference FASTA, a variant file with sorted/unsorted/homozygous/missing GTs and optionally foreign "
        "PS(+PQ)/HP phase, a phased VCF of the same sites with arbitrary - also interleaved - phase sets in PS or HP encoding) "
        "plus a history of real commands, each run on the previous output: phase --tag PS/HP for a target-sample subset with the "
        "BAM or with the phased VCF as only phase input, unphase; every phase step is run a second time with the other tag on the "
        "same input. Histories: all op sequences up to length 3-4 emitted by TLC from VcfHistory, plus seeded random longer ones, "
        "plus single steps with 1-7 interleaved phase sets in the phase-input VCF. Non-trivial = some phase step wrote >= 2 "
        "heterozygous variants into one phase set for a sample that already carried phase information or whose GT was unsorted, "
        "or reproduced a phase-input VCF with >= 2 sets")
ASSUMPTIONS = [
    "TLC; VcfModel.tla's decoders are the conventions (GT order = haplotype order with PS naming the set; k-th HP entry names the "
    "haplotype of the k-th GT allele), which are also what whatshap's own reader implements",
    "P, 'the phase that was written', is observed at the API boundary: the arguments of PhasedVcfWriter.write (super-reads and "
    "components) recorded by a wrapper class in the driver; a statement exists where the site is in a component and the two "
    "super-read alleles are 0/1 and differ; set name = component + 1",
    "DecodesCleanly is not demanded when a non-target sample brought the other encoding along (mixture inherited from the input)",
    "VcfReproduces is demanded for sets with >= 2 heterozygous variants shared by both files and at most 7 overlapping sets (14 pseudo reads)",
]


# ==============================================================================================
def design_mc(ctx):
    out = H.design_mc(ctx)
    # negative control: the transcription of the pinned writer (Faithful = FALSE) must violate the invariants
    cfg = tlc.write_cfg(os.path.join(ctx.workdir, "histneg.cfg"), spec="Spec",
                        consts={"NS": 2, "Faithful": "FALSE", "Depth": 0}, subst={"Inits": "Small"},
                        view="NoHist", invariants=["RoundTrip", "NoStalePhase", "DecodesCleanly", "TagEquivalence"])
    r = tlc.model_check("MC_VcfHistory", cfg=cfg, workers=4, timeout=600)
    ctx.notes["negative_control_code_shaped_writer_rejected_by_tlc"] = (not r["ok"]) and "is violated" in r["out"]
    if r["ok"]:
        raise tlc.TlcError("negative control passed: VcfHistory's invariants are vacuous")
    return out


# ==============================================================================================
# worlds
def make_world(rng, ns, nvar, pre="none", paired=0.0, sets=None):
    """JSON-able tiny world.  Positions are 0-based; VCF POS = pos + 1."""
    from wv import world
    gap = 70
    ref = world.random_reference(rng, gap * nvar + 140)
    vpos = [60 + gap * i for i in range(nvar)]
    alts = [rng.choice([b for b in "ACGT" if b != ref[p]]) for p in vpos]
    samples = [f"s{k}" for k in range(ns)]
    haps, gts, reads = [], [], []
    for s in range(ns):
        h0, h1, gt = [], [], []
        het_idx = set(rng.sample(range(nvar), min(nvar, max(2, int(nvar * 0.75)))))
        for i in range(nvar):
            if i in het_idx:
                a = rng.randint(0, 1)
                h0.append(a)
                h1.append(1 - a)
                gt.append("0/1" if rng.random() < 0.6 else "1/0")
            else:
                a = rng.randint(0, 1)
                h0.append(a)
                h1.append(a)
                gt.append(f"{a}/{a}" if rng.random() < 0.85 else "./.")
        haps.append([h0, h1])
        gts.append(gt)
        # reads: single reads spanning 2-3 neighbouring sites, paired reads joining i and i+2 around i+1
        n = 0
        forced = rng.randrange(nvar - 1)   # an empty BAM is a usage error of `whatshap phase`, not a scenario
        for i in range(nvar - 1):
            r = rng.random()
            if r < 0.28 and i != forced:
                continue
            j = min(nvar - 1, i + (2 if rng.random() < 0.25 else 1))
            for h in (0, 1):
                for _ in range(2):
                    reads.append({"s": s, "h": h, "name": f"r{s}_{n}", "segs": [[vpos[i] - rng.randint(5, 25), vpos[j] + rng.randint(5, 25)]]})
                    n += 1
        for i in range(nvar - 2):
            if rng.random() < paired:
                for h in (0, 1):
                    reads.append({"s": s, "h": h, "name": f"p{s}_{n}", "segs": [[vpos[i] - 20, vpos[i] + 15], [vpos[i + 2] - 15, vpos[i + 2] + 20]]})
                    n += 1
    # variant file
    recs = []
    foreign = vpos[0] + 1
    for i in range(nvar):
        kinds = [pre if pre != "mixed" else ("PS" if s % 2 == 0 else "HP") for s in range(ns)]
        fmt = ["GT", "GQ"] + (["PS", "PQ"] if "PS" in kinds else []) + (["HP"] if "HP" in kinds else [])
        calls = []
        for s in range(ns):
            g = gts[s][i]
            d = {"GT": g, "GQ": str(20 + i), "PS": ".", "PQ": ".", "HP": "."}
            if g in ("0/1", "1/0") and rng.random() < 0.8:
                if kinds[s] == "PS":
                    d.update(GT=rng.choice(["0|1", "1|0"]), PS=str(foreign), PQ=str(40 + i))
                elif kinds[s] == "HP":
                    a, b = rng.choice([(1, 2), (2, 1)])
                    d.update(HP=f"{foreign}-{a},{foreign}-{b}")
            calls.append([d[k] for k in fmt])
        recs.append({"chrom": "chr1", "pos": vpos[i] + 1, "id": ".", "ref": ref[vpos[i]], "alt": alts[i], "qual": 50,
                     "filter": "PASS", "info": ".", "fmt": fmt, "calls": calls})
    # the phased VCF offered as phase input: a partition of each sample's heterozygous sites into sets
    truth = []
    for s in range(ns):
        hets = [i for i in range(nvar) if gts[s][i] in ("0/1", "1/0")]
        k = sets if sets else rng.randint(1, max(1, len(hets) // 2))
        lab = {}
        if sets:   # k interleaved sets: site j of the heterozygous list goes to set j mod k
            for j, i in enumerate(hets):
                lab[i] = j % k
        else:
            for i in hets:
                lab[i] = rng.randrange(k) if rng.random() < 0.5 else (min(k - 1, hets.index(i) * k // max(1, len(hets))))
        flips = [rng.randint(0, 1) for _ in range(k)]
        t = [None] * nvar
        for i in hets:
            if rng.random() < 0.1 and not sets:
                continue   # left unphased in g
            members = [m for m in hets if lab[m] == lab[i]]
            a, b = haps[s][0][i], haps[s][1][i]
            if flips[lab[i]]:
                a, b = b, a
            t[i] = [vpos[members[0]] + 1, [a, b]]
        truth.append(t)
    return {"ref": ref, "vpos": vpos, "alts": alts, "samples": samples, "haps": haps, "reads": reads, "recs": recs, "truth": truth}


def truth_records(w, enc):
    """records of the phase-input VCF g; enc = PS or HP encoding of the same statements"""
    out = []
    for i, rec in enumerate(w["recs"]):
        calls = []
        for s in range(len(w["samples"])):
            t = w["truth"][s][i]
            g = rec["calls"][s][0].replace("|", "/")
            if t is None:
                calls.append([g, "."])
            elif enc == "PS":
                calls.append([f"{t[1][0]}|{t[1][1]}", str(t[0])])
            else:   # GT sorted 0/1; entry k = haplotype (1-based) carrying allele k
                hp = [t[1].index(a) + 1 for a in (0, 1)]
                calls.append(["0/1", f"{t[0]}-{hp[0]},{t[0]}-{hp[1]}"])
        out.append(dict(rec, fmt=["GT", enc], calls=calls))
    return out


def materialise(w, tmp):
    from wv import world
    L = len(w["ref"])
    fasta = world.write_fasta(os.path.join(tmp, "ref.fa"), {"chr1": w["ref"]})
    variants = [world.Variant(p, w["ref"][p], a) for p, a in zip(w["vpos"], w["alts"])]
    hap = {(s, h): world.Haplotype(w["ref"], variants, w["haps"][s][h]) for s in range(len(w["samples"])) for h in (0, 1)}
    brecs = []
    for r in w["reads"]:
        hp = hap[(r["s"], r["h"])]
        segs = []
        for a, b in r["segs"]:
            a, b = max(0, a), min(L, b)
            pos0, cig, seq = hp.read(a, b)
            assert seq == hp.seq[a:b] and pos0 == a
            segs.append((pos0, world.cigar_str(cig), seq))
        if len(segs) == 1:
            brecs.append({"name": r["name"], "flag": 0, "ref": 0, "pos": segs[0][0], "cigar": segs[0][1], "seq": segs[0][2],
                          "rg": f"rg{r['s']}"})
        else:
            (p1, c1, q1), (p2, c2, q2) = segs
            tl = p2 + len(q2) - p1
            brecs.append({"name": r["name"], "flag": 99, "ref": 0, "pos": p1, "cigar": c1, "seq": q1, "rg": f"rg{r['s']}",
                          "mate": {"ref": 0, "pos": p2}, "tlen": tl})
            brecs.append({"name": r["name"], "flag": 147, "ref": 0, "pos": p2, "cigar": c2, "seq": q2, "rg": f"rg{r['s']}",
                          "mate": {"ref": 0, "pos": p1}, "tlen": -tl})
    bam = world.write_bam(os.path.join(tmp, "reads.bam"), [("chr1", L)], brecs,
                          read_groups=[{"ID": f"rg{s}", "SM": n} for s, n in enumerate(w["samples"])])
    vcf = world.write_vcf(os.path.join(tmp, "f0.vcf"), w["samples"], [("chr1", L)], w["recs"], fmt_keys=("GT", "GQ", "PS", "PQ", "HP"),
                          info_keys=(), filters=())
    g = {}
    for enc in ("PS", "HP"):
        g[enc] = world.write_vcf(os.path.join(tmp, f"g{enc}.vcf"), w["samples"], [("chr1", L)], truth_records(w, enc),
                                 fmt_keys=("GT", "PS", "HP"), info_keys=(), filters=())
    return fasta, bam, vcf, g


# ==============================================================================================
# scenarios
def _with_inputs(rng, hist, vcf_prob=0.35):
    out = []
    for o in hist:
        o = dict(o)
        if o["op"] == "P":
            r = rng.random()
            o["inp"] = "bam" if r > vcf_prob else ("vcf:PS" if r > vcf_prob / 2 else "vcf:HP")
        out.append(o)
    return out


def scenarios(ctx):
    q, rng = ctx.quick, ctx.rng
    scs = []
    # ---- all command histories up to length 3 / 4 (TLC, VcfHistory) on seeded worlds ----
    hs = [h for h in H.emit_histories(ctx, 2, 3 if q else 4, inits="Small") if any(o["op"] == "P" for o in h)]
    ctx.notes["tlc_emitted_histories_with_phase"] = len(hs)
    for i, h in enumerate(hs):
        pre = ["none", "PS", "HP", "mixed"][i % 4]
        w = make_world(rng, 2, rng.randint(3, 5), pre=pre, paired=0.3 if i % 3 == 0 else 0.0)
        scs.append({"kind": "hist", "pre": pre, "world": w, "hist": _with_inputs(rng, h)})
    # ---- phased VCF as the only phase input: 1..7 interleaved sets, both encodings of g, both tags ----
    n = 0
    for k in range(1, 8):
        for rep in range(2 if q else 20):
            w = make_world(rng, 1, 2 * k + rng.randint(0, 2), pre=["none", "PS", "HP"][rep % 3], sets=k)
            for enc in ("PS", "HP"):
                scs.append({"kind": f"interleaved{k}", "pre": w and ["none", "PS", "HP"][rep % 3], "world": w,
                            "hist": [{"op": "P", "tag": "PS" if rep % 2 else "HP", "T": [1], "inp": "vcf:" + enc}]})
                n += 1
    ctx.notes["interleaved_set_scenarios"] = n
    # ---- seeded random: more samples, more sites, longer histories ----
    nr = 150 if q else 8000
    for i in range(nr):
        ns = rng.choice([1, 2, 2, 3])
        w = make_world(rng, ns, rng.randint(3, 8), pre=rng.choice(["none", "PS", "HP", "mixed"]), paired=rng.choice([0, 0, 0.4]))
        hist = []
        for _ in range(rng.randint(1, 5)):
            if rng.random() < 0.2:
                hist.append({"op": "U", "tag": "", "T": []})
            else:
                T = sorted(rng.sample(range(1, ns + 1), rng.randint(1, ns)))
                hist.append({"op": "P", "tag": rng.choice(["PS", "HP"]), "T": T})
        scs.append({"kind": "random", "pre": "", "world": w, "hist": _with_inputs(rng, hist)})
    ctx.notes["random_histories"] = nr
    return scs


# ==============================================================================================
# driving the real commands
def decode_real(path, samples, positions):
    """What whatshap's own reader decodes: per sample, per record a statement or []."""
    from whatshap.vcf import VcfReader
    try:
        ph = [[[] for _ in positions] for _ in samples]
        idx = {p: i for i, p in enumerate(positions)}
        with VcfReader(path, phases=True) as r:
            for table in r:
                for s, name in enumerate(samples):
                    for v, p in zip(table.variants, table.phases_of(name)):
                        if p is not None and v.position in idx:
                            ph[s][idx[v.position]] = {"block": -1 if p.block_id is None else int(p.block_id),
                                                      "al": [-1 if a is None else int(a) for a in p.phase]}
        return {"exc": "", "ph": ph}
    except Exception as e:
        return {"exc": type(e).__name__, "ph": []}


def drive(sc):
    H.quiet()
    tmp = H.mktemp("c09-")
    try:
        return _drive(sc, tmp)
    finally:
        shutil.rmtree(tmp, ignore_errors=True)


def _drive(sc, tmp):
    w = sc["world"]
    samples, positions = w["samples"], w["vpos"]
    fasta, bam, f0, gpaths = materialise(w, tmp)
    paths = {0: f0}
    proj0, _, names = H.project_vcf(f0)
    assert names == samples
    evs = [{"ev": "Load", "id": 0, "file": proj0, "dec": decode_real(f0, samples, positions)}]
    gproj = {enc: H.project_vcf(p)[0] for enc, p in gpaths.items()}
    cur, nxt = 0, 1

    def new():
        nonlocal nxt
        d = nxt
        nxt += 1
        paths[d] = os.path.join(tmp, f"f{d}.vcf")
        return d

    def phase(src, tag, T, inp):
        dst = new()
        P = {}

        def hook(chrom, superreads, components):
            for name, sr in superreads.items():
                comps = components[name]
                d = {}
                rows = list(sr)
                for v0, v1 in zip(*rows):
                    a = (int(v0.allele), int(v1.allele))
                    if v0.position in comps and a in ((0, 1), (1, 0)):
                        d[v0.position] = {"block": int(comps[v0.position]) + 1, "al": list(a)}
                P[name] = d
        tnames = [samples[t - 1] for t in T]
        if inp == "bam":
            exc = H.run_phase_file(paths[src], paths[dst], tag, tnames, [bam], reference=fasta, writer_hook=hook)
        else:
            exc = H.run_phase_file(paths[src], paths[dst], tag, tnames, [gpaths[inp[4:]]], reference=False, writer_hook=hook)
        e = {"ev": "Phase", "src": src, "dst": dst, "tag": tag, "targets": list(T), "inp": inp[:3], "key": inp, "exc": exc,
             "P": [], "out": {"hdr": [], "recs": []}, "dec": {"exc": "", "ph": []}, "g": {"hdr": [], "recs": []}}
        if not exc:
            e["P"] = [[P.get(n, {}).get(p, []) for p in positions] if (k + 1) in T else [[] for _ in positions]
                      for k, n in enumerate(samples)]
            e["out"] = H.project_vcf(paths[dst])[0]
            e["dec"] = decode_real(paths[dst], samples, positions)
            if inp != "bam":
                e["g"] = gproj[inp[4:]]
        evs.append(e)
        return None if exc else dst

    for op in sc["hist"]:
        if op["op"] == "U":
            dst = new()
            exc = H.run_unphase_file(paths[cur], paths[dst])
            e = {"ev": "Unphase", "src": cur, "dst": dst, "exc": exc, "out": {"hdr": [], "recs": []}, "dec": {"exc": "", "ph": []}}
            if not exc:
                e["out"] = H.project_vcf(paths[dst])[0]
                e["dec"] = decode_real(paths[dst], samples, positions)
            evs.append(e)
            cur = None if exc else dst
        else:
            other = "HP" if op["tag"] == "PS" else "PS"
            d1 = phase(cur, op["tag"], op["T"], op["inp"])
            phase(cur, other, op["T"], op["inp"])       # the twin run with the other tag on the same input
            cur = d1
        if cur is None:
            break
    return evs


# ==============================================================================================
def _files_of(events):
    files = {}
    for e in events:
        if e.get("ev") == "Load":
            files[e["id"]] = e["file"]
        elif e.get("ev") in ("Unphase", "Phase") and not e["exc"]:
            files[e["dst"]] = e["out"]
    return files


def _stmt_count(P):
    return max((sum(1 for st in row if st) for row in P), default=0)


def nontrivial(sc, events):
    files = _files_of(events)
    for e in events:
        if e.get("ev") != "Phase" or e["exc"]:
            continue
        src = files.get(e["src"])
        if not src:
            continue
        for s in e["targets"]:
            blocks = {}
            for st in e["P"][s - 1]:
                if st:
                    blocks[st["block"]] = blocks.get(st["block"], 0) + 1
            if not any(v >= 2 for v in blocks.values()):
                continue
            calls = [r["calls"][s - 1] for r in src["recs"]]
            if any(c["ph"] or c["hp"] or (len(c["gt"]) == 2 and c["gt"][0] > c["gt"][1] >= 0) for c in calls):
                return True
            if e["inp"] == "vcf" and len(blocks) >= 2:
                return True
    return False


def _dec(tag, c):
    """VcfModel!DecPS / DecHP in Python - used only to word signatures, never to judge."""
    g = c["gt"]
    if tag == "PS":
        if c["hasgt"] and c["ph"] and g and any(a != g[0] for a in g):
            return {"block": c["ps"], "al": list(g)}
        return []
    if not c["hp"]:
        return []
    hp = c["hp"]
    if len(hp) != len(g) or any(x[0] != hp[0][0] for x in hp) or sorted(x[1] for x in hp) != list(range(1, len(hp) + 1)):
        return {"block": -2, "al": []}
    return {"block": hp[0][0], "al": [g[[x[1] for x in hp].index(h)] for h in range(1, len(hp) + 1)]}


def _cause(e, src, s, i):
    """why the HP statement of target sample s at record i cannot decode to P: the shape of the source call"""
    c = src["recs"][i]["calls"][s - 1]
    if e["tag"] == "HP" and c["ph"] and len(c["gt"]) == 2 and c["gt"][0] > c["gt"][1]:
        return "HP entries written next to a phased GT 1|0 that is left in place"
    if e["tag"] == "HP" and not c["ph"] and len(c["gt"]) == 2 and c["gt"][0] > c["gt"][1] >= 0:
        return "HP entries written next to an unsorted unphased GT 1/0"
    return f"tag {e['tag']}, source call {'|' if c['ph'] else '/'}.join({c['gt']})"


def signature(sc, events, clause):
    files = _files_of(events)
    if clause == "Returns":
        for e in events:
            if e.get("exc"):
                return f"{e['ev'].lower()} {e.get('tag', '')} raised {e['exc']}"
        return "crash: " + str(events[-1].get("where", ""))
    phases = [e for e in events if e.get("ev") == "Phase" and not e["exc"] and e["src"] in files]
    for e in phases:
        src, out = files[e["src"]], e["out"]
        other = "HP" if e["tag"] == "PS" else "PS"
        n = len(out["recs"])
        if clause == "DecodesCleanly" and e["dec"]["exc"]:
            inherited = any(_dec(other, r["calls"][s]) for r in src["recs"] for s in range(len(r["calls"])) if s + 1 not in e["targets"])
            if inherited:
                continue
            stale = any(_dec(other, r["calls"][s - 1]) for r in out["recs"] for s in e["targets"])
            why = f"target sample still carries {other} statements" if stale else \
                ("empty HP value before a phased sample column" if e["dec"]["exc"] == "AttributeError" else "other")
            return f"read-back of phase --tag {e['tag']} output raises {e['dec']['exc']}: {why}"
        if clause == "NoStalePhase":
            for s in e["targets"]:
                for i in range(n):
                    c, p = out["recs"][i]["calls"][s - 1], e["P"][s - 1][i]
                    if _dec(other, c) and _dec(other, c) != p:
                        return f"phase --tag {e['tag']} leaves the {other} statement of a target sample in place"
                    if not p and _dec(e["tag"], c):
                        anyp = any(e["P"][t - 1][i] for t in e["targets"])
                        return (f"phase --tag {e['tag']} keeps an old {e['tag']} statement of a target sample at a record where "
                                + ("another sample is phased" if anyp else "the run phases no sample"))
        if clause in ("RoundTrip", "TagEquivalence", "VcfReproduces"):
            for s in e["targets"]:
                for i in range(n):
                    p = e["P"][s - 1][i]
                    if p and _dec(e["tag"], out["recs"][i]["calls"][s - 1]) != p:
                        pre = "" if clause != "VcfReproduces" else "phase-input VCF: "
                        return pre + _cause(e, src, s, i)
    if clause == "TagEquivalence":   # the statements of P agree; the outputs differ where the run made no statement
        for e in phases:
            for s in e["targets"]:
                for i in range(len(e["out"]["recs"])):
                    c = e["out"]["recs"][i]["calls"][s - 1]
                    if not e["P"][s - 1][i] and (_dec("PS", c) or _dec("HP", c)):
                        return f"the --tag {e['tag']} output keeps an old {'PS' if _dec('PS', c) else 'HP'} statement where the run made none"
    return f"{sc['kind']} pre={sc.get('pre')}"


def selftest_corrupt(events):
    n = 0
    for e in events:
        if e.get("ev") == "Phase" and not e["exc"]:
            for s in e["targets"]:
                row = e["P"][s - 1]
                k = next((i for i, st in enumerate(row) if st), None)
                if k is None:
                    continue
                if n == 0:      # the run claims another allele order than the file carries
                    row[k] = {"block": row[k]["block"], "al": row[k]["al"][::-1]}
                    n += 1
                elif n == 1:    # another set name
                    row[k] = {"block": row[k]["block"] + 1, "al": row[k]["al"]}
                    n += 1
                break
        if n >= 2:
            break
    return events


MANIFEST = {
    "text": "VcfModel.tla defines the two encodings of a phase statement (GT order + PS; HP entries per GT allele), their decoders and "
            "the encoders the conventions prescribe; VcfHistory.tla is the state machine of commands phase(tag, targets, any phasing) / "
            "unphase whose invariants RoundTrip, NoStalePhase, DecodesCleanly, TagEquivalence TLC checks over all histories of a small "
            "file (and which TLC refutes for a transcription of the pinned writer: negative control). TLC emits every command history "
            "up to length 3-4; the driver replays each on a real tiny world (BAM with error-free single/paired reads, FASTA, variant "
            "file with unsorted/missing GTs and foreign PS/HP/PQ phase, phased VCF with interleaved sets as alternative phase input), "
            "running every phase step with both tags through run_whatshap, recording the phasing handed to PhasedVcfWriter.write, the "
            "raw GT/PS/HP text of the output and what VcfReader(phases=True) decodes. TLC judges every step: RoundTrip, TagEquivalence, "
            "NoStalePhase, DecodesCleanly, VcfReproduces.",
    "note": "trusted: TLC, VcfModel.tla decoders as the reading of the conventions, the driver's text projection and the wrapper that "
            "records PhasedVcfWriter.write's arguments; diploid single-individual phasing only (no pedigree), <= 3 samples x 16 sites",
    "technique": "TLA+ state machine of commands model-checked with TLC (incl. negative control); TLC-emitted histories replayed on real files through the real CLI functions; TLC trace validation",
}
