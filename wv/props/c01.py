"""C01 - the exact solver returns a minimum-cost (Ped)MEC solution with a matching witness."""
import json
import os

from .. import tlc

PROP = "C01"
TRACE_MODULE = "C01_Trace"
EXHAUSTIVE = True
TASK_TIMEOUT = 60
RULE = ("a scenario is one (Ped)MEC instance: TLC-enumerated tiny instances (Gen_C01: every read matrix shape/allele/weight "
        "combination within the bounds) plus seeded random instances (1-12 columns, gaps, nested reads, uncovered columns, weights "
        "1-30, single/unrelated/trio/quartet, trusted and distrust mode, recombination costs 0-10) plus instances recorded by the "
        "H1 hook from full `whatshap phase` runs; non-trivial = optimal cost > 0 and at least 2 reads sharing a column")
ASSUMPTIONS = [
    "TLC evaluates PedMEC.tla's brute-force minimum (all bipartitions x Viterbi over transmission values x all admissible assignments)",
    "the haplotype/transmission labelling in PedMEC.tla is the implementation's own (pinned; needed to cost the returned witness)",
    "instances are inside the documented domain: reads sorted, >= 2 cells per read, Mendelian-consistent trusted genotypes",
]


def design_mc(ctx):
    q = ctx.quick
    if not os.path.exists("/verif/specs/MC_PedMECDP.tla"):
        return []
    cfg = tlc.write_cfg(os.path.join(ctx.workdir, "dp.cfg"), spec="Spec",
                        consts={"Sample": 150 if q else 5},
                        invariants=["ProjIsPrefixOpt", "FinalIsOpt", "WitnessOK"])
    r = tlc.model_check("MC_PedMECDP", cfg=cfg, timeout=3000)
    r["what"] = "PedMECDP (column DP with forward projection, as in pedigreedptable.cpp) computes PedMEC!OptCost and a witness"
    out = [r]
    cfg = tlc.write_cfg(os.path.join(ctx.workdir, "ck.cfg"), spec="Spec", consts={"MaxN": 70 if q else 200, "Off": 0},
                        invariants=["NeverReadsMissingColumn", "MemoryBound"])
    r = tlc.model_check("Checkpoint", cfg=cfg)
    r["what"] = "Checkpoint: sqrt-spaced storage / recomputation schedule of compute_table never needs a missing column, for every n"
    out.append(r)
    cfg = tlc.write_cfg(os.path.join(ctx.workdir, "ckneg.cfg"), spec="Spec", consts={"MaxN": 30, "Off": 1},
                        invariants=["NeverReadsMissingColumn"])
    neg = tlc.model_check("Checkpoint", cfg=cfg)
    if neg["ok"] or "NeverReadsMissingColumn is violated" not in neg["out"]:
        raise tlc.TlcError("negative control failed: a shifted deletion rule must break NeverReadsMissingColumn")
    ctx.notes["checkpoint_negative_control"] = "shifted deletion rule violates NeverReadsMissingColumn (as expected)"
    return out


# ----------------------------------------------------------------------------------------------
def rand_instance(rng, kind=None, big=False):
    kind = kind or rng.choice(["single", "single", "single", "unrelated", "trio", "trio", "quartet"])
    if kind == "single":
        nind, trios = 1, []
        m = rng.randint(1, 12 if big else 7)
        nreads = rng.randint(0, 8 if big else 6)
    elif kind == "unrelated":
        nind, trios = 2, []
        m = rng.randint(1, 6)
        nreads = rng.randint(1, 6)
    elif kind == "trio":
        perm = rng.sample([1, 2, 3], 3) if rng.random() < 0.3 else [1, 2, 3]
        nind, trios = 3, [perm]
        m = rng.randint(1, 5)
        nreads = rng.randint(0, 6)
    else:
        nind, trios = 4, [[1, 2, 3], [1, 2, 4]]
        m = rng.randint(1, 4)
        nreads = rng.randint(0, 5)
    reads = []
    if m >= 2:
        for _ in range(nreads):
            first = rng.randint(1, m - 1)
            last = rng.randint(first + 1, min(m, first + rng.choice([1, 2, 3, 5, 11])))
            cols = [first] + [c for c in range(first + 1, last) if rng.random() < 0.7] + [last]
            ind = rng.randint(1, nind)
            wmax = rng.choice([1, 3, 30])
            reads.append({"ind": ind, "cells": [[c, rng.randint(0, 1), rng.randint(1, wmax)] for c in cols]})
    reads.sort(key=lambda r: r["cells"][0][0])
    distrust = rng.random() < 0.4
    # Mendelian-consistent genotypes: founders random haplotypes, children by a random transmission
    gt = [[0] * m for _ in range(nind)]
    children = {t[2]: t for t in trios}
    for c in range(m):
        haps = {}
        mode = rng.random()
        for i in range(1, nind + 1):
            if i not in children:
                if mode < 0.5:
                    haps[i] = rng.choice([(0, 1), (1, 0)])  # heterozygous, the pipeline's usual case
                else:
                    haps[i] = (rng.randint(0, 1), rng.randint(0, 1))
        for i, t in children.items():
            haps[i] = (haps[t[0]][rng.randint(0, 1)], haps[t[1]][rng.randint(0, 1)])
        for i in range(1, nind + 1):
            gt[i - 1][c] = haps[i][0] + haps[i][1]
    glmax = rng.choice([3, 10, 40])
    gl = [[[rng.randint(0, glmax) for _ in range(3)] for _ in range(m)] for _ in range(nind)]
    rc = [rng.choice([0, 0, 1, 2, 5, 10]) for _ in range(m)]
    return {"nInd": nind, "trios": trios, "m": m, "rc": rc, "reads": reads, "distrust": distrust, "gt": gt, "gl": gl}


def scenarios(ctx):
    q = ctx.quick
    rng = ctx.rng
    scs = []
    # ---- TLC-enumerated tiny instance space (spec -> code) ----
    gen = os.path.join(ctx.workdir, "gen01.ndjson")
    cfg = tlc.write_cfg(os.path.join(ctx.workdir, "gen01.cfg"), consts={"Sample": 7 if q else 1})
    rc, out, _ = tlc._java(["-config", cfg, "-workers", "1", "-metadir", tlc._metadir(), "-noGenerateSpecTE", "Gen_C01.tla"],
                           env_extra={"OUT_FILE": gen}, timeout=3000, serial=True, xmx="6g")
    if rc != 0:
        raise tlc.TlcError("Gen_C01 failed:\n" + out[-2000:])
    with open(gen) as fh:
        tiny = [json.loads(x) for x in fh if x.strip()]
    ctx.notes["tlc_enumerated_instances"] = len(tiny)
    scs += [{"inst": t, "positions": True, "order": i % 3} for i, t in enumerate(tiny)]
    # ---- seeded random larger instances ----
    n = 1500 if q else 30000
    for i in range(n):
        inst = rand_instance(rng, big=(i % 4 == 0))
        covered = {c[0] for r in inst["reads"] for c in r["cells"]}
        scs.append({"inst": inst, "positions": not (len(covered) == inst["m"] and rng.random() < 0.5), "order": i % 3})
        if rng.random() < 0.15 and inst["m"] >= 3:
            ends = {r["cells"][0][0] for r in inst["reads"]} | {r["cells"][-1][0] for r in inst["reads"]}
            inner = [c for c in range(2, inst["m"]) if c not in ends]
            if inner:
                scs[-1]["drop"] = sorted(rng.sample(inner, rng.randint(1, min(2, len(inner)))))
                scs[-1]["positions"] = True
    # ---- DEEP instances: a column covered by 17..20 reads (beyond the default cap of 15; --internal-downsampling allows 23) ----
    for i in range(24 if q else 300):
        scs.append({"inst": deep_instance(rng), "positions": True, "order": i % 3, "deep": True})
    # ---- instances that whole `whatshap phase` runs hand to the solver (recorded by the H1 hook) ----
    from .. import phaseworld as PW
    for i in range(250 if q else 4000):
        fam = rng.choice(["single", "single", "trio", "quartet"])
        ped = {"trio": [["s1", "s2", "s3"]], "quartet": [["s1", "s2", "s3"], ["s1", "s2", "s4"]]}.get(fam, [])
        w = PW.rand_world(rng, nsamples={"single": 1, "trio": 3, "quartet": 4}[fam], nchroms=1, ped=ped,
                          max_sites=rng.choice([4, 6]) if ped else rng.choice([5, 9]), depth=(1, 2), het_prob=0.8, kinds=("snv",))
        for r in list(w["reads"]):            # conflicting reads: non-zero optimal cost
            if rng.random() < 0.4:
                w["reads"].append(dict(r, alleles=[rng.randint(0, 1) for _ in range(r["first"], r["last"] + 1)], gap=None, copies=1))
        w["errfree"] = False
        w["opts"] = {"ped": bool(ped), "max_coverage": rng.choice([4, 6, 8]) if ped else rng.choice([3, 5, 8]),
                     "distrust": rng.random() < 0.25}
        if w["opts"]["distrust"]:
            w["pl_weak"] = True
        scs.append({"kind": "pipeline", "world": w})
    return scs


def deep_instance(rng):
    """single individual, all heterozygous, 17..20 reads covering a common column; reads are copies of two planted
    haplotypes with a few errors (often none: then the optimum is 0)"""
    m = rng.randint(3, 6)
    n = rng.randint(17, 20)
    hap = [rng.randint(0, 1) for _ in range(m)]
    err = rng.choice([0.0, 0.0, 0.05, 0.15])
    mid = rng.randint(1, m - 1)            # a non-final column every read covers
    reads, planted = [], []
    for k in range(n):
        side = rng.randint(0, 1)
        first = rng.randint(1, mid)
        last = rng.randint(max(mid, first + 1), m)
        cells = []
        for c in range(first, last + 1):
            if c not in (first, last, mid) and rng.random() < 0.2:
                continue
            a = hap[c - 1] ^ side
            if rng.random() < err:
                a = 1 - a
            cells.append([c, a, rng.choice([1, 1, 5, 30])])
        reads.append({"ind": 1, "cells": cells, "_side": side})
    reads.sort(key=lambda r: r["cells"][0][0])
    planted = [r.pop("_side") for r in reads]
    return {"nInd": 1, "trios": [], "m": m, "rc": [0] * m, "reads": reads, "distrust": False, "gt": [[1] * m],
            "gl": [[[0, 0, 0]] * m], "planted": planted}


def restrict_columns(inst, drop):
    """the instance the solver sees when the explicit position list leaves out the columns `drop` (1-based): those cells vanish"""
    keep = [c for c in range(1, inst["m"] + 1) if c not in drop]
    ren = {c: k + 1 for k, c in enumerate(keep)}
    out = dict(inst, m=len(keep), rc=[inst["rc"][c - 1] for c in keep],
               reads=[{"ind": r["ind"], "cells": [[ren[c], a, w] for c, a, w in r["cells"] if c in ren]} for r in inst["reads"]],
               gt=[[row[c - 1] for c in keep] for row in inst["gt"]], gl=[[row[c - 1] for c in keep] for row in inst["gl"]])
    return out


def solve(inst, positions=True, order=0, drop=()):
    from whatshap.core import (ReadSet, Read, Pedigree, NumericSampleIds, PedigreeDPTable, Genotype,
                               PhredGenotypeLikelihoods)
    ids = NumericSampleIds()
    ped = Pedigree(ids)
    m = inst["m"]
    for i in range(inst["nInd"]):
        gts = [Genotype([0] * (2 - g) + [1] * g) for g in inst["gt"][i]]
        gls = [PhredGenotypeLikelihoods([float(x) for x in t]) for t in inst["gl"][i]] if inst["distrust"] else None
        ped.add_individual(f"ind{i+1}", gts, gls)
    for f, mo, c in inst["trios"]:
        ped.add_relationship(f"ind{f}", f"ind{mo}", f"ind{c}")
    rs = ReadSet()
    for k, r in enumerate(inst["reads"]):
        rd = Read(f"r{k}", 50, 0, ids[f"ind{r['ind']}"])
        for c, a, w in r["cells"]:
            rd.add_variant(c * 10, a, w)
        rs.add(rd)
    pos = [c * 10 for c in range(1, m + 1)] if positions else None
    if drop:
        # an explicit position list that leaves out columns some reads carry (never first/last of a read): the solver must
        # treat the reads as if those cells did not exist.  Pedigree genotypes / costs are given for the listed columns only.
        sub = restrict_columns(inst, set(drop))
        ids = NumericSampleIds()
        ped = Pedigree(ids)
        for i in range(sub["nInd"]):
            gts = [Genotype([0] * (2 - g) + [1] * g) for g in sub["gt"][i]]
            gls = [PhredGenotypeLikelihoods([float(x) for x in t]) for t in sub["gl"][i]] if sub["distrust"] else None
            ped.add_individual(f"ind{i+1}", gts, gls)
        for f, mo, c in sub["trios"]:
            ped.add_relationship(f"ind{f}", f"ind{mo}", f"ind{c}")
        rs2 = ReadSet()
        for k, r in enumerate(inst["reads"]):
            rd = Read(f"r{k}", 50, 0, ids[f"ind{r['ind']}"])
            for c, a, w in r["cells"]:
                rd.add_variant(c * 10, a, w)
            rs2.add(rd)
        rs = rs2
        keepc = [c for c in range(1, m + 1) if c not in set(drop)]
        pos = [c * 10 for c in keepc]
        dp = PedigreeDPTable(rs, list(sub["rc"]), ped, bool(sub["distrust"]), pos)
        full_inst, inst, m = inst, sub, sub["m"]
        colpos = {k + 1: c * 10 for k, c in enumerate(keepc)}
    else:
        dp = PedigreeDPTable(rs, list(inst["rc"]), ped, bool(inst["distrust"]), pos)
        colpos = {c: c * 10 for c in range(1, m + 1)}
    def project(srs):
        sr = []
        for s in srs:
            pair = []
            for h in range(2):
                d = {v.position: v.allele for v in s[h]} if len(s) == 2 else {}
                pair.append([int(d.get(colpos[c], 9)) for c in range(1, m + 1)])
            sr.append(pair)
        return sr
    # The accessors may be called in any order and any number of times: every partition / super-read set /
    # transmission vector the object ever returns must be a witness of the reported cost.
    observed = []
    if order == 0:
        srs, tv = dp.get_super_reads()
        cost = dp.get_optimal_cost()
        observed.append((dp.get_optimal_partitioning(), project(srs), tv))
    elif order == 1:
        p1 = dp.get_optimal_partitioning()
        srs, tv = dp.get_super_reads()
        cost = dp.get_optimal_cost()
        observed.append((p1, project(srs), tv))
        observed.append((dp.get_optimal_partitioning(), project(srs), tv))
    else:
        p1 = dp.get_optimal_partitioning()
        p2 = dp.get_optimal_partitioning()
        cost = dp.get_optimal_cost()
        srs, tv = dp.get_super_reads()
        srs2, tv2 = dp.get_super_reads()
        observed.append((p1, project(srs), tv))
        observed.append((p2, project(srs2), tv2))
    evs = []
    seen = set()
    for part, sr, tv in observed:
        key = json.dumps([list(part), sr, list(tv)])
        if key in seen:
            continue
        seen.add(key)
        evs.append({"ev": "Solve", "inst": inst, "cost": int(cost), "part": [int(x) for x in part], "tv": [int(x) for x in tv],
                    "sr": sr, "order": order})
    return evs


def h1_to_solve(h):
    """An H1 hook record (projected by wv.phaseworld) as a Solve event: the instance whatshap phase built
    for one (chromosome, family) and what the solver returned for it."""
    acc = h["acc"]
    col = {p: i + 1 for i, p in enumerate(acc)}
    fam = h["fam"]
    ind = {s: i + 1 for i, s in enumerate(fam)}
    m = len(acc)
    inst = {"nInd": len(fam), "trios": [[ind[x] for x in t] for t in h["trios"]], "m": m, "rc": list(h["rc"])[:m] if m else [],
            "reads": [{"ind": ind[r["s"]], "cells": [[col[p], a, q] for p, a, q in r["vars"] if p in col]} for r in h["reads"]],
            "distrust": bool(h["gls"] and any(h["gls"])), "gt": [[max(0, g) for g in row] for row in h["gts"]],
            "gl": [row if row else [[0, 0, 0]] * m for row in h["gls"]] if h["gls"] and any(h["gls"]) else [[[0, 0, 0]] * m for _ in fam]}
    return {"ev": "Solve", "inst": inst, "cost": h["cost"], "part": h["part"], "tv": h["tv"] if h["tv"] else [0] * m,
            "sr": [[[a if a in (0, 1) else (3 if a != 9 else 9) for a in hap] for hap in pair] for pair in h["sr"]], "src": "pipeline"}


def drive(sc):
    if sc.get("kind") == "pipeline":
        from .. import phaseworld as PW
        e = PW.phase_run_event(sc["world"])
        if e["exc"]:
            return [{"ev": "Crashed", "where": "exception:" + e["exc"][:100], "detail": e["exc"]}]
        # TLC's brute force is 2^reads x (4^trios)^2 per column: keep what it can judge in about a second
        lim = {0: 10, 1: 7, 2: 5}
        out = []
        for h in e["h1"]:
            if h["alg"] != "whatshap":
                continue
            ev = h1_to_solve(h)
            if not (len(h["reads"]) <= lim.get(len(h["trios"]), 4) and len(h["acc"]) <= 8):
                if len(h["reads"]) > 24 or len(h["acc"]) > 12:
                    continue
                ev["deep"] = True          # too large for the enumerated optimum: witness clauses only
            out.append(ev)
        return out or \
               [{"ev": "Solve", "inst": {"nInd": 1, "trios": [], "m": 0, "rc": [], "reads": [], "distrust": False, "gt": [[]], "gl": [[]]},
                 "cost": 0, "part": [], "tv": [], "sr": [[[], []]], "src": "pipeline-empty"}]
    if sc.get("deep"):
        inst = dict(sc["inst"])
        planted = inst.pop("planted")
        evs = solve(inst, sc.get("positions", True), sc.get("order", 0))
        for e in evs:
            e["deep"] = True
            e["planted"] = planted
        return evs
    return solve(sc["inst"], sc.get("positions", True), sc.get("order", 0), sc.get("drop", ()))


def nontrivial(sc, events):
    for e in events:
        if e.get("ev") == "Solve" and e["cost"] > 0:
            cols = [c[0] for r in e["inst"]["reads"] for c in r["cells"]]
            if len(cols) != len(set(cols)):
                return True
    return False


def signature(sc, events, clause):
    i = sc["inst"] if "inst" in sc else (events[0].get("inst") or {"nInd": 0, "trios": [], "distrust": False})
    return f"nInd={i['nInd']} trios={len(i['trios'])} distrust={i['distrust']}"


def selftest_corrupt(events):
    n = 0
    for e in events:
        if e["ev"] == "Solve" and e["cost"] > 0 and n == 0:
            e["cost"] += 1
            n += 1
        elif e["ev"] == "Solve" and e["inst"]["reads"] and n == 1 and e["cost"] > 0:
            e["part"] = [1 - e["part"][0]] + e["part"][1:]
            n += 1
    return events


MANIFEST = {
    "text": "PedMEC.tla defines the weighted pedigree MEC objective by set comprehension (all bipartitions x transmission vectors x "
            "admissible allele assignments). TLC (a) model-checks an implementation-shaped column DP with forward projections "
            "(PedMECDP.tla) against that definition for all tiny instances, and (b) judges every recorded call of the real "
            "PedigreeDPTable: reported cost = brute-force optimum, cost of the returned partition + transmission vector = reported "
            "cost, every non-tie super-read allele agrees with every optimal assignment of its column. Instances: TLC-enumerated tiny "
            "space, thousands of seeded random instances (gaps, uncovered columns, weights, trios, quartets, likelihoods, recombination) "
            "and the solver instances recorded by the H1 hook from whole `whatshap phase` runs.",
    "note": "trusted: TLC, PedMEC.tla (labelling conventions pinned to the implementation's), driver; bounded: <= 9 reads x 12 columns "
            "single individual, <= 6 reads x 5 columns trios, <= 5 x 4 quartets",
    "technique": "TLA+ definition of the objective + TLC brute-force evaluation per recorded solver call (trace validation) + TLC model checking of the DP design",
}
