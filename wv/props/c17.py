"""C17 - haplotag followed by haplotagphase reproduces the phasing that tagged the reads."""
import json
import os
import random
import shutil
import sys
import tempfile

from .. import tlc
from . import c10            # the read/variant materialiser (allele-vector reads on a homopolymer-free reference)

PROP = "C17"
TRACE_MODULE = "C17_Trace"
EXHAUSTIVE = True
NPROC = 8
SHARDS = 8
TASK_TIMEOUT = 300
RULE = ("a scenario is one history V0 -haplotag-> B, V0 -unphase-> U (optionally with some phase sets of V0 copied back: "
        "partially phased input), haplotagphase(U, B) -> W, run through the four real commands on files that hold several "
        "independent worlds as chromosomes. 'gen' scenarios bundle TLC-enumerated tiny worlds (MC_TagPhaseChain: every call "
        "pattern over 3 sites with <= 2 contiguous phase sets, every multiset of <= 2 error-free reads that do not span two "
        "sets, every subset of kept sets); 'rand' scenarios are seeded larger worlds (<= 9 sites, <= 3 sets, indels, two "
        "samples, mate pairs, records with two ALT alleles and genotypes 1|2, 2|1, 0|2, 2|0); 'bxmol' scenarios are linked-read worlds (--linked-read-distance-cutoff 140): one barcode on several "
        "molecules that start farther apart than the cutoff and copy different haplotypes, the reads of a molecule start within "
        "half the cutoff; 'hazard' scenarios are worlds in which a kept (pre-phased) set has a site that no tagged "
        "read covers. Decorations of a chromosome (separate generator): its site 1 is an SNV on the first base of the contig (POS 1: a set "
        "starting there is PS=1, component id 0 inside whatshap; reads covering it start at position 0), or its phase sets are "
        "numbered 1, 2, 3 instead of by the position of their leftmost variant. A scenario is non-trivial if the chain succeeded, a read was tagged and W phases >= 2 sites that U "
        "did not")
ASSUMPTIONS = [
    "reads are error-free copies of one haplotype of the sample's true allele pairs (alleles by construction), SNVs and unshiftable "
    "indels >= 50 bp apart on a homopolymer-free reference, each touched variant covered with >= 12 bp on both sides (except an SNV on the first base of a contig, which has no left flank)",
    "no read (no mate pair, no barcode molecule) covers phased sites of two phase sets; thresholds of haplotagphase at their defaults; diploid",
    "linked reads: the reads of one molecule copy one haplotype and start within half the linked-read cutoff, two molecules of one "
    "barcode start farther apart than the cutoff (well-separated clouds; chains of reads are not generated)",
    "a call is identified with its GT text and PS value (raw); other FORMAT fields are not compared",
    "only sites that W phases are judged; a site that stays unphased is not a violation",
    "TLC evaluates TagPhaseChain.tla correctly; pysam/htslib parse the files",
]


# ----------------------------------------------------------------------------------------------
def _cfg(ctx, name, consts, invs, constraint=None):
    return tlc.write_cfg(os.path.join(ctx.workdir, name + ".cfg"), spec="Spec", consts=consts, invariants=invs,
                         constraint=constraint)


MC_INVS = ["InvPremise", "InvOrderRestored", "InvAllelesKept", "InvSetOfCoveringReads", "InvPrephasedUntouched", "InvCoveredIsRephased"]


def design_mc(ctx):
    if ctx.quick:
        cfgs = [("biallelic", dict(N=3, NReads=2, MaxSets=2, WithKeep="TRUE", Multi="FALSE")),
                ("multiallelic", dict(N=2, NReads=2, MaxSets=2, WithKeep="TRUE", Multi="TRUE"))]
    else:
        cfgs = [("biallelic", dict(N=4, NReads=2, MaxSets=3, WithKeep="TRUE", Multi="FALSE")),
                ("multiallelic", dict(N=3, NReads=2, MaxSets=2, WithKeep="FALSE", Multi="TRUE"))]
    out = []
    for tag, consts in cfgs:
        r = tlc.model_check("MC_TagPhaseChain", cfg=_cfg(ctx, "MC_TagPhaseChain_" + tag, consts, MC_INVS), workers=NPROC, timeout=3000)
        r["what"] = (f"MC_TagPhaseChain[{tag}]: haplotag / unphase (either order) then haplotagphase as actions over an abstract file "
                     f"system, all worlds with {consts['N']} sites, <= {consts['MaxSets']} sets, <= {consts['NReads']} reads, kept subsets "
                     f"{consts['WithKeep']}, genotypes with allele 2 {consts['Multi']}: OrderRestored, AllelesKept, SetOfCoveringReads, "
                     f"PrephasedUntouched")
        out.append(r)
    return out


# ----------------------------------------------------------------------------------------------
def _tlc_worlds(ctx):
    consts = dict(N=3, NReads=2, MaxSets=2, WithKeep="TRUE", Multi="FALSE")
    cfg = _cfg(ctx, "Emit_TagPhaseChain", consts, ["Emit"], constraint="StopAtRun")
    hs, r = tlc.behaviours("MC_TagPhaseChain", cfg, timeout=1800)
    # worlds with multi-allelic genotypes (1/2, 2/1, 0/2, 2/0): 2 sites
    consts = dict(N=2, NReads=2, MaxSets=2, WithKeep="TRUE", Multi="TRUE")
    cfg = _cfg(ctx, "Emit_TagPhaseChain_multi", consts, ["Emit"], constraint="StopAtRun")
    hm, r = tlc.behaviours("MC_TagPhaseChain", cfg, timeout=1800)
    hm = [w for w in hm if any(max(t) >= 2 for t in w["truth"])]
    return hs, hm


def _world_from_tlc(w, rng):
    """TLC world -> chromosome description of a scenario"""
    sites = []
    for j, c in enumerate(w["v0"]):
        t = w["truth"][j]
        mode = "phased" if c["ph"] else ("hom" if t[0] == t[1] else "unphased")
        sites.append({"truth": [t], "mode": [mode], "set": [c["ps"]], "nalt": 2 if max(t) >= 2 else 1})
    reads = [{"smp": 1, "lo": r["cov"][0], "hi": r["cov"][-1], "al": r["al"], "rev": rng.random() < 0.5, "pair": 0} for r in w["reads"]]
    return {"sites": sites, "reads": reads, "keep": [[1, k] for k in w["keep"]]}


def _tagged(ch, r):
    """an error-free read is tagged iff it covers a phased heterozygous bi-allelic site of its sample (haplotag skips multi-ALT records)"""
    s = r["smp"] - 1
    return any(ch["sites"][j - 1]["mode"][s] == "phased" and ch["sites"][j - 1].get("nalt", 1) == 1 for j in range(r["lo"], r["hi"] + 1))


def _uncovered_kept(ch):
    """does a kept phase set have a phased site that no tagged single-end read of its sample covers (hazard class)?"""
    for s, k in ch["keep"]:
        for j, st in enumerate(ch["sites"], start=1):
            if st["mode"][s - 1] == "phased" and st["set"][s - 1] == k:
                if not any(r["smp"] == s and not r["pair"] and r["lo"] <= j <= r["hi"] and _tagged(ch, r) for r in ch["reads"]):
                    return True
    return False


REMAPS = [{0: 0, 1: 2}, {0: 1, 1: 2}, {0: 2, 1: 1}, {0: 2, 1: 0}, {0: 0, 1: 1}]


def _multiallelic(rng, ch, p):
    """turn some sites into records with two ALT alleles; per sample the genotype becomes 0/2, 1/2, 2/1 (or stays 0/1) and the
    reads of that sample show the renamed alleles"""
    for j, st in enumerate(ch["sites"], start=1):
        if rng.random() >= p:
            continue
        st["nalt"] = 2
        for s in range(len(st["truth"])):
            mp = rng.choice(REMAPS)
            st["truth"][s] = [mp[a] for a in st["truth"][s]]
            for r in ch["reads"]:
                if r["smp"] == s + 1 and r["lo"] <= j <= r["hi"]:
                    r["al"][j - r["lo"]] = mp[r["al"][j - r["lo"]]]
    # a kept set must stay covered by tagged reads (a read that sees only multi-allelic sites is not tagged by haplotag)
    ch["keep"] = [[s, k] for s, k in ch["keep"]
                  if not _uncovered_kept({"sites": ch["sites"], "reads": ch["reads"], "keep": [[s, k]]})]
    return ch


def _rand_world(rng, nsmp):
    """sites are cut into <= 3 contiguous blocks; the phased sites of block k form phase set k of a sample; every read and
    every mate pair lies inside one block (phase sets separated by gaps no read spans)"""
    K = rng.randint(3, 9)
    nb = rng.randint(1, min(3, K))
    cuts = sorted(rng.sample(range(1, K), nb - 1)) if nb > 1 else []
    bounds = list(zip([0] + cuts, cuts + [K]))          # block k covers sites lo+1..hi
    blk = [next(k for k, (a, b) in enumerate(bounds) if a <= j < b) for j in range(K)]
    sites = []
    for j in range(K):
        truth, mode, sets = [], [], []
        for s in range(nsmp):
            x = rng.random()
            if x < 0.12:
                truth.append([1, 1] if rng.random() < 0.7 else [0, 0])
                mode.append("hom")
                sets.append(0)
            else:
                truth.append(rng.choice([[0, 1], [1, 0]]))
                if x < 0.17:
                    mode.append("missing")
                    sets.append(0)
                elif x < 0.27:
                    mode.append("unphased")
                    sets.append(0)
                else:
                    mode.append("phased")
                    sets.append(blk[j] + 1)
        sites.append({"truth": truth, "mode": mode, "set": sets})
    reads = []
    pair = 0

    def mk(s, lo, hi, h, rev, pr):
        return {"smp": s + 1, "lo": lo, "hi": hi, "al": [sites[j - 1]["truth"][s][h] for j in range(lo, hi + 1)], "rev": rev, "pair": pr}
    for s in range(nsmp):
        for _ in range(rng.randint(3, 12)):
            a, b = rng.choice(bounds)
            lo = rng.randint(a + 1, b)
            hi = min(b, lo + rng.randint(0, 3))
            h = rng.randrange(2)
            if rng.random() < 0.25 and hi < b:
                # a mate further right inside the same block, opposite strand: the usual FR pair
                lo2 = rng.randint(hi + 1, b)
                hi2 = min(b, lo2 + rng.randint(0, 2))
                pair += 1
                reads.append(mk(s, lo, hi, h, False, pair))
                reads.append(mk(s, lo2, hi2, h, True, pair))
            else:
                reads.append(mk(s, lo, hi, h, rng.random() < 0.5, 0))
    keep = []
    for s in range(nsmp):
        for k in range(1, nb + 1):
            if rng.random() < 0.3 and any(st["mode"][s] == "phased" and st["set"][s] == k for st in sites):
                keep.append([s + 1, k])
    ch = {"sites": sites, "reads": reads, "keep": keep}
    # keep the hazard class out of the random worlds: give every phased site of a kept set a covering single-end read
    for s, k in keep:
        for j, st in enumerate(sites, start=1):
            if st["mode"][s - 1] == "phased" and st["set"][s - 1] == k:
                if not any(r["smp"] == s and not r["pair"] and r["lo"] <= j <= r["hi"] for r in reads):
                    reads.append(mk(s - 1, j, j, rng.randrange(2), rng.random() < 0.5, 0))
    return ch


CUTOFF, DCLOSE, DFAR = 140, 1, 4      # --linked-read-distance-cutoff; sites are 50 bp apart, read starts jitter by < 20 bp


def _bx_world(rng, nsmp):
    """linked reads: one barcode labels several molecules of a chromosome; the reads of a molecule start within CUTOFF/2 and
    copy one haplotype inside one block, the molecules of a barcode start farther apart than CUTOFF and copy different
    haplotypes (in the same or in different phase sets); the left molecule carries more, equal or less evidence"""
    K = rng.randint(10, 13)
    nb = rng.randint(1, 2)
    cuts = [rng.randint(4, K - 4)] if nb > 1 else []
    bounds = list(zip([0] + cuts, cuts + [K]))
    blk = [next(k for k, (a, b) in enumerate(bounds) if a <= j < b) for j in range(K)]
    sites = []
    for j in range(K):
        truth, mode, sets = [], [], []
        for s in range(nsmp):
            truth.append(rng.choice([[0, 1], [1, 0]]))
            if rng.random() < 0.12:
                mode.append("unphased")
                sets.append(0)
            else:
                mode.append("phased")
                sets.append(blk[j] + 1)
        sites.append({"truth": truth, "mode": mode, "set": sets})
    reads = []
    mol = 0
    for b in range(rng.randint(3, 8)):
        s = rng.randrange(nsmp)
        L = rng.randint(1, 2)
        h = rng.randrange(2)
        for m in range(rng.choice([1, 2, 2, 3])):
            if L > K:
                break
            mol += 1
            end = bounds[blk[L - 1]][1]                     # the molecule stays inside the block of its first site
            for _ in range(rng.randint(1, 3)):
                lo = rng.randint(L, min(end, L + DCLOSE))
                hi = min(end, lo + rng.randint(0, 2))
                reads.append({"smp": s + 1, "lo": lo, "hi": hi, "al": [sites[j - 1]["truth"][s][h] for j in range(lo, hi + 1)],
                              "rev": rng.random() < 0.5, "pair": 0, "bx": b + 1, "mol": mol})
            L = L + DCLOSE + DFAR + rng.randint(0, 1)
            if rng.random() < 0.85:
                h = 1 - h
    for s in range(nsmp):
        for _ in range(rng.randint(0, 3)):              # a few reads without barcode
            a, bnd = rng.choice(bounds)
            lo = rng.randint(a + 1, bnd)
            hi = min(bnd, lo + rng.randint(0, 2))
            h = rng.randrange(2)
            reads.append({"smp": s + 1, "lo": lo, "hi": hi, "al": [sites[j - 1]["truth"][s][h] for j in range(lo, hi + 1)],
                          "rev": rng.random() < 0.5, "pair": 0})
    return {"sites": sites, "reads": reads, "keep": []}


def _kinds(rng, ch, mode):
    for st in ch["sites"]:
        x = rng.random()
        if x < 0.6 or st.get("nalt", 1) == 2:
            st["kind"], st["len"] = "snv", 1
        elif x < 0.8:
            st["kind"], st["len"] = "ins", (1 if mode == "noref" else rng.randint(1, 3))
        else:
            st["kind"], st["len"] = "del", (1 if mode == "noref" else rng.randint(1, 3))
    return ch


def scenarios(ctx):
    q = ctx.quick
    rng = ctx.rng
    no_hazard = bool(os.environ.get("WV_C17_NO_HAZARD")) or "--selftest" in sys.argv
    worlds, mworlds = _tlc_worlds(ctx)
    ctx.notes["tlc_enumerated_worlds"] = {"biallelic_3sites": len(worlds), "multiallelic_2sites": len(mworlds)}
    worlds.sort(key=lambda w: json.dumps(w, sort_keys=True))
    mworlds.sort(key=lambda w: json.dumps(w, sort_keys=True))
    chosen = (worlds if not q else rng.sample(worlds, 1200)) + (mworlds if not q else rng.sample(mworlds, min(len(mworlds), 600)))
    plain, hazard = [], []
    for w in chosen:
        ch = _world_from_tlc(w, rng)
        (hazard if _uncovered_kept(ch) else plain).append(ch)
    ctx.notes["tlc_worlds_used"] = {"plain": len(plain), "prephased_uncovered": len(hazard)}
    scs = []

    def bundle(chs, kind, per):
        for i in range(0, len(chs), per):
            mode = rng.choice(["ref", "noref"])
            scs.append({"kind": kind, "seed": rng.randrange(1 << 30), "mode": mode, "nsmp": 1,
                        "chroms": [_kinds(rng, c, mode) for c in chs[i:i + per]]})
    bundle(plain, "gen", 8)
    for _ in range(60 if q else 1200):
        nsmp = rng.choice([1, 1, 2])
        mode = rng.choice(["ref", "noref"])
        scs.append({"kind": "rand", "seed": rng.randrange(1 << 30), "mode": mode, "nsmp": nsmp,
                    "chroms": [_kinds(rng, _multiallelic(rng, _rand_world(rng, nsmp), rng.choice([0, 0.15, 0.4])), mode)
                               for _ in range(rng.randint(1, 3))]})
    for _ in range(60 if q else 800):
        nsmp = rng.choice([1, 1, 2])
        mode = rng.choice(["ref", "noref"])
        scs.append({"kind": "bxmol", "seed": rng.randrange(1 << 30), "mode": mode, "nsmp": nsmp,
                    "chroms": [_kinds(rng, _multiallelic(rng, _bx_world(rng, nsmp), rng.choice([0, 0, 0.2])), mode)
                               for _ in range(rng.randint(1, 2))]})
    # haplotagphase --only-indels: fewer sites are newly phased, everything else must hold unchanged
    for sc_ in scs:
        if sc_["kind"] in ("rand", "gen") and rng.random() < 0.3:
            sc_["only_indels"] = True
        elif sc_["kind"] in ("rand", "gen") and rng.random() < 0.25 and not any(st.get("nalt", 1) == 2 for ch in sc_["chroms"] for st in ch["sites"]):
            sc_["nomav"] = True
        elif sc_["kind"] in ("rand", "bxmol") and rng.random() < 0.35:
            sc_["hp_enc"] = True           # the phased VCF given to haplotag is HP-encoded (fully unphased input to haplotagphase)
            for ch_ in sc_["chroms"]:
                ch_["keep"] = []
    if not no_hazard:
        bundle(hazard if not q else hazard[:40], "hazard:prephased_uncovered", 8)
    # numbering of the phase sets, drawn from a separate generator (the worlds above are the same as without the decoration):
    # "first_base": site 1 of the chromosome is an SNV on the very first base of the contig (POS 1), so a set that starts there
    # is PS=1 under the leftmost-variant convention (component id 0 inside whatshap); "psnum" = "index": the sets of the
    # phased VCF are numbered 1, 2, 3 (any positive integer is a legal PS) instead of by the position of their leftmost variant
    drng = random.Random(rng.randrange(1 << 30))
    for sc_ in scs:
        for ch_ in sc_["chroms"]:
            x = drng.random()
            if x < 0.3 and sc_["kind"] in ("gen", "rand"):
                ch_["first_base"] = True
                ch_["sites"][0]["kind"], ch_["sites"][0]["len"] = "snv", 1
            elif x < 0.5 and not sc_["kind"].startswith("hazard"):
                ch_["psnum"] = "index"
    ctx.notes["ps_numbering"] = {"chromosomes_with_site_on_first_base": sum(1 for s_ in scs for c_ in s_["chroms"] if c_.get("first_base")),
                                 "chromosomes_with_sets_numbered_1_2_3": sum(1 for s_ in scs for c_ in s_["chroms"] if c_.get("psnum"))}
    ctx.notes["scenario_kinds"] = {k: sum(1 for s in scs if s["kind"] == k) for k in sorted({s["kind"] for s in scs})}
    return scs


# ----------------------------------------------------------------------------------------------
def _call_text(st, s, ps_value):
    t = st["truth"][s]
    if st["mode"][s] == "phased":
        return [f"{t[0]}|{t[1]}", str(ps_value)]
    if st["mode"][s] == "missing":
        return ["./.", "."]                     # no genotype call at all; reads still cover the site
    a = sorted(t)
    return [f"{a[0]}/{a[1]}", "."]


def _project_vcf(path, nsmp, site_index, intern):
    """-> sample -> site -> call (missing record: raw 0)"""
    from wv import world as W
    _, samples, recs = W.read_vcf_text(path)
    out = [[{"ph": False, "ps": 0, "al": [], "raw": 0} for _ in site_index] for _ in range(nsmp)]
    for r in recs:
        j = site_index.get((r["chrom"], r["pos"]))
        if j is None:
            continue
        for s in range(nsmp):
            c = r["calls"][s]
            gt = c.get("GT", ".")
            ps = c.get("PS", ".")
            al = [int(x) for x in gt.replace("|", "/").split("/") if x.isdigit()]
            hp = c.get("HP", ".")
            if hp not in (".", "") and "|" not in gt and len(al) == 2:
                # HP encoding: entry i names (phase set, haplotype) of the i-th allele of GT
                ent = [x.split("-") for x in hp.split(",")]
                if len(ent) == 2 and all(len(x) == 2 and x[0].isdigit() and x[1] in ("1", "2") for x in ent) and ent[0][1] != ent[1][1]:
                    dec = [0, 0]
                    for a_, x in zip(al, ent):
                        dec[int(x[1]) - 1] = a_
                    out[s][j] = {"ph": True, "ps": int(ent[0][0]), "al": dec, "raw": intern.setdefault(f"{gt}:{hp}", len(intern) + 1)}
                    continue
            out[s][j] = {"ph": "|" in gt, "ps": int(ps) if ps.lstrip("-").isdigit() else 0, "al": al,
                         "raw": intern.setdefault(f"{gt}:{ps}", len(intern) + 1)}
    return out


def _build_from_first_base(sc, rng, lay, a):
    """an error-free read whose first site lies on the first base of the contig: the alignment starts at position 0"""
    from wv import world as W
    vs = lay["vars"]
    alleles = [0] * len(vs)
    for k, j in enumerate(range(a["lo"], a["hi"] + 1)):
        alleles[j - 1] = a["al"][k]
    hap = W.Haplotype(lay["ref"], vs, alleles)
    re_ = vs[a["hi"] - 1].pos + len(vs[a["hi"] - 1].ref) + rng.randint(12, 20)
    pos, cig, seq = hap.read(0, hap.ref_to_hap(re_))
    assert pos == 0 and W.cigar_reflen(cig) == re_, (pos, cig, re_)
    return {"pos": pos, "cigar": W.cigar_str(cig), "seq": seq, "qual": c10._qualstr(rng, len(seq), sc["mode"])}


def drive(sc):
    import pysam
    from wv import world as W
    from whatshap.cli.haplotag import run_haplotag
    from whatshap.cli.unphase import run_unphase
    from whatshap.cli.haplotagphase import run_haplotagphase
    base = os.path.join(os.environ.get("WV_SCRATCH", "/var/tmp/whverif"), "work")
    os.makedirs(base, exist_ok=True)
    d = tempfile.mkdtemp(prefix="c17-", dir=base)
    try:
        rng = random.Random(sc["seed"])
        nsmp = sc["nsmp"]
        samples = [f"s{i + 1}" for i in range(nsmp)]
        chroms = c10._layout(sc, rng)
        for ch, lay in zip(sc["chroms"], chroms):
            if ch.get("first_base"):
                lay["vars"][0] = W.make_variant(rng, lay["ref"], 0, "snv", 1)      # POS 1: the first base of the contig
        contigs = [(c["name"], c["len"]) for c in chroms]
        fasta = W.write_fasta(os.path.join(d, "ref.fa"), {c["name"]: c["ref"] for c in chroms})
        site_index = {}
        recs0 = []
        psval = {}
        for ci, (ch, lay) in enumerate(zip(sc["chroms"], chroms)):
            for s in range(nsmp):
                for j, st in enumerate(ch["sites"]):
                    if st["mode"][s] == "phased":
                        psval.setdefault((ci, s, st["set"][s]), st["set"][s] if ch.get("psnum") == "index" else lay["vars"][j].pos + 1)
            lay["alt2"] = []
            for j, (st, v) in enumerate(zip(ch["sites"], lay["vars"])):
                site_index[(lay["name"], v.pos + 1)] = len(site_index)
                a2 = rng.choice([b for b in "ACGT" if b not in (v.ref, v.alt)]) if st.get("nalt", 1) == 2 else None
                lay["alt2"].append(a2)
                calls0 = [_call_text(st, s, psval.get((ci, s, st["set"][s]), 0)) for s in range(nsmp)]
                if sc.get("hp_enc"):
                    # the same phasing in the HP encoding (entry i names the haplotype of the i-th allele of GT), with the
                    # unphased GT written in either allele order
                    for c_ in calls0:
                        if "|" in c_[0]:
                            a_, b_ = c_[0].split("|")
                            g_ = [a_, b_] if rng.random() < 0.5 else [b_, a_]
                            c_[1] = ",".join(f"{c_[1]}-{1 if x == a_ else 2}" for x in g_)
                            c_[0] = "/".join(g_)
                recs0.append({"chrom": lay["name"], "pos": v.pos + 1, "ref": v.ref, "alt": v.alt + ("," + a2 if a2 else ""),
                              "fmt": ["GT", "HP" if sc.get("hp_enc") else "PS"], "calls": calls0})
        v0 = W.write_vcf(os.path.join(d, "v0.vcf"), samples, contigs, recs0, compress=True)
        # reads
        reads, absreads = [], []
        off = 0
        for ci, (ch, lay) in enumerate(zip(sc["chroms"], chroms)):
            for ri, r in enumerate(ch["reads"]):
                # a read showing ALT2 of a multi-allelic record is built from the bi-allelic variant REF>ALT2
                vs = [W.Variant(v.pos, v.ref, lay["alt2"][j]) if (r["lo"] <= j + 1 <= r["hi"] and r["al"][j + 1 - r["lo"]] == 2) else v
                      for j, v in enumerate(lay["vars"])]
                a = {"kind": "prim", "lo": r["lo"], "hi": r["hi"], "al": [1 if x else 0 for x in r["al"]], "third": [], "rev": r["rev"]}
                if ch.get("first_base") and r["lo"] == 1:
                    rec = _build_from_first_base(sc, rng, dict(lay, vars=vs), a)
                else:
                    rec, obs = c10._build_alignment(sc, rng, dict(lay, vars=vs), a, 0)
                xi = len(reads) + 1
                flag = 16 if r["rev"] else 0
                name = f"r{xi}"
                rd = {"name": name, "flag": flag, "ref": ci, "pos": rec["pos"], "mapq": rng.choice([60, 60, 20, 20]), "cigar": rec["cigar"], "seq": rec["seq"],
                      "qual": rec["qual"], "tags": [("XI", xi)] + ([("BX", f"BC{r['smp']}-{r['bx']}")] if r.get("bx") else []),
                      "rg": f"g{r['smp']}", "_pair": (ci, r["pair"]) if r["pair"] else None}
                reads.append(rd)
                absreads.append({"smp": r["smp"], "tpl": (500000 + 1000 * (ci + 1) + r["mol"]) if r.get("bx") else
                                 (1000 * (ci + 1) + r["pair"]) if r["pair"] else -xi,
                                 "cov": [off + j for j in range(r["lo"], r["hi"] + 1)], "al": list(r["al"])})
            off += len(ch["sites"])
        # mates share a name and point at each other
        pairs = {}
        for rd in reads:
            if rd["_pair"]:
                pairs.setdefault(rd["_pair"], []).append(rd)
        for ms in pairs.values():
            if len(ms) == 2:
                a, b = ms
                b["name"] = a["name"]
                a["flag"] |= 1 | 2 | 64 | (32 if b["flag"] & 16 else 0)
                b["flag"] |= 1 | 2 | 128 | (32 if a["flag"] & 16 else 0)
                a["mate"] = {"ref": b["ref"], "pos": b["pos"]}
                b["mate"] = {"ref": a["ref"], "pos": a["pos"]}
        for rd in reads:
            rd.pop("_pair")
        events = []
        intern = {}
        V0 = _project_vcf(v0, nsmp, site_index, intern)
        events.append({"ev": "World", "v0": V0, "reads": absreads, "kind": sc["kind"]})
        if not reads:
            # whatshap refuses a BAM without mapped alignments; a bundle of read-less worlds gets one read that covers no site
            rec, _ = c10._build_alignment(sc, rng, chroms[0], {"kind": "prim", "lo": 1, "hi": 0, "al": [], "third": [], "rev": False}, 0)
            reads.append({"name": "filler", "flag": 0, "ref": 0, "pos": rec["pos"], "mapq": 60, "cigar": rec["cigar"], "seq": rec["seq"],
                          "qual": rec["qual"], "tags": [("XI", 0)], "rg": "g1"})
        bam = W.write_bam(os.path.join(d, "in.bam"), contigs, reads, read_groups=[{"ID": f"g{i + 1}", "SM": s} for i, s in enumerate(samples)])
        # 1. haplotag
        tagged = os.path.join(d, "tagged.bam")
        try:
            run_haplotag(variant_file=v0, alignment_file=bam, output=tagged, reference=fasta if sc["mode"] == "ref" else False,
                         linked_read_distance_cutoff=CUTOFF)
            pysam.index(tagged)
            b = [{"hp": -1, "ps": -1} for _ in absreads]
            for r in W.read_bam_records(tagged):
                tg = dict(r["tags"])
                if tg.get("XI", 0) >= 1:
                    b[tg["XI"] - 1] = {"hp": int(tg.get("HP", -1)), "ps": int(tg.get("PS", -1))}
            events.append({"ev": "Haplotag", "b": b, "exc": ""})
        except Exception as e:
            events.append({"ev": "Haplotag", "b": [], "exc": type(e).__name__})
            return events
        # 2. unphase (+ copy the kept sets back from V0: partially phased input)
        try:
            uplain = os.path.join(d, "u.vcf")
            run_unphase(v0, uplain)
            keep = {(ci, s - 1, k) for ci, ch in enumerate(sc["chroms"]) for s, k in ch["keep"]}
            if keep:
                _, _, urecs = W.read_vcf_text(uplain)
                precs = []
                k = 0
                for ci, (ch, lay) in enumerate(zip(sc["chroms"], chroms)):
                    for j, st in enumerate(ch["sites"]):
                        ur = urecs[k]
                        r0 = recs0[k]
                        k += 1
                        assert (ur["chrom"], ur["pos"]) == (r0["chrom"], r0["pos"])
                        calls = []
                        for s in range(nsmp):
                            if st["mode"][s] == "phased" and (ci, s, st["set"][s]) in keep:
                                calls.append(list(r0["calls"][s]))
                            else:
                                calls.append([ur["calls"][s]["GT"], "."])
                        precs.append(dict(r0, calls=calls))
                u = W.write_vcf(os.path.join(d, "p.vcf"), samples, contigs, precs, compress=True)
            else:
                u = pysam.tabix_index(uplain, preset="vcf", force=True)
            U = _project_vcf(u, nsmp, site_index, intern)
            events.append({"ev": "Unphase", "u": U, "exc": "", "partial": bool(keep)})
        except Exception as e:
            events.append({"ev": "Unphase", "u": [], "exc": type(e).__name__, "partial": False})
            return events
        # 3. haplotagphase
        try:
            wpath = os.path.join(d, "w.vcf")
            uin = u
            if sc.get("nomav"):
                # --no-mav on a call set in which a multi-ALT record (0/0 or 1/2, unphased) sits directly in front of a bi-allelic
                # record at the same position: reader and writer must agree that the multi-ALT record is not a variant of the run
                import gzip
                with gzip.open(u, "rt") as fh:
                    lines = fh.read().splitlines()
                out_l = []
                for x in lines:
                    if x and not x.startswith("#"):
                        f = x.split("\t")
                        if "," not in f[4] and len(f[3]) == 1 and rng.random() < 0.5:
                            others = [b_ for b_ in "ACGT" if b_ != f[3] and b_ != f[4][0]]
                            dec = f[:3] + [f[3], ",".join(others[:2])] + f[5:8] + ["GT:PS"] + [rng.choice(["0/0:.", "1/2:."]) for _ in f[9:]]
                            out_l.append("\t".join(dec))
                    out_l.append(x)
                with open(os.path.join(d, "u2.vcf"), "w") as fh:
                    fh.write("\n".join(out_l) + "\n")
                uin = pysam.tabix_index(os.path.join(d, "u2.vcf"), preset="vcf", force=True)
            run_haplotagphase(variant_file=uin, alignment_file=tagged, reference=fasta, output=wpath,
                              only_indels=bool(sc.get("only_indels")), mav=not sc.get("nomav"))
            Wp = _project_vcf(wpath, nsmp, site_index, intern)
            events.append({"ev": "HaplotagPhase", "w": Wp, "exc": ""})
        except Exception as e:
            events.append({"ev": "HaplotagPhase", "w": [], "exc": type(e).__name__})
        return events
    finally:
        shutil.rmtree(d, ignore_errors=True)


# ----------------------------------------------------------------------------------------------
def signature(sc, events, clause):
    hz = any(_uncovered_kept(ch) for ch in sc["chroms"])
    exc = next((e["exc"] for e in events if e.get("exc")), "")
    return ("chain input class: " + ("prephased-set-with-a-site-no-tagged-read-covers" if hz else "plain")
            + (f" exc={exc}" if exc else ""))


def nontrivial(sc, events):
    ev = {e["ev"]: e for e in events}
    if not all(k in ev for k in ("Haplotag", "Unphase", "HaplotagPhase")) or any(e.get("exc") for e in events):
        return False
    if not any(t["hp"] != -1 for t in ev["Haplotag"]["b"]):
        return False
    n = sum(1 for s, row in enumerate(ev["HaplotagPhase"]["w"]) for j, c in enumerate(row) if c["ph"] and not ev["Unphase"]["u"][s][j]["ph"])
    return n >= 2


def selftest_corrupt(events):
    """exchange the alleles of one call that haplotagphase phased and V0 had phased; in another history change its PS"""
    v0 = u = None
    n = 0
    for e in events:
        if e.get("ev") == "World":
            v0, u = e["v0"], None
        if e.get("ev") == "Unphase" and not e["exc"]:
            u = e["u"]
        if e.get("ev") == "HaplotagPhase" and not e["exc"] and u and v0:
            for s, row in enumerate(e["w"]):
                for j, c in enumerate(row):
                    if n < 2 and c["ph"] and not u[s][j]["ph"] and v0[s][j]["ph"] and len(c["al"]) == 2:
                        if n == 0:
                            c["al"] = c["al"][::-1]
                        else:
                            c["ps"] += 1
                        n += 1
                        break
                else:
                    continue
                break
            if n >= 2:
                break
    return events


MANIFEST = {
    "text": "TagPhaseChain.tla states the three clauses (OrderRestored, SetOfCoveringReads, PrephasedUntouched) over an abstract file "
            "system and gives the design of haplotag / unphase / haplotagphase (HP = haplotype + 1, PS = set id, vote key = (PS, "
            "haplotype xor allele)); MC_TagPhaseChain runs the commands as actions on every tiny world and checks the clauses. The "
            "same worlds (TLC-emitted) and seeded larger ones are materialised as VCF + BAM + FASTA and driven through the real "
            "run_haplotag, run_unphase, run_haplotagphase; TLC judges the projected files (C17_Trace).",
    "note": "trusted: TLC, TagPhaseChain.tla, the materialiser shared with C10, pysam; partially phased inputs are made by copying "
            "kept phase sets of V0 back into the output of whatshap unphase; PS values are the 1-based position of the leftmost phased "
            "variant of the set (including POS 1 -> PS=1) or the small integers 1, 2, 3",
    "technique": "TLA+ spec + TLC model checking of the command chain + TLC trace validation of real CLI histories on spec-enumerated worlds",
}
