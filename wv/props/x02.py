"""X02 - growth of the specification: the alternative Solve actions of `whatshap phase`
(PedMecHeuristic, HapChatCore) and the read-merging stage (ReadMerger), each with the
contract it really has (AltSolve.tla).  Not a registered property."""
import json
import os
import shutil

from .. import tlc
from . import c01

PROP = "X02"
TRACE_MODULE = "X02_Trace"
EXHAUSTIVE = False
TASK_TIMEOUT = 90
NPROC = 8
SHARDS = 8
RULE = ("a scenario is one call of an alternative solver or of the read merger: (heur) PedMecHeuristic on TLC-enumerated tiny "
        "(Ped)MEC instances (Gen_C01) and seeded random instances (single/trio/quartet, trusted/distrust, weights, gaps, "
        "recombination costs incl. 0) with row limits 1..65535, allow_mutations on (as `whatshap phase` calls it) and off; "
        "(hapchat) HapChatCore on enumerated and random single-individual instances, one or several read blocks, gapless and "
        "gapped reads; (merge) ReadMerger.merge on random error-free and noisy read sets of an all-heterozygous sample, positions "
        "consecutive or spaced, five parameter sets; (pipeline) whole `whatshap phase --algorithm heuristic|hapchat "
        "[--merge-reads]` runs whose solver calls are recorded by the H1 hook. Non-trivial = two reads carry different alleles "
        "in a shared column (solvers) / at least two reads share a position (merger)")
ASSUMPTIONS = [
    "TLC evaluates AltSolve.tla by brute force: all admissible allele assignments per column (heuristic witness), all "
    "bipartitions (hapchat optimum and k-constrained optimum), all groupings of <= 6 reads (merger)",
    "heuristic domain: every pedigree individual owns a read or occurs in a trio (sample ids zero-based and consecutive, as "
    "the header of pedmecheuristic.h demands), read set sorted, positions and recombination costs of equal length",
    "hapchat constants as compiled in: alpha 0.01, error rate 0.05 (table KTab), homozygous option disabled, weights used",
    "merger thresholds >= 1; the functional model compares reads on the positions they share",
]

PARSETS = [
    {"e": 150, "maxerr": 250, "pos": 1000000, "neg": 1000},      # command-line defaults
    {"e": 150, "maxerr": 250, "pos": 100000, "neg": 1000},       # tests/test_merge_reads.py
    {"e": 150, "maxerr": 250, "pos": 20, "neg": 20},             # thresholds 2 / 2
    {"e": 500, "maxerr": 500, "pos": 2, "neg": 2},               # thresholds 1 / 1
    {"e": 250, "maxerr": 250, "pos": 10, "neg": 100},            # thresholds 2 / 3
]


def design_mc(ctx):
    q = ctx.quick
    out = []
    cfg = tlc.write_cfg(os.path.join(ctx.workdir, "beam.cfg"), spec="Spec", consts={"Sample": 150 if q else 8},
                        invariants=["Bookkeeping", "NeverEmpty", "WidthBound", "FinalSound", "ExactIfWide", "ObjectivesAgree"])
    r = tlc.model_check("MC_AltSolve", cfg=cfg, workers=8, timeout=3000)
    r["what"] = ("row-limited beam (duplicate merging + pruning rule of PedMecHeuristic::filterSolutions, exact incremental score): "
                 "result is a witness with cost >= PedMEC!OptCost, = OptCost when the beam keeps everything")
    out.append(r)
    cfg = tlc.write_cfg(os.path.join(ctx.workdir, "beamneg.cfg"), spec="Spec", consts={"Sample": 400},
                        invariants=["NarrowIsExact"])
    neg = tlc.model_check("MC_AltSolve", cfg=cfg, workers=4, timeout=3000)
    if neg["ok"] or "NarrowIsExact is violated" not in neg["out"]:
        raise tlc.TlcError("negative control failed: a beam of width 1 must miss the optimum of the Hard4 instances")
    ctx.notes["beam_negative_control"] = "width-1 beam misses the optimum of a 4-read instance (NarrowIsExact violated, as expected)"
    cfg = tlc.write_cfg(os.path.join(ctx.workdir, "merge.cfg"), spec="Spec", consts={"Sample": 40 if q else 3},
                        invariants=["PureModel", "OutIsPure", "GroupsAreCCs"])
    r = tlc.model_check("MC_MergeModel", cfg=cfg, workers=8, timeout=3000)
    r["what"] = ("read-merging model: for error-free reads of an all-heterozygous sample no group mixes the haplotypes, every "
                 "merged read is a copy of one haplotype, groups are the connected components of the link relation")
    out.append(r)
    cfg = tlc.write_cfg(os.path.join(ctx.workdir, "mergeneg.cfg"), spec="Spec", consts={"Sample": 40}, invariants=["NeverMerges"])
    neg = tlc.model_check("MC_MergeModel", cfg=cfg, workers=4, timeout=3000)
    if neg["ok"] or "NeverMerges is violated" not in neg["out"]:
        raise tlc.TlcError("negative control failed: the merge model must merge something")
    ctx.notes["merge_negative_control"] = "the model does merge reads (NeverMerges violated, as expected)"
    return out


# ----------------------------------------------------------------------------------------------
def _visible(inst):
    vis = {r["ind"] for r in inst["reads"]} | {x for t in inst["trios"] for x in t}
    return vis == set(range(1, len(vis) + 1)) and (len(vis) == inst["nInd"])


def _single(inst):
    return inst["nInd"] == 1 and not inst["trios"]


def rand_merge(rng):
    m = rng.randint(3, 9)
    scale = rng.choice([1, 1, 10])
    errfree = rng.random() < 0.6
    hA = [rng.randint(0, 1) for _ in range(m)]
    if rng.random() < 0.4:                       # alternating haplotypes: index-shifted comparisons look like matches
        hA = [(i + hA[0]) % 2 for i in range(m)]
    n = rng.randint(1, 5)
    gapp = rng.choice([0.0, 0.0, 0.25])
    reads, hap = [], []
    for _ in range(n):
        first = rng.choice([1, 1, 1, rng.randint(1, m - 1)])
        last = rng.randint(min(m, first + 1), m)
        cols = [first] + [c for c in range(first + 1, last) if rng.random() >= gapp] + [last]
        h = rng.randint(0, 1)
        wmax = rng.choice([1, 9, 30])
        cells = []
        for c in cols:
            a = hA[c - 1] if h == 0 else 1 - hA[c - 1]
            if not errfree and rng.random() < 0.2:
                a = 1 - a
            cells.append([c * scale, a, rng.randint(1, wmax)])
        reads.append(cells)
        hap.append(h)
    order = sorted(range(n), key=lambda i: reads[i][0][0])
    return {"kind": "merge", "reads": [reads[i] for i in order], "hap": [hap[i] for i in order], "errfree": errfree,
            "par": rng.choice(PARSETS + PARSETS[2:]), "scale": scale, "sid": rng.choice([0, 0, 1])}


def scenarios(ctx):
    q = ctx.quick
    rng = ctx.rng
    scs = []
    tiny = tlc.generate("Gen_C01", {"Sample": 7 if q else 2})
    ctx.notes["tlc_enumerated_instances"] = len(tiny)
    nh = nc = 0
    for i, t in enumerate(tiny):
        if t["m"] >= 1 and _visible(t) and (not q or i % 12 == 0):
            scs.append({"kind": "heur", "inst": t, "rl": [1, 2, 256, 65535][i % 4], "am": i % 5 != 0})
            nh += 1
        if _single(t) and t["reads"] and (not q or i % 12 == 1):
            scs.append({"kind": "hapchat", "inst": t})
            nc += 1
    ctx.notes["tlc_enumerated_used"] = {"heur": nh, "hapchat": nc}
    # ---- seeded random instances ----
    n = 1100 if q else 15000
    k = 0
    while k < n:
        inst = c01.rand_instance(rng, big=(k % 4 == 0))
        if not _visible(inst):
            continue
        k += 1
        sc = {"kind": "heur", "inst": inst, "rl": rng.choice([1, 2, 3, 8, 256, 256, 65535]), "am": rng.random() < 0.85}
        if inst["nInd"] > 1 and rng.random() < 0.25:     # phase.py numbers the children before their parents
            kids = [t[2] for t in inst["trios"]]
            sc["idperm"] = kids + [i for i in range(1, inst["nInd"] + 1) if i not in kids] if kids else \
                list(range(inst["nInd"], 0, -1))
        scs.append(sc)
    n = 800 if q else 10000
    k = 0
    while k < n:
        inst = c01.rand_instance(rng, kind="single", big=(k % 2 == 0))
        if not inst["reads"]:
            continue
        if k % 3 == 0:                           # gapless variant: the class with an optimality promise
            for r in inst["reads"]:
                c0, c1 = r["cells"][0][0], r["cells"][-1][0]
                have = {c[0]: c for c in r["cells"]}
                r["cells"] = [have.get(c, [c, rng.randint(0, 1), rng.randint(1, 3)]) for c in range(c0, c1 + 1)]
        if k % 5 == 0:
            for r in inst["reads"]:
                for cell in r["cells"]:
                    cell[2] = 1
        k += 1
        scs.append({"kind": "hapchat", "inst": inst})
    for _ in range(900 if q else 12000):
        scs.append(rand_merge(rng))
    # ---- hand-made boundary cases ----
    empty = {"nInd": 1, "trios": [], "m": 0, "rc": [], "reads": [], "distrust": False, "gt": [[]], "gl": [[]]}
    scs.append({"kind": "heur", "inst": empty, "rl": 256, "am": True})
    scs.append({"kind": "heur", "inst": empty, "rl": 256, "am": False})
    scs.append({"kind": "hapchat", "inst": empty})
    scs.append({"kind": "merge", "reads": [], "hap": [], "errfree": True, "par": PARSETS[0], "scale": 1})
    # ---- whole `whatshap phase` runs with the alternative algorithms ----
    from .. import phaseworld as PW
    for i in range(36 if q else 400):
        fam = rng.choice(["single", "single", "trio"])
        alg = rng.choice(["heuristic", "hapchat"]) if fam == "single" else "heuristic"
        ped = [["s1", "s2", "s3"]] if fam == "trio" else []
        w = PW.rand_world(rng, nsamples=3 if ped else 1, nchroms=1, ped=ped, max_sites=rng.choice([4, 6]), depth=(1, 2),
                          het_prob=0.8 if ped else 1.0, kinds=("snv",))
        for r in list(w["reads"]):
            if rng.random() < 0.3:
                w["reads"].append(dict(r, alleles=[rng.randint(0, 1) for _ in range(r["first"], r["last"] + 1)], gap=None, copies=1))
        w["errfree"] = False
        w["opts"] = {"ped": bool(ped), "max_coverage": 15, "distrust": False}
        scs.append({"kind": "pipeline", "world": w, "alg": alg, "merging": rng.random() < 0.3, "rl": rng.choice([2, 256])})
    return scs


# ----------------------------------------------------------------------------------------------
def _build(inst, idperm=None):
    from whatshap.core import ReadSet, Read, Pedigree, NumericSampleIds, Genotype, PhredGenotypeLikelihoods
    ids = NumericSampleIds()
    for i in idperm or []:                       # numeric ids in another order than the pedigree (phase.py: children first)
        ids[f"ind{i}"]
    ped = Pedigree(ids)
    for i in range(inst["nInd"]):
        gts = [Genotype([0] * (2 - g) + [1] * g) for g in inst["gt"][i]]
        gls = [PhredGenotypeLikelihoods([float(x) for x in t]) for t in inst["gl"][i]] if inst["distrust"] else None
        ped.add_individual(f"ind{i+1}", gts, gls)
    for f, mo, c in inst["trios"]:
        ped.add_relationship(f"ind{f}", f"ind{mo}", f"ind{c}")
    rs = ReadSet()
    for k, r in enumerate(inst["reads"]):
        rd = Read(f"r{k}", 50, 0, ids[f"ind{r['ind']}"])
        for c, a, w in r["cells"]:
            rd.add_variant(c * 10, a, w)
        rs.add(rd)
    rs.sort()                                    # what phase.py does (merge_readsets / all_reads.sort())
    order = [int(r.name[1:]) for r in rs]
    inst = dict(inst, reads=[inst["reads"][k] for k in order])
    return rs, ped, inst, {ids[f"ind{i+1}"]: i + 1 for i in range(inst["nInd"])}


def _project_sr(srs, m):
    out = []
    for s in srs:
        pair = []
        for h in range(2):
            d = {v.position: v.allele for v in s[h]} if len(s) == 2 else {}
            pair.append([int(d.get(c * 10, 9)) for c in range(1, m + 1)])
        out.append(pair)
    return out


def _cost4(x):
    x = float(x)
    if x != x or x in (float("inf"), float("-inf")) or abs(x) > 1e8:
        return 10 ** 9
    return int(round(4 * x))


def drive_heur(sc):
    from whatshap.core import PedMecHeuristic
    rs, ped, inst, ind_of = _build(sc["inst"], sc.get("idperm"))
    m = inst["m"]
    pos = [c * 10 for c in range(1, m + 1)]
    h = PedMecHeuristic(rs, list(inst["rc"]), ped, sc["rl"], bool(inst["distrust"]), pos, bool(sc["am"]), 0)
    srs, tv = h.get_super_reads()
    part = h.get_optimal_partitioning()
    cost = h.get_optimal_cost()
    mut = h.get_mutations()
    # the k-th super-read set belongs to the individual whose numeric id it carries; sr is logged BY INDIVIDUAL
    srind = [ind_of.get(s[0].sample_id, 0) if len(s) == 2 else 0 for s in srs]
    sr = _project_sr(srs, m)
    mutl = [[i + 1, int(hp), int(p) + 1] for i, lst in enumerate(mut) for hp, p in lst]
    if sorted(srind) == list(range(1, len(srs) + 1)):
        sr = [sr[srind.index(i)] for i in range(1, len(srs) + 1)]
        mutl = [[srind[x[0] - 1], x[1], x[2]] for x in mutl] if len(mut) == len(srs) else mutl
    return [{"ev": "HSolve", "inst": inst, "rl": sc["rl"], "am": bool(sc["am"]), "cost4": _cost4(cost),
             "part": [int(x) for x in part], "tv": [int(x) for x in tv], "nsr": len(srs), "sr": sr, "srind": srind,
             "mut": mutl, "nomut": False}]


def drive_hapchat(sc):
    from whatshap.core import HapChatCore
    rs, ped, inst, _ = _build(sc["inst"])
    hc = HapChatCore(rs)
    srs, _ = hc.get_super_reads()
    cost = hc.get_optimal_cost()
    e = {"ev": "CSolve", "inst": inst, "cost": int(cost), "nsr": len(srs), "cols0": [], "cols1": [], "h0": [], "h1": []}
    if len(srs) >= 1 and len(srs[0]) == 2:
        for k in (0, 1):
            e[f"cols{k}"] = [int(v.position) // 10 for v in srs[0][k]]
            e[f"h{k}"] = [int(v.allele) for v in srs[0][k]]
    return [e]


def drive_merge(sc):
    from whatshap.core import ReadSet, Read
    from whatshap.merge import ReadMerger
    rs = ReadSet()
    for k, cells in enumerate(sc["reads"]):
        rd = Read(f"r{k}", 50, 0, sc.get("sid", 0))
        for p, a, w in cells:
            rd.add_variant(p, a, w)
        rs.add(rd)
    par = sc["par"]
    import logging
    logging.disable(logging.ERROR)
    out = ReadMerger(par["e"] / 1000, par["maxerr"] / 1000, par["pos"], par["neg"]).merge(rs)
    return [{"ev": "Merge", "reads": sc["reads"], "par": par, "errfree": bool(sc["errfree"]), "hap": sc["hap"],
             "out": [[[int(v.position), int(v.allele), int(v.quality)] for v in r] for r in out],
             "sid": sc.get("sid", 0), "outsid": [int(r.sample_id) for r in out]}]


def _h1_event(h, alg, rl):
    """One raw H1 hook record (whatshap/_verif.py) as an HSolve / CSolve event."""
    fam = h["family"]
    ind = {s: i + 1 for i, s in enumerate(fam)}
    acc = h["accessible_positions"]
    col = {p: i + 1 for i, p in enumerate(acc)}
    m = len(acc)
    gls = h.get("likelihoods") or {}
    inst = {"nInd": len(fam), "trios": [[ind[x] for x in t] for t in h["trios"]], "m": m,
            "rc": [int(x) for x in h["recombination_costs"]][:m],
            "reads": [{"ind": ind.get(r["sample"], 1), "cells": [[col[p], int(a), int(w)] for p, a, w in r["vars"] if p in col]}
                      for r in h["reads"]],
            "distrust": bool(h["distrust_genotypes"]),
            "gt": [[sum(g) if len(g) == 2 else 0 for g in h["genotypes"][s]] for s in fam],
            "gl": [[[int(round(v)) for v in (g or [0, 0, 0])] for g in gls.get(s, [None] * m)] for s in fam]}
    srs = []
    for s in fam:
        if s in h["superreads"]:
            pair = []
            for hap in h["superreads"][s]:
                d = {p: a for p, a, _ in hap}
                pair.append([int(d.get(p, 9)) for p in acc])
            srs.append(pair)
    if alg == "heuristic":
        return {"ev": "HSolve", "inst": inst, "rl": rl, "am": True, "cost4": 4 * int(h["cost"]), "part": h["partition"],
                "tv": h["transmission_vector"] or [0] * m, "nsr": len(srs), "sr": srs, "srind": list(range(1, len(srs) + 1)),
                "mut": [], "nomut": True, "src": "pipeline"}
    e = {"ev": "CSolve", "inst": inst, "cost": int(h["cost"]), "nsr": len(srs), "cols0": [], "cols1": [], "h0": [], "h1": [],
         "src": "pipeline"}
    if srs:
        for k in (0, 1):
            e[f"cols{k}"] = [c for c, a in zip(range(1, m + 1), srs[0][k]) if a != 9]
            e[f"h{k}"] = [a for a in srs[0][k] if a != 9]
    return e


def drive_pipeline(sc):
    from .. import phaseworld as PW
    from whatshap.cli.phase import run_whatshap
    import logging
    logging.disable(logging.ERROR)
    wd = sc["world"]
    d = PW.workdir()
    try:
        paths = PW.materialise(wd, d)
        o = wd.get("opts", {})
        trace = os.path.join(d, "h1.ndjson")
        os.environ["WHATSHAP_VERIF_TRACE"] = trace
        exc = ""
        try:
            run_whatshap(phase_input_files=[paths["bam"]], variant_file=paths["vcf"], reference=paths["ref"],
                         output=os.path.join(d, "out.vcf"), max_coverage=o.get("max_coverage", 15),
                         distrust_genotypes=o.get("distrust", False), ped=paths["ped"] if o.get("ped") else None,
                         algorithm=sc["alg"], read_merging=bool(sc["merging"]), row_limit=sc["rl"],
                         write_command_line_header=False)
        except Exception as e:  # noqa: an exception of the command is the observation
            exc = type(e).__name__ + ":" + str(e)[:150]
        finally:
            os.environ.pop("WHATSHAP_VERIF_TRACE", None)
        h1 = []
        if os.path.exists(trace):
            with open(trace) as fh:
                h1 = [json.loads(x) for x in fh if x.strip()]
    finally:
        shutil.rmtree(d, ignore_errors=True)
    evs = [{"ev": "PRun", "alg": sc["alg"], "merging": bool(sc["merging"]), "exc": exc}]
    lim = {0: 9, 1: 6}
    for h in h1:
        if len(h["reads"]) <= lim.get(len(h["trios"]), 4) and len(h["accessible_positions"]) <= 8:
            evs.append(_h1_event(h, sc["alg"], sc["rl"]))
    return evs


def drive(sc):
    return {"heur": drive_heur, "hapchat": drive_hapchat, "merge": drive_merge, "pipeline": drive_pipeline}[sc["kind"]](sc)


# ----------------------------------------------------------------------------------------------
def _conflict(reads):
    seen = {}
    for r in reads:
        for c, a, _ in r["cells"]:
            if seen.setdefault((r["ind"], c), a) != a:
                return True
    return False


def nontrivial(sc, events):
    for e in events:
        if e.get("ev") in ("HSolve", "CSolve") and _conflict(e["inst"]["reads"]):
            return True
        if e.get("ev") == "Merge":
            ps = [p for r in e["reads"] for p, _, _ in r]
            if len(ps) != len(set(ps)):
                return True
    return False


def _blocks(inst):
    n, mx = 0, -1
    for r in sorted(inst["reads"], key=lambda r: r["cells"][0][0]):
        if r["cells"][0][0] > mx:
            n += 1
        mx = max(mx, r["cells"][-1][0])
    return n


def _gapped(reads):
    return any(r["cells"][-1][0] - r["cells"][0][0] + 1 != len(r["cells"]) for r in reads)


def signature(sc, events, clause):
    k = sc.get("kind")
    if k == "heur":
        i = sc["inst"]
        if clause in ("HReportedCostIsWitnessCost", "HPartitionLabelsSuperReads"):
            return "heur"                       # independent of the instance class
        rc0 = [0] + list(i["rc"][1:])               # recombcost[0] is never copied by the constructor
        zero = any((rc0[c] + rc0[c + 1] if c + 1 < i["m"] else rc0[c]) == 0 for c in range(i["m"]))
        if sc.get("idperm") and sc["idperm"] != sorted(sc["idperm"]):
            return "heur ids_in_pedigree_order=False"
        if not sc["am"] and i["trios"]:
            return "heur allow_mutations=False trios>0"
        if i["distrust"] and zero:
            return "heur distrust=True zero_mutation_cost_column=True"
        if i["m"] == 0:
            return f"heur m=0 rc_empty={not i['rc']} allow_mutations={bool(sc['am'])}"
        return f"heur allow_mutations={bool(sc['am'])} distrust={bool(i['distrust'])} trios={len(i['trios'])}"
    if k == "hapchat":
        i = sc["inst"]
        return "hapchat blocks=>1" if _blocks(i) > 1 else f"hapchat blocks=1 gapped_reads={_gapped(i['reads'])}"
    if k == "merge":
        rd = [{"cells": r} for r in sc["reads"]]
        if clause == "MKeepsSampleId":
            return f"merge sample_id={'0' if sc.get('sid', 0) == 0 else '>0'}"
        return f"merge positions_consecutive={sc['scale'] == 1 and not _gapped(rd)} errfree={bool(sc['errfree'])}"
    if k == "pipeline":
        if clause in ("HReportedCostIsWitnessCost", "HPartitionLabelsSuperReads"):
            return "heur"
        ev = next((e for e in events if e.get("ev") in ("HSolve", "CSolve")), None)
        extra = ""
        if ev is not None and ev.get("ev") == "CSolve":
            extra = " blocks=>1" if _blocks(ev["inst"]) > 1 else f" blocks=1 gapped_reads={_gapped(ev['inst']['reads'])}"
        return f"pipeline alg={sc['alg']} merging={bool(sc['merging'])} ped={bool(sc['world']['opts'].get('ped'))}" + extra
    return "?"


def selftest_corrupt(events):
    done = set()
    for e in events:
        if e["ev"] == "CSolve" and "c" not in done and e["nsr"] == 1 and e["cost"] > 0 and not _gapped(e["inst"]["reads"]) \
                and _blocks(e["inst"]) == 1:
            e["cost"] += 1
            done.add("c")
        elif e["ev"] == "Merge" and "m" not in done and len(e["out"]) < len(e["reads"]) and e["out"]:
            e["out"][0][0][2] += 1
            done.add("m")
        elif e["ev"] == "HSolve" and "h" not in done and e["nsr"] >= 1 and e["inst"]["m"] >= 1 and e["am"] \
                and not e["inst"]["distrust"] and e["inst"]["gt"][0][0] == 1 and len(e["sr"]) >= 1:
            e["sr"][0][0][0] = 1 - e["sr"][0][0][0]      # breaks the genotype of individual 1 in column 1
            done.add("h")
    return events


MANIFEST = {
    "text": "AltSolve.tla specifies the alternative Solve actions and the merge stage with their own contracts: PedMecHeuristic "
            "returns a witness (bipartition, transmission vector, super-reads that are a cheapest admissible allele choice for "
            "that witness under ITS objective with de-novo mutation costs, trusted genotypes respected, reported cost = cost of "
            "the witness, reported mutations = Mendelian conflicts of the super-reads); HapChatCore returns complementary "
            "haplotypes over all read positions, a cost realised by some bipartition, >= the all-heterozygous optimum and = "
            "the k-constrained optimum for gapless single-block input; ReadMerger returns the merge of a grouping of the reads, "
            "the grouping of the functional model (links on shared positions), never mixing haplotypes of error-free input. "
            "TLC judges every recorded call; MC_AltSolve model-checks the row-limited beam (sound always, exact when wide), "
            "MC_MergeModel the purity theorem of the merge model.",
    "note": "not registered (spec growth). Optimality of the real heuristic is NOT claimed nor judged: its score double-counts.",
    "technique": "TLA+ contracts + TLC brute-force evaluation per recorded call (trace validation) + TLC model checking of the beam and merge designs",
}
