"""C11 - `whatshap compare` reports the defined error counts, independent of haplotype labelling."""
import contextlib
import io
import os
import shutil
import tempfile

from .. import tlc

PROP = "C11"
TRACE_MODULE = "C11_Trace"
EXHAUSTIVE = False  # families with every_kth_of_the_space = 1 (see evidence notes) are complete, the others are strided samples
NPROC = 8
SHARDS = 8
TASK_TIMEOUT = 300
RULE = ("a scenario is one world of 2 or 3 phased VCFs with up to 16 chromosomes; every chromosome carries one tuple of phasings "
        "(TLC-enumerated by Gen_C11: all diploid pairs over 1-3 sites with phase sets {unphased,1,2}, with homozygous/missing "
        "records, 4-5 sites with one vs two phase sets, single blocks of 6-7 sites, diploid triples, triploid pairs over 2-3 sites, "
        "tetraploid pairs over 2 sites, diploid pairs over 2 sites with alleles 0-2; plus seeded random tuples with up to 12 sites, 4 phase sets, interleaved phase sets, "
        "near-identical and identical phasings; and seeded noisy tetraploid/triploid single blocks of 5-7 variants with identical genotypes and 10-40 % switches/flips; a sample of every family and 15-30 % of the random tuples are additionally decorated with variant kinds: at some positions, "
        "preferably inside intersection blocks, one file or every file carries ANOTHER variant at the same POS - another ALT base, an insertion, "
        "a deletion with a longer REF - or all files carry the same non-default variant) and one TLC-enumerated group element (a haplotype permutation per file and phase "
        "set). `run_compare` is executed on the files as generated (PS / HP / implicit-PS encodings) and on the re-listed files; "
        "both runs are judged against the definitions and against each other. Non-trivial = some chromosome has an intersection "
        "block with Hamming distance > 0 and the group element is not the identity on a phase set present in the files")
ASSUMPTIONS = [
    "TLC evaluates the brute-force definitions of Compare.tla (minimum over all haplotype correspondences / correspondence sequences)",
    "a variant is identified by position, REF and ALT: a position at which the compared files carry different records is not a common "
    "variant and is judged as absent from the comparison (C11_Trace.OnCommon), for a pair by the two files, for the multiway table by all files",
    "the definitions are judged on bi-allelic variants (compare_block documents haplotype strings over {0,1}); worlds with multi-allelic "
    "variants (compare opens its inputs with mav=True) are judged only by the clauses that need no further definition: Returns, "
    "IntersectionBlocks, GenotypeDiffsAreDefinition, SwitchFlipIdentity, ZeroForIdentical, PermutationInvariance",
    "polyploid switch errors and switch/flip minima are evaluated with the recurrences SwCol/SFCol, which MC_Compare proves equal "
    "to the brute-force minimum over all correspondence sequences only for ploidy 2 (<= 5-6 sites), 3 (<= 2-3 sites), 4 (<= 2 sites)",
    "for ploidy > 2 any minimum-cost switch/flip decomposition is accepted (the definition does not single one out); the identity "
    "switches = s + 2f is a diploid statement and is judged for ploidy 2 only",
    "error counts are compared in haplotype units (ploidy x printed value, which must be integral)",
    "a tie for the longest intersection block may be resolved as any longest block",
    "BED / longest-block coordinates are accepted 0- or 1-based (the statement fixes counts and variants, not the coordinate convention)",
]
KCHROM = 16


# ---------------------------------------------------------------------------------------------- design level
def _mc(ctx, name, P, maxn, nf, bs, invs, timeout=2400):
    cfg = tlc.write_cfg(os.path.join(ctx.workdir, f"mc_{name}.cfg"), spec="Spec",
                        consts={"P": P, "MaxN": maxn, "NF": nf}, subst={"BlkSets": bs},
                        invariants=invs, properties=["RelistInvariant"])
    r = tlc.model_check("MC_Compare", cfg=cfg, workers=8, timeout=timeout)
    r["what"] = (f"MC_Compare[{name}] ploidy {P}, {nf} phasings, <= {maxn} sites, phase set ids {bs[3:]}: "
                 + ", ".join(invs) + ", RelistInvariant")
    return r


D2 = ["Identity", "ZeroWhenSame", "HapChoiceIrrelevant", "AgreementIsHamming", "BedIsSwitches"]
BF = ["GeneralIsDiploid", "DPIsBruteForce"]


def design_mc(ctx):
    q = ctx.quick
    out = []
    if q:
        out.append(_mc(ctx, "d2blocks", 2, 2, 2, "BS_012_012", D2 + BF))
        out.append(_mc(ctx, "d2single", 2, 5, 2, "BS_1_1", D2 + BF))
        out.append(_mc(ctx, "p3", 3, 2, 2, "BS_1_1", ["ZeroWhenSame", "DPIsBruteForce"]))
        out.append(_mc(ctx, "multi", 2, 2, 3, "BS_01_01_01", ["MultiwaySums", "ZeroWhenSame"]))
    else:
        out.append(_mc(ctx, "d2blocks", 2, 3, 2, "BS_012_012", D2))
        out.append(_mc(ctx, "d2split", 2, 4, 2, "BS_1_12", D2 + BF))
        out.append(_mc(ctx, "d2single", 2, 6, 2, "BS_1_1", D2 + BF))
        out.append(_mc(ctx, "p3blocks", 3, 2, 2, "BS_01_01", ["ZeroWhenSame", "DPIsBruteForce"]))
        out.append(_mc(ctx, "p3single", 3, 3, 2, "BS_1_1", ["ZeroWhenSame", "DPIsBruteForce"]))
        out.append(_mc(ctx, "p4", 4, 2, 2, "BS_1_1", ["ZeroWhenSame", "DPIsBruteForce"]))
        out.append(_mc(ctx, "multi", 2, 2, 3, "BS_01_01_01", ["MultiwaySums", "ZeroWhenSame"]))
        out.append(_mc(ctx, "multi3", 2, 3, 3, "BS_12_1_01", ["MultiwaySums", "ZeroWhenSame"]))
        out.append(_mc(ctx, "multi4", 2, 4, 3, "BS_1_1_12", ["MultiwaySums"]))
    return out


# ---------------------------------------------------------------------------------------------- scenarios
def _gen(ctx, P, N, NF, A, B, C="{}", holes=False, stride=1, gstride=1, na=2):
    consts = {"P": P, "N": N, "NF": NF, "NA": na, "BlkA": A, "BlkB": B, "BlkC": C, "Holes": "TRUE" if holes else "FALSE",
              "Stride": stride, "Offset": ctx.seed % stride, "GStride": gstride}
    lines = tlc.generate("Gen_C11", consts, timeout=3000, xmx="8g")
    ins = [x["F"] for x in lines if x["k"] == "in"]
    gs = [x["g"] for x in lines if x["k"] == "g"]
    return ins, gs


def _is_identity_on(F, g):
    for f, A in enumerate(F):
        ids = {s["b"] for s in A if s["b"] > 0 and s["a"]}
        for b in ids:
            pi = g[f][b - 1] if b - 1 < len(g[f]) else None
            if pi is not None and pi != list(range(1, len(pi) + 1)):
                return False
    return True


ENCS = ["PS", "HP", "PS0"]


def _batch(scs, p, nf, items, rng, src, mav=False):
    """items: list of (F, g) or (F, g, V).  Pack KCHROM chromosomes per world."""
    for i in range(0, len(items), KCHROM):
        part = items[i:i + KCHROM]
        enc0 = [rng.choice(ENCS) for _ in range(nf)]
        enc1 = list(enc0) if rng.random() < 0.5 else [rng.choice(ENCS) for _ in range(nf)]
        scs.append({"p": p, "nf": nf, "src": src, "mav": mav, "enc0": enc0, "enc1": enc1,
                    "chroms": [({"F": it[0], "g": it[1], "V": it[2]} if len(it) > 2 else {"F": it[0], "g": it[1]})
                               for it in part]})


# Variant kinds: what the record of a site looks like in one file.  Kind 0 is the default record; the other kinds
# are OTHER variants anchored at the same POS (another ALT base, an insertion, a deletion with a longer REF).
# Two files have a site in common only if they carry the same kind there (same POS, REF and ALT).
KINDS = {False: [("A", "C"), ("A", "T"), ("A", "AT"), ("AG", "A")],
         True: [("A", "C,G"), ("A", "T,G"), ("A", "C,AT"), ("AG", "A,CG")]}


def _zero_kinds(F):
    return [[0] * len(A) for A in F]


def _with_kinds(rng, F, g):
    """Decorate a tuple of phasings with variant kinds per file and site: at 1..n/3+1 sites (preferably sites that are
    heterozygous and phased in every file, i.e. inside intersection blocks) either one file, or every file independently,
    or all files alike carry another variant at that position."""
    n, nf = len(F[0]), len(F)
    V = _zero_kinds(F)
    joint = [s for s in range(n) if all(A[s]["a"] and len(set(A[s]["a"])) > 1 and A[s]["b"] > 0 for A in F)]
    pool = joint if joint and rng.random() < 0.85 else list(range(n))
    for s in rng.sample(pool, min(len(pool), rng.randint(1, n // 3 + 1))):
        r = rng.random()
        if r < 0.55:
            V[rng.randrange(nf)][s] = rng.randint(1, 3)
        elif r < 0.8:
            for f in range(nf):
                V[f][s] = rng.randint(0, 3)
        else:
            k = rng.randint(1, 3)
            for f in range(nf):
                V[f][s] = k
    return F, g, V


def _common(F, V):
    """the phasings restricted to the common variants: a site whose variant kind differs between the files is absent"""
    if not V:
        return F
    return [[s if len({Vf[k] for Vf in V}) == 1 else {"b": 0, "a": []} for k, s in enumerate(A)] for A in F]


def _combine(ins, gs, rng, per=1):
    out = []
    k = rng.randrange(len(gs))
    for F in ins:
        tried = 0
        for _ in range(per):
            # walk through the group elements; prefer one that is not the identity on this tuple
            for _ in range(len(gs)):
                k = (k + 1) % len(gs)
                if not _is_identity_on(F, gs[k]) or tried > 4:
                    break
                tried += 1
            out.append((F, gs[k]))
    return out


def _rand_perm(rng, p):
    x = list(range(1, p + 1))
    rng.shuffle(x)
    return x


def _rand_tuple(rng, p, nf, n, maxblk, kind, na=2):
    if na == 2:
        het = [[(m >> k) & 1 for k in range(p)] for m in range(1, 2 ** p - 1)]
    else:
        import itertools
        het = [list(t) for t in itertools.product(range(na), repeat=p) if len(set(t)) > 1]
    def rnd_phasing():
        A = []
        contiguous = rng.random() < 0.6
        cur = 1
        for s in range(n):
            if contiguous:
                if rng.random() < 0.25 and cur < maxblk:
                    cur += 1
                b = 0 if rng.random() < 0.1 else cur
            else:
                b = rng.randint(0, maxblk)
            A.append({"b": b, "a": list(rng.choice(het))})
        return A
    A = rnd_phasing()
    F = [A]
    for _ in range(nf - 1):
        if kind == "random":
            B = rnd_phasing()
        else:
            # a copy of A with a few switch errors, flips, genotype changes, split / merged phase sets
            B = [{"b": s["b"], "a": list(s["a"])} for s in A]
            if kind == "near":
                for _ in range(rng.randint(0, 3)):
                    t = rng.randrange(n)
                    op = rng.random()
                    if op < 0.4:      # switch: re-pair the haplotypes from t on
                        pi = _rand_perm(rng, p)
                        for s in range(t, n):
                            B[s]["a"] = [B[s]["a"][pi[k] - 1] for k in range(p)]
                    elif op < 0.7:    # flip one site
                        pi = _rand_perm(rng, p)
                        B[t]["a"] = [B[t]["a"][pi[k] - 1] for k in range(p)]
                    elif op < 0.8 and p > 2:
                        B[t]["a"] = list(rng.choice(het))
                    elif op < 0.9:    # split the phase set at t
                        for s in range(t, n):
                            if B[s]["b"] > 0:
                                B[s]["b"] += maxblk
                    else:
                        B[t]["b"] = 0
        F.append(B)
    if rng.random() < 0.3:  # holes
        for A_ in F:
            for s in range(n):
                r = rng.random()
                if r < 0.06:
                    A_[s] = {"b": 0, "a": []}
                elif r < 0.12:
                    A_[s] = {"b": 0, "a": [0] * p}
    ids = max([s["b"] for A_ in F for s in A_] + [1])
    g = [[_rand_perm(rng, p) if rng.random() < 0.6 else list(range(1, p + 1)) for _ in range(ids)] for _ in range(nf)]
    return F, g


def _noisy_block(rng, p, n):
    """One phase set in both files, identical genotypes at every site: B is A with 10-40 % of the
    positions hit by a switch (haplotypes re-paired from that position on) or a genotype-preserving
    flip (the alleles of one site re-distributed over the haplotypes).  These are the blocks on which
    the implementation's column pruning matters (many near-optimal correspondence sequences)."""
    het = [[(m >> k) & 1 for k in range(p)] for m in range(1, 2 ** p - 1)]
    A = [{"b": 1, "a": list(rng.choice(het))} for _ in range(n)]
    B = [{"b": 1, "a": list(s["a"])} for s in A]
    rate = rng.uniform(0.1, 0.4)
    for t in range(n):
        if rng.random() < rate:
            pi = _rand_perm(rng, p)
            if rng.random() < 0.5:
                for s in range(t, n):
                    B[s]["a"] = [B[s]["a"][pi[k] - 1] for k in range(p)]
            else:
                B[t]["a"] = [B[t]["a"][pi[k] - 1] for k in range(p)]
    if rng.random() < 0.3:      # fully random second phasing with the same genotypes
        for t in range(n):
            pi = _rand_perm(rng, p)
            B[t]["a"] = [A[t]["a"][pi[k] - 1] for k in range(p)]
    g = [[_rand_perm(rng, p)], [_rand_perm(rng, p)]]
    return [A, B], g


def scenarios(ctx):
    q = ctx.quick
    rng = ctx.rng
    scs = []
    notes = {}

    def add(name, p, nf, per, *a, **kw):
        ins, gs = _gen(ctx, p, *a, **kw)
        notes[name] = {"tuples": len(ins), "group_elements": len(gs), "every_kth_of_the_space": kw.get("stride", 1)}
        _batch(scs, p, nf, _combine(ins, gs, rng, per), rng, name, mav=kw.get("na", 2) > 2)
        # a sample of the same tuples again, with different variants at the same position in the files
        extra = _combine(ins, gs, rng, 1)
        extra = rng.sample(extra, min(len(extra), nd))
        notes[name]["with_other_variant_at_same_position"] = len(extra)
        _batch(scs, p, nf, [_with_kinds(rng, F, g) for F, g in extra], rng, name + "+alleles", mav=kw.get("na", 2) > 2)

    S012 = "{0, 1, 2}"
    per = 1 if q else 2
    nd = KCHROM if q else 16 * KCHROM
    add("d2_n1_holes", 2, 2, per, 1, 2, S012, S012, holes=True)
    add("d2_n2_holes", 2, 2, per, 2, 2, S012, S012, holes=True)
    add("d2_n3_blocks", 2, 2, per, 3, 2, S012, S012, stride=4 if q else 1)
    add("d2_n3_holes", 2, 2, 1, 3, 2, "{0, 1}", "{0, 1}", holes=True, stride=8 if q else 1)
    add("d2_n4_split", 2, 2, per, 4, 2, "{1}", "{1, 2}")
    add("d2_n5_split", 2, 2, 1, 5, 2, "{1}", "{1, 2}", stride=16 if q else 1)
    add("d2_n6_single", 2, 2, 1, 6, 2, "{1}", "{1}", stride=4 if q else 1)
    add("d2_n7_single", 2, 2, 1, 7, 2, "{1}", "{1}", stride=16 if q else 1)
    add("d2x3_n2", 2, 3, 1, 2, 3, "{0, 1}", "{0, 1}", "{0, 1}", stride=4 if q else 1)
    add("d2x3_n3_single", 2, 3, per, 3, 3, "{1}", "{1}", "{1}")
    add("d2x3_n3_blocks", 2, 3, 1, 3, 3, "{1, 2}", "{1}", "{0, 1}", stride=16 if q else 2)
    add("p3_n2_blocks", 3, 2, 1, 2, 2, "{0, 1}", "{0, 1}", stride=16 if q else 1)
    add("p3_n3_single", 3, 2, 1, 3, 2, "{1}", "{1}", stride=64 if q else 4)
    add("p4_n2_single", 4, 2, 1, 2, 2, "{1}", "{1}", stride=128 if q else 8, gstride=7)
    add("d2_n2_multiallelic", 2, 2, 1, 2, 2, "{1}", "{1}", na=3, stride=4 if q else 1)
    ctx.notes["tlc_enumerated"] = notes
    # ---- seeded random, beyond the enumeration bound ----
    nr = 120 if q else 1500
    for i in range(nr):
        p = rng.choice([2, 2, 2, 3, 4])
        nf = rng.choice([2, 2, 3]) if p == 2 else 2
        items = []
        for _ in range(KCHROM if p == 2 else 6):
            n = rng.randint(2, 12) if p == 2 else (rng.randint(2, 6) if p == 3 else rng.randint(2, 4))
            kind = rng.choice(["random", "near", "near", "same"])
            it = _rand_tuple(rng, p, nf, n, rng.randint(1, 4), kind)
            items.append(_with_kinds(rng, *it) if rng.random() < 0.3 else it)
        _batch(scs, p, nf, items, rng, "random")
    # noisy polyploid single blocks of 5-7 variants (tetraploid mostly): 8 blocks per world
    nn = 120 if q else 1200
    for i in range(nn):
        p = 4 if i % 4 else 3
        items = [_noisy_block(rng, p, rng.randint(5, 7)) for _ in range(8)]
        items = [_with_kinds(rng, *it) if rng.random() < 0.15 else it for it in items]
        _batch(scs, p, 2, items, rng, "noisy_polyploid")
    ctx.notes["noisy_polyploid_blocks"] = {"worlds": nn, "blocks": 8 * nn, "ploidy4": 8 * sum(1 for i in range(nn) if i % 4)}
    nm = 10 if q else 100
    for i in range(nm):
        items = [_rand_tuple(rng, 2, 2, rng.randint(2, 6), rng.randint(1, 2), rng.choice(["random", "near", "same"]), na=3)
                 for _ in range(4)]
        items = [_with_kinds(rng, *it) if rng.random() < 0.3 else it for it in items]
        _batch(scs, 2, 2, items, rng, "random_multiallelic", mav=True)
    # polyploid blocks with multi-allelic sites (alleles 0..2): small enough for the brute-force definitions
    npm = 30 if q else 400
    for i in range(npm):
        pp = 3 if i % 2 else 4
        items = [_rand_tuple(rng, pp, 2, rng.randint(2, 3) if pp == 3 else 2, 1, rng.choice(["random", "near", "near"]), na=3)
                 for _ in range(4)]
        items = [_with_kinds(rng, *it) if rng.random() < 0.3 else it for it in items]
        _batch(scs, pp, 2, items, rng, "polyploid_multiallelic", mav=True)
    ctx.notes["polyploid_multiallelic_worlds"] = npm
    ctx.notes["random_worlds"] = nr
    ctx.notes["random_multiallelic_worlds"] = nm
    return scs


# ---------------------------------------------------------------------------------------------- driver
def _apply(F, g):
    out = []
    for f, A in enumerate(F):
        B = []
        for s in A:
            if s["b"] > 0 and s["a"] and s["b"] - 1 < len(g[f]):
                pi = g[f][s["b"] - 1]
                B.append({"b": s["b"], "a": [s["a"][pi[k] - 1] for k in range(len(pi))]})
            else:
                B.append({"b": s["b"], "a": list(s["a"])})
        out.append(B)
    return out


def _records(chrom, ci, f, A, enc, p, mav=False, Vf=None):
    """VCF records of file f for one chromosome.  site s (1-based) -> POS 10*s; Vf[s-1] = variant kind (REF/ALT) of the site."""
    recs = []
    ids = sorted({s["b"] for s in A if s["b"] > 0 and s["a"]})
    implicit = ids[0] if (enc == "PS0" and ids) else None
    for k, s in enumerate(A, start=1):
        a, b = s["a"], s["b"]
        ref, alt = KINDS[bool(mav)][Vf[k - 1] if Vf else 0]
        base = {"chrom": chrom, "pos": 10 * k, "ref": ref, "alt": alt}
        if not a:
            if (k + f + ci) % 2 == 0:
                continue  # no record
            base["ref"] = "A"
            base["alt"] = "G,T" if mav else "G"  # same position, other ALT allele(s): not a common variant
            a = [0] * (p - 1) + [1]
            b = 0
        het = any(x != a[0] for x in a)
        if b > 0 and het:
            ps = 100 + 7 * b + f
            if enc == "HP":
                order = sorted(range(p), key=lambda h: (a[h], h))   # GT sorted; HP tells the haplotype of each GT allele
                gt = "/".join(str(a[h]) for h in order)
                hp = ",".join(f"{ps}-{h + 1}" for h in order)
                base.update(fmt=["GT", "HP"], calls=[[gt, hp]])
            elif b == implicit:
                base.update(fmt=["GT"], calls=[["|".join(map(str, a))]])
            else:
                base.update(fmt=["GT", "PS"], calls=[["|".join(map(str, a)), str(ps)]])
        else:
            gt = "/".join(map(str, sorted(a)))
            if enc == "HP":
                base.update(fmt=["GT", "HP"], calls=[[gt, "."]])
            elif (k + f) % 2:
                base.update(fmt=["GT", "PS"], calls=[[gt, "."]])
            else:
                base.update(fmt=["GT"], calls=[[gt]])
        recs.append(base)
    if not recs:  # keep the chromosome present in every file
        recs.append({"chrom": chrom, "pos": 5, "ref": "A", "alt": "C", "fmt": ["GT"], "calls": [["/".join(["0"] * p)]]})
    return recs


def _site(pos):
    if pos % 10 == 0:
        return pos // 10
    if (pos + 1) % 10 == 0:
        return (pos + 1) // 10
    return -1


def _units(txt, p):
    try:
        v = float(txt) * p
    except ValueError:
        return -1
    r = round(v)
    return int(r) if abs(v - r) < 1e-6 and r >= 0 else -1


def _run(tmp, tag, p, nf, chroms, Fs, encs, mav=False, Vs=None):
    """Write the VCFs for the given chromosomes, run compare, parse all outputs.
    Returns (rows, agree, bed, multi, exc)."""
    from wv.world import write_vcf
    from whatshap.cli.compare import run_compare
    import traceback
    files = []
    names = [f"c{ci:02d}" for ci in chroms]
    for f in range(nf):
        recs = []
        for ci in chroms:
            recs.extend(_records(f"c{ci:02d}", ci, f, Fs[ci][f], encs[f], p, mav, Vs[ci][f] if Vs else None))
        path = os.path.join(tmp, f"{tag}_{f}.vcf")
        write_vcf(path, ["s1"], [(n, 1000) for n in names], recs, fmt_keys=("GT", "PS", "HP"), info_keys=(), filters=())
        files.append(path)
    outs = {k: os.path.join(tmp, f"{tag}.{k}") for k in ("pw", "lb", "bed", "mw")}
    kw = {"tsv_pairwise": outs["pw"]}
    if p == 2:
        kw.update(longest_block_tsv=outs["lb"], switch_error_bed=outs["bed"])
        if nf > 2:
            kw.update(tsv_multiway=outs["mw"])
    exc = None
    try:
        with contextlib.redirect_stdout(io.StringIO()):
            run_compare(vcf=files, ploidy=p, **kw)
    except BaseException as e:  # noqa - recorded, judged by the trace spec (clause Returns)
        if isinstance(e, (KeyboardInterrupt, MemoryError)):
            raise
        tb = traceback.extract_tb(e.__traceback__)
        named = [fr.name for fr in tb if not fr.name.startswith("<")]
        exc = {"exc": type(e).__name__, "where": named[-1] if named else "", "msg": str(e)[:200]}
    rows, agree, bed, multi = {}, {}, {}, {}
    def lines(path):
        if not os.path.exists(path):
            return []
        with open(path) as fh:
            return [l.rstrip("\n").split("\t") for l in fh if l.strip()]
    pw = lines(outs["pw"])
    if pw:
        hdr = [h.lstrip("#") for h in pw[0]]
        for l in pw[1:]:
            if len(l) != len(hdr):
                continue
            d = dict(zip(hdr, l))
            key = (d["chromosome"], int(d["dataset_name0"][4:]), int(d["dataset_name1"][4:]))
            def sf(txt):
                a, _, b = txt.partition("/")
                return _units(a, p), _units(b, p)
            s1, f1 = sf(d["all_switchflips"])
            s2, f2 = sf(d["largestblock_switchflips"])
            rows[key] = (
                {"nblk": int(d["intersection_blocks"]), "cov": int(d["covered_variants"]), "pairs": int(d["all_assessed_pairs"]),
                 "sw": _units(d["all_switches"], p), "sfs": s1, "sff": f1, "ham": _units(d["blockwise_hamming"], p),
                 "dg": int(d["blockwise_diff_genotypes"])},
                {"pairs": int(d["largestblock_assessed_pairs"]), "sw": _units(d["largestblock_switches"], p), "sfs": s2, "sff": f2,
                 "ham": _units(d["largestblock_hamming"], p), "dg": int(d["largestblock_diff_genotypes"])})
    for l in lines(outs["lb"])[1:]:
        key = (l[3], int(l[0][4:]), int(l[1][4:]))
        agree.setdefault(key, []).append([_site(int(l[4])), int(l[5])])
    for l in lines(outs["bed"]):
        a, _, b = l[3].partition("<-->")
        key = (l[0], int(a[4:]), int(b[4:]))
        bed.setdefault(key, []).append([_site(int(l[1])), _site(int(l[2]))])
    for l in lines(outs["mw"])[1:]:
        right = [int(x[4:]) + 1 for x in l[3].strip("{}").split(",") if x]
        multi.setdefault(l[1], []).append([sorted(right), int(l[4])])
    return rows, agree, bed, multi, exc


def _events(run, p, nf, chroms, Fs, res, mav=False, Vs=None):
    rows, agree, bed, multi, exc = res
    evs = []
    for ci in chroms:
        cn = f"c{ci:02d}"
        V = Vs[ci] if Vs else _zero_kinds(Fs[ci])
        for i in range(nf):
            for j in range(i + 1, nf):
                key = (cn, i, j)
                if key not in rows:
                    if exc is None:
                        evs.append({"ev": "RunFailed", "run": run, "chrom": ci, "exc": "MissingRow", "where": f"pair {i},{j}"})
                    continue
                row, lrow = rows[key]
                evs.append({"ev": "Pair", "run": run, "chrom": ci, "i": i + 1, "j": j + 1, "p": p, "mav": mav,
                            "F": [Fs[ci][i], Fs[ci][j]], "V": [V[i], V[j]], "row": row, "lrow": lrow, "aux": p == 2,
                            "bed": bed.get(key, []), "agree": agree.get(key, [])})
        if nf > 2 and p == 2 and (exc is None or cn in multi):
            evs.append({"ev": "Multi", "run": run, "chrom": ci, "p": p, "F": Fs[ci], "V": V, "hist": multi.get(cn, [])})
    return evs


def drive(sc):
    p, nf, mav = sc["p"], sc["nf"], bool(sc.get("mav"))
    root = os.path.join(os.environ.get("WV_SCRATCH", "/var/tmp/whverif"), "work")
    os.makedirs(root, exist_ok=True)
    tmp = tempfile.mkdtemp(prefix="c11-", dir=root)
    evs = []
    try:
        F0 = [c["F"] for c in sc["chroms"]]
        F1 = [_apply(c["F"], c["g"]) for c in sc["chroms"]]
        Vs = [c.get("V") or _zero_kinds(c["F"]) for c in sc["chroms"]]
        allc = list(range(len(F0)))
        per = {}  # (chromosome, run) -> events
        for run, Fs, encs in ((0, F0, sc["enc0"]), (1, F1, sc["enc1"])):
            res = _run(tmp, f"r{run}", p, nf, allc, Fs, encs, mav, Vs)
            if res[4] is None:
                for ci in allc:
                    per[(ci, run)] = _events(run, p, nf, [ci], Fs, res, mav, Vs)
                continue
            # the batch failed: attribute the failure, chromosome by chromosome
            for ci in allc:
                res = _run(tmp, f"r{run}c{ci}", p, nf, [ci], Fs, encs, mav, Vs)
                per[(ci, run)] = _events(run, p, nf, [ci], Fs, res, mav, Vs)
                if res[4] is not None:
                    per[(ci, run)].append({"ev": "RunFailed", "run": run, "chrom": ci, "exc": res[4]["exc"],
                                           "where": res[4]["where"], "msg": res[4]["msg"]})
        # both runs of one chromosome are consecutive in the trace (the trace spec relates them)
        for ci in allc:
            evs.extend(per[(ci, 0)])
            evs.extend(per[(ci, 1)])
    finally:
        shutil.rmtree(tmp, ignore_errors=True)
    return evs


# ---------------------------------------------------------------------------------------------- evidence helpers
def nontrivial(sc, events):
    moved = any(not _is_identity_on(c["F"], c["g"]) for c in sc["chroms"])
    return moved and any(e.get("ev") == "Pair" and e["run"] == 0 and e["row"]["nblk"] >= 1 and e["row"]["ham"] > 0 for e in events)


def _all_agree_missing(F):
    """multiway: is there an intersection block pair, but none on which all files agree?"""
    n = len(F[0])
    joint = [s for s in range(n) if all(A[s]["a"] and len(set(A[s]["a"])) > 1 and A[s]["b"] > 0 for A in F)]
    blocks = {}
    for s in joint:
        blocks.setdefault(tuple(A[s]["b"] for A in F), []).append(s)
    pats = []
    for blk in blocks.values():
        for u, v in zip(blk, blk[1:]):
            pats.append(tuple(int(A[u]["a"][0] != A[v]["a"][0]) for A in F))
    return bool(pats) and not any(len(set(x)) == 1 for x in pats)


def _py_blocks(F):
    n = len(F[0])
    joint = [s for s in range(n) if all(A[s]["a"] and len(set(A[s]["a"])) > 1 and A[s]["b"] > 0 for A in F)]
    blocks = {}
    for s in joint:
        blocks.setdefault(tuple(A[s]["b"] for A in F), []).append(s)
    return [b for b in blocks.values() if len(b) >= 2]


def _py_poly_switch_units(F, blk, p):
    """classification aid only (the verdict is TLC's): flip-free minimum number of partner changes"""
    from itertools import permutations
    cols = [s for s in blk if sorted(F[0][s]["a"]) == sorted(F[1][s]["a"])]
    perms = list(permutations(range(p)))
    prev = None
    for s in cols:
        ok = [pi for pi in perms if all(F[0][s]["a"][pi[k]] == F[1][s]["a"][k] for k in range(p))]
        cur = {}
        for pi in ok:
            cur[pi] = 0 if prev is None else min(v + sum(1 for k in range(p) if pi[k] != pj[k]) for pj, v in prev.items())
        prev = cur
    return (min(prev.values()) if prev else 0), len(cols)


def _py_ham_dg(F, blk, p):
    from itertools import permutations
    ham = min(sum(1 for s in blk for k in range(p) if F[1][s]["a"][k] != F[0][s]["a"][pi[k]]) for pi in permutations(range(p)))
    dg = sum(1 for s in blk if sorted(F[0][s]["a"]) != sorted(F[1][s]["a"]))
    return ham, dg


def _single_match_class(events, p, key):
    """do all rows that deviate from the definition deviate by (P-1) units per block with exactly one
    genotype-matching variant?  (classification of a TLC verdict, not a verdict)"""
    dev, explained = 0, 0
    for e in events:
        if e.get("ev") != "Pair" or e["p"] <= 2:
            continue
        eF = _common(e["F"], e.get("V"))
        blocks = _py_blocks(eF)
        if key == "lrow":
            m = max((len(b) for b in blocks), default=0)
            cands = []
            for b in blocks:
                if len(b) == m:
                    ham, dg = _py_ham_dg(eF, b, p)
                    if (ham, dg) == (e["lrow"]["ham"], e["lrow"]["dg"]):
                        cands.append(_py_poly_switch_units(eF, b, p))
            if not blocks or any(e["lrow"]["sw"] == v for v, _ in cands):
                continue
            dev += 1
            explained += any(e["lrow"]["sw"] == v + (p - 1) and nm == 1 for v, nm in cands)
        else:
            vals = [_py_poly_switch_units(eF, b, p) for b in blocks]
            want = sum(v for v, _ in vals)
            if e["row"]["sw"] == want:
                continue
            dev += 1
            explained += e["row"]["sw"] == want + (p - 1) * sum(1 for _, nm in vals if nm == 1)
    if dev and dev == explained:
        return "switch errors = definition + (P-1)/P for every intersection block with exactly one genotype-matching variant"
    return None


def signature(sc, events, clause):
    p, nf = sc["p"], sc["nf"]
    if clause == "PolyDecompositionInvariance" and p > 2:
        # the same input class whether or not the block has multi-allelic sites (known finding: tie-break by haplotype order)
        return "ploidy>2 same switch+flip total, different split after re-listing haplotypes"
    if sc.get("mav"):
        fails = [e for e in events if e.get("ev") == "RunFailed"]
        if clause == "Returns" and fails:
            return f"ploidy={p} files={nf} multi-allelic variants: {fails[0]['exc']} in {fails[0]['where']}"
        return f"ploidy={p} files={nf} multi-allelic variants"
    if clause == "Returns":
        fails = [e for e in events if e.get("ev") == "RunFailed"]
        if fails:
            e = fails[0]
            extra = ""
            if e["where"] == "compare_multiway":
                Fs = [c["F"] for c in sc["chroms"]] if e["run"] == 0 else [_apply(c["F"], c["g"]) for c in sc["chroms"]]
                extra = " no-variant-pair-on-which-all-phasings-agree=" + str(
                    _all_agree_missing(_common(Fs[e["chrom"]], sc["chroms"][e["chrom"]].get("V"))))
            return f"ploidy={p} files={nf} {e['exc']} in {e['where']}{extra}"
        return f"ploidy={p} files={nf} worker crashed"
    if clause == "LongestBlockAgreementMatchesHamming":
        for e in events:
            if e.get("ev") == "Pair" and e.get("aux"):
                z = sum(1 for x in e["agree"] if x[1] == 0)
                if 2 * z != e["lrow"]["ham"]:
                    n = len(e["agree"])
                    worse = (2 * (n - z) == e["lrow"]["ham"])
                    return ("ploidy=2 zeros = n - hamming (the worse of the two orientations was marked)" if worse
                            else "ploidy=2 zeros != hamming, other")
    if clause in ("SwitchErrorsAreDefinition", "LargestBlockIsDefinition") and p > 2:
        c = _single_match_class(events, p, "row" if clause == "SwitchErrorsAreDefinition" else "lrow")
        if c:
            return f"ploidy>2 {c}"
    if clause == "PolyDecompositionInvariance":
        return "ploidy>2 same switch+flip total, different split after re-listing haplotypes"
    return f"ploidy={p} files={nf}"


def selftest_corrupt(events):
    n = 0
    for e in events:
        if e.get("ev") == "Pair" and e["row"]["nblk"] >= 1:
            if n == 0 and e["run"] == 0 and e["row"]["ham"] > 0:
                e["row"]["ham"] += e["p"]
                n = 1
            elif n == 1 and e["run"] == 1 and e["row"]["sw"] > 0:
                e["row"]["sw"] -= e["p"]
                n = 2
    return events


MANIFEST = {
    "text": "Compare.tla defines by brute force what `whatshap compare` must report for a tuple of phasings: common heterozygous "
            "variants, intersection blocks, Hamming distance (minimum over haplotype correspondences), diploid switch errors "
            "(Hamming distance of switch encodings) and their run-length switch/flip decomposition, polyploid switch errors and "
            "switch/flip cost (minimum over sequences of correspondences), genotype differences, longest-block agreement, switch "
            "positions (BED) and the multiway histogram. TLC (a) model-checks theorems about these definitions on a state machine "
            "that builds all tuples of phasings site by site and re-lists haplotypes of phase sets (identity s+2f, zero for equal "
            "phasings, invariance under re-listing as an action property, agreement zeros = Hamming, recurrences = brute force), "
            "(b) enumerates the scenario space (phasing tuples x group elements), and (c) judges every row of --tsv-pairwise, "
            "--longest-block-tsv, --switch-error-bed and --tsv-multiway produced by the real run_compare on the generated VCFs "
            "(PS/HP encodings), on the original and on the re-listed files, against the definitions and against each other. "
            "The files may carry different variants at the same position (SNV with another ALT base, insertion, deletion); the "
            "trace spec restricts the phasings to the variants common to the compared files before applying the definitions.",
    "note": "trusted: TLC, Compare.tla, the driver's VCF writer/TSV parser; bounded: exhaustive up to 3 sites x 2 phase sets "
            "(diploid pairs), 7 sites single block, 3 sites triples, ploidy 3 <= 3 sites, ploidy 4 = 2 sites; beyond that seeded sampling "
            "(<= 12 sites); bi-allelic variants only; same-position allele conflicts are seeded samples (4 record kinds)",
    "technique": "TLA+ definitions + TLC model checking of their theorems + TLC-enumerated scenarios + TLC trace validation of the real command's outputs",
}
