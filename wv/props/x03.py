"""X03 - growth of the specification: the small tools and utility modules no listed property covers.
(a) `whatshap find_snv_candidates` (pile-up rule), (b) `whatshap hapcut2vcf`, (c) whatshap/pedigree.py
(PedReader, mendelian_conflict, recombination cost computers, genetic map reader), (d) whatshap/coverage.py
CovMonitor and helpers of whatshap/utils.py.  Not a registered property."""
import json
import os
import shutil

from .. import tlc

PROP = "X03"
TRACE_MODULE = "X03_Trace"
EXHAUSTIVE = False
TASK_TIMEOUT = 120
NPROC = 8
SHARDS = 8
RULE = ("(snv) one run of find_snv_candidates on a materialised world: TLC-enumerated pile-up columns (Gen_X03: every count vector "
        "ref/alt1/alt2/N up to a bound) packed eight to a world under every option set, with decoy alignments that must not be "
        "counted, plus seeded random worlds (CIGARs with I/D/S/H/=/X, flags, mapping and base qualities at the thresholds, N in "
        "reads and reference, lower-case reference, two contigs, --chromosome, presets, --sample); (hapcut) one hapcut2vcf run on "
        "a random VCF + block file (hapCUT 1/2 syntax, pruned lines, homozygous lines, interleaved blocks, multi-allelic / no-ALT "
        "records, pre-phased input, missing terminator) and malformed files; (ped) PED files with comments / empty / short / "
        "duplicate lines, all genotype triples from TLC for mendelian_conflict, uniform and genetic-map cost computations with "
        "integral unit distances, malformed map files; (cov) every CovMonitor history emitted by TLC (breadth-first) and random "
        "simulation histories; (util) detect_file_format / plural_s.  Non-trivial = a run that emits a record / a block file "
        "with a real block / a history with two overlapping reads / a cost list with two different costs / a conflict")
ASSUMPTIONS = [
    "the pile-up is pysam's (stepper samtools, min_mapping_quality 20, min_base_quality 5 as the command passes them); what pysam "
    "filters (flags, orphans, base quality) is part of the model X03Pileup.tla and is confirmed by the runs; mate overlap "
    "handling and max_depth 8000 are outside the generated worlds (no overlapping mates, depth <= 40)",
    "phred costs are judged against a TABLE of thresholds (X03Ped!LowUnits) computed once with 60-digit decimal arithmetic; "
    "distances are integral multiples of 1e-8 cM below 21.47 cM (32-bit TLC integers)",
    "genetic-map scenarios only use positions whose interpolated cumulative distance is integral (checked by TLC: ScenarioInDomain)",
    "hapcut2vcf domain: one sample, block chromosomes in VCF order, unique record positions, block alleles 0/1/-",
    "CovMonitor domain 0 <= begin <= end <= length (what read selection passes)",
    "input classes that hit genuine defects found by this check (VCF on standard output, reference skips, VCF contigs without "
    "hapCUT block) are only generated when WV_X03_HAZARD=1 or KNOWN_FINDINGS(_EXTRA).json lists them for X03",
]

LET = {1: "A", 2: "C", 3: "G", 4: "N", 5: "T"}
CODE = {v: k for k, v in LET.items()}
RELS = [(0, 1), (1, 4), (2, 5), (1, 2), (1, 3), (1, 1)]

# Input classes on which whatshap fails for a reason that is a genuine defect (found by this check, reproduced stand-alone,
# reported).  A class is generated only if WV_X03_HAZARD=1 or a `known` entry with exactly this clause and signature exists.
HAZARDS = {
    "stdout": ("SnvStdoutIsVcf", "snv output=stdout"),
    "refskip": ("SnvReturns", "snv exc=AssertionError refskip=True"),
    "hc_after": ("HcAllRecordsKept", "hapcut contig_without_block=after"),
    "hc_before": ("HcReturns", "hapcut contig_without_block=before"),
}


FIXED_HAZARDS = {"stdout", "refskip"}      # repaired in /repo (d276e47, ce2017e): always generated


def _hazards_enabled():
    if os.environ.get("WV_X03_HAZARD"):
        return set(HAZARDS)
    known = set()
    for name in ("KNOWN_FINDINGS.json", "KNOWN_FINDINGS_EXTRA.json"):
        try:
            with open(os.path.join("/verif", name)) as fh:
                known |= {(x.get("clause"), x.get("signature")) for x in json.load(fh)["findings"]
                          if x.get("property") == PROP and x.get("status") == "known"}
        except Exception:
            pass
    return {k for k, cs in HAZARDS.items() if cs in known} | FIXED_HAZARDS


# ==============================================================================================
# design-level model checking
def design_mc(ctx):
    q = ctx.quick
    out = []
    cfg = tlc.write_cfg(os.path.join(ctx.workdir, "pile.cfg"), spec="Spec", consts={"MaxTok": 3 if q else 4, "WithSkip": "FALSE"},
                        invariants=["ScanCounts", "NoAssert", "InBounds", "RuleAlgebra"])
    r = tlc.model_check("MC_X03Pileup", cfg=cfg, workers=8, timeout=1500)
    r["what"] = ("column scanner of find_snv_candidates over every pile-up string of <= 3-4 pysam tokens: scanned counts = abstract "
                 "counts, never `assert False`, rule algebra (best allele = head of the multi-allelic list, ALT # REF, thresholds monotone)")
    out.append(r)
    cfg = tlc.write_cfg(os.path.join(ctx.workdir, "pileneg.cfg"), spec="Spec", consts={"MaxTok": 2, "WithSkip": "TRUE"},
                        invariants=["NoAssert"])
    neg = tlc.model_check("MC_X03Pileup", cfg=cfg, workers=4, timeout=900)
    if neg["ok"] or "NoAssert is violated" not in neg["out"]:
        raise tlc.TlcError("negative control failed: the reference-skip token must drive the scanner into `assert False`")
    ctx.notes["pileup_negative_control"] = "with pysam's reference-skip token the scanner reaches `assert False` (NoAssert violated, as expected)"
    cfg = tlc.write_cfg(os.path.join(ctx.workdir, "cov.cfg"), spec="Spec", consts={"Length": 3, "Depth": 3 if q else 4},
                        constraint="Bound", invariants=["Refines", "MaxAgrees", "Monotone"])
    r = tlc.model_check("MC_X03Cov", cfg=cfg, workers=8, timeout=1500)
    r["what"] = "CovMonitor counter array refines the multiset-of-intervals model on every history; slice maximum = abstract maximum"
    out.append(r)
    cfg = tlc.write_cfg(os.path.join(ctx.workdir, "covneg.cfg"), spec="Spec", consts={"Length": 2, "Depth": 2},
                        constraint="Bound", invariants=["NeverCovered"])
    neg = tlc.model_check("MC_X03Cov", cfg=cfg, workers=2, timeout=600)
    if neg["ok"] or "NeverCovered is violated" not in neg["out"]:
        raise tlc.TlcError("negative control failed: adding a read must change the coverage")
    ctx.notes["cov_negative_control"] = "adding a read changes the coverage (NeverCovered violated, as expected)"
    cfg = tlc.write_cfg(os.path.join(ctx.workdir, "rec.cfg"), spec="Spec", consts={"MaxPos": 4 if q else 5, "MaxCum": 2, "Sorted": "TRUE"},
                        invariants=["SweepIsLoHi", "NeverBothNone", "Monotone", "LinearIsUniform", "AtMapPoints"])
    r = tlc.model_check("MC_X03Recomb", cfg=cfg, workers=8, timeout=1500)
    r["what"] = ("two-pointer sweep of recombination_cost_map = functional Lo/Hi on every small map and sorted position list; "
                 "interpolation monotone, exact at map points, a linear map equals the uniform computer")
    out.append(r)
    cfg = tlc.write_cfg(os.path.join(ctx.workdir, "recneg.cfg"), spec="Spec", consts={"MaxPos": 3, "MaxCum": 1, "Sorted": "FALSE"},
                        invariants=["SweepIsLoHi"])
    neg = tlc.model_check("MC_X03Recomb", cfg=cfg, workers=4, timeout=600)
    if neg["ok"] or "SweepIsLoHi is violated" not in neg["out"]:
        raise tlc.TlcError("negative control failed: unsorted positions must break the pointer sweep")
    ctx.notes["recomb_negative_control"] = "unsorted positions break the forward-only pointer sweep (SweepIsLoHi violated, as expected)"
    return out


# ==============================================================================================
# scenarios
def _par(rng, preset_p=0.15):
    rel = rng.choice(RELS)
    return {"minabs": rng.choice([1, 1, 2, 3, 3]), "relnum": rel[0], "relden": rel[1], "multi": rng.random() < 0.5,
            "dtype": rng.choice(["pacbio", "nanopore", "illumina"]) if rng.random() < preset_p else "", "chrom": 0}


DECOY_KINDS = ["mapq19", "mapq0", "unmapped", "secondary", "qcfail", "dup", "orphan", "lowbq"]


def _decoy(rng, c, pos, bases, kind):
    r = {"c": c, "pos": pos, "ops": [["M", len(bases)]], "seq": list(bases), "qual": [30] * len(bases), "mapq": 60, "flag": 0}
    if kind == "mapq19":
        r["mapq"] = 19
    elif kind == "mapq0":
        r["mapq"] = 0
    elif kind == "unmapped":
        r["flag"] = 4
    elif kind == "secondary":
        r["flag"] = 256
    elif kind == "qcfail":
        r["flag"] = 512
    elif kind == "dup":
        r["flag"] = 1024
    elif kind == "orphan":
        r["flag"] = rng.choice([1, 1 | 64, 1 | 8 | 128])
    elif kind == "lowbq":
        r["qual"] = [rng.choice([0, 2, 4])] * len(bases)
    if rng.random() < 0.5:
        r["flag"] |= 16
    return r


def pack_columns(rng, cols, par):
    """TLC-enumerated count vectors -> one world: column k sits at reference position k + 1 of contig 1."""
    L = len(cols)
    ref = [rng.choice([1, 2, 3, 5]) for _ in range(L + 2)]
    bags = []
    for k, col in enumerate(cols):
        rb = ref[k + 1]
        others = [b for b in (1, 2, 3, 5) if b != rb]
        rng.shuffle(others)
        bag = [rb] * col["r"] + [others[0]] * col["a"] + [others[1]] * col["b"] + [4] * col["n"]
        rng.shuffle(bag)
        bags.append(bag)
    reads = []
    depth = max(len(b) for b in bags)
    for j in range(depth):
        k = 0
        while k < L:
            if len(bags[k]) > j:
                k0 = k
                while k < L and len(bags[k]) > j:
                    k += 1
                reads.append({"c": 1, "pos": k0 + 1, "ops": [["M", k - k0]], "seq": [bags[x][j] for x in range(k0, k)],
                              "qual": [rng.choice([5, 30, 40])] * (k - k0), "mapq": rng.choice([20, 60, 60, 255]),
                              "flag": rng.choice([0, 0, 16, 2048, 2048 | 16, 1 | 2 | 64, 1 | 2 | 128 | 16])})
            else:
                k += 1
    for _ in range(rng.randint(1, 3)):
        # a decoy carries, in every column, a base that would change the verdict if it were counted
        bases = []
        for k in range(L):
            rb = ref[k + 1]
            bases.append(rng.choice([b for b in (1, 2, 3, 5) if b != rb] + [rb]))
        n = rng.choice([1, 2, 3])
        for _ in range(n):
            reads.append(_decoy(rng, 1, 1, bases, rng.choice(DECOY_KINDS)))
    rng.shuffle(reads)
    return {"kind": "snv", "W": {"refs": [ref], "reads": reads}, "par": par, "sample": rng.choice(["sample", "sample", "NA12878", ""]),
            "tostdout": False, "lower": rng.random() < 0.3, "src": "tlc"}


def rand_snv_world(rng, refskip=False):
    nctg = rng.choice([1, 1, 2])
    refs = []
    for _ in range(nctg):
        n = rng.randint(12, 22)
        refs.append([4 if rng.random() < 0.06 else rng.choice([1, 2, 3, 5]) for _ in range(n)])
    # per contig: SNV sites with an allele distribution
    reads = []
    for c in range(1, nctg + 1):
        ref = refs[c - 1]
        n = len(ref)
        sites = {}
        for p in rng.sample(range(n), rng.randint(1, 4)):
            alts = [b for b in (1, 2, 3, 5) if b != ref[p]]
            rng.shuffle(alts)
            w = rng.choice([[5, 4, 0], [4, 2, 2], [3, 3, 3], [6, 1, 1], [1, 5, 0], [2, 2, 1]])
            sites[p] = ([ref[p] if ref[p] != 4 else 1] + alts[:2], w)
        for _ in range(rng.randint(2, 14)):
            start = rng.randint(0, n - 3)
            want = rng.randint(2, min(10, n - start))
            ops, seq = [], []
            rp = start
            if rng.random() < 0.12:
                k = rng.randint(1, 2)
                ops.append(["H", k])
            if rng.random() < 0.2:
                k = rng.randint(1, 3)
                ops.append(["S", k])
                seq += [rng.choice([1, 2, 3, 5]) for _ in range(k)]
            left = want
            first = True
            while left > 0:
                k = rng.randint(1, left)
                op = rng.choice(["M", "M", "M", "M", "=", "X"])
                if ops and ops[-1][0] == op:
                    ops[-1][1] += k
                else:
                    ops.append([op, k])
                for p in range(rp, rp + k):
                    if p in sites:
                        b = rng.choices(sites[p][0], weights=sites[p][1])[0]
                    else:
                        b = ref[p] if ref[p] != 4 else rng.choice([1, 2, 3, 5])
                    if rng.random() < 0.03:
                        b = 4
                    seq.append(b)
                rp += k
                left -= k
                first = False
                if left > 0 and rp < n - 1:
                    x = rng.random()
                    if x < 0.15:
                        k = rng.randint(1, 2)
                        ops.append(["I", k])
                        seq += [rng.choice([1, 2, 3, 5]) for _ in range(k)]
                    elif x < 0.3 and rp + 2 < n - 1:
                        k = rng.randint(1, 2)
                        ops.append(["D", k])
                        rp += k
                        left = min(left, n - rp)
                    elif refskip and x < 0.5 and rp + 3 < n - 1:
                        k = rng.randint(1, 3)
                        ops.append(["N", k])
                        rp += k
                        left = min(left, n - rp)
                left = min(left, n - rp)
            if rng.random() < 0.15:
                k = rng.randint(1, 2)
                ops.append(["S", k])
                seq += [rng.choice([1, 2, 3, 5]) for _ in range(k)]
            if rng.random() < 0.08:
                ops.append(["H", 1])
            qual = [rng.choice([30, 30, 30, 30, 40, 5, 4, 0]) for _ in seq]
            reads.append({"c": c, "pos": start, "ops": ops, "seq": seq, "qual": qual,
                          "mapq": rng.choice([60, 60, 60, 60, 20, 19, 0, 255]),
                          "flag": rng.choice([0, 0, 0, 0, 16, 16, 2048, 2064, 256, 512, 1024, 4, 1, 3, 1 | 2 | 16 | 128, 1 | 2 | 64])})
    par = _par(rng)
    if nctg == 2 and rng.random() < 0.4:
        par["chrom"] = rng.choice([1, 2])
    return {"kind": "snv", "W": {"refs": refs, "reads": reads}, "par": par, "sample": rng.choice(["sample", "sample", "s_1", ""]),
            "tostdout": False, "lower": rng.random() < 0.3, "src": "random"}


def rand_hapcut(rng, hazard=None):
    nctg = rng.randint(1, 3)
    recs = []
    for c in range(1, nctg + 1):
        pos = sorted(rng.sample(range(1, 60), rng.randint(1, 5)))
        for p in pos:
            x = rng.random()
            nalt = 1 if x < 0.8 else (2 if x < 0.92 else 0)
            if nalt == 0:
                gt, ph, ps = rng.choice([[0, 0], []]), False, 0
            else:
                g = rng.choice([[0, 1], [0, 1], [1, 0], [1, 1], [0, 0], [], [0, 1], [1, 2] if nalt == 2 else [0, 1]])
                gt = list(g)
                ph = bool(gt) and rng.random() < 0.25
                ps = rng.choice([0, pos[0]]) if ph else 0
            recs.append({"c": c, "pos": p * 10, "nalt": nalt, "gt": gt, "ph": ph, "ps": ps * 10})
    with_blocks = set(range(1, nctg + 1))
    if hazard == "after" and nctg >= 1:
        k = rng.randint(0, nctg - 1)            # contigs k+1.. have no block (k = 0: no block at all)
        with_blocks = set(range(1, k + 1))
    elif hazard == "before" and nctg >= 2:
        k = rng.randint(2, nctg)
        with_blocks = set(range(k, nctg + 1))
    blocks = []
    for c in sorted(with_blocks):
        ps = [r["pos"] for r in recs if r["c"] == c]
        extra = [p for p in range(5, 600, 10) if rng.random() < 0.03]          # lines for positions that are not in the VCF
        pool = sorted(set(ps) | set(extra))
        pool = [p for p in pool if rng.random() < 0.8] or [ps[0]]
        nb = rng.choice([1, 1, 2]) if len(pool) >= 2 else 1
        if nb == 2 and rng.random() < 0.4:        # interleaved blocks
            parts = [pool[0::2], pool[1::2]]
        elif nb == 2:
            k = rng.randint(1, len(pool) - 1)
            parts = [pool[:k], pool[k:]]
        else:
            parts = [pool]
        made = []
        for part in parts:
            lines = []
            for p in part:
                x = rng.random()
                if x < 0.7:
                    h = rng.choice([[0, 1], [1, 0]])
                elif x < 0.85:
                    h = rng.choice([[0, 0], [1, 1]])
                else:
                    h = [-1, -1]
                lines.append({"c": c, "pos": p, "h1": h[0], "h2": h[1]})
            made.append(lines)
        if not any(l["h1"] != -1 for b in made for l in b):
            made[0][0]["h1"], made[0][0]["h2"] = 0, 1
        blocks += made
    return {"kind": "hapcut", "recs": recs, "blocks": blocks, "nsamples": 2 if rng.random() < 0.06 else 1,
            "v2": rng.random() < 0.6, "mec": rng.random() < 0.5, "endmark": rng.random() < 0.8, "pathout": rng.random() < 0.3}


def rand_ped(rng):
    lines = []
    used = []
    n = rng.randint(0, 6)
    bad = rng.random() < 0.35
    for _ in range(n):
        x = rng.random()
        if x < 0.12:
            lines.append({"k": "comment", "ind": 0, "fa": 0, "mo": 0})
        elif x < 0.22:
            lines.append({"k": "empty", "ind": 0, "fa": 0, "mo": 0})
        elif bad and x < 0.32:
            lines.append({"k": rng.choice(["short", "short", "ws"]), "ind": rng.randint(1, 9), "fa": 0, "mo": 0})
        else:
            ind = rng.randint(1, 9)
            if ind in used and not (bad and rng.random() < 0.5):
                free = [i for i in range(1, 10) if i not in used]
                ind = rng.choice(free) if free else ind
            used.append(ind)
            lines.append({"k": "rec", "ind": ind, "fa": rng.choice([0, 0, rng.randint(1, 9)]), "mo": rng.choice([0, 0, rng.randint(1, 9)])})
    return {"kind": "ped", "lines": lines, "how": rng.choice(["str", "path", "file"]), "sep": rng.choice(["\t", " ", "  \t"]),
            "extra": rng.randint(0, 3)}


def rand_uniform(rng):
    r100 = rng.choice([126, 126, 100, 1, 50, 1000, 7])
    maxd = (2 ** 31 - 1) // r100
    pos = [rng.randint(0, 1000)]
    for _ in range(rng.randint(0, 6)):
        d = rng.choice([1, 2, 10, 100, 1000, 10 ** 4, 10 ** 5, 10 ** 6, 10 ** 7, rng.randint(1, 10 ** 7), rng.randint(1, 300)])
        if rng.random() < 0.04:
            d = 0
        pos.append(pos[-1] + min(d, maxd))
    if rng.random() < 0.03:
        pos = []
    return {"kind": "uniform", "r100": r100, "pos": pos, "how": rng.choice(["static", "object"])}


def rand_genmap(rng):
    from fractions import Fraction
    p0 = rng.randint(1, 40)
    cum = rng.choice([0, 1, 2, 5, 100, 1000]) * p0
    m = [[p0, cum]]
    for _ in range(rng.randint(0, 3)):
        g = rng.randint(1, 40)
        s = rng.choice([0, 1, 1, 3, 10, 1000, 20000])
        if rng.random() < 0.06 and cum >= g:
            s = -1
        cum += s * g
        m.append([m[-1][0] + g, cum])
    lastp, lastc = m[-1]

    def cumf(p):
        lo = [e for e in m if e[0] <= p]
        hi = [e for e in m if e[0] >= p]
        if not lo:
            return Fraction(p * hi[0][1], hi[0][0])
        if not hi:
            return lastc + Fraction((p - lastp) * lastc, lastp)
        a, b = lo[-1], hi[0]
        if a[0] == b[0]:
            return Fraction(a[1])
        return a[1] + Fraction((p - a[0]) * (b[1] - a[1]), b[0] - a[0])
    cand = [p for p in range(0, lastp + 3 * lastp + 1) if cumf(p).denominator == 1 and cumf(p) < 2 ** 30]
    k = rng.randint(0, 6) if rng.random() < 0.95 else 0
    pos = sorted(rng.choice(cand) for _ in range(k)) if cand else []
    return {"kind": "genmap", "map": m, "pos": pos, "blank": rng.random() < 0.3}


MAPKINDS = ["ok", "ok", "ok", "empty", "fields2", "fields4", "badpos", "baddist"]


def scenarios(ctx):
    q = ctx.quick
    rng = ctx.rng
    hz = _hazards_enabled()
    ctx.notes["hazard_classes_enabled"] = sorted(hz)
    scs = []
    # ---- (a) TLC-enumerated pile-up columns, (c) genotype triples ----
    gen = tlc.generate("Gen_X03", {"MaxCount": 4 if q else 5, "MaxRef": 10 if q else 13, "MaxAllele": 2})
    cols = [g for g in gen if g["k"] == "col"]
    triples = [g for g in gen if g["k"] == "mendel"]
    ctx.notes["tlc_enumerated"] = {"pileup_columns": len(cols), "genotype_triples": len(triples)}
    parsets = [{"minabs": a, "relnum": r[0], "relden": r[1], "multi": m, "dtype": "", "chrom": 0}
               for a in (1, 2, 3) for r in ((0, 1), (1, 4), (2, 5), (1, 2)) for m in (False, True)]
    if q:
        parsets = [p for i, p in enumerate(parsets) if i % 2 == (i // 8) % 2]
    n0 = len(scs)
    for par in parsets:
        order = list(cols)
        rng.shuffle(order)
        for i in range(0, len(order), 8):
            scs.append(pack_columns(rng, order[i:i + 8], dict(par)))
    for dt in ("pacbio", "nanopore", "illumina"):
        order = list(cols)
        rng.shuffle(order)
        for i in range(0, len(order), 8):
            p = _par(rng, 0)
            p["dtype"] = dt
            scs.append(pack_columns(rng, order[i:i + 8], p))
    ctx.notes["snv_worlds_from_tlc_columns"] = len(scs) - n0
    for _ in range(1500 if q else 40000):
        scs.append(rand_snv_world(rng))
    if "stdout" in hz:
        for _ in range(6 if q else 40):
            sc = rand_snv_world(rng)
            sc["tostdout"] = True
            scs.append(sc)
    if "refskip" in hz:
        for _ in range(40 if q else 300):
            scs.append(rand_snv_world(rng, refskip=True))
    # ---- (b) hapcut2vcf ----
    for _ in range(1000 if q else 25000):
        scs.append(rand_hapcut(rng))
    if "hc_after" in hz:
        for _ in range(12 if q else 100):
            scs.append(rand_hapcut(rng, hazard="after"))
    if "hc_before" in hz:
        for _ in range(12 if q else 100):
            scs.append(rand_hapcut(rng, hazard="before"))
    for k in ("noblock", "badheader", "fields10", "fields8", "fv", "colon3", "latebad"):
        scs.append({"kind": "happarse", "what": k})
    # ---- (c) pedigree utilities ----
    for _ in range(600 if q else 10000):
        scs.append(rand_ped(rng))
    for i in range(0, len(triples), 36):
        scs.append({"kind": "mendel", "triples": [[t["m"], t["f"], t["c"]] for t in triples[i:i + 36]], "flip": i % 72 == 0})
    for _ in range(600 if q else 15000):
        scs.append(rand_uniform(rng))
    for _ in range(800 if q else 20000):
        scs.append(rand_genmap(rng))
    for _ in range(60 if q else 1000):
        scs.append({"kind": "mapload", "kinds": ["header"] + [rng.choice(MAPKINDS[:4] if rng.random() < 0.6 else MAPKINDS)
                                                               for _ in range(rng.randint(0, 5))]})
    # ---- (d) CovMonitor histories from TLC ----
    cfg = tlc.write_cfg(os.path.join(ctx.workdir, "covbfs.cfg"), spec="Spec", consts={"Length": 2 if q else 3, "Depth": 3},
                        constraint="Bound", invariants=["Emit"])
    hs, _ = tlc.behaviours("MC_X03Cov", cfg)
    ctx.notes["cov_bfs_histories"] = len(hs)
    scs += [{"kind": "cov", "length": 2 if q else 3, "ops": h} for h in hs]
    cfg = tlc.write_cfg(os.path.join(ctx.workdir, "covsim.cfg"), spec="Spec", consts={"Length": 6, "Depth": 12},
                        constraint="Bound", invariants=["Emit"])
    hs, _ = tlc.behaviours("MC_X03Cov", cfg, simulate=f"num={300 if q else 10000}", depth=13, seed=ctx.seed + 11)
    ctx.notes["cov_sim_histories"] = len(hs)
    scs += [{"kind": "cov", "length": 6, "ops": h} for h in hs]
    # ---- helpers ----
    scs.append({"kind": "util"})
    return scs


# ==============================================================================================
# drivers
def _scratch():
    import tempfile
    base = os.path.join(os.environ.get("WV_SCRATCH", "/var/tmp/whverif"), "work")
    os.makedirs(base, exist_ok=True)
    return tempfile.mkdtemp(prefix="x03-", dir=base)


def drive_snv(sc):
    import contextlib
    import io
    from .. import world as WD
    from whatshap.cli.find_snv_candidates import run_find_snv_candidates
    W = sc["W"]
    d = _scratch()
    try:
        names = [f"ctg{i + 1}" for i in range(len(W["refs"]))]
        seqs = {}
        for i, r in enumerate(W["refs"]):
            s = "".join(LET[b] for b in r)
            seqs[names[i]] = s.lower() if sc.get("lower") and i % 2 == 0 else s
        fa = WD.write_fasta(os.path.join(d, "ref.fa"), seqs)
        reads = []
        for k, r in enumerate(W["reads"]):
            rd = {"name": f"r{k}", "flag": r["flag"], "ref": r["c"] - 1, "pos": r["pos"], "mapq": r["mapq"],
                  "cigar": "".join(f"{n}{o}" for o, n in r["ops"]), "seq": "".join(LET[b] for b in r["seq"]),
                  "qual": "".join(chr(33 + x) for x in r["qual"])}
            if r["flag"] & 1:
                rd["mate"] = {"ref": r["c"] - 1, "pos": r["pos"] + 500}
                rd["tlen"] = 0
            reads.append(rd)
        bam = WD.write_bam(os.path.join(d, "x.bam"), [(n, max(600, len(r))) for n, r in zip(names, W["refs"])], reads)
        par = sc["par"]
        kw = dict(minabs=par["minabs"], minrel=par["relnum"] / par["relden"], multi_allelics=bool(par["multi"]),
                  datatype=par["dtype"] or None, sample=sc["sample"] or None,
                  chromosome=names[par["chrom"] - 1] if par["chrom"] else None)
        buf = io.StringIO()
        out = os.path.join(d, "out.vcf")
        exc = ""
        try:
            with contextlib.redirect_stdout(buf):
                run_find_snv_candidates(fa, bam, output=buf if sc["tostdout"] else out, **kw)
        except AssertionError as e:                 # `assert False` of the column scanner: the observation
            exc = "AssertionError"
        text = buf.getvalue() if sc["tostdout"] else (open(out).read() if os.path.exists(out) else "")
    finally:
        shutil.rmtree(d, ignore_errors=True)
    lines = text.split("\n")
    pre = -1
    if sc["tostdout"]:
        pre = next((i for i, x in enumerate(lines) if x.startswith("##fileformat")), len(lines))
    hdr, recs, shape = [], [], []
    for x in lines:
        if x.startswith("#CHROM"):
            hdr = x.split("\t")[8:]
        elif x and not x.startswith("#") and "\t" in x:
            c = x.split("\t")
            recs.append([names.index(c[0]) + 1 if c[0] in names else 0, int(c[1]), CODE.get(c[3], 9),
                         [CODE.get(a, 9) for a in c[4].split(",")]])
            shape.append([c[2] == ".", c[5] == ".", c[6] == "PASS", c[7] == ".", len(c), c[8] if len(c) > 8 else "",
                          c[9] if len(c) > 9 else ""])
    return [{"ev": "Snv", "W": W, "par": par, "sample": sc["sample"], "tostdout": bool(sc["tostdout"]), "exc": exc, "out": recs,
             "hdr": hdr, "shape": shape, "pre": pre}]


def _hapcut_text(sc):
    out = []
    vid = 1
    for b in sc["blocks"]:
        out.append("BLOCK: offset: %d len: %d phased: %d SPAN: %d %sfragments %d" %
                   (vid, len(b), len(b), b[-1]["pos"] - b[0]["pos"] + 1, "MECscore 1.50 " if sc["mec"] else "", 3))
        for l in b:
            h1 = "-" if l["h1"] == -1 else str(l["h1"])
            h2 = "-" if l["h2"] == -1 else str(l["h2"])
            base = [str(vid), h1, h2, f"ctg{l['c']}", str(l["pos"]), "A", "T", "0/1"]
            rest = ["0", "0.000000", "-0.000000"] if sc["v2"] else ["1,0:-0.0,-0.0,-1.3:0.0:0.0" + (":FV" if vid % 3 == 0 else "")]
            out.append("\t".join(base + rest))
            vid += 1
        out.append("******** ")
    if out and not sc["endmark"]:
        out.pop()
    return "".join(x + "\n" for x in out)


def _gt_text(r):
    if not r["gt"]:
        return "./."
    return ("|" if r["ph"] else "/").join(str(a) for a in r["gt"])


def _project_call(call):
    g = call.get("GT", ".")
    ph = "|" in g
    al = g.replace("|", "/").split("/")
    gt = [] if any(a == "." for a in al) else [int(a) for a in al]
    ps = call.get("PS", ".")
    return gt, ph and bool(gt), int(ps) if ps not in (".", "") else 0


_FROZEN = False


def drive_hapcut(sc):
    import gc
    global _FROZEN
    if not _FROZEN:             # the forked worker inherits a large heap (all scenarios): keep the per-run collections cheap
        gc.collect()
        gc.freeze()
        _FROZEN = True
    import logging
    import pathlib
    from .. import world as WD
    from whatshap.cli.hapcut2vcf import run_hapcut2vcf
    logging.disable(logging.ERROR)
    d = _scratch()
    try:
        samples = ["s1", "s2"][:sc["nsamples"]]
        nctg = max([r["c"] for r in sc["recs"]] + [1])
        recs = []
        for r in sc["recs"]:
            call = [_gt_text(r)] + ([str(r["ps"]) if r["ps"] else "."] if any(x["ps"] for x in sc["recs"]) else [])
            recs.append({"chrom": f"ctg{r['c']}", "pos": r["pos"], "ref": "A", "alt": {0: ".", 1: "T", 2: "T,G"}[r["nalt"]],
                         "fmt": ["GT", "PS"][:len(call)], "calls": [call] * len(samples)})
        vcf = WD.write_vcf(os.path.join(d, "in.vcf"), samples, [(f"ctg{i + 1}", 10000) for i in range(nctg)], recs,
                           fmt_keys=("GT", "PS"), info_keys=(), filters=())
        hp = os.path.join(d, "hap.txt")
        with open(hp, "w") as fh:
            fh.write(_hapcut_text(sc))
        out = os.path.join(d, "out.vcf")
        exc = ""
        try:
            run_hapcut2vcf(hp, vcf, output=pathlib.Path(out) if sc.get("pathout") else out)
        except Exception as e:  # noqa: the observation
            exc = type(e).__name__
        gc.collect()            # the command never closes its VCF writer: the records are flushed when it is collected
        orecs = []
        if os.path.exists(out):
            _, _, got = WD.read_vcf_text(out)
            for r in got:
                gt, ph, ps = _project_call(r["calls"][0]) if r["calls"] else ([], False, 0)
                orecs.append({"c": int(r["chrom"][3:]), "pos": r["pos"], "gt": gt, "ph": ph, "ps": ps})
    finally:
        shutil.rmtree(d, ignore_errors=True)
    return [{"ev": "HapCut", "recs": sc["recs"], "blocks": sc["blocks"], "nsamples": sc["nsamples"], "exc": exc, "out": orecs}]


def drive_happarse(sc):
    import logging
    from .. import world as WD
    from whatshap.cli.hapcut2vcf import run_hapcut2vcf
    logging.disable(logging.ERROR)
    good = "1\t0\t1\tctg1\t10\tA\tT\t0/1\t0\t0.0\t0.0\n"
    hdr = "BLOCK: offset: 1 len: 1 phased: 1 SPAN: 1 fragments 1\n"
    text = {"noblock": good,
            "badheader": "BLOCK: something else\n" + good,
            "fields10": hdr + "1\t0\t1\tctg1\t10\tA\tT\t0/1\t0\t0.0\n",
            "fields8": hdr + "1\t0\t1\tctg1\t10\tA\tT\t0/1\n",
            "fv": hdr + "1\t0\t1\tctg1\t10\tA\tT\t0/1\t1,0:-0.0,-0.0,-1.3:0.0:0.0:XX\n",
            "colon3": hdr + "1\t0\t1\tctg1\t10\tA\tT\t0/1\t1,0:-0.0:0.0\n",
            "latebad": hdr + good + "********\n" + good}[sc["what"]]
    d = _scratch()
    try:
        vcf = WD.write_vcf(os.path.join(d, "in.vcf"), ["s1"], [("ctg1", 1000)],
                           [{"chrom": "ctg1", "pos": 10, "ref": "A", "alt": "T", "fmt": ["GT"], "calls": [["0/1"]]}],
                           fmt_keys=("GT",), info_keys=(), filters=())
        hp = os.path.join(d, "hap.txt")
        with open(hp, "w") as fh:
            fh.write(text)
        exc = ""
        try:
            run_hapcut2vcf(hp, vcf, output=os.path.join(d, "out.vcf"))
        except Exception as e:  # noqa
            exc = type(e).__name__
    finally:
        shutil.rmtree(d, ignore_errors=True)
    return [{"ev": "HapParse", "kind": sc["what"], "exc": exc}]


def drive_ped(sc):
    import io
    import pathlib
    from whatshap.pedigree import PedReader
    sep = sc["sep"]
    txt = []
    for l in sc["lines"]:
        if l["k"] == "rec":
            f = ["fam", f"p{l['ind']}", f"p{l['fa']}" if l["fa"] else "0", f"p{l['mo']}" if l["mo"] else "0", "1", "0"] + ["A"] * sc["extra"]
            txt.append(sep.join(f))
        elif l["k"] == "comment":
            txt.append("# fam p1 p1 p1 0 0")
        elif l["k"] == "empty":
            txt.append("")
        elif l["k"] == "short":
            txt.append(sep.join(["fam", f"p{l['ind']}", "0", "0", "1"][:1 + l["ind"] % 5]))
        else:
            txt.append("  \t ")
    text = "".join(x + "\n" for x in txt)
    d = _scratch()
    exc, trios, samples = "", [], []
    try:
        p = os.path.join(d, "x.ped")
        with open(p, "w") as fh:
            fh.write(text)
        try:
            if sc["how"] == "file":
                rd = PedReader(io.StringIO(text))
            else:
                rd = PedReader(p if sc["how"] == "str" else pathlib.Path(p))
            num = lambda s: 0 if s is None else int(s[1:])
            trios = [[num(t.child), num(t.father), num(t.mother)] for t in rd]
            samples = sorted(num(s) for s in rd.samples())
        except Exception as e:  # noqa
            exc = type(e).__name__
    finally:
        shutil.rmtree(d, ignore_errors=True)
    return [{"ev": "Ped", "lines": sc["lines"], "exc": exc, "trios": trios, "samples": samples}]


def drive_mendel(sc):
    from whatshap.core import Genotype
    from whatshap.pedigree import mendelian_conflict
    evs = []
    for k, (m, f, c) in enumerate(sc["triples"]):
        flip = (lambda g: g[::-1]) if (sc["flip"] and k % 2 == 0) else (lambda g: g)
        res = mendelian_conflict(Genotype(flip(m)), Genotype(flip(f)), Genotype(flip(c)))
        evs.append({"ev": "Mendel", "m": m, "f": f, "c": c, "res": bool(res)})
    return evs


def drive_uniform(sc):
    from whatshap.pedigree import UniformRecombinationCostComputer
    rate = sc["r100"] / 100
    exc, costs = "", []
    try:
        if sc["how"] == "static":
            costs = UniformRecombinationCostComputer.uniform_recombination_map(rate, list(sc["pos"]))
        else:
            costs = UniformRecombinationCostComputer(rate).compute(list(sc["pos"]))
        costs = [int(x) for x in costs]
    except Exception as e:  # noqa
        exc = type(e).__name__
    return [{"ev": "Uniform", "r100": sc["r100"], "pos": sc["pos"], "exc": exc, "costs": costs}]


def drive_genmap(sc):
    from decimal import Decimal
    from whatshap.pedigree import GeneticMapRecombinationCostComputer
    d = _scratch()
    exc, costs = "", []
    try:
        p = os.path.join(d, "map.txt")
        with open(p, "w") as fh:
            fh.write("position COMBINED_rate(cM/Mb) Genetic_Map(cM)\n")
            for k, (pos, cum) in enumerate(sc["map"]):
                if sc["blank"] and k == 1:
                    fh.write("\n")
                fh.write(f"{pos} 1.5 {Decimal(cum).scaleb(-8):f}\n")
        try:
            costs = [int(x) for x in GeneticMapRecombinationCostComputer(p).compute(list(sc["pos"]))]
        except Exception as e:  # noqa
            exc = type(e).__name__
    finally:
        shutil.rmtree(d, ignore_errors=True)
    return [{"ev": "GenMap", "map": sc["map"], "pos": sc["pos"], "exc": exc, "costs": costs}]


def drive_mapload(sc):
    from whatshap.pedigree import GeneticMapRecombinationCostComputer
    text = {"header": "position rate map", "ok": "100 1.0 0.5", "empty": "", "fields2": "100 0.5", "fields4": "100 1.0 0.5 7",
            "badpos": "10.5 1.0 0.5", "baddist": "100 1.0 abc"}
    d = _scratch()
    exc, n = "", 0
    try:
        p = os.path.join(d, "map.txt")
        with open(p, "w") as fh:
            for i, k in enumerate(sc["kinds"]):
                fh.write(text[k].replace("100", str(100 + i)) + "\n")
        try:
            n = len(GeneticMapRecombinationCostComputer.load_genetic_map(p))
        except Exception as e:  # noqa
            exc = type(e).__name__
    finally:
        shutil.rmtree(d, ignore_errors=True)
    return [{"ev": "MapLoad", "kinds": sc["kinds"], "exc": exc, "n": n}]


def drive_cov(sc):
    from whatshap.coverage import CovMonitor
    n = sc["length"]
    cm = CovMonitor(n)
    evs = [{"ev": "CovNew", "length": n, "exc": ""}]

    def query(b, e):
        try:
            return {"ev": "CovMax", "b": b, "e": e, "res": int(cm.max_coverage_in_range(b, e)), "exc": ""}
        except ValueError:
            return {"ev": "CovMax", "b": b, "e": e, "res": -1, "exc": "ValueError"}
    for o in sc["ops"]:
        if o["op"] == "add":
            cm.add_read(o["b"], o["e"])
            evs.append({"ev": "CovAdd", "b": o["b"], "e": o["e"], "exc": ""})
        else:
            evs.append(query(o["b"], o["e"]))
    for b in range(n):                          # final sweep: every range
        for e in range(b, n + 1):
            evs.append(query(b, e))
    return evs


def drive_util(sc):
    import gzip
    import pysam
    from .. import world as WD
    from whatshap.utils import detect_file_format, plural_s
    d = _scratch()
    evs = []
    try:
        vcf = WD.write_vcf(os.path.join(d, "a.vcf"), ["s1"], [("ctg1", 1000)],
                           [{"chrom": "ctg1", "pos": 10, "ref": "A", "alt": "T", "fmt": ["GT"], "calls": [["0/1"]]}],
                           fmt_keys=("GT",), info_keys=(), filters=())
        vcf2 = WD.write_vcf(os.path.join(d, "b.vcf"), ["s1"], [("ctg1", 1000)],
                            [{"chrom": "ctg1", "pos": 10, "ref": "A", "alt": "T", "fmt": ["GT"], "calls": [["0/1"]]}],
                            fmt_keys=("GT",), info_keys=(), filters=(), compress=True)
        bam = WD.write_bam(os.path.join(d, "a.bam"), [("ctg1", 1000)], [{"name": "r", "pos": 1, "cigar": "4M", "seq": "ACGT"}])
        files = {"vcf": vcf, "vcfgz": vcf2, "bam": bam}
        for kind, data in (("cram", b"CRAM\x03\x00 some bytes"), ("text", b"hello world, not a known format\n"), ("empty", b""),
                           ("short", b"##fileformat=VC")):
            files[kind] = os.path.join(d, "f." + kind)
            with open(files[kind], "wb") as fh:
                fh.write(data)
        files["gztext"] = os.path.join(d, "t.gz")
        with gzip.open(files["gztext"], "wb") as fh:
            fh.write(b"plain text in a gzip file\n")
        for kind, p in files.items():
            evs.append({"ev": "Fmt", "kind": kind, "res": detect_file_format(p) or ""})
        for n in (0, 1, 2, 3, 10, 11, 21, 100, -1):
            evs.append({"ev": "Plural", "n": n, "res": plural_s(n)})
    finally:
        shutil.rmtree(d, ignore_errors=True)
    return evs


def drive(sc):
    return {"snv": drive_snv, "hapcut": drive_hapcut, "happarse": drive_happarse, "ped": drive_ped, "mendel": drive_mendel,
            "uniform": drive_uniform, "genmap": drive_genmap, "mapload": drive_mapload, "cov": drive_cov,
            "util": drive_util}[sc["kind"]](sc)


# ==============================================================================================
def nontrivial(sc, events):
    k = sc["kind"]
    e = events[0]
    if k == "snv":
        return bool(e.get("out"))
    if k == "hapcut":
        return any(o.get("ph") for o in e.get("out", []))
    if k == "ped":
        return len(e.get("trios", [])) >= 2 or e.get("exc") == "ParseError"
    if k == "mendel":
        return any(x["res"] for x in events) and not all(x["res"] for x in events)
    if k in ("uniform", "genmap"):
        return len(set(e.get("costs", [])[1:])) >= 2
    if k == "cov":
        adds = [o for o in sc["ops"] if o["op"] == "add"]
        return any(a["b"] < b["e"] and b["b"] < a["e"] for i, a in enumerate(adds) for b in adds[i + 1:])
    return True


def _hc_class(sc):
    contigs = []
    for r in sc["recs"]:
        if r["c"] not in contigs:
            contigs.append(r["c"])
    proc = set()
    for b in sc["blocks"]:
        kept = [l for l in b if l["h1"] != -1 and l["h2"] != -1]
        if kept:
            proc.add(kept[0]["c"])
    missing = [c for c in contigs if c not in proc]
    if not missing:
        return "none"
    if any(m < p for m in missing for p in proc):
        return "before"
    return "after"


def signature(sc, events, clause):
    k = sc.get("kind")
    if k == "snv":
        e = events[0] if events else {}
        skip = any(o[0] == "N" for r in sc["W"]["reads"] for o in r["ops"])
        if clause == "SnvStdoutIsVcf":
            return "snv output=stdout"
        if clause in ("SnvReturns", "Returns"):
            return f"snv exc={e.get('exc') or e.get('where', '?')} refskip={skip}"
        readn = any(4 in r["seq"] for r in sc["W"]["reads"])
        return (f"snv multi={bool(sc['par']['multi'])} preset={sc['par']['dtype'] or 'none'} chromosome={bool(sc['par']['chrom'])} "
                f"sample={bool(sc['sample'])} readN={readn} refskip={skip} src={sc.get('src')}")
    if k == "hapcut":
        if clause in ("HcReturns", "HcAllRecordsKept", "Returns"):
            return f"hapcut contig_without_block={_hc_class(sc)}"
        return f"hapcut samples={sc['nsamples']} hapcut2={bool(sc['v2'])} contig_without_block={_hc_class(sc)}"
    if k == "happarse":
        return f"happarse {sc['what']}"
    if k == "ped":
        kinds = sorted({l["k"] for l in sc["lines"]})
        return "ped lines=" + "+".join(kinds) + f" via={sc['how']}"
    if k == "uniform":
        return f"uniform rate100={sc['r100']} n={len(sc['pos'])} via={sc['how']}"
    if k == "genmap":
        lastp = sc["map"][-1][0]
        return (f"genmap entries={len(sc['map'])} before_first={any(p < sc['map'][0][0] for p in sc['pos'])} "
                f"beyond_last={any(p > lastp for p in sc['pos'])} n={len(sc['pos'])}")
    if k == "cov":
        return f"cov length={sc['length']}"
    return str(k)


def selftest_corrupt(events):
    done = set()
    for e in events:
        ev = e["ev"]
        if ev == "Snv" and "s" not in done and e["out"] and not e["exc"]:
            e["out"][0][3] = [e["out"][0][2]]                 # ALT := REF
            done.add("s")
        elif ev == "HapCut" and "h" not in done and any(o["ph"] for o in e["out"]) and not e["exc"]:
            o = next(o for o in e["out"] if o["ph"])
            o["gt"] = o["gt"][::-1]
            done.add("h")
        elif ev == "CovMax" and "c" not in done and e["res"] >= 2:
            e["res"] -= 1
            done.add("c")
        elif ev == "Uniform" and "u" not in done and len(e["costs"]) >= 2 and not e["exc"]:
            e["costs"][1] += 1
            done.add("u")
        elif ev == "Mendel" and "m" not in done:
            e["res"] = not e["res"]
            done.add("m")
    return events


MANIFEST = {
    "text": "X03Pileup.tla defines which alignments and bases the pile-up of find_snv_candidates counts and the candidate rule "
            "(--minabs / --minrel / presets / --multi-allelics, unique best allele, REF N skipped, records in contig-position "
            "order); X03HapCut.tla the conversion of a hapCUT block file (block = phase set named by its first line, alleles of "
            "the line, homozygous lines unphased, pruned lines dropped, all other records unphased, every input record kept); "
            "X03Ped.tla PedReader, mendelian_conflict, the uniform and genetic-map recombination costs (tabulated phred of the "
            "Haldane probability, linear interpolation, extrapolation by the average rate, clamp 1e-10 cM) and the map reader's "
            "ParseErrors; X03Cov.tla CovMonitor as a multiset of intervals.  TLC judges every recorded run; MC_X03Pileup "
            "model-checks the column scanner over all short pile-up strings, MC_X03Cov the counter array against the "
            "multiset model on all histories, MC_X03Recomb the two-pointer sweep against the functional interpolation.",
    "note": "not registered (spec growth).  ALT = N for read-N bases and the phase-set id of a block whose first line is "
            "homozygous are modelled as the code behaves (named deviations).",
    "technique": "TLA+ functional specs + TLC model checking of three implementation-shaped machines + TLC trace validation of "
                 "recorded runs on spec-enumerated and seeded random inputs",
}
