"""C14 - `whatshap split` distributes every read to exactly the outputs its haplotype entry selects."""
import gzip
import json
import os
import shutil
import tempfile

from .. import tlc

PROP = "C14"
TRACE_MODULE = "C14_Trace"
EXHAUSTIVE = True
NPROC = 8
SHARDS = 8
TASK_TIMEOUT = 60
RULE = ("a scenario is one complete run of run_split: an abstract input (read sequence [name, length], haplotype list lines "
        "[name, none|Hh, phase set, chromosome], options) written as FASTQ / FASTQ.gz / unaligned BAM plus a 2- or 4-column list "
        "(with/without header, plain/gzipped) and read back from every output and the histogram.  Sources: Gen_C14 'tiny' = the "
        "complete product {<=3 reads over 2 names} x {lists over 2 names} x {valid ploidy-2 option records} (thorough: all 25560, "
        "quick: every 7th); Gen_C14 'lattice' = TLC-decoded points of the space <=6 reads over 5 names x lengths 0..2, <=5 list "
        "lines in 3 blocks on 2 chromosomes, ploidy 2-4, every option; seeded random scenarios beyond those bounds (<=12 reads, "
        "<=8 names, lengths up to 30, <=8 lines, BAM records without sequence but with CIGAR, PacBio-style names, list without "
        "final newline).  Read names: read<n>, PacBio-style, or - half of the random scenarios and every third lattice point - "
        "names over the full legal QNAME alphabet [!-?A-~] in the reads (BAM and FASTQ) and in the list: the digits of n "
        "between pseudo-random runs of symbols and letters, so that names start with, contain and end with every legal "
        "character, half of the time a quote, backquote, hash, comma, semicolon, backslash or bar; the counterexamples TLC finds for the implementation-shaped design alternatives.  Non-trivial = at "
        "least 2 input reads whose targets differ (e.g. one goes to H1 and another is untagged or discarded)")
ASSUMPTIONS = [
    "the haplotype list is a function of the read name: a name may be listed on several lines (one per alignment) with the same entry; contradictory lines are outside the statement",
    "the size of a phase set for --only-largest-block is the number of tagged lines of the LIST with that (chromosome, phase set), "
    "whether or not the reads occur in the input; ties are resolved by an arbitrary largest block (TLC searches for a witness selection)",
    "content identity of a record = the FASTQ record text (4 lines) resp. pysam's SAM rendering of the BAM record; BAM headers are not compared",
    "at least one haplotype output is requested and, with --discard-unknown-reads, the list is not empty (the CLI refuses the other cases)",
    "a list line is <read name> TAB <haplotype> [TAB <phase set> TAB <chromosome>] and nothing else: no quoting, escaping or comment "
    "syntax, read names are any strings over the QNAME alphabet [!-?A-~]; the only exception is the optional header, which is a FIRST "
    "line that starts with a hash - so a list whose first entry is a read name starting with a hash is always written with a header",
    "the read length of a BAM record without sequence is the query length of its CIGAR, or 0 without CIGAR (as documented in _bam_iterator)",
]
FMTS = ["fastq", "fastq.gz", "bam"]


# ----------------------------------------------------------------------------------------------
# design-level model checking
CLAUSE_INVS = ["InvDomain", "InvPrefix", "InvRouting", "InvUnmodified", "InvOrder", "InvExact", "InvPartition",
               "InvHistCounts", "InvHistTotals"]


def _mc(ctx, tag, exit_rule, row_rule, invs, maxreads, n, lens, ploidies, nb, unique=False, timeout=1500):
    cfg = tlc.write_cfg(os.path.join(ctx.workdir, f"mc_split_{tag}.cfg"), spec="MCSpec",
                        consts={"ExitRule": f'"{exit_rule}"', "RowRule": f'"{row_rule}"', "MaxReads": maxreads, "N": n,
                                "Lens": lens, "Ploidies": ploidies, "NB": nb, "UniqueOnly": "TRUE" if unique else "FALSE"},
                        subst={"ReadAlphabet": "MCAlphabet"}, constraint="Unique", invariants=invs)
    return tlc.model_check("MC_Split", cfg=cfg, workers=NPROC, timeout=timeout)


def _violated(r):
    import re
    m = re.search(r"Invariant (\w+) is violated", r["out"])
    return m.group(1) if m else None


def design_mc(ctx):
    q = ctx.quick
    out = []
    # (A) the reference design: every clause, every input up to the bound
    r = _mc(ctx, "ref", "never", "set", CLAUSE_INVS, maxreads=3, n=2, lens="{0, 1}", ploidies="{2}", nb=2)
    r["what"] = ("SplitAlg (one pass, writer[haplotype], Counter per class; no early exit, one histogram row per length) satisfies "
                 "Routing/Unmodified/InputOrder/Exact/Partition/HistCounts/HistTotals for every list over 2 names, <=3 reads x "
                 "lengths {0,1}, every valid ploidy-2 option record, every largest-block selection")
    out.append(r)
    if not q:
        r = _mc(ctx, "ref_n3", "never", "set", CLAUSE_INVS, maxreads=3, n=3, lens="{1}", ploidies="{2}", nb=2)
        r["what"] = "same, lists over 3 names, <=3 reads of one length"
        out.append(r)
        r = _mc(ctx, "ref_r4", "never", "set", CLAUSE_INVS, maxreads=4, n=2, lens="{0, 1}", ploidies="{2}", nb=2)
        r["what"] = "same, lists over 2 names, <=4 reads x lengths {0,1}"
        out.append(r)
        r = _mc(ctx, "ref3", "never", "set", CLAUSE_INVS, maxreads=2, n=2, lens="{0, 1}", ploidies="{3, 4}", nb=3)
        r["what"] = "same, ploidy 3 and 4, three blocks on two chromosomes, <=2 reads over 2 names"
        out.append(r)
    # (B) today's early exit is harmless exactly when read names are unique
    r = _mc(ctx, "uniq", "count", "set", ["InvExact", "InvPartition", "InvHistCounts", "InvHistTotals"],
            maxreads=3, n=3 if not q else 2, lens="{0, 1}" if q else "{1}", ploidies="{2}", nb=2, unique=True)
    r["what"] = "early exit 'count' (run_split today) restricted to inputs with unique read names: Exact/Partition/Histogram hold"
    out.append(r)
    # (C) what still holds for today's design on all inputs: prefix exactness, the clause decomposition, per-row counts
    r = _mc(ctx, "impl", "count", "chain", ["InvPrefix", "InvLemma", "InvUnmodified", "InvOrder", "InvHistCounts"],
            maxreads=3, n=2, lens="{1}" if q else "{0, 1}", ploidies="{2}", nb=2)
    r["what"] = ("today's design (early exit 'count', histogram rows per (class,length) key): outputs are exact while the loop runs, "
                 "Routing/Unmodified/InputOrder <=> Exact also on truncated outputs, every histogram row is right")
    out.append(r)
    # negative controls: the design alternatives that whatshap implements today violate the property (expected counterexamples)
    neg = {}
    for tag, er, rr, inv in (("count", "count", "set", "InvRouting"), ("seen", "seen", "set", "InvRouting"),
                             ("chain", "never", "chain", "InvHistTotals")):
        r = _mc(ctx, "neg_" + tag, er, rr, [inv], maxreads=3, n=2, lens="{1}", ploidies="{2}", nb=1)
        v = _violated(r)
        if v != inv:
            raise tlc.TlcError(f"negative control {tag}: expected a counterexample to {inv}, TLC says:\n" + r["out"][-2000:])
        neg[tag] = f"{inv} violated as expected (ExitRule={er}, RowRule={rr}); counterexample after {r['states']} states"
    ctx.notes["design_negative_controls"] = neg
    return out


# ----------------------------------------------------------------------------------------------
# scenarios
def _from_gen(g):
    lines = [[x["name"], x["hap"], x["ps"], x["chrom"]] for x in g["list"]]
    o = g["mat"]["ord"]
    if o == 1:
        lines.reverse()
    elif o == 2 and lines:
        lines = lines[1:] + lines[:1]
    fmt = FMTS[g["mat"]["fmt"]]
    reads = []
    for i, r in enumerate(g["reads"], start=1):
        noseq = fmt == "bam" and (r["len"] == 0 or (i * 7 + r["len"]) % 5 == 0)
        reads.append([r["name"], r["len"], noseq])
    m = g["mat"]
    return {"src": g["src"], "reads": reads, "list": lines, "opt": g["opt"],
            "mat": {"fmt": fmt, "cols": m["cols"], "header": m["header"], "listgz": m["listgz"], "dasho": m["dasho"],
                    "histo": m["histo"], "namestyle": 0, "final_nl": True}}


def _rand(rng):
    p = rng.choice([2, 2, 3, 4])
    nn = rng.randint(1, 8)
    lens = rng.choice([[0, 1, 2], [5, 5, 8], [0, 3, 30], [1], [2, 3, 5, 8, 13]])
    fmt = rng.choice(FMTS)
    nreads = rng.choice([0, 1, 2, 3, 5, 8, 12])
    reads = []
    for _ in range(nreads):
        ln = rng.choice(lens)
        reads.append([rng.randint(1, nn), ln, fmt == "bam" and (ln == 0 or rng.random() < 0.2)])
    blocks = [(c, s) for c in (1, 2, 3) for s in (1, 2, 3)]
    blocks = rng.sample(blocks, rng.randint(1, 4))
    lines = []
    for n in rng.sample(range(1, nn + 3), rng.randint(0, min(8, nn + 2))):
        if rng.random() < 0.25:
            lines.append([n, 0, 0, 0])
        else:
            c, s = rng.choice(blocks)
            lines.append([n, rng.randint(1, p), s, c])
    if lines and rng.random() < 0.25:
        # a haplotag list has one line per ALIGNMENT: mates and supplementary alignments repeat a name (same entry)
        for l_ in rng.sample(lines, rng.randint(1, min(3, len(lines)))):
            lines.insert(rng.randint(0, len(lines)), list(l_))
    disc = rng.random() < 0.35 and bool(lines)
    largest = rng.random() < 0.4
    dasho = p > 2 or rng.random() < 0.4
    if dasho:
        req = [rng.random() < 0.6] + [True] * p
    else:
        req = [rng.random() < 0.6] + rng.choice([[True, True], [True, True], [True, False], [False, True]])
    sc = {"src": "random", "reads": reads, "list": lines,
          "opt": {"ploidy": p, "req": req, "addU": rng.random() < 0.35, "disc": disc, "largest": largest},
          "mat": {"fmt": fmt, "cols": 4 if largest or rng.random() < 0.6 else 2, "header": (not lines) or rng.random() < 0.5,
                  "listgz": rng.random() < 0.2, "dasho": dasho, "histo": rng.random() < 0.85,
                  "namestyle": rng.randint(0, 1), "final_nl": rng.random() < 0.8}}
    if rng.random() < 0.5:
        _alphabet_style(sc, rng)       # read names over the full QNAME alphabet
    return sc


def scenarios(ctx):
    q = ctx.quick
    global EXHAUSTIVE
    EXHAUSTIVE = not q      # quick writes only every 7th element of the tiny product (the design-level MC is exhaustive in both tiers)
    gen = os.path.join(ctx.workdir, "gen14.ndjson")
    cfg = tlc.write_cfg(os.path.join(ctx.workdir, "gen14.cfg"), consts={"TinySample": 7 if q else 1, "LatticeN": 5000 if q else 60000})
    rc, out, _ = tlc._java(["-config", cfg, "-workers", "1", "-metadir", tlc._metadir(), "-noGenerateSpecTE", "Gen_C14.tla"],
                           env_extra={"OUT_FILE": gen}, timeout=1500, serial=True, xmx="6g")
    if rc != 0:
        raise tlc.TlcError("Gen_C14 failed:\n" + out[-2000:])
    with open(gen) as fh:
        gens = [json.loads(x) for x in fh if x.strip()]
    scs = [_from_gen(g) for g in gens]
    for i, s in enumerate(scs):
        if s["src"] == "lattice" and i % 3 == 0:
            _alphabet_style(s, ctx.rng)    # every third lattice point with read names over the full QNAME alphabet
    ctx.notes["tlc_generated"] = {"tiny_product": sum(1 for s in scs if s["src"] == "tiny"),
                                  "tiny_product_stride": 7 if q else 1,
                                  "lattice_points": sum(1 for s in scs if s["src"] == "lattice")}
    # the counterexamples TLC reports for the design alternatives implemented today (see design_mc), as real runs
    base = {"fmt": "bam", "cols": 2, "header": False, "listgz": False, "dasho": False, "histo": True, "namestyle": 0, "final_nl": True}
    for fmt in FMTS:
        scs.append({"src": "design-counterexample", "reads": [[1, 1, False], [1, 1, False]], "list": [[1, 0, 0, 0]],
                    "opt": {"ploidy": 2, "req": [False, False, True], "addU": True, "disc": True, "largest": False},
                    "mat": dict(base, fmt=fmt)})
        scs.append({"src": "design-counterexample", "reads": [[1, 1, False], [2, 1, False]], "list": [[1, 1, 0, 0], [2, 2, 0, 0]],
                    "opt": {"ploidy": 2, "req": [True, True, True], "addU": False, "disc": False, "largest": False},
                    "mat": dict(base, fmt=fmt)})
    n = 1500 if q else 30000
    scs += [_rand(ctx.rng) for _ in range(n)]
    ctx.notes["seeded_random"] = n
    feats = {"duplicate_read_names": 0, "zero_length_read": 0, "only_largest_block": 0, "largest_block_tie": 0,
             "discard_unknown": 0, "add_untagged": 0, "list_name_absent_from_reads": 0, "none_entry": 0,
             "names_over_full_qname_alphabet": 0, "tagged_name_starts_with_quote_or_comment_char": 0}
    for s in scs:
        names = [r[0] for r in s["reads"]]
        feats["duplicate_read_names"] += len(set(names)) < len(names)
        feats["zero_length_read"] += any(r[1] == 0 for r in s["reads"])
        feats["only_largest_block"] += s["opt"]["largest"]
        feats["largest_block_tie"] += s["opt"]["largest"] and len(_selections(s["list"])) > 1
        feats["discard_unknown"] += s["opt"]["disc"]
        feats["add_untagged"] += s["opt"]["addU"]
        feats["list_name_absent_from_reads"] += any(l[0] not in names for l in s["list"])
        feats["none_entry"] += any(l[1] == 0 for l in s["list"])
        st = s["mat"]["namestyle"]
        feats["names_over_full_qname_alphabet"] += st >= 2
        feats["tagged_name_starts_with_quote_or_comment_char"] += st >= 2 and any(
            l[1] > 0 and l[0] in names and _name(l[0], st)[0] in "\"'`#" for l in s["list"])
    ctx.notes["scenario_features"] = {k: int(v) for k, v in feats.items()}
    return scs


# ----------------------------------------------------------------------------------------------
# a Python rendering of Split.tla's Targets - ONLY used for nontrivial() and signature(), never for verdicts
def _selections(lines):
    sizes = {}
    for n, h, ps, c in lines:
        if h > 0:
            sizes.setdefault(c, {}).setdefault(ps, 0)
            sizes[c][ps] += 1
    sels = [{}]
    for c, d in sorted(sizes.items()):
        mx = max(d.values())
        sels = [{**s, c: ps} for s in sels for ps in sorted(d) if d[ps] == mx]
    return sels


def _targets(sc, sel):
    o = sc["opt"]
    hap = {}
    listed = set()
    for n, h, ps, c in sc["list"]:
        listed.add(n)
        if h > 0 and (not o["largest"] or sel.get(c) == ps):
            hap[n] = h
    res = []
    for n, ln, _ in sc["reads"]:
        if o["disc"] and n not in listed:
            res.append(())
        elif hap.get(n, 0) > 0:
            res.append((hap[n],))
        elif o["addU"]:
            res.append(tuple(range(o["ploidy"] + 1)))
        else:
            res.append((0,))
    return res


def _expected_names(sc, sel, stop_after_written=None):
    o = sc["opt"]
    outs = [[] for _ in range(o["ploidy"] + 1)]
    written = 0
    for (n, ln, _), t in zip(sc["reads"], _targets(sc, sel)):
        if not t:
            continue
        h = t[0] if len(t) == 1 else 0
        if not (o["req"][h] or (h == 0 and o["addU"])):
            continue
        for k in t:
            outs[k].append(n)
        written += 1
        if stop_after_written is not None and written == stop_after_written:
            break
    return [outs[k] if o["req"][k] else [] for k in range(o["ploidy"] + 1)]


# ----------------------------------------------------------------------------------------------
# materialisation and observation
# the legal alphabet of a SAM QNAME, [!-?A-~] (printable ASCII without blank and '@'); FASTQ names use the same one here
QNAME_ALPHABET = "".join(chr(c) for c in range(33, 127) if c != 64)
_SYMBOLS = "".join(c for c in QNAME_ALPHABET if not c.isalnum())
_LETTERS = "".join(c for c in QNAME_ALPHABET if c.isalpha())
# characters that mean something to table / CSV / shell / comment parsers: quotes, comment and separator characters, escapes
_META = "\"'`#,;\\|"


def _name(n, style):
    """Injective in n for every style.  style 0: read<n>; 1: PacBio-style; >= 2: a name over the full QNAME alphabet -
    the decimal digits of n (the only digits of the name) surrounded by pseudo-random runs (seeded by style and n) of
    symbols and letters, so that names start with, contain and end with every legal character, half of the time one
    of the quote / comment / separator / escape characters."""
    if style == 0:
        return f"read{n}"
    if style == 1:
        return f"m64011_190830_220126/{n * 131}/ccs"
    import random
    r = random.Random(style * 1009 + n)

    def run(k, letters):
        out = ""
        for _ in range(k):
            x = r.random()
            out += r.choice(_META) if x < 0.5 else r.choice(_LETTERS if letters and x < 0.7 else _SYMBOLS)
        return out
    pre = run(r.choice([0, 1, 1, 1, 2, 3]), r.random() < 0.3)
    suf = run(r.choice([0, 0, 1, 1, 2, 3]), True)
    return pre + str(n) + suf


def _alphabet_style(sc, rng):
    """Gives the scenario names over the full QNAME alphabet.  A first line that starts with '#' IS a header by the
    definition of the list format, so a list whose first entry has such a name gets a header line (see ASSUMPTIONS)."""
    m = sc["mat"]
    m["namestyle"] = rng.randint(2, 10 ** 6)
    if sc["list"] and _name(sc["list"][0][0], m["namestyle"]).startswith("#"):
        m["header"] = True
    return sc


def _seq(i, ln):
    return "".join("ACGT"[(i + j * (1 + i % 3)) % 4] for j in range(ln))


def _fastq_records(sc):
    recs = []
    for i, (n, ln, _) in enumerate(sc["reads"], start=1):
        head = "@" + _name(n, sc["mat"]["namestyle"])
        if ln == 0 or i % 2 == 0:
            head += f" idx={i}"          # a comment; the quality string alone identifies the other records
        recs.append(f"{head}\n{_seq(i, ln)}\n+\n{chr(34 + i) * ln}\n")
    return recs


def _parse_fastx(text):
    """Independent reader of the outputs: splits the text into records (FASTQ: 4 lines, or whatever else is there:
    a '>' line with its sequence line) and returns [(name, raw text, sequence length)]."""
    lines = text.split("\n")
    if lines and lines[-1] == "":
        lines.pop()
    out = []
    i = 0
    while i < len(lines):
        ln = lines[i]
        if ln.startswith("@") and i + 3 < len(lines) and lines[i + 2].startswith("+"):
            chunk = lines[i:i + 4]
            i += 4
        elif ln.startswith(">"):
            chunk = lines[i:i + 2]
            i += 2
        else:
            chunk = [ln]
            i += 1
        name = chunk[0][1:].split()[0] if len(chunk[0]) > 1 else ""
        out.append((name, "\n".join(chunk) + "\n", len(chunk[1]) if len(chunk) > 1 else 0))
    return out


def _bam_len(a):
    if a.query_sequence:
        return len(a.query_sequence)
    if a.cigartuples:
        return sum(n for op, n in a.cigartuples if op in (0, 1, 4, 7, 8))
    return 0


def _read_bam(path):
    import pysam
    with pysam.AlignmentFile(path, check_sq=False) as f:
        return [(a.query_name, a.to_string(), _bam_len(a)) for a in f.fetch(until_eof=True)]


def drive(sc):
    import argparse
    import logging
    import pysam
    from whatshap.cli.split import run_split, validate
    from wv import world
    logging.getLogger("whatshap").setLevel(logging.CRITICAL)
    o, m = sc["opt"], sc["mat"]
    p = o["ploidy"]
    base = os.path.join(os.environ.get("WV_SCRATCH", "/var/tmp/whverif"), "work")
    os.makedirs(base, exist_ok=True)
    d = tempfile.mkdtemp(prefix="c14-", dir=base)
    try:
        fmt = m["fmt"]
        style = m["namestyle"]
        # ---- the reads ----
        rpath = os.path.join(d, "reads." + fmt)
        if fmt == "bam":
            mapped = any(ns and ln > 0 for _, ln, ns in sc["reads"])
            recs = []
            for i, (n, ln, ns) in enumerate(sc["reads"], start=1):
                r = {"name": _name(n, style), "flag": 4, "ref": -1, "pos": -1, "mapq": 0, "tags": [("xi", i)],
                     "seq": None if ns else _seq(i, ln), "qual": None if ns or ln == 0 else chr(34 + i) * ln}
                if ns and ln > 0:      # no sequence, length only known from the CIGAR
                    r.update(flag=256, ref=0, pos=10 + i, mapq=20, cigar=f"{ln}M")
                if not ns and ln == 0:
                    r["seq"] = None
                recs.append(r)
            world.write_bam(rpath, [("chr1", 1000)] if mapped else [], recs, sort=False, index=False)
            inp = _read_bam(rpath)
        else:
            text = "".join(_fastq_records(sc))
            if fmt == "fastq.gz":
                with gzip.open(rpath, "wt") as fh:
                    fh.write(text)
            else:
                with open(rpath, "w") as fh:
                    fh.write(text)
            inp = _parse_fastx(text)
        assert [x[0] for x in inp] == [_name(n, style) for n, _, _ in sc["reads"]], "materialiser: names"
        assert [x[2] for x in inp] == [ln for _, ln, _ in sc["reads"]], "materialiser: lengths"
        content_id = {}
        for i, x in enumerate(inp, start=1):
            assert x[1] not in content_id, "materialiser: record contents must be unique"
            content_id[x[1]] = i
        name_id = {_name(n, style): n for n in range(0, 64)}
        # ---- the list ----
        lpath = os.path.join(d, "haplotags.tsv" + (".gz" if m["listgz"] else ""))
        rows = []
        if m["header"]:
            rows.append("#readname\thaplotype" + ("\tphaseset\tchromosome" if m["cols"] == 4 else ""))
        for n, h, ps, c in sc["list"]:
            row = [_name(n, style), "none" if h == 0 else f"H{h}"]
            if m["cols"] == 4:
                row += ["none", "chr1"] if h == 0 else [str(1000 * ps + 7), f"chr{c}"]
            rows.append("\t".join(row))
        ltext = "\n".join(rows) + ("\n" if m["final_nl"] and rows else "")
        with (gzip.open(lpath, "wt") if m["listgz"] else open(lpath, "w")) as fh:
            fh.write(ltext)
        # ---- the command line ----
        paths = [os.path.join(d, f"out{k}.{fmt}") if o["req"][k] else None for k in range(p + 1)]
        hpath = os.path.join(d, "hist.tsv") if m["histo"] else None
        kw = dict(reads_file=rpath, list_file=lpath, output_untagged=paths[0], add_untagged=o["addU"],
                  only_largest_block=o["largest"], discard_unknown_reads=o["disc"], read_lengths_histogram=hpath)
        if m["dasho"]:
            assert all(paths[1:])
            kw.update(output_h1=None, output_h2=None, outputs=paths[1:])
        else:
            assert p == 2
            kw.update(output_h1=paths[1], output_h2=paths[2], outputs=None)

        class _P:
            def error(self, msg):
                raise ValueError(msg)
        try:
            validate(argparse.Namespace(**kw), _P())
            valid = True
        except ValueError:
            valid = False
        ev = {"ev": "Split", "reads": [{"name": n, "len": ln, "id": i} for i, (n, ln, _) in enumerate(sc["reads"], start=1)],
              "list": [{"name": n, "hap": h, "ps": ps, "chrom": c} for n, h, ps, c in sc["list"]],
              "opt": o, "cols": m["cols"], "valid": valid, "exc": "", "outs": [], "histreq": bool(hpath), "hist": []}
        try:
            run_split(**kw)
        except Exception as e:  # expected behaviour would be logged as a field; inside the domain nothing is expected
            ev["exc"] = type(e).__name__
            ev["detail"] = str(e)[:200]
            return [ev]
        # ---- read everything back ----
        for k in range(p + 1):
            if paths[k] is None:
                ev["outs"].append([])
                continue
            if fmt == "bam":
                got = _read_bam(paths[k])
            else:
                with (gzip.open(paths[k], "rt") if fmt == "fastq.gz" else open(paths[k])) as fh:
                    got = _parse_fastx(fh.read())
            ev["outs"].append([{"name": name_id.get(nm, 99), "id": content_id.get(raw, 0), "len": ln} for nm, raw, ln in got])
        if hpath:
            with open(hpath) as fh:
                hl = fh.read().split("\n")
            ev["histhead"] = hl[0]
            for line in hl[1:]:
                if line:
                    try:
                        ev["hist"].append([int(x) for x in line.split("\t")])
                    except ValueError:
                        ev["hist"].append([-1])
        return [ev]
    finally:
        shutil.rmtree(d, ignore_errors=True)


# ----------------------------------------------------------------------------------------------
def nontrivial(sc, events):
    if len(sc["reads"]) < 2:
        return False
    return any(len(set(_targets(sc, sel))) >= 2 for sel in _selections(sc["list"]))


def _obs_names(e):
    return [[r["name"] for r in out] for out in e["outs"]]


def signature(sc, events, clause):
    o, m = sc["opt"], sc["mat"]
    e = events[0]
    names = [r[0] for r in sc["reads"]]
    dup = int(len(set(names)) < len(names))
    gen = (f"ploidy={o['ploidy']} add_untagged={int(o['addU'])} discard_unknown={int(o['disc'])} "
           f"only_largest_block={int(o['largest'])}")
    if e.get("ev") != "Split":
        return f"fmt={m['fmt']} {gen} {e.get('where', '')}"
    if e["exc"]:
        return f"exception={e['exc']} fmt={m['fmt']} {gen}"
    if clause in ("Routing", "Partition", "SpecLemma"):
        # is the observation exactly what the early exit after len(set(list names)) written reads produces?
        trunc = 0
        if o["disc"]:
            k = len({l[0] for l in sc["list"]})
            trunc = int(any(_obs_names(e) == _expected_names(sc, sel, stop_after_written=k) for sel in _selections(sc["list"])))
        return f"discard_unknown={int(o['disc'])} duplicate_read_names={dup} truncated_by_early_exit={trunc}" + \
               ("" if trunc else f" add_untagged={int(o['addU'])} only_largest_block={int(o['largest'])} ploidy={o['ploidy']}")
    if clause in ("Unmodified", "InputOrder"):
        bad = [r for out in e["outs"] for r in out if r["id"] == 0]
        onlyzero = int(bool(bad) and all(r["len"] == 0 for r in bad))
        fq = "fastq" if m["fmt"].startswith("fastq") else m["fmt"]
        return f"fmt={fq} modified_records_all_zero_length={onlyzero}" + ("" if onlyzero else " " + gen)
    if clause.startswith("Histogram"):
        lens = [r[0] for r in e["hist"]]
        return (f"duplicate_length_rows={int(len(set(lens)) < len(lens))}" +
                ("" if len(set(lens)) < len(lens) else f" fmt={m['fmt']} {gen}"))
    return f"fmt={m['fmt']} {gen}"


def selftest_corrupt(events):
    """Binding demonstration: move a record to another output in one recorded run, add 1 to a histogram count in another."""
    n = 0
    for e in events:
        if e.get("ev") != "Split" or e["exc"] or e["opt"]["disc"] or e["opt"]["addU"]:
            continue
        if n == 0 and e["opt"]["req"][0] and e["opt"]["req"][1] and e["outs"][1]:
            e["outs"][0].append(e["outs"][1].pop())
            n = 1
        elif n == 1 and e["histreq"] and e["hist"] and len({r[0] for r in e["hist"]}) == len(e["hist"]):
            e["hist"][0][1] += 1
            n = 2
            break
    return events


MANIFEST = {
    "text": "Split.tla states the property of `whatshap split` as relations over an abstract input (reads [name, length, id], list lines "
            "[name, haplotype, phase set, chromosome], options): Targets(read), Routing / Unmodified / InputOrder (together: every requested "
            "output is exactly the subsequence of the input its targets select), Partition, HistogramCounts / HistogramTotals; "
            "--only-largest-block is a relation over all largest-block selections.  SplitAlg.tla models run_split as a state machine (one "
            "read at a time, writer[haplotype], per-class length Counter, histogram rows) with today's early exit and row rule as selectable "
            "design alternatives; TLC proves the reference design correct on all tiny inputs, proves the early exit harmless for unique read "
            "names and exhibits counterexamples for the alternatives whatshap implements.  TLC generates the scenarios (complete tiny product + "
            "decoded lattice of the large space, read names also over the full QNAME alphabet); each is written as FASTQ/FASTQ.gz/unaligned BAM + list file, run through the real "
            "run_split in-process, every output and the histogram are read back and TLC judges each recorded run against Split.tla.",
    "note": "trusted: TLC, Split.tla, the materialiser/reader in wv/props/c14.py (asserts names, lengths and unique record contents of what it "
            "wrote); bounds: design MC <=3 reads over 2-3 names; scenarios <=12 reads, <=8 list lines, ploidy 2-4",
    "technique": "TLA+ property spec + TLC model checking of an implementation-shaped state machine + TLC-generated scenarios + TLC trace validation of real runs",
}
