"""C03 - phase sets are exactly the read-connected components, named by leftmost variant."""
from .. import phaseprops as PP
from .. import phaseworld as PW

PROP = "C03"
TRACE_MODULE = PP.TRACE_MODULE
TASK_TIMEOUT = PP.TASK_TIMEOUT
drive = PP.drive
own_clause = PP.own_clause_for(PROP)
signature = PP.signature
EXHAUSTIVE = False
RULE = ("worlds biased to interesting incidence structures: paired/gapped reads producing interleaved and nested components, depth "
        "above a small cap so that read selection cuts components, deep nesting (about 15% of the worlds: 8-12 sites, fragments covering 2-3 "
        "far-apart sites each through reference skips, candidates drawn until the input structure has 2-3 nesting levels, i.e. a small "
        "outer component is joined to a larger one inside it and their union to a still larger one starting further right, random "
        "file order of the fragments), several samples, trios/quartets (master block of homozygous "
        "positions, with and without --no-genetic-haplotyping), PS and HP tags; connectivity is computed by TLC from the reads the "
        "code reports as used (H1 hook); non-trivial = at least two phase sets in one sample/chromosome, or a pedigree run")
ASSUMPTIONS = [
    "connectivity is judged on the reads whatshap itself reports as selected (H1), not on what the harness intended",
    "the number of nesting levels of a deep-nesting world is computed from the generated incidence structure alone (nesting_levels), "
    "assuming the ReadSet order by first site; the verdict never depends on it (connectivity and leftmost site come from H1 + TLC)",
    "with --distrust-genotypes heterozygosity and the master block are taken from the run's own result (super-reads recorded by H1)",
]


def design_mc(ctx):
    return PP.design_mc_pipeline(ctx)


def sparse_gapped_world(rng):
    """Few fragments, most of them gapped (two mates with uncovered sites in between), over 4-8 heterozygous SNVs: fragments
    with the same first and last site but different inner sites, blocks nested in the gap of another fragment, components
    that hang together by a single fragment."""
    n = rng.randint(4, 8)
    truth = [rng.choice([[0, 1], [1, 0]]) for _ in range(n)]
    reads = []
    shape = rng.choice(["random", "random", "twins", "nested"])
    if shape != "random":
        f = rng.randint(0, n - 4)
        hp = lambda: rng.randint(0, 1)
        mk = lambda first, last, gap: {"sample": "s1", "chrom": 0, "hap": hp(), "first": first, "last": last, "gap": gap, "copies": 1}
        if shape == "twins":      # {f, f+1 | f+3} and {f | f+2, f+3}: same span, same number of sites, different inner sites
            reads += [mk(f, f + 3, [f + 1, f + 3]), mk(f, f + 3, [f, f + 2])]
        else:                     # {f | f+3} around the separate block {f+1, f+2}
            reads += [mk(f, f + 3, [f, f + 3]), mk(f + 1, f + 2, None)]
        rng.shuffle(reads)
        for _ in range(rng.randint(0, 2)):      # further fragments entirely left or right of the structure
            lo, hi = (0, f - 1) if rng.random() < 0.5 else (f + 4, n - 1)
            if hi - lo >= 1:
                a = rng.randint(lo, hi - 1)
                reads.append(mk(a, rng.randint(a + 1, hi), None))
        return {"seed": rng.randrange(10 ** 6), "chroms": [{"name": "chr1", "sites": [{"kind": "snv", "len": 1} for _ in range(n)]}],
                "samples": ["s1"], "truth": {"s1": [truth]}, "reads": reads, "errfree": True, "ped": []}
    for _ in range(rng.randint(2, 6)):
        first = rng.randint(0, n - 2)
        last = rng.randint(first + 1, min(n - 1, first + rng.choice([1, 2, 3, 4, 7])))
        gap = None
        if last - first >= 2 and rng.random() < 0.75:
            a = rng.randint(first, last - 2)
            b = rng.randint(a + 2, last)
            gap = [a, b]
        reads.append({"sample": "s1", "chrom": 0, "hap": rng.randint(0, 1), "first": first, "last": last, "gap": gap, "copies": 1})
    if rng.random() < 0.5 and reads:        # a second fragment with the same span and the same number of sites, other inner sites
        r = rng.choice(reads)
        if r["last"] - r["first"] >= 3:
            k = rng.randint(r["first"], r["last"] - 2)
            reads.append(dict(r, gap=[k, k + 2], hap=rng.randint(0, 1)))
            reads.append(dict(r, gap=[max(r["first"], k - 1), min(r["last"], k + 1)] if k - 1 >= r["first"] and k + 1 - (k - 1) >= 2 else [k, k + 2],
                              hap=rng.randint(0, 1)))
    return {"seed": rng.randrange(10 ** 6), "chroms": [{"name": "chr1", "sites": [{"kind": "snv", "len": 1} for _ in range(n)]}],
            "samples": ["s1"], "truth": {"s1": [truth]}, "reads": reads, "errfree": True, "ped": []}


def nesting_levels(n, reads):
    """Structural measure of an incidence structure (reads = sorted tuples of site indices): joining the reads from left to right
    (by first site, the order of a ReadSet), how many times in a row the part that holds the leftmost site of a growing component
    was the minority at a join (strictly fewer sites than the other part, or as many and at least two).  0 for chains of
    overlapping reads; >= 2 means a small outer component was swallowed by a larger one lying inside/right of it, and their union
    again by a still larger one whose leftmost site lies further right."""
    comp = {i: i for i in range(n)}
    members = {i: [i] for i in range(n)}
    depth = {i: 0 for i in range(n)}
    best = 0
    for r in sorted(reads, key=lambda r: r[0]):
        for y in r[1:]:
            a, b = comp[r[0]], comp[y]
            if a == b:
                continue
            lo, hi = (a, b) if min(members[a]) < min(members[b]) else (b, a)
            nl, nh = len(members[lo]), len(members[hi])
            d = depth[lo] + (1 if nl < nh or (nl == nh and nl >= 2) else 0)
            members[lo] += members[hi]
            for s in members[hi]:
                comp[s] = lo
            del members[hi]
            depth[lo] = d
            best = max(best, d)
    return best


def nested_levels_world(rng, want_levels=2, tries=400):
    """8-12 heterozygous SNVs in ONE sample, 3-11 fragments that each cover 2-3 FAR-APART sites (one alignment whose other sites lie
    in reference skips): the fragments start at the first few sites and reach arbitrarily far to the right, so that components are
    interleaved and nested over several levels (a component inside the gap of another one inside the gap of a third ...) and are
    joined late, from the right.  Candidates are drawn until the structure has at least `want_levels` nesting levels
    (nesting_levels above; a property of the INPUT, no code under test involved); the order of the fragments in the file (= their
    names, which break ties of the ReadSet order) is random."""
    n, reads = 0, []
    for _ in range(tries):
        n = rng.randint(8, 12)
        reads = []
        if rng.random() < 0.8:
            for j in range(rng.randint(3, 6)):          # fragments starting at site j, one per start site or two
                for _ in range(1 if j == 0 else rng.choice([1, 2])):
                    m = 1 if j == 0 else rng.randint(1, 2)
                    reads.append(tuple(sorted([j] + rng.sample(range(j + 1, n), m))))
        else:                                           # any 2-3 sites
            for _ in range(rng.randint(3, n)):
                reads.append(tuple(sorted(rng.sample(range(n), rng.randint(2, 3)))))
        reads = sorted(set(reads))
        if nesting_levels(n, reads) >= want_levels:
            break
    rng.shuffle(reads)
    truth = [rng.choice([[0, 1], [1, 0]]) for _ in range(n)]
    rd = [{"sample": "s1", "chrom": 0, "hap": rng.randint(0, 1), "first": r[0], "last": r[-1], "gap": None, "sites": list(r), "copies": 1}
          for r in reads]
    return {"seed": rng.randrange(10 ** 6), "chroms": [{"name": "chr1", "sites": [{"kind": "snv", "len": 1} for _ in range(n)]}],
            "samples": ["s1"], "truth": {"s1": [truth]}, "reads": rd, "errfree": True, "ped": []}


def scenarios(ctx):
    rng = ctx.rng
    scs = []
    n = 2500 if ctx.quick else 25000
    for i in range(n):
        if rng.random() < 0.15:
            # deep nesting: several levels of interleaved components from fragments covering 2-3 far-apart sites each
            w = nested_levels_world(rng, want_levels=rng.choice([0, 2, 2, 2, 3]))
            w["opts"] = {"tag": rng.choice(["PS", "HP"]), "max_coverage": rng.choice([15, 15, 15, 5])}
            if rng.random() < 0.2:
                w["stale_phase"] = rng.choice(["PS", "HP"])
            if rng.random() < 0.2:
                w["gt_desc"] = True
            if rng.random() < 0.1:
                w["first_at_zero"] = True
            scs.append({"world": w})
            continue
        mode = rng.random()
        if mode < 0.65:
            # a third of the worlds mix indels in; under --only-snvs those are records the run skips
            kinds = ("snv",) if rng.random() < 0.65 else ("snv", "snv", "ins", "del")
            w = PW.rand_world(rng, nsamples=rng.choice([1, 1, 2]), nchroms=1, max_sites=rng.choice([6, 9, 12]),
                              depth=rng.choice([(1, 1), (1, 2), (4, 9)]), gap_prob=rng.choice([0.3, 0.7]), kinds=kinds)
            o = {"tag": rng.choice(["PS", "HP"]), "max_coverage": rng.choice([15, 2, 3, 4])}
            if len(kinds) > 1 and rng.random() < 0.6:
                o["only_snvs"] = True
            if rng.random() < 0.3:
                w = sparse_gapped_world(rng)
                o.pop("only_snvs", None)
        else:
            quartet = rng.random() < 0.4
            ped = [["s1", "s2", "s3"]] + ([["s1", "s2", "s4"]] if quartet else [])
            if rng.random() < 0.4:
                ped = PW.shuffle_roles(rng, ped, [f"s{k + 1}" for k in range(4 if quartet else 3)])
            w = PW.rand_world(rng, nsamples=4 if quartet else 3, nchroms=1, ped=ped, max_sites=rng.choice([5, 8]),
                              het_prob=rng.choice([0.5, 0.8, 1.0]), depth=(1, 2), gap_prob=0.3, kinds=("snv",),
                              read_none_prob=rng.choice([0.0, 0.4]))
            o = {"tag": rng.choice(["PS", "HP"]), "ped": True, "genetic_haplotyping": rng.random() < 0.7,
                 "max_coverage": rng.choice([15, 6, 4])}
        if rng.random() < 0.25:
            # --distrust-genotypes: weak likelihoods and some deliberately wrong genotypes so that hom/het status changes
            o["distrust"] = True
            w["pl_weak"] = True
            w["errfree"] = False
            vg = {s: [[f"{min(x)}/{max(x)}" for x in w["truth"][s][ci]] for ci in range(len(w["chroms"]))] for s in w["samples"]}
            for s in w["samples"]:
                for ci in range(len(w["chroms"])):
                    for si in range(len(vg[s][ci])):
                        if rng.random() < 0.3:
                            vg[s][ci][si] = rng.choice(["0/1", "0/1", "0/0", "1/1"])
            w["vcf_gt"] = vg
        w["opts"] = o
        if rng.random() < 0.25:
            PW.add_decoys(rng, w)
        if rng.random() < 0.3:
            w["stale_phase"] = rng.choice(["PS", "HP"])    # the input VCF already carries unrelated phase statements
        if rng.random() < 0.3:
            w["gt_desc"] = True                            # unphased heterozygous genotypes written 1/0
        if rng.random() < 0.15:
            w["first_at_zero"] = True                      # the first site on the first base of its contig
        if rng.random() < 0.2:
            w["multi_before"] = [[ci_, si_] for ci_, ch_ in enumerate(w["chroms"]) for si_ in range(len(ch_["sites"])) if rng.random() < 0.4]
        if rng.random() < 0.15:
            w["phase_vcf"] = True                          # a phased VCF (true haplotypes, blocks) as an additional phase input
        scs.append({"world": w})
    return scs


def nontrivial(sc, events):
    e = events[0]
    if e.get("ev") != "PhaseRun":
        return False
    if e["ped"]:
        return True
    return any(len({x["ps"] for x in c if x["ph"]}) >= 2 for s in e["out"] for c in s)


def selftest_corrupt(events):
    for e in events:
        if e.get("ev") == "PhaseRun":
            for s in e["out"]:
                for c in s:
                    for x in c:
                        if x["ph"]:
                            x["ps"] += 1
                            return events
    return events


MANIFEST = {
    "text": "UnionFind.tla / PhasePipeline.tla specify components as read-connectivity with the minimum as representative; TLC checks "
            "exhaustively (tiny worlds, all stage choices) that written phase sets are exactly those components. On recorded whole runs "
            "TLC recomputes the reflexive-transitive closure of 'some selected read covers both' (plus the master block of homozygous "
            "positions in pedigree mode) from the H1 hook record and requires: same PS iff connected, PS = 1 + leftmost position of the "
            "component, for PS and HP tags, single samples, trios and quartets, with selection cutting components, and for components of 8-12 "
            "variants built over several nesting levels from gapped fragments of 2-3 far-apart variants (joined late, from the right).",
    "note": "trusted: TLC, PhaseRun.tla (Closure/CompOf), H1 hook (guarded, add-only), projection of the output VCF",
    "technique": "TLA+ connectivity definition evaluated by TLC on recorded runs (trace validation) + model-checked pipeline composition",
}
