"""C03 - phase sets are exactly the read-connected components, named by leftmost variant."""
from .. import phaseprops as PP
from .. import phaseworld as PW

PROP = "C03"
TRACE_MODULE = PP.TRACE_MODULE
TASK_TIMEOUT = PP.TASK_TIMEOUT
drive = PP.drive
own_clause = PP.own_clause_for(PROP)
signature = PP.signature
EXHAUSTIVE = False
RULE = ("worlds biased to interesting incidence structures: paired/gapped reads producing interleaved and nested components, depth "
        "above a small cap so that read selection cuts components, several samples, trios/quartets (master block of homozygous "
        "positions, with and without --no-genetic-haplotyping), PS and HP tags; connectivity is computed by TLC from the reads the "
        "code reports as used (H1 hook); non-trivial = at least two phase sets in one sample/chromosome, or a pedigree run")
ASSUMPTIONS = [
    "connectivity is judged on the reads whatshap itself reports as selected (H1), not on what the harness intended",
    "with --distrust-genotypes heterozygosity and the master block are taken from the run's own result (super-reads recorded by H1)",
]


def design_mc(ctx):
    return PP.design_mc_pipeline(ctx)


def sparse_gapped_world(rng):
    """Few fragments, most of them gapped (two mates with uncovered sites in between), over 4-8 heterozygous SNVs: fragments
    with the same first and last site but different inner sites, blocks nested in the gap of another fragment, components
    that hang together by a single fragment."""
    n = rng.randint(4, 8)
    truth = [rng.choice([[0, 1], [1, 0]]) for _ in range(n)]
    reads = []
    shape = rng.choice(["random", "random", "twins", "nested"])
    if shape != "random":
        f = rng.randint(0, n - 4)
        hp = lambda: rng.randint(0, 1)
        mk = lambda first, last, gap: {"sample": "s1", "chrom": 0, "hap": hp(), "first": first, "last": last, "gap": gap, "copies": 1}
        if shape == "twins":      # {f, f+1 | f+3} and {f | f+2, f+3}: same span, same number of sites, different inner sites
            reads += [mk(f, f + 3, [f + 1, f + 3]), mk(f, f + 3, [f, f + 2])]
        else:                     # {f | f+3} around the separate block {f+1, f+2}
            reads += [mk(f, f + 3, [f, f + 3]), mk(f + 1, f + 2, None)]
        rng.shuffle(reads)
        for _ in range(rng.randint(0, 2)):      # further fragments entirely left or right of the structure
            lo, hi = (0, f - 1) if rng.random() < 0.5 else (f + 4, n - 1)
            if hi - lo >= 1:
                a = rng.randint(lo, hi - 1)
                reads.append(mk(a, rng.randint(a + 1, hi), None))
        return {"seed": rng.randrange(10 ** 6), "chroms": [{"name": "chr1", "sites": [{"kind": "snv", "len": 1} for _ in range(n)]}],
                "samples": ["s1"], "truth": {"s1": [truth]}, "reads": reads, "errfree": True, "ped": []}
    for _ in range(rng.randint(2, 6)):
        first = rng.randint(0, n - 2)
        last = rng.randint(first + 1, min(n - 1, first + rng.choice([1, 2, 3, 4, 7])))
        gap = None
        if last - first >= 2 and rng.random() < 0.75:
            a = rng.randint(first, last - 2)
            b = rng.randint(a + 2, last)
            gap = [a, b]
        reads.append({"sample": "s1", "chrom": 0, "hap": rng.randint(0, 1), "first": first, "last": last, "gap": gap, "copies": 1})
    if rng.random() < 0.5 and reads:        # a second fragment with the same span and the same number of sites, other inner sites
        r = rng.choice(reads)
        if r["last"] - r["first"] >= 3:
            k = rng.randint(r["first"], r["last"] - 2)
            reads.append(dict(r, gap=[k, k + 2], hap=rng.randint(0, 1)))
            reads.append(dict(r, gap=[max(r["first"], k - 1), min(r["last"], k + 1)] if k - 1 >= r["first"] and k + 1 - (k - 1) >= 2 else [k, k + 2],
                              hap=rng.randint(0, 1)))
    return {"seed": rng.randrange(10 ** 6), "chroms": [{"name": "chr1", "sites": [{"kind": "snv", "len": 1} for _ in range(n)]}],
            "samples": ["s1"], "truth": {"s1": [truth]}, "reads": reads, "errfree": True, "ped": []}


def scenarios(ctx):
    rng = ctx.rng
    scs = []
    n = 2500 if ctx.quick else 25000
    for i in range(n):
        mode = rng.random()
        if mode < 0.65:
            # a third of the worlds mix indels in; under --only-snvs those are records the run skips
            kinds = ("snv",) if rng.random() < 0.65 else ("snv", "snv", "ins", "del")
            w = PW.rand_world(rng, nsamples=rng.choice([1, 1, 2]), nchroms=1, max_sites=rng.choice([6, 9, 12]),
                              depth=rng.choice([(1, 1), (1, 2), (4, 9)]), gap_prob=rng.choice([0.3, 0.7]), kinds=kinds)
            o = {"tag": rng.choice(["PS", "HP"]), "max_coverage": rng.choice([15, 2, 3, 4])}
            if len(kinds) > 1 and rng.random() < 0.6:
                o["only_snvs"] = True
            if rng.random() < 0.3:
                w = sparse_gapped_world(rng)
                o.pop("only_snvs", None)
        else:
            quartet = rng.random() < 0.4
            ped = [["s1", "s2", "s3"]] + ([["s1", "s2", "s4"]] if quartet else [])
            if rng.random() < 0.4:
                ped = PW.shuffle_roles(rng, ped, [f"s{k + 1}" for k in range(4 if quartet else 3)])
            w = PW.rand_world(rng, nsamples=4 if quartet else 3, nchroms=1, ped=ped, max_sites=rng.choice([5, 8]),
                              het_prob=rng.choice([0.5, 0.8, 1.0]), depth=(1, 2), gap_prob=0.3, kinds=("snv",),
                              read_none_prob=rng.choice([0.0, 0.4]))
            o = {"tag": rng.choice(["PS", "HP"]), "ped": True, "genetic_haplotyping": rng.random() < 0.7,
                 "max_coverage": rng.choice([15, 6, 4])}
        if rng.random() < 0.25:
            # --distrust-genotypes: weak likelihoods and some deliberately wrong genotypes so that hom/het status changes
            o["distrust"] = True
            w["pl_weak"] = True
            w["errfree"] = False
            vg = {s: [[f"{min(x)}/{max(x)}" for x in w["truth"][s][ci]] for ci in range(len(w["chroms"]))] for s in w["samples"]}
            for s in w["samples"]:
                for ci in range(len(w["chroms"])):
                    for si in range(len(vg[s][ci])):
                        if rng.random() < 0.3:
                            vg[s][ci][si] = rng.choice(["0/1", "0/1", "0/0", "1/1"])
            w["vcf_gt"] = vg
        w["opts"] = o
        if rng.random() < 0.25:
            PW.add_decoys(rng, w)
        if rng.random() < 0.3:
            w["stale_phase"] = rng.choice(["PS", "HP"])    # the input VCF already carries unrelated phase statements
        if rng.random() < 0.3:
            w["gt_desc"] = True                            # unphased heterozygous genotypes written 1/0
        if rng.random() < 0.15:
            w["first_at_zero"] = True                      # the first site on the first base of its contig
        if rng.random() < 0.2:
            w["multi_before"] = [[ci_, si_] for ci_, ch_ in enumerate(w["chroms"]) for si_ in range(len(ch_["sites"])) if rng.random() < 0.4]
        if rng.random() < 0.15:
            w["phase_vcf"] = True                          # a phased VCF (true haplotypes, blocks) as an additional phase input
        scs.append({"world": w})
    return scs


def nontrivial(sc, events):
    e = events[0]
    if e.get("ev") != "PhaseRun":
        return False
    if e["ped"]:
        return True
    return any(len({x["ps"] for x in c if x["ph"]}) >= 2 for s in e["out"] for c in s)


def selftest_corrupt(events):
    for e in events:
        if e.get("ev") == "PhaseRun":
            for s in e["out"]:
                for c in s:
                    for x in c:
                        if x["ph"]:
                            x["ps"] += 1
                            return events
    return events


MANIFEST = {
    "text": "UnionFind.tla / PhasePipeline.tla specify components as read-connectivity with the minimum as representative; TLC checks "
            "exhaustively (tiny worlds, all stage choices) that written phase sets are exactly those components. On recorded whole runs "
            "TLC recomputes the reflexive-transitive closure of 'some selected read covers both' (plus the master block of homozygous "
            "positions in pedigree mode) from the H1 hook record and requires: same PS iff connected, PS = 1 + leftmost position of the "
            "component, for PS and HP tags, single samples, trios and quartets, with selection cutting components.",
    "note": "trusted: TLC, PhaseRun.tla (Closure/CompOf), H1 hook (guarded, add-only), projection of the output VCF",
    "technique": "TLA+ connectivity definition evaluated by TLC on recorded runs (trace validation) + model-checked pipeline composition",
}
