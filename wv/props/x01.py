"""X01 - whatshap as a SYSTEM of file-to-file commands: cross-command (metamorphic) invariants of workflows.

Extension of the specification to system level (DESIGN.md Part B section 8): Workflow.tla models the abstract file
system and the commands phase / unphase / stats / compare / haplotag / split / haplotagphase; MC_Workflow explores all
workflows up to a small depth on tiny worlds; TLC-emitted workflows are replayed on real files through the CLI entry
points and X01_Trace checks the invariants W1..W12 on the projected files.  Not a listed property: not in MANIFEST.json.
"""
import json
import os
import random
import re
import shutil

from .. import tlc

PROP = "X01"
TRACE_MODULE = "X01_Trace"
EXHAUSTIVE = True
NPROC = 8
SHARDS = 8
TASK_TIMEOUT = 300
RULE = ("a scenario is one WORKFLOW = a set of commands closed under 'the inputs of a command exist', emitted by TLC as a reachable state "
        "of MC_Workflow (files are named by their derivation, e.g. st(un(phPS(x,b)))) over the commands {phase --tag PS/HP, unphase, stats, "
        "compare, haplotag (+list), split (with/without --discard-unknown-reads), haplotagphase}. Sources: 'bfs4' every workflow of 4 "
        "commands (breadth-first; seeded sample in the quick tier); 'sim7' workflows of 7 commands from TLC's random simulation; 'target' "
        "for each invariant that relates 3-6 commands the smallest workflows exercising it (TLC emits the states in which the "
        "invariant's guard holds, Live(name, fs)); 'target+bfs4', 'target+target', 'target+sim7' unions of two emitted workflows (a union "
        "of workflows is a workflow: a command only needs its inputs). Each workflow is replayed, in dependency order, on real files of "
        "a seeded world (wv/phaseworld: 1-2 samples, 1-2 chromosomes, 2-6 SNV/indel/MNP sites, <= 12 single-end or paired reads per "
        "sample and chromosome, occasional ./. calls; 1 in 5 worlds has reads with a wrong allele) through run_whatshap / run_unphase / "
        "run_stats / run_compare / run_haplotag / run_split / run_haplotagphase; stats and compare run once per sample. Non-trivial = "
        "no command failed, some VCF of the workflow carries a phase set with >= 2 variants, and >= 3 instances of the invariants were "
        "checked (invariant_instances_planned counts the instances by provenance)")
ASSUMPTIONS = [
    "TLC; Workflow.tla PART 1 is the reading of 'what the commands promise each other'; the design of PART 2 is only used at design level",
    "all VCFs of a workflow descend from one unphased bi-allelic diploid VCF x, all BAMs from one BAM b (primary alignments only, "
    "read groups name the sample, read names unique up to mates); stats / compare are run with --sample",
    "W10 (chain restores the phasing, C17 as a link) is only claimed for error-free reads with coverage <= 12 (every read is used by phase)",
    "W3a/W11 rely on `phase` being a deterministic function of its input (C16): --tag only changes the encoding",
    "three input classes hit genuine defects of whatshap found by this check (split --discard-unknown-reads on the haplotag list of a "
    "PAIRED-end BAM: AssertionError; haplotagphase on a VCF with a ./. call under a read: IndexError; compare counts ./. calls as "
    "heterozygous, stats does not): these classes are only generated when WV_X01_HAZARD=1 or KNOWN_FINDINGS(_EXTRA).json lists them for X01",
    "the projections (VCF text -> VcfModel calls via c13.project_call; stats/compare TSVs; BAM tags via pysam) are trusted",
]

ALL_CMDS = '{"phase","unphase","stats","compare","haplotag","split","haplotagphase"}'
CHAIN_CMDS = '{"phase","unphase","compare","haplotag","haplotagphase"}'
CHAINST_CMDS = '{"phase","unphase","stats","haplotag","haplotagphase"}'
TAG_CMDS = '{"phase","stats","compare","haplotag","split"}'
INVS = ["InvW1a", "InvW1b", "InvW2a", "InvW2b", "InvW3a", "InvW3b", "InvW3c", "InvW3d", "InvW4a", "InvW4b", "InvW5", "InvW5c",
        "InvW6", "InvW7", "InvW7n", "InvW8a", "InvW8b", "InvW9", "InvW10", "InvW10b", "InvW11", "InvW12", "InvClosed"]
NOOPT = {"tag": "", "smp": 0, "disc": False}


# ==============================================================================================
# design-level model checking
def _cfg(ctx, name, n, nreads, depth, worlds, cmds, invs, broken="none", tags='{"PS","HP"}', want="{}", caps="CapsNone"):
    return tlc.write_cfg(os.path.join(ctx.workdir, name + ".cfg"), spec="Spec",
                         consts={"N": n, "NReads": nreads, "MaxCmds": depth, "WorldSet": f'"{worlds}"', "Broken": f'"{broken}"',
                                 "Cmds": cmds, "TagOpts": tags, "Want": want}, subst={"Caps": caps},
                         constraint="PerCmd" if caps != "CapsNone" else None, invariants=invs)


def _violated(r):
    m = re.search(r"Invariant (\w+) is violated", r["out"])
    return m.group(1) if m else None


def design_mc(ctx):
    q = ctx.quick
    out = []
    d = 4 if q else 5
    r = tlc.model_check("MC_Workflow", cfg=_cfg(ctx, "mc_fixed", 4, 0, d, "fixed", ALL_CMDS, INVS), workers=NPROC, timeout=3000)
    r["what"] = (f"MC_Workflow: every workflow of <= {d} commands (all 7 commands, both tags, split with/without discard) on 4 structured "
                 "worlds of 4 sites (two blocks + single-site read; block across a homozygous site; chain; unconnected): W1..W12 in every state")
    out.append(r)
    for nr, d in ([(1, 2)] if q else [(2, 2), (1, 3)]):
        r = tlc.model_check("MC_Workflow", cfg=_cfg(ctx, f"mc_all{nr}{d}", 3, nr, d, "all", ALL_CMDS, INVS), workers=NPROC, timeout=6000)
        r["what"] = (f"MC_Workflow: every workflow of <= {d} commands on ALL worlds of 3 sites x truth {{0|1,1|0,1|1}} x every multiset of {nr} "
                     "error-free read(s) x orientation")
        out.append(r)
    d = 6 if q else 7
    r = tlc.model_check("MC_Workflow", cfg=_cfg(ctx, "mc_chain", 4, 0, d, "fixed", CHAIN_CMDS, INVS, tags='{"PS"}', caps="CapsR"),
                        workers=NPROC, timeout=6000)
    r["what"] = (f"MC_Workflow restricted to {{phase --tag PS, unphase, haplotag, haplotagphase, compare}} with <= 1 run per command (2 for "
                 f"compare): every workflow of <= {d} commands on the 4 structured worlds (reaches compare(haplotagphase(unphase(f), haplotag(f)), f) = W10)")
    out.append(r)
    r = tlc.model_check("MC_Workflow", cfg=_cfg(ctx, "mc_chain_stats", 4, 0, 6 if q else 7, "fixed", CHAINST_CMDS, INVS, tags='{"PS"}', caps="CapsR"),
                        workers=NPROC, timeout=6000)
    r["what"] = ("MC_Workflow restricted to {phase --tag PS, unphase, haplotag, haplotagphase, stats} with <= 1 run per command (2 for stats): "
                 "every workflow of <= %d commands on the 4 structured worlds (reaches stats of the chain's output and of its inputs = W6, W10b)" % (6 if q else 7))
    out.append(r)
    # negative controls: a wrong design of one command must break the invariant that ties it to the others
    neg = {}
    for broken, inv, depth, cmds, worlds in (("unphase_keeps_hp", "InvW1a", 3, ALL_CMDS, "one"), ("hp_zero_based", "InvW3d", 4, TAG_CMDS, "one"),
                                             ("list_shifted", "InvW4b", 2, ALL_CMDS, "one"), ("split_swapped", "InvW5", 3, ALL_CMDS, "one"),
                                             ("tagphase_inverted", "InvW10", 5, CHAIN_CMDS, "one")):
        rr = tlc.model_check("MC_Workflow", cfg=_cfg(ctx, "neg_" + broken, 4, 0, depth, worlds, cmds, [inv], broken=broken,
                                                     tags='{"PS"}' if cmds == CHAIN_CMDS else '{"PS","HP"}'),
                             workers=NPROC, timeout=1500)
        v = _violated(rr)
        if v != inv:
            raise tlc.TlcError(f"negative control {broken}: expected a counterexample to {inv}, TLC says:\n" + rr["out"][-2500:])
        neg[broken] = f"{inv} violated as expected after {rr['states']} states"
    ctx.notes["design_negative_controls"] = neg
    return out


# ==============================================================================================
# scenarios: TLC-emitted workflows x seeded worlds
def _depth(shape, i, memo):
    if i not in memo:
        memo[i] = 0 if not shape[i]["args"] else 1 + max(_depth(shape, a, memo) for a in shape[i]["args"])
    return memo[i]


def _flow(shape):
    """TLC state (id -> [kind, cmd, args, opt]) -> list of file records in dependency order"""
    memo = {}
    ids = sorted(shape, key=lambda i: (_depth(shape, i, memo), i))
    return [{"id": i, "kind": shape[i]["kind"], "cmd": shape[i]["cmd"], "args": list(shape[i]["args"]),
             "opt": {"tag": shape[i]["opt"]["tag"], "smp": shape[i]["opt"]["smp"], "disc": bool(shape[i]["opt"]["disc"])}}
            for i in ids if shape[i]["cmd"] != "init"]


def _emit(ctx, name, depth, cmds, simulate=None, seed=None, tags='{"PS","HP"}', want="{}", caps="CapsNone"):
    """Workflows = reachable states of MC_Workflow with `depth` commands (that exercise one of `want`), printed by the Emit invariant.
    Breadth-first emissions are deterministic and cached in the scratch area, keyed by the content of all specs and the constants."""
    import glob
    import hashlib
    cfg = _cfg(ctx, name, 4, 0, depth, "one", cmds, ["Emit"], tags=tags, want=want, caps=caps)
    cache = None
    if not simulate:
        h = hashlib.sha256()
        for f in sorted(glob.glob(os.path.join(tlc.SPECS, "*.tla"))):
            with open(f, "rb") as fh:
                h.update(fh.read())
        with open(cfg, "rb") as fh:
            h.update(fh.read())
        cdir = os.path.join(os.path.dirname(tlc.SCRATCH), "gen-cache")
        os.makedirs(cdir, exist_ok=True)
        cache = os.path.join(cdir, f"X01-{name}-{h.hexdigest()[:20]}.json")
        if os.path.exists(cache):
            with open(cache) as fh:
                return json.load(fh)
    hs, r = tlc.behaviours("MC_Workflow", cfg, simulate=simulate, depth=(3 * depth + 4) if simulate else None, seed=seed, timeout=1800)
    seen, out = set(), []
    for h_ in hs:
        k = json.dumps(h_, sort_keys=True)
        if k not in seen:
            seen.add(k)
            out.append(_flow(h_))
    out.sort(key=lambda fl: json.dumps(fl, sort_keys=True))
    if cache:
        tmp = cache + f".{os.getpid()}.tmp"
        with open(tmp, "w") as fh:
            json.dump(out, fh)
        os.replace(tmp, cache)
    return out


def union(*flows):
    """The union of workflows is a workflow: a command only needs its input files (every closed set of derivations is a reachable
    state of MC_Workflow)."""
    shape = {"x": {"args": []}, "b": {"args": []}}
    for fl in flows:
        for r in fl:
            shape[r["id"]] = r
    memo = {}
    ids = sorted((i for i in shape if i not in ("x", "b")), key=lambda i: (_depth(shape, i, memo), i))
    return [shape[i] for i in ids]


def instances(flow):
    """How many instances of each invariant a workflow contains (a Python mirror of the GUARDS of Workflow.tla PART 1, used for
    the evidence counts and for nontrivial() only - never for a verdict)."""
    f = {r["id"]: r for r in flow}
    f["x"] = {"id": "x", "kind": "vcf", "cmd": "init", "args": [], "opt": NOOPT}
    f["b"] = {"id": "b", "kind": "bam", "cmd": "init", "args": [], "opt": NOOPT}
    n = {}

    def add(k, c=1):
        n[k] = n.get(k, 0) + c
    st = [r for r in flow if r["cmd"] == "stats"]
    cp = [r for r in flow if r["cmd"] == "compare"]
    ht = [r for r in flow if r["cmd"] == "haplotag" and r["kind"] == "bam"]
    un = [r for r in flow if r["cmd"] == "unphase"]

    def tagpair(p, h):
        return (f[p]["cmd"] == "phase" and f[h]["cmd"] == "phase" and f[p]["opt"]["tag"] == "PS" and f[h]["opt"]["tag"] == "HP"
                and f[p]["args"][0] == f[h]["args"][0])

    def chain(w, v):
        return (f[w]["cmd"] == "haplotagphase" and f[v]["cmd"] == "phase" and f[f[w]["args"][0]]["cmd"] == "unphase"
                and f[f[w]["args"][0]]["args"][0] == v and f[f[w]["args"][1]]["cmd"] == "haplotag" and f[f[w]["args"][1]]["args"][0] == v)
    for r in st:
        a = r["args"][0]
        if f[a]["cmd"] == "unphase":
            add("W1a")
            add("W1b", sum(1 for q in st if q["args"][0] == f[a]["args"][0]))
        if f[a]["cmd"] in ("phase", "haplotagphase"):
            add("W6", sum(1 for q in st if q["args"][0] == f[a]["args"][0]))
        add("W3d", sum(1 for q in st if tagpair(a, q["args"][0])))
        add("W4a", sum(1 for b in ht if b["args"][0] == a))
        add("W10b", sum(1 for q in st if chain(a, q["args"][0])))
    for r in cp:
        a, b = r["args"]
        if a == b:
            add("W2a")
            add("W2b", sum(1 for q in st if q["args"][0] == a))
        if tagpair(a, b) or tagpair(b, a):
            add("W3b")
            add("W3c", sum(1 for q in st if q["args"][0] in (a, b)))
        add("W9", sum(1 for q in cp if q["args"] == [b, a] and q is not r) if a != b else 0)
        if chain(a, b) or chain(b, a):
            add("W10")
        add("W12", sum(1 for q in st if q["args"][0] == a))
    ph = [r for r in flow if r["cmd"] == "phase"]
    add("W3a", sum(1 for p in ph for h in ph if tagpair(p["id"], h["id"])))
    add("W4b", len(ht))
    add("W5", sum(1 for r in flow if r["cmd"] == "split"))
    add("W7", len(un) * (len(un) - 1))
    add("W7n", len(un))
    add("W8a", sum(1 for b in ht if f[b["args"][0]]["cmd"] in ("init", "unphase")))
    add("W8b", sum(1 for i, b in enumerate(ht) for d in ht[i + 1:] if b["args"][0] == d["args"][0]))
    add("W11", sum(1 for b in ht for d in ht if tagpair(b["args"][0], d["args"][0])))
    return {k: v for k, v in n.items() if v}


# Input classes on which a command of the workflow fails for a reason that is a genuine defect of whatshap (found by this check,
# reproduced stand-alone, reported).  The findings files are not this module's to edit: a class is generated only if WV_X01_HAZARD=1
# or KNOWN_FINDINGS.json / KNOWN_FINDINGS_EXTRA.json has a `known` entry for X01 with exactly this clause and signature.
HAZARDS = {
    "paired_discard": ("Returns", "cmd=split exc=AssertionError paired_reads=yes discard_unknown_reads=yes"),
    "missing_gt_tagphase": ("Returns", "cmd=haplotagphase exc=IndexError missing_gt=yes"),
    "missing_gt_compare": ("W12", "compare het_variants0 vs stats heterozygous: missing_gt=yes"),
}


def _hazards_enabled():
    # all three defects are repaired in /repo (85af7f9, 5c63d9b, 6789da0; KNOWN_FINDINGS_EXTRA.json): the classes are always generated
    return set(HAZARDS)
    if os.environ.get("WV_X01_HAZARD"):
        return set(HAZARDS)
    known = set()
    for name in ("KNOWN_FINDINGS.json", "KNOWN_FINDINGS_EXTRA.json"):
        try:
            with open(os.path.join("/verif", name)) as fh:
                known |= {(x.get("clause"), x.get("signature")) for x in json.load(fh)["findings"]
                          if x.get("property") == PROP and x.get("status") == "known"}
        except Exception:
            pass
    return {k for k, cs in HAZARDS.items() if cs in known}


def make_world(rng, paired=True, noisy=False, missing_gt=True):
    """A phasing world in the format of wv/phaseworld.py (chromosome names chrA.. so that the stats parsers of C12 apply)."""
    nsmp = rng.choice([1, 1, 2])
    nchr = rng.choice([1, 2])
    chroms = []
    for c in range(nchr):
        n = rng.randint(2, 6)
        sites = []
        for _ in range(n):
            k = rng.choice(["snv", "snv", "snv", "ins", "del", "mnp"])
            sites.append({"kind": k, "len": 1 if k == "snv" else (rng.randint(2, 3) if k == "mnp" else rng.randint(1, 3))})
        chroms.append({"name": "chr" + "ABCD"[c], "sites": sites})
    samples = [f"s{i + 1}" for i in range(nsmp)]
    truth, vcf_gt, reads = {}, {}, []
    for s in samples:
        truth[s] = [[(rng.choice([[0, 1], [1, 0]]) if rng.random() < 0.8 else rng.choice([[0, 0], [1, 1]])) for _ in ch["sites"]]
                    for ch in chroms]
        gts = [[f"{min(t)}/{max(t)}" for t in row] for row in truth[s]]
        missing = False
        for row in gts:
            for j in range(len(row)):
                if missing_gt and rng.random() < 0.05:
                    row[j] = "./."
                    missing = True
        if missing:
            vcf_gt[s] = gts
        for ci, ch in enumerate(chroms):
            n = len(ch["sites"])
            style = rng.choice(["mixed", "mixed", "short", "long"])
            for _ in range(rng.randint(1, min(12, 2 * n))):
                first = rng.randint(0, n - 1)
                span = {"mixed": rng.choice([0, 1, 1, 2, 3]), "short": rng.choice([0, 1]), "long": rng.choice([1, 2, 3, 5])}[style]
                last = min(n - 1, first + span)
                gap = None
                if paired and last - first >= 2 and rng.random() < 0.4:
                    a = rng.randint(first, last - 2)
                    gap = [a, rng.randint(a + 2, last)]
                rd = {"sample": s, "chrom": ci, "hap": rng.randint(0, 1), "first": first, "last": last, "gap": gap, "copies": 1}
                if noisy and rng.random() < 0.3:
                    al = [truth[s][ci][j][rd["hap"]] for j in range(first, last + 1)]
                    k = rng.randrange(len(al))
                    al[k] = 1 - al[k]
                    rd["alleles"] = al
                reads.append(rd)
    wd = {"seed": rng.randrange(10 ** 6), "chroms": chroms, "samples": samples, "truth": truth, "reads": reads, "ped": [], "opts": {}}
    if vcf_gt:
        wd["vcf_gt"] = {s: vcf_gt.get(s) or [[f"{min(t)}/{max(t)}" for t in row] for row in truth[s]] for s in samples}
    return wd


def scenarios(ctx):
    q = ctx.quick
    rng = ctx.rng
    hazards = _hazards_enabled()
    bfs = _emit(ctx, "emit_bfs", 4, ALL_CMDS)
    ctx.notes["tlc_workflows_bfs_depth4"] = len(bfs)
    # targeted: the smallest workflows that exercise the invariants relating 3-6 commands (state constraint: 1-2 runs per command)
    targ = {
        "W10": _emit(ctx, "emit_w10", 5, CHAIN_CMDS, tags='{"PS"}', want='{"W10"}', caps="Caps1"),
        "W6": _emit(ctx, "emit_w6", 6, CHAINST_CMDS, tags='{"PS"}', want='{"W6"}', caps="CapsR"),
        "W10b": _emit(ctx, "emit_w10b", 6, CHAINST_CMDS, tags='{"PS"}', want='{"W10b"}', caps="CapsR"),
        "W1b": _emit(ctx, "emit_w1b", 4, '{"phase","unphase","stats"}', want='{"W1b"}', caps="CapsR"),
        "W3c": _emit(ctx, "emit_w3c", 4, '{"phase","stats","compare"}', want='{"W3c"}', caps="Caps2"),
        "W3d": _emit(ctx, "emit_w3d", 4, '{"phase","stats"}', want='{"W3d"}', caps="Caps2"),
        "W11": _emit(ctx, "emit_w11", 4, '{"phase","haplotag"}', want='{"W11"}', caps="Caps2"),
        "W2b": _emit(ctx, "emit_w2b", 3, '{"phase","stats","compare"}', want='{"W2b"}', caps="Caps2"),
        "W9": _emit(ctx, "emit_w9", 4, '{"phase","unphase","compare"}', want='{"W9"}', caps="Caps2"),
    }
    ctx.notes["tlc_workflows_targeted"] = {k: len(v) for k, v in targ.items()}
    tall = [fl for v in targ.values() for fl in v]

    def sim(name, depth, cmds, traces, seed):
        # in simulation mode TLC checks the invariant on every successor of every visited state: one random walk yields all
        # workflows that extend its last-but-one state by one command; a seeded sample of them is used
        return _emit(ctx, name, depth, cmds, simulate=f"num={traces}", seed=seed)
    sim_all = sim("emit_sim_all", 7, ALL_CMDS, 40 if q else 400, ctx.seed + 11)
    ctx.notes["tlc_workflows_simulated_7cmds"] = len(sim_all)
    n = (lambda a, b: a if q else b)
    groups = [
        ("bfs4", [rng.choice(bfs) for _ in range(n(150, 2500))] if q else bfs),
        ("sim7", [rng.choice(sim_all) for _ in range(n(80, 1500))]),
        ("target", [rng.choice(v) for v in targ.values() for _ in range(n(8, 100))]),
        ("target+bfs4", [union(rng.choice(rng.choice(list(targ.values()))), rng.choice(bfs)) for _ in range(n(110, 1500))]),
        ("target+target", [union(rng.choice(tall), rng.choice(tall)) for _ in range(n(80, 1000))]),
        ("target+sim7", [union(rng.choice(rng.choice(list(targ.values()))), rng.choice(sim_all)) for _ in range(n(60, 800))]),
    ]
    scs = []
    tot = {}
    for kind, flows in groups:
        for fl in flows:
            disc = any(r["cmd"] == "split" and r["opt"]["disc"] for r in fl)
            tagphase = any(r["cmd"] == "haplotagphase" for r in fl)
            w12 = "W12" in instances(fl)
            noisy = rng.random() < 0.2
            wd = make_world(rng, paired="paired_discard" in hazards or not disc, noisy=noisy,
                            missing_gt=("missing_gt_tagphase" in hazards or not tagphase) and ("missing_gt_compare" in hazards or not w12))
            hz = [h for h, on in (("paired_discard", disc and any(r.get("gap") for r in wd["reads"])),
                                  ("missing_gt_tagphase", tagphase and bool(wd.get("vcf_gt"))),
                                  ("missing_gt_compare", w12 and bool(wd.get("vcf_gt")))) if on]
            scs.append({"kind": kind + "".join(":hazard-" + h for h in hz), "errfree": not noisy, "wd": wd, "flow": fl})
            for c, v in instances(fl).items():
                tot[c] = tot.get(c, 0) + v * len(wd["samples"]) if c in ("W1a", "W1b", "W2a", "W2b", "W3b", "W3c", "W3d", "W4a", "W6", "W9", "W10", "W10b", "W12") \
                    else tot.get(c, 0) + v
    ctx.notes["invariant_instances_planned"] = dict(sorted(tot.items()))
    ctx.notes["scenario_kinds"] = {k: sum(1 for s in scs if s["kind"] == k) for k in sorted({s["kind"] for s in scs})}
    ctx.notes["hazard_classes_generated"] = sorted(hazards)
    return scs


# ==============================================================================================
# driver: replay one workflow on real files
def _cidx(name):
    return "?ABCD".index(name[3]) if name.startswith("chr") and len(name) == 4 and name[3] in "ABCD" else 0


def _nid(name):
    from wv import phaseworld as PW
    return PW._name_id(name)


def proj_vcf(path, samples):
    from wv import world as W
    from . import c13
    _, smp, recs = W.read_vcf_text(path)
    out = []
    for s in samples:
        k = smp.index(s)
        out.append([{"chr": _cidx(r["chrom"]), "pos": r["pos"], "snv": len(r["ref"]) == 1 and len(r["alt"]) == 1,
                     "call": c13.project_call(r["fmt"], r["calls"][k])} for r in recs])
    return out


def proj_bam(path, samples):
    import pysam
    out, raw = [], []
    with pysam.AlignmentFile(path, check_sq=False) as f:
        for a in f.fetch(until_eof=True):
            tg = dict(a.get_tags())
            rg = tg.get("RG", "")
            smp = samples.index(rg[3:]) + 1 if rg[3:] in samples else 0
            out.append({"name": _nid(a.query_name), "smp": smp, "tpl": _nid(a.query_name), "chr": a.reference_id + 1, "s": a.reference_start,
                        "e": a.reference_end if a.reference_end is not None else a.reference_start, "len": a.query_length,
                        "cov": [], "al": [], "hp": int(tg.get("HP", -1)), "ps": int(tg.get("PS", -1))})
            raw.append((a.query_name, a.flag, a.reference_id, a.reference_start, a.cigarstring, a.query_sequence))
    return out, raw


def proj_list(path):
    rows = []
    with open(path) as fh:
        for ln in fh:
            if ln.startswith("#") or not ln.strip():
                continue
            n, h, p, c = ln.rstrip("\n").split("\t")[:4]
            rows.append({"name": _nid(n), "hap": 0 if h == "none" else int(h[1:]), "ps": 0 if p == "none" else int(p), "chr": _cidx(c)})
    return rows


def proj_stats(tsv, bl, sample):
    from . import c12
    rows, _all, ok1 = c12.parse_tsv(tsv, sample)
    blist, ok2 = c12.parse_blocklist(bl, sample)
    if not (ok1 and ok2):
        raise ValueError("stats output names another sample / malformed row")
    keys = ("c", "variants", "het", "hetsnvs", "phased", "unphased", "singletons", "blocks")
    return {"rows": [{k: r[k] for k in keys} for r in rows], "blist": blist}


def proj_cmp(path):
    from . import c11
    with open(path) as fh:
        lines = [ln.rstrip("\n").split("\t") for ln in fh if ln.strip()]
    hdr = [h.lstrip("#") for h in lines[0]]
    rows = []
    for ln in lines[1:]:
        d = dict(zip(hdr, ln))

        def sf(txt):
            a, _, b = txt.partition("/")
            return c11._units(a, 2), c11._units(b, 2)
        s1, f1 = sf(d["all_switchflips"])
        s2, f2 = sf(d["largestblock_switchflips"])
        rows.append({"c": _cidx(d["chromosome"]), "het0": int(d["het_variants0"]),
                     "all": {"nblk": int(d["intersection_blocks"]), "cov": int(d["covered_variants"]), "pairs": int(d["all_assessed_pairs"]),
                             "sw": c11._units(d["all_switches"], 2), "sfs": s1, "sff": f1, "ham": c11._units(d["blockwise_hamming"], 2),
                             "dg": int(d["blockwise_diff_genotypes"])},
                     "lg": {"pairs": int(d["largestblock_assessed_pairs"]), "sw": c11._units(d["largestblock_switches"], 2), "sfs": s2,
                            "sff": f2, "ham": c11._units(d["largestblock_hamming"], 2), "dg": int(d["largestblock_diff_genotypes"])}})
    return {"rows": rows}


def proj_split(outs, hist, in_raw):
    import pysam
    out = []
    for p in outs:
        recs = []
        used = set()
        with pysam.AlignmentFile(p, check_sq=False) as f:
            for a in f.fetch(until_eof=True):
                key = (a.query_name, a.flag, a.reference_id, a.reference_start, a.cigarstring, a.query_sequence)
                idx = next((i for i, k in enumerate(in_raw) if k == key and i not in used), None)
                if idx is not None:
                    used.add(idx)
                recs.append({"name": _nid(a.query_name), "id": 0 if idx is None else idx + 1, "len": a.query_length})
        out.append(recs)
    rows = []
    with open(hist) as fh:
        for ln in fh:
            if ln.startswith("#") or not ln.strip():
                continue
            rows.append([int(x) for x in ln.split("\t")])
    return {"out": out, "rows": rows}


def _safe(i):
    return re.sub(r"[^A-Za-z0-9]", "_", i)


def drive(sc):
    import contextlib
    import io
    import logging
    import pysam
    from wv import phaseworld as PW
    from whatshap.cli.compare import run_compare
    from whatshap.cli.haplotag import run_haplotag
    from whatshap.cli.haplotagphase import run_haplotagphase
    from whatshap.cli.split import run_split
    from whatshap.cli.stats import run_stats
    from whatshap.cli.unphase import run_unphase
    logging.disable(logging.CRITICAL)
    wd = sc["wd"]
    samples = wd["samples"]
    d = PW.workdir()
    events = []
    try:
        paths = PW.materialise(wd, d)
        path = {"x": paths["vcf"], "b": paths["bam"]}     # file id -> real path
        bamraw = {}
        gz = {}
        c_b, bamraw["b"] = proj_bam(path["b"], samples)
        events.append({"ev": "World", "errfree": bool(sc["errfree"]), "nsmp": len(samples),
                       "files": [{"id": "x", "kind": "vcf", "cmd": "init", "args": [], "opt": NOOPT, "c": proj_vcf(path["x"], samples)},
                                 {"id": "b", "kind": "bam", "cmd": "init", "args": [], "opt": NOOPT, "c": c_b}]})
        failed = set()

        def bgz(i):
            if i not in gz:
                cp = os.path.join(d, "z_" + _safe(i) + f"{len(gz)}.vcf")
                shutil.copy(path[i], cp)
                gz[i] = pysam.tabix_index(cp, preset="vcf", force=True)
            return gz[i]

        def fid(i, s):
            return i if len(samples) == 1 else f"{i}@{s}"
        done_ht = set()
        for n, r in enumerate(sc["flow"]):
            cmd, args, opt = r["cmd"], r["args"], r["opt"]
            if any(a in failed for a in args):
                failed.add(r["id"])
                continue
            base = os.path.join(d, f"f{n}_")
            files, exc = [], ""
            try:
                if cmd == "phase":
                    out_name = f"f{n}.vcf"
                    e, _, _ = PW.run_phase(wd, d, paths, vcf_in=path[args[0]], out_name=out_name, phase_inputs=[path[args[1]]], tag=opt["tag"])
                    if e:
                        raise RuntimeError(e)
                    path[r["id"]] = os.path.join(d, out_name)
                    files.append(dict(r, c=proj_vcf(path[r["id"]], samples)))
                elif cmd == "unphase":
                    path[r["id"]] = base + "un.vcf"
                    run_unphase(path[args[0]], path[r["id"]])
                    files.append(dict(r, c=proj_vcf(path[r["id"]], samples)))
                elif cmd == "stats":
                    for s, name in enumerate(samples, start=1):
                        tsv, bl = base + f"{s}.tsv", base + f"{s}.bl"
                        with contextlib.redirect_stdout(io.StringIO()):
                            run_stats(vcf=path[args[0]], sample=name, tsv=tsv, block_list=bl)
                        files.append({"id": fid(r["id"], s), "kind": "stats", "cmd": "stats", "args": args, "opt": dict(opt, smp=s),
                                      "c": proj_stats(tsv, bl, name)})
                elif cmd == "compare":
                    for s, name in enumerate(samples, start=1):
                        tsv = base + f"{s}.cmp.tsv"
                        with contextlib.redirect_stdout(io.StringIO()):
                            run_compare(vcf=[path[args[0]], path[args[1]]], ploidy=2, sample=name, tsv_pairwise=tsv)
                        files.append({"id": fid(r["id"], s), "kind": "cmp", "cmd": "compare", "args": args, "opt": dict(opt, smp=s),
                                      "c": proj_cmp(tsv)})
                elif cmd == "haplotag":
                    key = tuple(args)
                    if key in done_ht:
                        continue                        # the BAM and the list are written by one run
                    done_ht.add(key)
                    bid = "ht(%s,%s)" % tuple(args)
                    lid = "hl(%s,%s)" % tuple(args)
                    path[bid], path[lid] = base + "tag.bam", base + "tag.list"
                    run_haplotag(variant_file=bgz(args[0]), alignment_file=path[args[1]], output=path[bid], reference=paths["ref"],
                                 haplotag_list=path[lid])
                    pysam.index(path[bid])
                    cb, bamraw[bid] = proj_bam(path[bid], samples)
                    files.append({"id": bid, "kind": "bam", "cmd": "haplotag", "args": args, "opt": NOOPT, "c": cb})
                    files.append({"id": lid, "kind": "list", "cmd": "haplotag", "args": args, "opt": NOOPT, "c": proj_list(path[lid])})
                elif cmd == "split":
                    outs = [base + "u.bam", base + "h1.bam", base + "h2.bam"]
                    run_split(reads_file=path[args[0]], list_file=path[args[1]], output_untagged=outs[0], output_h1=outs[1], output_h2=outs[2],
                              read_lengths_histogram=base + "hist.tsv", discard_unknown_reads=bool(opt["disc"]))
                    files.append(dict(r, c=proj_split(outs, base + "hist.tsv", bamraw[args[0]])))
                elif cmd == "haplotagphase":
                    path[r["id"]] = base + "w.vcf"
                    run_haplotagphase(variant_file=bgz(args[0]), alignment_file=path[args[1]], reference=paths["ref"], output=path[r["id"]],
                                      write_command_line_header=False)
                    files.append(dict(r, c=proj_vcf(path[r["id"]], samples)))
                else:
                    raise ValueError("unknown command " + cmd)
            except Exception as ex:          # no command of a workflow is expected to fail: judged under Returns
                exc = type(ex).__name__
                files = []
                failed.add(r["id"])
                if cmd == "haplotag":
                    failed.update({"ht(%s,%s)" % tuple(args), "hl(%s,%s)" % tuple(args)})
                events.append({"ev": "Cmd", "cmd": cmd, "id": r["id"], "exc": exc, "detail": str(ex)[:200], "files": []})
                continue
            events.append({"ev": "Cmd", "cmd": cmd, "id": r["id"], "exc": "", "files": files})
        return events
    finally:
        shutil.rmtree(d, ignore_errors=True)


# ==============================================================================================
def nontrivial(sc, events):
    if any(e.get("exc") for e in events if e["ev"] == "Cmd") or any(e["ev"] == "Crashed" for e in events):
        return False
    big = False
    for e in events:
        for f in e.get("files", []):
            if f["kind"] == "stats" and any(r["blocks"] >= 1 for r in f["c"]["rows"]):
                big = True
            if f["kind"] == "vcf" and f["cmd"] != "init":
                sets = {}
                for smp in f["c"]:
                    for st in smp:
                        c = st["call"]
                        if (c["ph"] and c["ps"] >= 0) or c["hp"]:
                            k = (st["chr"], c["ps"] if c["ph"] else c["hp"][0][0])
                            sets[k] = sets.get(k, 0) + 1
                big = big or any(v >= 2 for v in sets.values())
    return big and sum(instances(sc["flow"]).values()) >= 3


def signature(sc, events, clause):
    wd = sc["wd"]
    pairs = any(r.get("gap") for r in wd["reads"])
    bad = next((e for e in events if e["ev"] == "Cmd" and e.get("exc")), None)
    if clause == "Returns" and bad is not None:
        disc = any(r["id"] == bad["id"] and r["opt"]["disc"] for r in sc["flow"])
        sig = f"cmd={bad['cmd']} exc={bad['exc']}"
        if bad["cmd"] == "split" and disc:
            sig += f" paired_reads={'yes' if pairs else 'no'} discard_unknown_reads=yes"
        if bad["cmd"] == "haplotagphase":
            sig += f" missing_gt={'yes' if wd.get('vcf_gt') else 'no'}"
        return sig
    if clause == "W12":
        return f"compare het_variants0 vs stats heterozygous: missing_gt={'yes' if wd.get('vcf_gt') else 'no'}"
    return (f"samples={len(wd['samples'])} chroms={len(wd['chroms'])} paired_reads={'yes' if pairs else 'no'} "
            f"errfree={'yes' if sc['errfree'] else 'no'} missing_gt={'yes' if wd.get('vcf_gt') else 'no'}")


def selftest_corrupt(events):
    """corrupt one recorded report per kind: a stats row of an unphased file, a self-comparison, a haplotag list row"""
    done = set()
    prov = {}
    for e in events:
        if e["ev"] == "World":
            prov = {}
        for f in e.get("files", []):
            prov[f["id"]] = f
            if f["kind"] == "stats" and prov.get(f["args"][0], {}).get("cmd") == "unphase" and "st" not in done and f["c"]["rows"]:
                f["c"]["rows"][0]["phased"] += 2
                done.add("st")
            elif f["kind"] == "cmp" and f["args"][0] == f["args"][1] and "cp" not in done and f["c"]["rows"]:
                f["c"]["rows"][0]["all"]["sw"] += 2
                done.add("cp")
            elif f["kind"] == "list" and "hl" not in done and any(r["hap"] for r in f["c"]):
                r = next(r for r in f["c"] if r["hap"])
                r["hap"] = 3 - r["hap"]
                done.add("hl")
    return events


MANIFEST = {
    "text": "Workflow.tla: whatshap as commands over an abstract file system (typed abstract contents, provenance per file) with the "
            "cross-command invariants W1..W12 (metamorphic relations between stats, compare, unphase, phase --tag PS/HP, haplotag, split, "
            "haplotagphase) and a design of every command built from Stats.tla / Compare.tla / VcfModel.tla / Split.tla / TagPhaseChain.tla. "
            "MC_Workflow checks the invariants on every workflow up to 4-6 commands on tiny worlds; TLC emits workflows, they are replayed "
            "on real files through the CLI entry points and X01_Trace re-checks every invariant instance on the projected files.",
    "note": "extension beyond the listed properties (DESIGN.md section 8); not registered in MANIFEST.json",
    "technique": "TLA+ system-level spec + TLC model checking of command workflows + replay of TLC-emitted workflows + TLC trace validation",
}
