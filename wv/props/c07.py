"""C07 - read selection never exceeds the coverage cap and leaves no admissible read out."""
import os

from .. import tlc

PROP = "C07"
TRACE_MODULE = "C07_Trace"
EXHAUSTIVE = True
RULE = ("a scenario is one call of readselection(readset, k, preferred_source_ids, bridging): every multiset of <= 4 reads over 4 "
        "variant indices x cap 1..3 x every set of preferred reads enumerated by TLC (Gen_C07; every 10th in quick), both bridging "
        "settings, plus seeded random read sets (<= 40 reads, <= 15 indices, k <= 6, gaps, duplicates, preferred sources) and read sets "
        "whose reads share their leftmost variant and continue to different variants further right (pairs / gapped reads, deeper "
        "than the cap); the variant indices of every scenario are placed on coordinates by a position map: anywhere (index*10), first "
        "variant on 0-based position 0 (VCF POS 1) with steps 1/10/1000, last variant on the largest int position 2^31-1, both, "
        "irregular steps from origin 0/1/2; whatshap phase runs (H1 hook) with depth far above the cap, optionally with the first "
        "site on POS 1 of its contig and with read pairs whose first mates share one site and whose second mates land on different "
        "sites; non-trivial = at least one read is left out (the cap binds)")
ASSUMPTIONS = [
    "TLC; ReadSelect.tla is the reading of the statement: coverage = span coverage (first..last covered variant) in the read set's own index space",
    "families larger than k are outside the statement (FamilyCap clause only for |family| <= k)",
    "the verdict is taken in the index space of the read set (spans first..last covered variant), so it does not depend on the coordinates; "
    "coordinates are bounded by the C++ int of Read.add_variant (0 .. 2^31-1); in whole runs only the lower boundary (POS 1) is generated",
]


def design_mc(ctx):
    out = []
    for bridging in ("TRUE", "FALSE"):
        cfg = tlc.write_cfg(os.path.join(ctx.workdir, f"rs{bridging}.cfg"), spec="Spec",
                            consts={"Bridging": bridging, "SubtractFirst": "TRUE", "NIdxMax": 3 if ctx.quick else 4,
                                    "NReadsMax": 3, "KMax": 2},
                            invariants=["CountedOnce", "CapAlways", "FinalOK"], properties=["Terminates"])
        r = tlc.model_check("MC_ReadSelectAlg", cfg=cfg)
        r["what"] = f"ReadSelectAlg (slice/bridging greedy, any pop order, bridging={bridging}) => cap invariant, SelectOK at termination, termination"
        out.append(r)
    return out


def scenarios(ctx):
    q = ctx.quick
    rng = ctx.rng
    scs = []
    tiny = tlc.generate("Gen_C07", {"NIdxMax": 4, "NReadsMax": 4, "KMax": 3, "Sample": 10 if q else 1})
    ctx.notes["tlc_enumerated_inputs"] = len(tiny)
    for i, t in enumerate(tiny):
        scs.append({"reads": t["reads"], "k": t["k"], "pref": t["pref"], "bridging": i % 2 == 0, "qual": i % 7})
    for _ in range(1500 if q else 30000):
        nidx = rng.randint(2, 15)
        n = rng.randint(1, 40 if rng.random() < 0.3 else 12)
        reads = []
        for _ in range(n):
            a = rng.randint(1, nidx - 1)
            b = rng.randint(a + 1, min(nidx, a + rng.choice([1, 2, 4, 8, 14])))
            cols = [a] + [c for c in range(a + 1, b) if rng.random() < rng.choice([0.2, 0.9])] + [b]
            reads.append(cols)
            if rng.random() < 0.15:
                reads.append(list(cols))
        pref = [i + 1 for i in range(len(reads)) if rng.random() < 0.25] if rng.random() < 0.4 else []
        scs.append({"reads": reads, "k": rng.randint(1, 6), "pref": pref, "bridging": rng.random() < 0.6,
                    "qual": rng.randrange(1000)})
    # ---- what `whatshap phase` hands to the solver per family (H1 hook): depth far above the cap ----
    from .. import phaseworld as PW
    for i in range(300 if q else 5000):
        fam = rng.choice(["single", "two", "trio", "quartet", "trio+1", "trio+1"])
        # trio+1: a trio and an unrelated fourth sample in ONE run (families of different sizes, each with its own share of the cap)
        ped = {"trio": [["s1", "s2", "s3"]], "quartet": [["s1", "s2", "s3"], ["s1", "s2", "s4"]],
               "trio+1": [["s1", "s2", "s3"]] if rng.random() < 0.5 else [["s2", "s3", "s4"]]}.get(fam, [])
        w = PW.rand_world(rng, nsamples={"single": 1, "two": 2, "trio": 3, "quartet": 4, "trio+1": 4}[fam], nchroms=1, ped=ped,
                          max_sites=rng.choice([4, 7]), depth=rng.choice([(3, 8), (10, 20)]), het_prob=0.9, kinds=("snv",))
        w["opts"] = {"ped": bool(ped), "max_coverage": rng.choice([4, 5, 6, 8, 15])}
        if rng.random() < 0.25:
            PW.add_decoys(rng, w)
        if rng.random() < 0.4:
            w["phase_vcf"] = rng.choice([True, True, 2])   # phased VCF(s) as further phase input: preferred pseudo reads
            if rng.random() < 0.5:
                # phased VCFs as the ONLY phase input (two pseudo reads per phase set and file), small caps
                w["opts"]["vcf_only"] = True
                w["opts"]["max_coverage"] = rng.choice([1, 2, 3, 4])
        scs.append({"kind": "pipeline", "world": w})
    # ---- coordinate boundaries (decided by a sub-generator per scenario, the main stream above is left as it was) ----
    import random
    for sc in scs:
        if sc.get("kind") == "pipeline":
            decorate_world(random.Random(sc["world"]["seed"] * 31 + 7), sc["world"])
        else:
            r2 = random.Random(sc["qual"] * 7919 + len(sc["reads"]))
            sc["posmap"] = rand_posmap(r2, max(max(r) for r in sc["reads"]))
    # ---- read sets whose reads share their leftmost variant and continue to different variants further right
    #      (read pairs / reads with gaps), the shared variant at a boundary coordinate or anywhere ----
    for _ in range(400 if q else 8000):
        nidx = rng.randint(3, 12)
        k = rng.randint(1, 5)
        anchor = rng.randint(1, nidx - 1) if rng.random() < 0.4 else 1
        reads = []
        for _ in range(rng.randint(k + 1, 2 * k + 6)):
            if rng.random() < 0.8:
                b = rng.randint(anchor + 1, nidx)
                e = rng.randint(b, nidx)
                cols = [anchor] + [c for c in range(b, e + 1) if c in (b, e) or rng.random() < 0.6]
            else:
                a = rng.randint(1, nidx - 1)
                b = rng.randint(a + 1, nidx)
                cols = [a] + [c for c in range(a + 1, b) if rng.random() < 0.5] + [b]
            reads.append(cols)
        pref = [i + 1 for i in range(len(reads)) if rng.random() < 0.2] if rng.random() < 0.4 else []
        scs.append({"reads": reads, "k": k, "pref": pref, "bridging": rng.random() < 0.6, "qual": rng.randrange(1000),
                    "posmap": rand_posmap(rng, nidx)})
    ctx.notes["posmaps"] = {m: sum(1 for sc in scs if sc.get("posmap", {}).get("kind") == m) for m in POSMAPS}
    ctx.notes["pipeline_first_variant_at_POS1"] = sum(1 for sc in scs if sc.get("kind") == "pipeline" and sc["world"].get("first_at_zero"))
    return scs


INT_MAX = 2 ** 31 - 1        # Read.add_variant(int position, ...): the largest coordinate a read can carry
POSMAPS = ("x10", "zero", "top", "both", "steps")


def rand_posmap(rng, nidx):
    """how the variant indices 1..nidx of a scenario become coordinates (strictly increasing): anywhere (x10), the first variant on
    0-based position 0 (VCF POS 1), the last variant on the largest representable position, both, or irregular steps from a
    small origin (0, 1, 2)"""
    kind = rng.choice(POSMAPS + ("zero", "zero"))
    return {"kind": kind, "step": rng.choice([1, 1, 10, 1000]), "origin": rng.choice([0, 0, 1, 2]), "seed": rng.randrange(10 ** 6)}


def positions_of(pm, nidx):
    """coordinate of every variant index 1..nidx (dict)"""
    import random
    kind, step = pm["kind"], pm["step"]
    if kind == "x10":
        return {c: c * 10 for c in range(1, nidx + 1)}
    if kind == "zero":
        return {c: (c - 1) * step for c in range(1, nidx + 1)}
    if kind == "top":
        return {c: INT_MAX - (nidx - c) * step for c in range(1, nidx + 1)}
    if kind == "both":
        out = {c: (c - 1) * step for c in range(1, nidx + 1)}
        out[nidx] = INT_MAX
        return out
    r = random.Random(pm["seed"])
    out, p = {}, pm["origin"]
    for c in range(1, nidx + 1):
        out[c] = p
        p += r.choice([1, 1, 2, 7, 100, 10 ** 6])
    return out


def decorate_world(r2, w):
    """coordinate boundary and shared-leftmost-variant decorations of a pipeline world (additive, in place)"""
    if w["opts"].get("vcf_only"):
        return
    n = len(w["chroms"][0]["sites"])
    if r2.random() < 0.4:
        w["first_at_zero"] = True          # the first site on the very first base of its contig (VCF POS 1)
    if r2.random() < 0.5 and n >= 3:
        # read pairs whose first mates all cover one site (the first one, mostly) and whose second mates land on different
        # sites further right, deeper than the cap
        anchor = 0 if r2.random() < 0.7 else r2.randint(0, n - 3)
        for s in w["samples"]:
            for b in range(anchor + 2, n):
                if r2.random() < 0.8:
                    w["reads"].append({"sample": s, "chrom": 0, "hap": r2.randint(0, 1), "first": anchor, "last": b,
                                       "gap": [anchor, b], "copies": r2.randint(2, 2 + w["opts"]["max_coverage"])})


def h1_to_familycap(h):
    col = {p: i + 1 for i, p in enumerate(h["acc"])}
    reads = [[col[p] for p, a, q in r["vars"] if p in col] for r in h["reads"]]
    return {"ev": "FamilyCap", "reads": [r for r in reads if len(r) >= 1], "k": h["kfam"], "members": len(h["fam"])}


def drive(sc):
    if sc.get("kind") == "pipeline":
        from .. import phaseworld as PW
        e = PW.phase_run_event(sc["world"])
        if e["exc"]:
            return [{"ev": "Crashed", "where": "exception:" + e["exc"][:100], "detail": e["exc"]}]
        return [h1_to_familycap(h) for h in e["h1"]]
    import random
    from whatshap.core import Read, ReadSet
    from whatshap.readselect import readselection
    qr = random.Random(sc.get("qual", 0))
    rs = ReadSet()
    pref = set(sc["pref"])
    pm = sc.get("posmap") or {"kind": "x10", "step": 10, "origin": 0, "seed": 0}
    posof = positions_of(pm, max(max(r) for r in sc["reads"]))
    for i, cols in enumerate(sc["reads"], start=1):
        rd = Read(f"r{i}", 50, 1 if i in pref else 0, 0)
        for c in cols:
            rd.add_variant(posof[c], qr.randint(0, 1), qr.choice([1, 10, 30, 30, 40]))
        rs.add(rd)
    # ReadSet keeps insertion order until sorted; map back by name
    sel = readselection(rs, sc["k"], {1} if pref else None, sc["bridging"])
    names = [int(rs[i].name[1:]) for i in sel]
    return [{"ev": "Select", "reads": sc["reads"], "k": sc["k"], "sel": sorted(names),
             "pref": sorted(pref), "bridging": sc["bridging"], "posmap": pm["kind"]}]


def nontrivial(sc, events):
    e = events[0]
    if e.get("ev") == "FamilyCap":
        return any(len(x["reads"]) >= x["k"] for x in events if x.get("ev") == "FamilyCap")
    return e.get("ev") == "Select" and len(e["sel"]) < len(sc["reads"])


def signature(sc, events, clause):
    if sc.get("kind") == "pipeline":
        return (f"pipeline family={len(sc['world']['samples'])} k={sc['world']['opts'].get('max_coverage')}"
                + (" first_at_POS1" if sc["world"].get("first_at_zero") else ""))
    return f"preferred={'yes' if sc['pref'] else 'no'} bridging={sc['bridging']} posmap={(sc.get('posmap') or {}).get('kind', 'x10')}"


def selftest_corrupt(events):
    n = 0
    for e in events:
        if e["ev"] == "Select" and len(e["sel"]) < len(e["reads"]) and n == 0 and e["sel"]:
            e["sel"] = e["sel"][:-1]   # drop a selected read: not maximal any more (or cap still fine)
            n += 1
        elif e["ev"] == "Select" and len(e["sel"]) < len(e["reads"]) and n == 1:
            e["sel"] = list(range(1, len(e["reads"]) + 1))  # select everything: cap exceeded
            n += 1
    return events


MANIFEST = {
    "text": "ReadSelect.tla states the property as a relation (subset, span-coverage cap, maximality). TLC model-checks an "
            "implementation-shaped model of the slice/bridging greedy with a completely nondeterministic pop order (cap invariant, "
            "coverage counted once, SelectOK at termination, termination under fairness) and exhibits the pinned code's double "
            "counting when the preferred reads are not subtracted first. TLC enumerates every multiset of <= 4 reads over 4 indices x "
            "cap x preferred set; each is run through the real readselection (built from the working tree) and the recorded result is "
            "judged by TLC against the relation; seeded random larger sets and sets of reads sharing their leftmost variant; every set "
            "is placed on coordinates by a position map (first variant on position 0, last variant on 2^31-1, irregular steps); the "
            "reads whatshap phase hands to the solver per family (H1 hook, pipeline runs, also with the first site on POS 1 and with "
            "pairs sharing their first mate's site) are judged against the family cap.",
    "note": "trusted: TLC, ReadSelect.tla, driver; exhaustive only within the stated bounds",
    "technique": "TLA+ relation + TLC model checking of the greedy design + TLC trace validation of recorded selections (spec-enumerated inputs)",
}
