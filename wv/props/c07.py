"""C07 - read selection never exceeds the coverage cap and leaves no admissible read out."""
import os

from .. import tlc

PROP = "C07"
TRACE_MODULE = "C07_Trace"
EXHAUSTIVE = True
RULE = ("a scenario is one call of readselection(readset, k, preferred_source_ids, bridging): every multiset of <= 4 reads over 4 "
        "variant indices x cap 1..3 x every set of preferred reads enumerated by TLC (Gen_C07; every 10th in quick), both bridging "
        "settings, plus seeded random read sets (<= 40 reads, <= 15 indices, k <= 6, gaps, duplicates, preferred sources); "
        "non-trivial = at least one read is left out (the cap binds)")
ASSUMPTIONS = [
    "TLC; ReadSelect.tla is the reading of the statement: coverage = span coverage (first..last covered variant) in the read set's own index space",
    "families larger than k are outside the statement (FamilyCap clause only for |family| <= k)",
]


def design_mc(ctx):
    out = []
    for bridging in ("TRUE", "FALSE"):
        cfg = tlc.write_cfg(os.path.join(ctx.workdir, f"rs{bridging}.cfg"), spec="Spec",
                            consts={"Bridging": bridging, "SubtractFirst": "TRUE", "NIdxMax": 3 if ctx.quick else 4,
                                    "NReadsMax": 3, "KMax": 2},
                            invariants=["CountedOnce", "CapAlways", "FinalOK"], properties=["Terminates"])
        r = tlc.model_check("MC_ReadSelectAlg", cfg=cfg)
        r["what"] = f"ReadSelectAlg (slice/bridging greedy, any pop order, bridging={bridging}) => cap invariant, SelectOK at termination, termination"
        out.append(r)
    return out


def scenarios(ctx):
    q = ctx.quick
    rng = ctx.rng
    scs = []
    tiny = tlc.generate("Gen_C07", {"NIdxMax": 4, "NReadsMax": 4, "KMax": 3, "Sample": 10 if q else 1})
    ctx.notes["tlc_enumerated_inputs"] = len(tiny)
    for i, t in enumerate(tiny):
        scs.append({"reads": t["reads"], "k": t["k"], "pref": t["pref"], "bridging": i % 2 == 0, "qual": i % 7})
    for _ in range(1500 if q else 30000):
        nidx = rng.randint(2, 15)
        n = rng.randint(1, 40 if rng.random() < 0.3 else 12)
        reads = []
        for _ in range(n):
            a = rng.randint(1, nidx - 1)
            b = rng.randint(a + 1, min(nidx, a + rng.choice([1, 2, 4, 8, 14])))
            cols = [a] + [c for c in range(a + 1, b) if rng.random() < rng.choice([0.2, 0.9])] + [b]
            reads.append(cols)
            if rng.random() < 0.15:
                reads.append(list(cols))
        pref = [i + 1 for i in range(len(reads)) if rng.random() < 0.25] if rng.random() < 0.4 else []
        scs.append({"reads": reads, "k": rng.randint(1, 6), "pref": pref, "bridging": rng.random() < 0.6,
                    "qual": rng.randrange(1000)})
    # ---- what `whatshap phase` hands to the solver per family (H1 hook): depth far above the cap ----
    from .. import phaseworld as PW
    for i in range(300 if q else 5000):
        fam = rng.choice(["single", "two", "trio", "quartet", "trio+1", "trio+1"])
        # trio+1: a trio and an unrelated fourth sample in ONE run (families of different sizes, each with its own share of the cap)
        ped = {"trio": [["s1", "s2", "s3"]], "quartet": [["s1", "s2", "s3"], ["s1", "s2", "s4"]],
               "trio+1": [["s1", "s2", "s3"]] if rng.random() < 0.5 else [["s2", "s3", "s4"]]}.get(fam, [])
        w = PW.rand_world(rng, nsamples={"single": 1, "two": 2, "trio": 3, "quartet": 4, "trio+1": 4}[fam], nchroms=1, ped=ped,
                          max_sites=rng.choice([4, 7]), depth=rng.choice([(3, 8), (10, 20)]), het_prob=0.9, kinds=("snv",))
        w["opts"] = {"ped": bool(ped), "max_coverage": rng.choice([4, 5, 6, 8, 15])}
        if rng.random() < 0.25:
            PW.add_decoys(rng, w)
        if rng.random() < 0.4:
            w["phase_vcf"] = rng.choice([True, True, 2])   # phased VCF(s) as further phase input: preferred pseudo reads
            if rng.random() < 0.5:
                # phased VCFs as the ONLY phase input (two pseudo reads per phase set and file), small caps
                w["opts"]["vcf_only"] = True
                w["opts"]["max_coverage"] = rng.choice([1, 2, 3, 4])
        scs.append({"kind": "pipeline", "world": w})
    return scs


def h1_to_familycap(h):
    col = {p: i + 1 for i, p in enumerate(h["acc"])}
    reads = [[col[p] for p, a, q in r["vars"] if p in col] for r in h["reads"]]
    return {"ev": "FamilyCap", "reads": [r for r in reads if len(r) >= 1], "k": h["kfam"], "members": len(h["fam"])}


def drive(sc):
    if sc.get("kind") == "pipeline":
        from .. import phaseworld as PW
        e = PW.phase_run_event(sc["world"])
        if e["exc"]:
            return [{"ev": "Crashed", "where": "exception:" + e["exc"][:100], "detail": e["exc"]}]
        return [h1_to_familycap(h) for h in e["h1"]]
    import random
    from whatshap.core import Read, ReadSet
    from whatshap.readselect import readselection
    qr = random.Random(sc.get("qual", 0))
    rs = ReadSet()
    pref = set(sc["pref"])
    for i, cols in enumerate(sc["reads"], start=1):
        rd = Read(f"r{i}", 50, 1 if i in pref else 0, 0)
        for c in cols:
            rd.add_variant(c * 10, qr.randint(0, 1), qr.choice([1, 10, 30, 30, 40]))
        rs.add(rd)
    # ReadSet keeps insertion order until sorted; map back by name
    sel = readselection(rs, sc["k"], {1} if pref else None, sc["bridging"])
    names = [int(rs[i].name[1:]) for i in sel]
    return [{"ev": "Select", "reads": sc["reads"], "k": sc["k"], "sel": sorted(names),
             "pref": sorted(pref), "bridging": sc["bridging"]}]


def nontrivial(sc, events):
    e = events[0]
    if e.get("ev") == "FamilyCap":
        return any(len(x["reads"]) >= x["k"] for x in events if x.get("ev") == "FamilyCap")
    return e.get("ev") == "Select" and len(e["sel"]) < len(sc["reads"])


def signature(sc, events, clause):
    if sc.get("kind") == "pipeline":
        return f"pipeline family={len(sc['world']['samples'])} k={sc['world']['opts'].get('max_coverage')}"
    return f"preferred={'yes' if sc['pref'] else 'no'} bridging={sc['bridging']}"


def selftest_corrupt(events):
    n = 0
    for e in events:
        if e["ev"] == "Select" and len(e["sel"]) < len(e["reads"]) and n == 0 and e["sel"]:
            e["sel"] = e["sel"][:-1]   # drop a selected read: not maximal any more (or cap still fine)
            n += 1
        elif e["ev"] == "Select" and len(e["sel"]) < len(e["reads"]) and n == 1:
            e["sel"] = list(range(1, len(e["reads"]) + 1))  # select everything: cap exceeded
            n += 1
    return events


MANIFEST = {
    "text": "ReadSelect.tla states the property as a relation (subset, span-coverage cap, maximality). TLC model-checks an "
            "implementation-shaped model of the slice/bridging greedy with a completely nondeterministic pop order (cap invariant, "
            "coverage counted once, SelectOK at termination, termination under fairness) and exhibits the pinned code's double "
            "counting when the preferred reads are not subtracted first. TLC enumerates every multiset of <= 4 reads over 4 indices x "
            "cap x preferred set; each is run through the real readselection (built from the working tree) and the recorded result is "
            "judged by TLC against the relation; seeded random larger sets; the reads whatshap phase hands to the solver per family "
            "(H1 hook, pipeline runs) are judged against the family cap.",
    "note": "trusted: TLC, ReadSelect.tla, driver; exhaustive only within the stated bounds",
    "technique": "TLA+ relation + TLC model checking of the greedy design + TLC trace validation of recorded selections (spec-enumerated inputs)",
}
