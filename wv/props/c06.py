"""C06 - allele detection never assigns the wrong allele to an error-free read."""
import os
import random
import shutil

from .. import tlc

PROP = "C06"
TRACE_MODULE = "C06_Trace"
EXHAUSTIVE = True
TASK_TIMEOUT = 300
RULE = ("TLC enumerates the read/variant geometry space (Gen_C06: variant kind x length (SNV, ins/del 1-3, MNP 2-3), allele carried, "
        "read start offset -13..+3 relative to the variant start and end offset -3..+13 relative to its end in haplotype coordinates "
        "- starts/ends inside the variant included -, decoration in {plain, soft clip, hard clip, =/X CIGAR, unrelated indel 20 bp away, "
        "N skip beside the variant, N skip over the variant, mate pair, overlapping mate pair}); a scenario is one (kind, length) world with a batch of such reads in one BAM, read "
        "with and without reference through ReadSetReader.read; plus a second variant of random kind 25 bp away; non-trivial = the batch "
        "contains reads that fully cover the variant and reads that only partially overlap it. "
        "Call HISTORIES (seeded random): one ReadSetReader object answers 5-8 consecutive read() calls for different 2-4 element subsets "
        "(mostly the same length) of 8 variants of random kinds 30 bp apart, two haplotypes, reads with random extents (single, soft-clipped, "
        "mate pairs); every call's variant list is a short-lived freshly built list (dropped after the call, also one that lives at the address "
        "of a predecessor that was freed), a long-lived list whose elements were replaced in place, the same list again or a new kept list, "
        "with or without reference in any order; every call is judged by the same clauses plus OnlyRequested (alleles only at positions "
        "the call asked for); non-trivial = a reference-free call with a different list at a re-used address found alleles")
ASSUMPTIONS = [
    "reads are exact substrings of the haplotype sequence, aligned with the canonical CIGAR modelled (and model-checked) in SeqWorld.tla",
    "reference contexts are seeded random homopolymer-free sequences (all indels unshiftable); TLC enumerates structure, not 4^n strings",
    "AlwaysFound is demanded only when every alignment touching the variant has at least one aligned base on each side of it",
    "call histories: the result of read() depends only on the arguments of that call, never on earlier calls on the same reader "
    "or on the identity / life time of the variant list object; variants the haplotype carries but the call did not ask for are "
    ">= 25 bp away from every requested one (outside the re-alignment window)",
]
OVERHANG = 10
P = 50
KINDS = {1: "snv", 2: "ins", 3: "del", 4: "mnp"}
OPC = {"M": 0, "I": 1, "D": 2, "N": 3, "S": 4, "H": 5, "=": 7, "X": 8}


def design_mc(ctx):
    cfg = tlc.write_cfg(os.path.join(ctx.workdir, "sw.cfg"), spec="Spec",
                        consts={"RefLen": 5 if ctx.quick else 6, "Alphabet": "{0, 1}"},
                        invariants=["QueryLenOK", "RefLenOK", "MatchesRef", "AdjacentOpsDiffer"])
    r = tlc.model_check("SeqWorld", cfg=cfg)
    r["what"] = "SeqWorld: canonical alignment walk of every read of every haplotype over every reference/variant (lengths add up, aligned bases match the reference outside the variant)"
    return [r]


def scenarios(ctx):
    q = ctx.quick
    geos = tlc.generate("Gen_C06", {"Sample": 5 if q else 1, "MaxOff": 13})
    ctx.notes["tlc_enumerated_geometries"] = len(geos)
    by = {}
    for g in geos:
        by.setdefault((g["kind"], g["len"]), []).append(g)
    scs = []
    for (k, ln), gs in sorted(by.items()):
        ctx.rng.shuffle(gs)
        for i in range(0, len(gs), 150):
            scs.append({"kind": k, "len": ln, "geos": gs[i:i + 150], "seed": ctx.rng.randrange(10 ** 6)})
    # multi-allelic records (kept with mav=True by polyphase / haplotagphase / compare): a few record shapes, every allele carried
    # a long unrelated insertion inside the re-alignment window of the variant
    for k, ln in sorted(by):
        for rep in range(1 if q else 6):
            scs.append({"kind": k, "len": ln, "nearins": True, "geos": [], "seed": ctx.rng.randrange(10 ** 6)})
    for shape in MULTI_SHAPES:
        for rep in range(2 if q else 10):
            scs.append({"kind": 5, "len": 0, "multi": shape, "geos": [], "seed": ctx.rng.randrange(10 ** 6)})
    # call HISTORIES on one reader object: several consecutive read() calls with different variant lists
    for rep in range(16 if q else 96):
        scs.append({"kind": 6, "len": 0, "history": True, "geos": [], "seed": ctx.rng.randrange(10 ** 6)})
    return scs


# (REF length, [(kind of ALT relative to REF, parameters)]) - built on the actual reference bases in drive
MULTI_SHAPES = ["del+snv", "nested-del", "snv+snv", "ins+ins", "del+mnp", "ins+snv"]


def _multi_alleles(rng, ref, pos, shape):
    """REF and ALT strings of a multi-allelic record at pos (all alleles pairwise different, indels unshiftable)"""
    b = ref[pos:pos + 3]
    other = lambda c: rng.choice([x for x in "ACGT" if x != c])
    if shape == "del+snv":       # TC -> T, AC
        return b[:2], [b[0], other(b[0]) + b[1]]
    if shape == "nested-del":    # ACG -> A, AG
        return b, [b[0], b[0] + b[2]]
    if shape == "snv+snv":
        x = other(b[0])
        y = rng.choice([c for c in "ACGT" if c not in (b[0], x)])
        return b[0], [x, y]
    if shape == "ins+ins":
        i1 = other(b[1])
        if i1 == b[0]:
            i1 = rng.choice([c for c in "ACGT" if c not in (b[0], b[1])])
        i2 = rng.choice([c for c in "ACGT" if c != i1 and c != b[0]])
        return b[0], [b[0] + i1, b[0] + i1 + i2] if i2 != b[1] else [b[0] + i1, b[0] + i1 + i1]
    if shape == "del+mnp":       # TC -> T, AG
        return b[:2], [b[0], other(b[0]) + other(b[1])]
    if shape == "ins+snv":
        i1 = rng.choice([c for c in "ACGT" if c not in (b[0], b[1])])
        return b[0], [b[0] + i1, other(b[0])]
    raise ValueError(shape)


def _drive_multi(sc):
    import pysam
    from .. import world as W
    from ..phaseworld import workdir
    from whatshap.variants import ReadSetReader
    from whatshap.core import NumericSampleIds
    from whatshap.vcf import MultiallelicVcfVariant
    rng = random.Random(sc["seed"])
    while True:
        ref = W.random_reference(rng, 140)
        R, alts = _multi_alleles(rng, ref, P, sc["multi"])
        if len(set([R] + alts)) == 3 and all(a != R for a in alts):
            # deletions must be unshiftable in this context
            if all(len(a) >= len(R) or W.deletion_unshiftable(ref, P, len(R) - len(a)) or len(R) - len(a) == 0 for a in alts):
                break
    reads, meta = [], {}
    n = 0
    for allele in (0, 1, 2):
        alt = R if allele == 0 else alts[allele - 1]
        v = W.Variant(P, R, alt)
        if allele and v.kind == "complex":
            continue
        hp = W.Haplotype(ref, [v], [1 if allele else 0])
        hp_p = hp.ref_to_hap(P)
        alen = len(alt)
        for so in (-14, -9, -5, -2, -1):
            for eo in (1, 2, 5, 9, 14):
                hs, he = hp_p + so, hp_p + alen + eo
                if not (0 <= hs < he <= len(hp.seq)):
                    continue
                r = hp.read(hs, he)
                if r is None:
                    continue
                pos0, ops, seq = r
                n += 1
                name = f"m{n:04d}"
                reads.append({"name": name, "flag": 0, "ref": 0, "pos": pos0, "cigar": W.cigar_str(ops), "seq": seq, "rg": "rg1"})
                blocks, end = _blocks(pos0, ops)
                meta[name] = {"segs": [{"rs": pos0, "re": end, "cig": [[OPC[o], k] for o, k in ops], "qlen": len(seq), "blocks": blocks}],
                              "allele": allele, "so": so, "eo": eo}
    d = workdir()
    try:
        W.write_fasta(os.path.join(d, "ref.fa"), {"chr1": ref})
        bam = W.write_bam(os.path.join(d, "r.bam"), [("chr1", len(ref))], reads, [{"ID": "rg1", "SM": "s1"}])
        variants = [MultiallelicVcfVariant(P, R, alts)]
        evs = []
        for withref in (True, False):
            rdr = ReadSetReader([bam], reference=None, numeric_sample_ids=NumericSampleIds())
            rs = rdr.read("chr1", variants, "s1", ref if withref else None)
            got = {r.name: {v.position: v.allele for v in r} for r in rs}
            for name, m in meta.items():
                det = got.get(name, {})
                # kind 5 = multi-allelic record: NeverWrong / NoneIfNoOverlap are judged; AlwaysFound without reference is only stated for
                # SNVs and simple indels, so it is not demanded here (kind not in {1,2,3})
                evs.append({"ev": "Detect", "withref": withref, "segs": m["segs"], "deco": "multi:" + sc["multi"], "so": m["so"], "eo": m["eo"],
                            "vars": [{"pos": P, "reflen": len(R), "altlen": max(len(a) for a in alts), "kind": 5, "truth": m["allele"],
                                      "det": int(det.get(P, -1)), "clean": False, "unshiftable": True}]})
        return evs
    finally:
        shutil.rmtree(d, ignore_errors=True)


def _blocks(pos0, ops):
    blocks, cur, start = [], pos0, None
    for o, n in ops:
        if o in "M=XD":
            if start is None:
                start = cur
            cur += n
        elif o == "N":
            if start is not None:
                blocks.append([start, cur])
                start = None
            cur += n
    if start is not None:
        blocks.append([start, cur])
    return blocks, cur


def _eqx(ref, pos0, ops, seq):
    out, r, qi = [], pos0, 0
    for o, n in ops:
        if o == "M":
            for _ in range(n):
                c = "=" if seq[qi] == ref[r] else "X"
                if out and out[-1][0] == c:
                    out[-1][1] += 1
                else:
                    out.append([c, 1])
                r += 1
                qi += 1
        else:
            out.append([o, n])
            if o in "DN":
                r += n
            if o in "IS":
                qi += n
    return [(o, n) for o, n in out]


def _drive_nearins(sc):
    """An error-free read that carries, within the re-alignment window of the variant (<= 10 bp from it), a second,
    unrelated LONG insertion unknown to whatshap (12-16 bp of a base that does not occur in the reference context, so
    that the exact edit distances are unambiguous).  The allele of the variant must still be found."""
    from .. import world as W
    from ..phaseworld import workdir
    from whatshap.variants import ReadSetReader
    from whatshap.core import NumericSampleIds
    from whatshap.vcf import BiallelicVcfVariant
    rng = random.Random(sc["seed"])
    kind = KINDS[sc["kind"]]
    while True:
        ref = []
        while len(ref) < 101000:                   # reference over {A, C, T} without homopolymer runs (long: > 100 kb alignments)
            b = rng.choice("ACT")
            if not ref or ref[-1] != b:
                ref.append(b)
        ref = "".join(ref)
        if kind == "del" and not W.deletion_unshiftable(ref, P, sc["len"]):
            continue
        V = W.make_variant(rng, ref, P, kind, sc["len"])
        Wv = W.make_variant(rng, ref, P - 25, "snv", 1)
        if "G" not in V.ref + V.alt + Wv.alt:
            break
    evs, reads, meta = [], [], {}
    n = 0
    for side in ("left", "right"):
        for dist in (2, 4, 7, 9):
            for k in (12, 14, 16):
                q = P - dist if side == "left" else P + len(V.ref) - 1 + dist
                L = W.Variant(q, ref[q], ref[q] + "G" * k)
                for a in (0, 1):
                    vs = sorted([Wv, V, L], key=lambda v: v.pos)
                    al = {id(Wv): n % 2, id(V): a, id(L): 1}
                    hp = W.Haplotype(ref, vs, [al[id(v)] for v in vs])
                    hs, he = hp.ref_to_hap(P - 34), hp.ref_to_hap(P + len(V.ref) + 34)
                    pos0, ops, seq = hp.read(hs, he)
                    name = f"n{n:04d}"
                    n += 1
                    reads.append({"name": name, "flag": 0, "ref": 0, "pos": pos0, "cigar": W.cigar_str(ops), "seq": seq, "rg": "rg1"})
                    blocks, end = _blocks(pos0, ops)
                    meta[name] = {"segs": [{"rs": pos0, "re": end, "cig": [[OPC[o], m] for o, m in ops], "qlen": len(seq), "blocks": blocks}],
                                  "allele": a, "wa": al[id(Wv)], "so": -dist if side == "left" else 0, "eo": dist if side == "right" else 0}
    # TAIL reads: the variant is the ONLY typed variant of the read and lies near its end, behind an unrelated deletion or a
    # reference skip that the read carries (so the reference span is much longer than the number of aligned read bases)
    treads, tmeta = [], {}
    for kind_, k in (("D", 24), ("D", 36), ("N", 30), ("N", 60)):
        for a in (0, 1):
            for tail in (3, 9):
                hp = W.Haplotype(ref, [V], [a])
                q = P - 48
                s1_, e1_ = hp.ref_to_hap(P - 70 if P >= 70 else 0), hp.ref_to_hap(q)
                s2_, e2_ = hp.ref_to_hap(q + k if q + k < P - 4 else P - 4), hp.ref_to_hap(P + len(V.ref) + tail)
                r1, r2 = hp.read(s1_, e1_), hp.read(s2_, e2_)
                if not r1 or not r2:
                    continue
                gap_ = r2[0] - (r1[0] + W.cigar_reflen(r1[1]))
                if gap_ <= 0:
                    continue
                ops = list(r1[1]) + [(kind_, gap_)] + list(r2[1])
                name = f"t{len(treads):04d}"
                treads.append({"name": name, "flag": 0, "ref": 0, "pos": r1[0], "cigar": W.cigar_str(ops), "seq": r1[2] + r2[2], "rg": "rg1"})
                blocks, end = _blocks(r1[0], ops)
                tmeta[name] = {"segs": [{"rs": r1[0], "re": end, "cig": [[OPC[o], m] for o, m in ops], "qlen": len(r1[2] + r2[2]), "blocks": blocks}],
                               "allele": a, "so": -48, "eo": tail}
    # the read carries an unrelated DELETION of 4-8 bases that swallows the (SNV) variant: it has no base there, so no allele
    if kind == "snv":
        for dl in (4, 6, 8):
            for off in (1, 2, 3, dl - 1):
                d0 = P - off                                   # first deleted base
                seq1, seq2 = ref[P - 45:d0], ref[d0 + dl:P + 45]
                ops = [("M", len(seq1)), ("D", dl), ("M", len(seq2))]
                name = f"t{len(treads):04d}"
                treads.append({"name": name, "flag": 0, "ref": 0, "pos": P - 45, "cigar": W.cigar_str(ops), "seq": seq1 + seq2, "rg": "rg1"})
                blocks, end = _blocks(P - 45, ops)
                tmeta[name] = {"segs": [{"rs": P - 45, "re": end, "cig": [[OPC[o], m] for o, m in ops], "qlen": len(seq1 + seq2), "blocks": blocks}],
                               "allele": -1, "so": -45, "eo": 45, "swallowed": True}
    # an alignment whose reference span exceeds 100 kb (a long skip BEHIND the variant): still one usable alignment
    for a in (0, 1):
        hp = W.Haplotype(ref, [V], [a])
        r1 = hp.read(hp.ref_to_hap(P - 30), hp.ref_to_hap(P + len(V.ref) + 12))
        far = P + 100500
        r2 = hp.read(hp.ref_to_hap(far), hp.ref_to_hap(far + 30))
        ops = list(r1[1]) + [("N", r2[0] - (r1[0] + W.cigar_reflen(r1[1])))] + list(r2[1])
        name = f"t{len(treads):04d}"
        treads.append({"name": name, "flag": 0, "ref": 0, "pos": r1[0], "cigar": W.cigar_str(ops), "seq": r1[2] + r2[2], "rg": "rg1"})
        blocks, end = _blocks(r1[0], ops)
        tmeta[name] = {"segs": [{"rs": r1[0], "re": end, "cig": [[OPC[o], m] for o, m in ops], "qlen": len(r1[2] + r2[2]), "blocks": blocks}],
                       "allele": a, "so": -30, "eo": 12}
    d = workdir()
    try:
        if treads:
            tbam = W.write_bam(os.path.join(d, "t.bam"), [("chr1", len(ref))], treads, [{"ID": "rg1", "SM": "s1"}])
            only = [BiallelicVcfVariant(V.pos, V.ref, V.alt)]
            for withref in (True, False):
                rdr = ReadSetReader([tbam], reference=None, numeric_sample_ids=NumericSampleIds())
                rs = rdr.read("chr1", only, "s1", ref if withref else None)
                got = {r.name: {v.position: v.allele for v in r} for r in rs}
                for name, m in tmeta.items():
                    vd = {"pos": V.pos, "reflen": len(V.ref), "altlen": len(V.alt), "kind": {"snv": 1, "ins": 2, "del": 3, "mnp": 4}[V.kind],
                          "truth": m["allele"], "det": int(got.get(name, {}).get(V.pos, -1)), "clean": not m.get("swallowed"),
                          "unshiftable": True}     # swallowed: the read has NO base at the variant (truth -1: any allele is wrong)
                    evs.append({"ev": "Detect", "withref": withref, "segs": m["segs"], "vars": [vd, dict(vd)], "deco": "tail", "so": m["so"],
                                "eo": m["eo"]})
        bam = W.write_bam(os.path.join(d, "r.bam"), [("chr1", len(ref))], reads, [{"ID": "rg1", "SM": "s1"}])
        variants = [BiallelicVcfVariant(Wv.pos, Wv.ref, Wv.alt), BiallelicVcfVariant(V.pos, V.ref, V.alt)]
        for withref in (True, False):
            rdr = ReadSetReader([bam], reference=None, numeric_sample_ids=NumericSampleIds())
            rs = rdr.read("chr1", variants, "s1", ref if withref else None)
            got = {r.name: {v.position: v.allele for v in r} for r in rs}
            for name, m in meta.items():
                det = got.get(name, {})
                vs = []
                for vv, truth in ((Wv, m["wa"]), (V, m["allele"])):
                    vs.append({"pos": vv.pos, "reflen": len(vv.ref), "altlen": len(vv.alt), "kind": {"snv": 1, "ins": 2, "del": 3, "mnp": 4}[vv.kind],
                               "truth": truth, "det": int(det.get(vv.pos, -1)), "clean": True, "unshiftable": True})
                evs.append({"ev": "Detect", "withref": withref, "segs": m["segs"], "vars": vs, "deco": "nearins", "so": m["so"], "eo": m["eo"]})
        return evs
    finally:
        shutil.rmtree(d, ignore_errors=True)


def _short_lived_list(items, want_id):
    """A freshly built list object with the given items.  CPython hands the memory of a list that has just been freed to one of
    the next lists that are created; if want_id is given, make sure (bounded effort) that this perfectly legal situation occurs:
    the new list lives at the address want_id of an earlier list that is no longer alive."""
    keep = {}
    lst = [*items]
    while want_id is not None and id(lst) != want_id and len(keep) < 4000:
        keep[len(keep)] = lst
        lst = [*items]
    return lst


HIST_MODES = ["fresh", "fresh", "recycled", "recycled", "inplace", "inplace", "same", "keep"]


def _drive_history(sc):
    """ONE ReadSetReader object is asked several times in a row for different variant lists of the same chromosome (mostly of
    the same length): short-lived lists built for the call and dropped afterwards (also at the address of their predecessor),
    one long-lived list whose elements are replaced in place, the same list again, with and without a reference in any
    order.  The world has 8 variants of random kinds 30 bp apart and two haplotypes; reads are error-free copies with random
    extents (single, soft-clipped, mate pairs).  EVERY call's result is judged like a single call's."""
    from .. import world as W
    from ..phaseworld import workdir
    from whatshap.variants import ReadSetReader
    from whatshap.core import NumericSampleIds
    from whatshap.vcf import BiallelicVcfVariant
    rng = random.Random(sc["seed"])
    KN = {"snv": 1, "ins": 2, "del": 3, "mnp": 4}
    while True:
        ref = W.random_reference(rng, 400)
        uni, ok = [], True
        for pos in range(60, 300, 30):
            kind = rng.choice(["snv", "snv", "ins", "del", "mnp"])
            ln = 1 if kind == "snv" else rng.randint(2, 3) if kind == "mnp" else rng.randint(1, 3)
            if kind == "del" and not W.deletion_unshiftable(ref, pos, ln):
                ok = False
                break
            uni.append(W.make_variant(rng, ref, pos, kind, ln))
        if ok:
            break
    nv = len(uni)
    hapbits = []
    a_bits = [rng.randint(0, 1) for _ in range(nv)]
    hapbits.append(a_bits)
    hapbits.append([1 - b if rng.random() < 0.8 else b for b in a_bits])
    haps = [W.Haplotype(ref, uni, bits) for bits in hapbits]
    reads, meta = [], {}

    def seg(h, rs, re_, clip=0):
        hp = haps[h]
        hs, he = hp.ref_to_hap(rs), hp.ref_to_hap(re_)
        if not (0 <= hs < he <= len(hp.seq)):
            return None
        r = hp.read(hs, he)
        if r is None:
            return None
        pos0, ops, seq = r
        ops = list(ops)
        if clip:
            junk = "".join(rng.choice("ACGT") for _ in range(clip))
            if ops[0][0] == "S":
                ops[0] = ("S", ops[0][1] + clip)
            else:
                ops.insert(0, ("S", clip))
            seq = junk + seq
        return pos0, ops, seq

    n = 0
    for h in (0, 1):
        shapes = [("single", 30, 330), ("single", 31 + h, 329)]
        for _ in range(4):
            s_ = rng.randint(20, 260)
            shapes.append(("single", s_, min(395, s_ + rng.randint(40, 200))))
        for _ in range(2):
            s_ = rng.randint(40, 200)
            shapes.append(("clip", s_, min(395, s_ + rng.randint(60, 180))))
        for _ in range(2):
            s_ = rng.randint(20, 120)
            e_ = s_ + rng.randint(40, 90)
            s2 = e_ + rng.randint(10, 80)
            shapes.append(("pair", s_, e_, s2, min(395, s2 + rng.randint(40, 90))))
        for shp in shapes:
            name = f"h{n:03d}"
            n += 1
            a1 = seg(h, shp[1], shp[2], clip=rng.randint(1, 7) if shp[0] == "clip" else 0)
            if a1 is None:
                continue
            aln = [{"name": name, "flag": 0, "ref": 0, "pos": a1[0], "cigar": W.cigar_str(a1[1]), "seq": a1[2], "rg": "rg1"}]
            b1, e1 = _blocks(a1[0], a1[1])
            segs = [{"rs": a1[0], "re": e1, "cig": [[OPC[o], m] for o, m in a1[1]], "qlen": len(a1[2]), "blocks": b1}]
            if shp[0] == "pair":
                a2 = seg(h, shp[3], shp[4])
                if a2 is not None and a2[0] >= e1:
                    aln[0]["flag"] = 1 | 2 | 64 | 32
                    aln[0]["mate"] = {"ref": 0, "pos": a2[0]}
                    aln.append({"name": name, "flag": 1 | 2 | 128 | 16, "ref": 0, "pos": a2[0], "cigar": W.cigar_str(a2[1]), "seq": a2[2],
                                "rg": "rg1", "mate": {"ref": 0, "pos": a1[0]}})
                    b2, e2 = _blocks(a2[0], a2[1])
                    segs.append({"rs": a2[0], "re": e2, "cig": [[OPC[o], m] for o, m in a2[1]], "qlen": len(a2[2]), "blocks": b2})
            reads.extend(aln)
            meta[name] = {"segs": segs, "hap": h, "shape": shp[0]}
    # the history of calls
    k0 = rng.randint(2, 4)
    calls = []
    for ci in range(rng.randint(5, 8)):
        k = k0 if rng.random() < 0.85 else rng.randint(2, 4)
        calls.append({"idx": sorted(rng.sample(range(nv), k)), "withref": rng.random() < 0.3, "mode": rng.choice(HIST_MODES)})

    def mk(j):
        return BiallelicVcfVariant(uni[j].pos, uni[j].ref, uni[j].alt)

    d = workdir()
    try:
        bam = W.write_bam(os.path.join(d, "r.bam"), [("chr1", len(ref))], reads, [{"ID": "rg1", "SM": "s1"}])
        rdr = ReadSetReader([bam], reference=None, numeric_sample_ids=NumericSampleIds())
        results = {}          # call number -> (requested universe indices, name -> {position: allele}, list id, mode really used)
        cur, cur_idx = None, None     # the long-lived list and what it holds
        dead_id = None                # address of the most recent short-lived list (no longer alive)
        for ci, c in enumerate(calls):
            refarg = ref if c["withref"] else None
            mode, idx = c["mode"], c["idx"]
            if mode == "same" and cur is not None:
                idx = cur_idx
                lid = id(cur)
                rs = rdr.read("chr1", cur, "s1", refarg)
            elif mode == "inplace" and cur is not None and len(cur) == len(idx):
                for j, u in enumerate(idx):
                    cur[j] = mk(u)
                cur_idx = idx
                lid = id(cur)
                rs = rdr.read("chr1", cur, "s1", refarg)
            elif mode in ("keep", "same", "inplace"):
                mode = "keep"
                cur, cur_idx = [mk(u) for u in idx], idx
                lid = id(cur)
                rs = rdr.read("chr1", cur, "s1", refarg)
            else:
                lst = _short_lived_list(tuple(mk(u) for u in idx), dead_id if mode == "recycled" else None)
                lid = id(lst)
                rs = rdr.read("chr1", lst, "s1", refarg)
                del lst
                dead_id = lid
            results[ci] = (idx, {r.name: {v.position: v.allele for v in r} for r in rs}, lid, mode)
            del rs
        rdr.close()
        evs = []
        seen_ids = {}
        for ci, c in enumerate(calls):
            idx, got, lid, mode = results[ci]
            reused = lid in seen_ids and seen_ids[lid] != idx       # a DIFFERENT variant list at the address of an earlier one
            seen_ids[lid] = idx
            req = [uni[u].pos for u in idx]
            for name, m in meta.items():
                det = got.get(name, {})
                vs = [{"pos": uni[u].pos, "reflen": len(uni[u].ref), "altlen": len(uni[u].alt), "kind": KN[uni[u].kind],
                       "truth": hapbits[m["hap"]][u], "det": int(det.get(uni[u].pos, -1)), "clean": True, "unshiftable": True}
                      for u in idx]
                evs.append({"ev": "Detect", "withref": c["withref"], "segs": m["segs"], "vars": vs, "deco": "history:" + m["shape"],
                            "so": 0, "eo": 0, "call": ci, "mode": mode, "reused": bool(reused)})
                evs.append({"ev": "Recorded", "req": req, "rec": sorted(det), "call": ci, "withref": c["withref"], "mode": mode,
                            "reused": bool(reused)})
        return evs
    finally:
        shutil.rmtree(d, ignore_errors=True)


def drive(sc):
    if sc.get("history"):
        return _drive_history(sc)
    if sc.get("multi"):
        return _drive_multi(sc)
    if sc.get("nearins"):
        return _drive_nearins(sc)
    import pysam
    from .. import world as W
    from ..phaseworld import workdir
    from whatshap.variants import ReadSetReader
    from whatshap.core import NumericSampleIds
    from whatshap.vcf import BiallelicVcfVariant
    rng = random.Random(sc["seed"])
    kind = KINDS[sc["kind"]]
    while True:
        ref = W.random_reference(rng, 140)
        if kind != "del" or W.deletion_unshiftable(ref, P, sc["len"]):
            break
    V = W.make_variant(rng, ref, P, kind, sc["len"])
    # an unrelated 1-bp indel 20 bp to the right, carried by "farindel" reads but unknown to whatshap
    upos = P + 20
    U = W.make_variant(rng, ref, upos, rng.choice(["ins", "del"]) if W.deletion_unshiftable(ref, upos, 1) else "ins", 1)
    # a second, known variant 25 bp to the left (any kind) that every read carries with allele 0 or 1 by its haplotype
    wkind = rng.choice(["snv", "ins", "mnp"])
    Wv = W.make_variant(rng, ref, P - 25, wkind, 2 if wkind == "mnp" else 1)
    haps = {}
    for a in (0, 1):
        for far in (0, 1):
            for wa in (0, 1):
                haps[(a, far, wa)] = W.Haplotype(ref, [Wv, V, U], [wa, a, far])
    reads, meta = [], {}
    for gi, g in enumerate(sc["geos"]):
        a = g["allele"]
        far = 1 if g["deco"] == "farindel" else 0
        wa = gi % 2
        hp = haps[(a, far, wa)]
        hp_p = hp.ref_to_hap(P)
        alen = len(V.alt) if a else len(V.ref)
        hs, he = hp_p + g["so"], hp_p + alen + g["eo"]
        if g["deco"] in ("nskip", "farindel"):
            he = max(he, hp.ref_to_hap(P + len(V.ref) + 34))   # long enough to reach the decoration
        if g["deco"] == "nskipover":
            # a spliced read: aligned left of the variant, a reference skip over the whole variant, aligned right of it
            hs = min(hs, hp.ref_to_hap(P - 16 - abs(g["so"])))
            he = max(he, hp.ref_to_hap(P + len(V.ref) + 16 + abs(g["eo"])))
        if not (0 <= hs < he <= len(hp.seq)):
            continue
        r = hp.read(hs, he)
        if r is None:
            continue
        pos0, ops, seq = r
        ops = list(ops)
        name = f"g{gi:04d}"
        segs = []
        deco = g["deco"]
        if deco == "softclip":
            k1, k2 = rng.randint(0, 3), rng.randint(0, 3)
            seq = "".join(rng.choice("ACGT") for _ in range(k1)) + seq + "".join(rng.choice("ACGT") for _ in range(k2))
            ops = ([("S", k1)] if k1 else []) + ops + ([("S", k2)] if k2 else [])
            # merge adjacent S
            m = []
            for o, n in ops:
                if m and m[-1][0] == o:
                    m[-1] = (o, m[-1][1] + n)
                else:
                    m.append((o, n))
            ops = m
        elif deco == "hardclip":
            ops = [("H", 5)] + ops + [("H", 3)]
        elif deco == "eqx":
            ops = _eqx(ref, pos0, ops, seq)
        elif deco == "nskip":
            x = hp.ref_to_hap(P + len(V.ref) + 14)
            if hs < x and x + 7 < he:
                r1, r2 = hp.read(hs, x), hp.read(x + 7, he)
                if r1 and r2 and r2[0] - (r1[0] + W.cigar_reflen(r1[1])) > 0:
                    pos0, seq = r1[0], r1[2] + r2[2]
                    ops = list(r1[1]) + [("N", r2[0] - (r1[0] + W.cigar_reflen(r1[1])))] + list(r2[1])
        elif deco == "nskipover":
            x, y = hp.ref_to_hap(P - 6), hp.ref_to_hap(P + len(V.ref) + 6)
            if hs < x and y < he:
                r1, r2 = hp.read(hs, x), hp.read(y, he)
                if r1 and r2 and r2[0] - (r1[0] + W.cigar_reflen(r1[1])) > 0:
                    pos0, seq = r1[0], r1[2] + r2[2]
                    ops = list(r1[1]) + [("N", r2[0] - (r1[0] + W.cigar_reflen(r1[1])))] + list(r2[1])
        aln = [{"name": name, "flag": 0, "ref": 0, "pos": pos0, "cigar": W.cigar_str(ops), "seq": seq, "rg": "rg1"}]
        blocks, end = _blocks(pos0, ops)
        segs.append({"rs": pos0, "re": end, "cig": [[OPC[o], n] for o, n in ops], "qlen": len(seq), "blocks": blocks})
        if deco in ("pair", "pairoverlap"):
            if deco == "pair":
                s2, e2 = hp.ref_to_hap(P + len(V.ref) + 30), hp.ref_to_hap(P + len(V.ref) + 55)
            else:
                s2, e2 = max(0, hp_p - 8), min(len(hp.seq), hp_p + alen + 9)
            r2 = hp.read(s2, e2)
            if r2:
                aln[0]["flag"] = 1 | 2 | 64 | 32
                aln[0]["mate"] = {"ref": 0, "pos": r2[0]}
                aln.append({"name": name, "flag": 1 | 2 | 128 | 16, "ref": 0, "pos": r2[0], "cigar": W.cigar_str(r2[1]), "seq": r2[2],
                            "rg": "rg1", "mate": {"ref": 0, "pos": pos0}})
                b2, e2r = _blocks(r2[0], r2[1])
                segs.append({"rs": r2[0], "re": e2r, "cig": [[OPC[o], n] for o, n in r2[1]], "qlen": len(r2[2]), "blocks": b2})
        reads.extend(aln)
        meta[name] = {"segs": segs, "allele": a, "wa": wa, "geo": g}
    d = workdir()
    try:
        W.write_fasta(os.path.join(d, "ref.fa"), {"chr1": ref})
        bam = W.write_bam(os.path.join(d, "r.bam"), [("chr1", len(ref))], reads, [{"ID": "rg1", "SM": "s1"}])
        variants = [BiallelicVcfVariant(Wv.pos, Wv.ref, Wv.alt), BiallelicVcfVariant(V.pos, V.ref, V.alt)]
        evs = []
        for withref in (True, False):
            ids = NumericSampleIds()
            rdr = ReadSetReader([bam], reference=None, numeric_sample_ids=ids)
            rs = rdr.read("chr1", variants, "s1", ref if withref else None)
            got = {r.name: {v.position: v.allele for v in r} for r in rs}
            for name, m in meta.items():
                det = got.get(name, {})
                vs = []
                for vv, truth in ((Wv, m["wa"]), (V, m["allele"])):
                    vs.append({"pos": vv.pos, "reflen": len(vv.ref), "altlen": len(vv.alt), "kind": {"snv": 1, "ins": 2, "del": 3, "mnp": 4}[vv.kind],
                               "truth": truth, "det": int(det.get(vv.pos, -1)), "clean": True, "unshiftable": True})
                evs.append({"ev": "Detect", "withref": withref, "segs": m["segs"], "vars": vs, "deco": m["geo"]["deco"],
                            "so": m["geo"]["so"], "eo": m["geo"]["eo"]})
        return evs
    finally:
        shutil.rmtree(d, ignore_errors=True)


def nontrivial(sc, events):
    if sc.get("history"):
        # at least one reference-free call whose (different) variant list lives where an earlier call's list lived, with alleles found
        return any(e.get("ev") == "Detect" and e["reused"] and not e["withref"] and any(v["det"] >= 0 for v in e["vars"]) for e in events)
    if sc.get("multi"):
        return any(e.get("ev") == "Detect" and e["vars"][0]["det"] >= 0 for e in events)
    full = part = False
    for e in events:
        if e.get("ev") != "Detect":
            continue
        v = e["vars"][1]
        for s in e["segs"]:
            for b in s["blocks"]:
                ce = v["pos"] + v["reflen"] + (1 if v["kind"] in (2, 3) else 0)
                if b[0] <= v["pos"] and ce <= b[1]:
                    full = True
                elif b[0] < ce and v["pos"] < b[1]:
                    part = True
    return full and part


def signature(sc, events, clause):
    bad = set()
    for e in events:
        if e.get("ev") == "Detect":
            for v in e["vars"]:
                if v["det"] != v["truth"] and v["kind"] in KINDS:
                    bad.add((KINDS[v["kind"]], "ref" if e["withref"] else "noref", "REF" if v["truth"] == 0 else "ALT"))
    if sc.get("multi"):
        return f"multi-allelic record shape={sc['multi']}"
    if sc.get("history"):
        modes = sorted({(e["mode"], "reused-address" if e["reused"] else "new-address") for e in events if e.get("ev") in ("Detect", "Recorded")
                        and (any(p not in e["req"] for p in e["rec"]) if e["ev"] == "Recorded" else any(v["det"] != v["truth"] for v in e["vars"]))})
        return f"call history on one reader: mismatching={sorted(bad)[:4]} modes={modes[:4]}"
    return f"kind={KINDS[sc['kind']]} len={sc['len']} mismatching={sorted(bad)[:4]}"


def selftest_corrupt(events):
    for e in events:
        if e["ev"] == "Detect":
            v = e["vars"][1]
            if v["det"] == v["truth"] and v["det"] >= 0:
                v["det"] = 1 - v["det"]
                return events
    return events


MANIFEST = {
    "text": "SeqWorld.tla models reference, variant, haplotypes and the canonical alignment of an error-free read and is model-checked "
            "exhaustively (every reference over 2 letters of length 5-6, every variant kind, every read); AlleleDetect.tla states "
            "NeverWrong / NoneIfNoOverlap / AlwaysFound (with and without reference) over read geometry. TLC enumerates the geometry "
            "space (kind x length x allele x every start/end offset incl. inside the variant x 8 CIGAR decorations); the driver "
            "materialises each as BAM + variants, calls the real ReadSetReader.read with and without reference and TLC judges every "
            "(read, variant) pair. Seeded call histories keep ONE reader object alive over 5-8 read() calls with different variant lists "
            "(short-lived lists, lists at a re-used address, in-place modified lists, with/without reference); every call is judged "
            "by the same clauses and by OnlyRequested.",
    "note": "trusted: TLC, AlleleDetect.tla, wv/world.py (read builder; asserted against SeqWorld's invariants through clause WorldSane); "
            "reference contexts are sampled, structure is exhaustive",
    "technique": "TLA+ world model checked with TLC + TLC-enumerated geometries replayed into the real reader + TLC trace validation",
}
